import MdkVerif.Model.Media
import MdkVerif.Proofs.Media
import MdkVerif.Model.MediaEpoch
import MdkVerif.Proofs.MediaEpoch
/-
  C17 — media and group-image encryption.  Property theorems only.
  Part 1: the HKDF context and the AEAD associated data bind a file's key and ciphertext to (scheme
  version, original hash, MIME type, file name).  Part 2: `decrypt_from_download` and its epoch hint over
  histories (full statement FALSE of the code: kept as a def with a closed witness).  Part 3: group image.
  Cryptography is symbolic (assumption A8), so the claim is PARTIAL.
-/
namespace MdkVerif.Props.C17
open MdkVerif MdkVerif.Codec MdkVerif.Tags MdkVerif.Media List

/-- the facts of the source the media model rests on (re-extracted on every run) -/
theorem media_layout_facts :
    Generated.mediaContextAsModelled = true ∧ Generated.mediaAadAsModelled = true ∧
    nulFree Generated.mediaSchemeLabel = true := by decide

/-- general form: with NUL-free label, MIME type and file name and hashes of equal length, the HKDF
    context determines every component (and the suffix) -/
theorem ctx_injective_raw (l l' h h' m m' f f' s s' : Bytes)
    (hl : nulFree l = true) (hl' : nulFree l' = true) (hh : h.length = h'.length)
    (hm : nulFree m = true) (hm' : nulFree m' = true) (hf : nulFree f = true) (hf' : nulFree f' = true)
    (e : buildContext l h m f s = buildContext l' h' m' f' s') :
    l = l' ∧ h = h' ∧ m = m' ∧ f = f' ∧ s = s' := by
  unfold buildContext at e
  obtain ⟨e1, r1⟩ := split_at_nul _ _ _ _ hl hl' e
  obtain ⟨e2, r2⟩ := List.append_inj r1 hh
  simp only [List.cons.injEq, true_and] at r2
  obtain ⟨e3, r3⟩ := split_at_nul _ _ _ _ hm hm' r2
  obtain ⟨e4, r4⟩ := split_at_nul _ _ _ _ hf hf' r3
  exact ⟨e1, e2, e3, e4, r4⟩

/-- **ctx_injective** on validated inputs: two uploads whose MIME types passed `validate_mime_type` and
    whose file names passed `validate_filename`, with 32-byte hashes, derive their keys from the same
    HKDF context only if hash, canonical MIME type and file name all coincide -/
theorem ctx_injective (h h' m m' c c' f f' : Bytes) (hh : h.length = 32) (hh' : h'.length = 32)
    (hm : validateMime m = some c) (hm' : validateMime m' = some c')
    (hf : filenameOk f = true) (hf' : filenameOk f' = true)
    (e : keyContext h c f = keyContext h' c' f') : h = h' ∧ c = c' ∧ f = f' := by
  have hl : nulFree Generated.mediaSchemeLabel = true := by decide
  have := ctx_injective_raw _ _ h h' c c' f f' _ _ hl hl (by omega)
    (validateMime_nulFree m c hm) (validateMime_nulFree m' c' hm')
    (filenameOk_nulFree f hf) (filenameOk_nulFree f' hf') e
  exact ⟨this.2.1, this.2.2.1, this.2.2.2.1⟩

/-- general form for the associated data: the file name is the last component, so it needs no condition -/
theorem aad_injective_raw (l l' h h' m m' f f' : Bytes)
    (hl : nulFree l = true) (hl' : nulFree l' = true) (hh : h.length = h'.length)
    (hm : nulFree m = true) (hm' : nulFree m' = true)
    (e : buildAad l h m f = buildAad l' h' m' f') : l = l' ∧ h = h' ∧ m = m' ∧ f = f' := by
  unfold buildAad at e
  obtain ⟨e1, r1⟩ := split_at_nul _ _ _ _ hl hl' e
  obtain ⟨e2, r2⟩ := List.append_inj r1 hh
  simp only [List.cons.injEq, true_and] at r2
  obtain ⟨e3, r3⟩ := split_at_nul _ _ _ _ hm hm' r2
  exact ⟨e1, e2, e3, r3⟩

/-- **aad_injective** on validated inputs: a ciphertext sealed under the metadata (h, c, f) carries
    associated data that no other (32-byte hash, validated MIME type, ANY file name) reproduces -/
theorem aad_injective (h h' m m' c c' f f' : Bytes) (hh : h.length = 32) (hh' : h'.length = 32)
    (hm : validateMime m = some c) (hm' : validateMime m' = some c')
    (e : aad h c f = aad h' c' f') : h = h' ∧ c = c' ∧ f = f' := by
  have hl : nulFree Generated.mediaSchemeLabel = true := by decide
  have := aad_injective_raw _ _ h h' c c' f f' hl hl (by omega)
    (validateMime_nulFree m c hm) (validateMime_nulFree m' c' hm') e
  exact this.2

/-- key derivation and sealing use different byte strings for the same metadata (domain separation) -/
theorem ctx_ne_aad (h c f : Bytes) : keyContext h c f ≠ aad h c f := by
  intro e
  have := congrArg List.length e
  simp [keyContext, aad, buildContext, buildAad] at this

/-- the validation is NECESSARY: without it the separator is ambiguous — a NUL inside an unvalidated
    MIME string shifts the boundary (the same context for two different (mime, filename) pairs) -/
theorem ctx_ambiguous_without_validation :
    ∃ h m f m' f', (m, f) ≠ (m', f') ∧ keyContext h m f = keyContext h m' f' :=
  ⟨List.replicate 32 1, [97, 0, 98], [99], [97], [98, 0, 99], by decide, by decide⟩

example : validateMime [105, 109, 97, 103, 101, 47, 112, 110, 103] = some [105, 109, 97, 103, 101, 47, 112, 110, 103] ∧
    filenameOk [97, 46, 112, 110, 103] = true := by decide

/-! ## Part 2 — the epoch hint -/

section Hint
open MdkVerif.MediaEpoch

/-- the facts of the source this part rests on (re-extracted on every run) -/
theorem hint_facts :
    Generated.mediaFallbackAsModelled = true ∧ Generated.mediaHintAsModelled = true ∧
    Generated.mediaHashCheckedAfterDecrypt = true ∧ Generated.appMessageFiledUnderReceiverEpoch = true ∧
    Generated.groupImageDecryptAsModelled = true := by decide

/-- **hint_logic**: an untampered file sealed in a state with exporter secret `s` is decrypted ⇔ `s` is
    stored under the epoch recorded with the announcing message, or `s` is the current state's secret -/
theorem hint_logic (c : MClient) (s : Nat) (r : Reference) (p : Nat)
    (hv : r.version = Generated.defaultSchemeVersion) :
    decryptFromDownload c (sealBlob s r p) r = .ok p ↔
      (∃ e, hintOf c r.hash = some e ∧ alookup e c.secrets = some s) ∨ c.cur = some s := by
  rw [decrypt_sealed_iff c s r p hv]
  unfold hintedSecret
  cases h : hintOf c r.hash with
  | none => simp
  | some e => simp

/-- **never different bytes**: whatever `decrypt_from_download` returns is the plaintext that was sealed,
    from an intact ciphertext, under the reference's nonce, with the AAD of the reference's own
    (version, hash, MIME, file name), and with the reference's content hash -/
theorem decrypt_integrity (c : MClient) (b : Blob) (r : Reference) (q : Nat)
    (h : decryptFromDownload c b r = .ok q) :
    q = b.plain ∧ b.intact = true ∧ b.nonce = r.nonce ∧ b.plainHash = r.hash ∧
    ∃ l, schemeLabel r.version = some l ∧ b.aad = buildAad l r.hash r.mime r.filename := by
  obtain ⟨k, hk⟩ := decrypt_ok c b r q h
  obtain ⟨h1, h2, _, h4, h5, h6⟩ := dav_ok b k r q hk
  exact ⟨h1, h2, h4, h5, h6⟩

/-- **every field tamper fails**: a blob sealed for the reference `r0` (validated MIME type) opens under a
    reference `r` only if `r` agrees with `r0` in version, nonce, hash, MIME type and file name -/
theorem tamper_fails (c : MClient) (s : Nat) (r0 r : Reference) (p q : Nat) (m0 m : Bytes)
    (hm0 : Tags.validateMime m0 = some r0.mime) (hm : Tags.validateMime m = some r.mime)
    (hh0 : r0.hash.length = 32) (hh : r.hash.length = 32)
    (h : decryptFromDownload c (sealBlob s r0 p) r = .ok q) :
    q = p ∧ r.version = Generated.defaultSchemeVersion ∧ r.nonce = r0.nonce ∧ r.hash = r0.hash ∧
    r.mime = r0.mime ∧ r.filename = r0.filename := by
  obtain ⟨h1, _, h3, _, l, hl, haad⟩ := decrypt_integrity c _ r q h
  have hv : r.version = Generated.defaultSchemeVersion ∧ l = Generated.mediaSchemeLabel := by
    unfold schemeLabel at hl
    by_cases hv : r.version = Generated.defaultSchemeVersion
    · rw [if_pos hv] at hl; cases hl; exact ⟨hv, rfl⟩
    · rw [if_neg hv] at hl; cases hl
  obtain ⟨hv1, rfl⟩ := hv
  have hlab : nulFree Generated.mediaSchemeLabel = true := by decide
  have := aad_injective_raw _ _ r0.hash r.hash r0.mime r.mime r0.filename r.filename hlab hlab (by omega)
    (validateMime_nulFree m0 _ hm0) (validateMime_nulFree m _ hm) haad
  exact ⟨h1, hv1, h3.symm, this.2.1.symm, this.2.2.1.symm, this.2.2.2.symm⟩

/-- a ciphertext that was touched (any bit, truncated, extended) is never opened -/
theorem tampered_ciphertext_fails (c : MClient) (b : Blob) (r : Reference) (q : Nat) (hb : b.intact = false) :
    decryptFromDownload c b r ≠ .ok q := by
  intro h
  have := (decrypt_integrity c b r q h).2.1
  rw [hb] at this; cases this

/-- a client that does not hold the group gets `GroupNotFound` or a failure, never bytes -/
theorem nonmember_fails (c : MClient) (s : Nat) (r : Reference) (p : Nat)
    (hv : r.version = Generated.defaultSchemeVersion) (hc : c.cur = none) (hs : c.secrets = []) :
    decryptFromDownload c (sealBlob s r p) r ≠ .ok p := by
  intro h
  rcases (hint_logic c s r p hv).mp h with ⟨e, _, h2⟩ | h2
  · rw [hs] at h2; cases h2
  · rw [hc] at h2; cases h2

/-- ops that may happen between being in the encrypting state and processing the announcement, if the
    announcement is to be processed IN ITS OWN EPOCH: anything but a commit (and not the announcement itself) -/
def PreOk (h : Bytes) : MOp → Prop
  | .touch => True
  | .advance _ => False
  | .announce h' => h' ≠ h
  | .forget _ => True

/-- ops that keep the secret of epoch `e0` stored -/
def PostOk (e0 : Nat) : MOp → Prop
  | .forget e => e ≠ e0
  | _ => True

theorem pre_preserves (h : Bytes) (s e0 : Nat) (c : MClient) (op : MOp) (hop : PreOk h op)
    (hc : Inv c ∧ c.cur = some s ∧ c.epoch = e0 ∧ hintOf c h = none) :
    Inv (step c op) ∧ (step c op).cur = some s ∧ (step c op).epoch = e0 ∧ hintOf (step c op) h = none := by
  obtain ⟨hi, h1, h2, h3⟩ := hc
  refine ⟨step_inv c op hi, ?_⟩
  have tf := touch_fields c
  cases op with
  | touch => simp only [step]; exact ⟨tf.2.1 ▸ h1, tf.1 ▸ h2, by unfold hintOf; rw [tf.2.2]; exact h3⟩
  | advance s' => exact absurd hop id
  | forget e => exact ⟨h1, h2, h3⟩
  | announce h' =>
    have hne : h' ≠ h := hop
    simp only [step]
    split
    · exact ⟨tf.2.1 ▸ h1, tf.1 ▸ h2, by unfold hintOf; rw [tf.2.2]; exact h3⟩
    · refine ⟨tf.2.1 ▸ h1, tf.1 ▸ h2, ?_⟩
      unfold hintOf at h3 ⊢
      show lookupB h ((touch c).tags ++ [(h', (touch c).epoch)]) = none
      rw [tf.2.2, lookupB_append_none h c.tags h' _ h3, if_neg hne]

theorem post_preserves (h : Bytes) (s e0 : Nat) (c : MClient) (op : MOp) (hop : PostOk e0 op)
    (hc : hintOf c h = some e0 ∧ alookup e0 c.secrets = some s) :
    hintOf (step c op) h = some e0 ∧ alookup e0 (step c op).secrets = some s := by
  obtain ⟨h1, h2⟩ := hc
  have tf := touch_fields c
  cases op with
  | touch => simp only [step]; exact ⟨by unfold hintOf; rw [tf.2.2]; exact h1, touch_keeps c e0 s h2⟩
  | advance s' => exact ⟨h1, h2⟩
  | forget e =>
    have hne : e ≠ e0 := hop
    exact ⟨h1, by simp only [step]; rw [alookup_aerase_ne e0 e c.secrets hne]; exact h2⟩
  | announce h' =>
    simp only [step]
    have hk := touch_keeps c e0 s h2
    have ht : hintOf (touch c) h = some e0 := by unfold hintOf; rw [tf.2.2]; exact h1
    split
    · exact ⟨ht, hk⟩
    · exact ⟨by unfold hintOf at ht ⊢; exact lookupB_append h _ _ e0 ht, hk⟩

/-- **C17_partial**: a member that is in the encrypting state (exporter secret `s`), processes the announcing
    message BEFORE applying any further commit, and never loses the secret stored for that epoch, decrypts the
    file at ANY later point: after any number of commits, other announcements, other traffic -/
theorem C17_partial (c : MClient) (s : Nat) (r : Reference) (p : Nat) (pre post : List MOp)
    (hinv : Inv c) (hcur : c.cur = some s) (hnew : hintOf c r.hash = none)
    (hv : r.version = Generated.defaultSchemeVersion)
    (hpre : ∀ op ∈ pre, PreOk r.hash op) (hpost : ∀ op ∈ post, PostOk c.epoch op) :
    decryptFromDownload (run (step (run c pre) (.announce r.hash)) post) (sealBlob s r p) r = .ok p := by
  -- before the announcement
  have h1 : ∀ (l : List MOp) (c' : MClient), (∀ op ∈ l, PreOk r.hash op) →
      (Inv c' ∧ c'.cur = some s ∧ c'.epoch = c.epoch ∧ hintOf c' r.hash = none) →
      (Inv (run c' l) ∧ (run c' l).cur = some s ∧ (run c' l).epoch = c.epoch ∧ hintOf (run c' l) r.hash = none) := by
    intro l
    induction l with
    | nil => intro c' _ h; exact h
    | cons op ops ih =>
      intro c' hl h
      exact ih (step c' op) (fun o ho => hl o (by simp [ho])) (pre_preserves r.hash s c.epoch c' op (hl op (by simp)) h)
  obtain ⟨i1, c1, e1, n1⟩ := h1 pre c hpre ⟨hinv, hcur, rfl, hnew⟩
  -- the announcement is filed under the current epoch, whose secret gets stored
  have hann : hintOf (step (run c pre) (.announce r.hash)) r.hash = some c.epoch ∧
      alookup c.epoch (step (run c pre) (.announce r.hash)).secrets = some s := by
    have tf := touch_fields (run c pre)
    have hst := touch_stores (run c pre) s i1 c1
    rw [e1] at hst
    have hnone : lookupB r.hash (touch (run c pre)).tags = none := by rw [tf.2.2]; exact n1
    simp only [step, hnone, Option.isSome_none, Bool.false_eq_true, if_false]
    refine ⟨?_, hst⟩
    unfold hintOf
    show lookupB r.hash ((touch (run c pre)).tags ++ [(r.hash, (touch (run c pre)).epoch)]) = some c.epoch
    rw [lookupB_append_none r.hash _ r.hash _ hnone, if_pos rfl, tf.1, e1]
  -- afterwards
  have h2 : ∀ (l : List MOp) (c' : MClient), (∀ op ∈ l, PostOk c.epoch op) →
      (hintOf c' r.hash = some c.epoch ∧ alookup c.epoch c'.secrets = some s) →
      (hintOf (run c' l) r.hash = some c.epoch ∧ alookup c.epoch (run c' l).secrets = some s) := by
    intro l
    induction l with
    | nil => intro c' _ h; exact h
    | cons op ops ih =>
      intro c' hl h
      exact ih (step c' op) (fun o ho => hl o (by simp [ho])) (post_preserves r.hash s c.epoch c' op (hl op (by simp)) h)
  obtain ⟨f1, f2⟩ := h2 post _ hpost hann
  exact (hint_logic _ s r p hv).mpr (Or.inl ⟨c.epoch, f1, f2⟩)

/-- the full-strength statement of the property: "… at any later epoch and REGARDLESS OF WHEN the announcing
    message was processed" — no condition on what happens before the announcement is processed -/
def C17_full : Prop :=
  ∀ (c : MClient) (s : Nat) (r : Reference) (p : Nat) (pre post : List MOp),
    Inv c → c.cur = some s → hintOf c r.hash = none → r.version = Generated.defaultSchemeVersion →
    (∀ op ∈ pre, ∀ e, op ≠ .forget e) → (∀ op ∈ pre, op ≠ .announce r.hash) → (∀ op ∈ post, PostOk c.epoch op) →
    decryptFromDownload (run (step (run c pre) (.announce r.hash)) post) (sealBlob s r p) r = .ok p

def wClient : MClient := { cur := some 10, epoch := 1, secrets := [], tags := [] }
def wRef : Reference :=
  { hash := List.replicate 32 7, mime := [116, 101, 120, 116, 47, 112, 108, 97, 105, 110], filename := [97],
    version := Generated.defaultSchemeVersion, nonce := 3 }

/-- **C17_witness_late_announce**: the member is in the encrypting state (epoch 1, secret 10), applies the next
    commit (epoch 2, secret 11) and only THEN processes the announcing message: the message is filed under epoch 2,
    the secret stored there is 11, the current secret is 11 — the AEAD fails although the secret of epoch 1 is
    still stored.  Open known finding `receiver-epoch-tag`; corpus/C17/late_announce.trace -/
theorem C17_witness_late_announce : ¬ C17_full := by
  intro h
  have := h wClient 10 wRef 99 [.touch, .advance 11, .touch] []
    ⟨fun n _ => rfl, fun s hs => by cases hs⟩ rfl rfl rfl
    (by intro op hop e; simp at hop; rcases hop with rfl | rfl | rfl <;> simp)
    (by intro op hop; simp at hop; rcases hop with rfl | rfl | rfl <;> simp)
    (by intro op hop; cases hop)
  revert this
  decide

/-- the witness is a failure of the hint only: the right secret IS still stored under the file's own epoch -/
example : alookup 1 (run (step (run wClient [.touch, .advance 11, .touch]) (.announce wRef.hash)) []).secrets = some 10 ∧
    hintOf (run (step (run wClient [.touch, .advance 11, .touch]) (.announce wRef.hash)) []) wRef.hash = some 2 := by decide

/-- the same statement for content that WAS announced before (same hash, e.g. the same file sent again in a
    later epoch): `C17_partial` without its hypothesis `hnew` -/
def C17_resend : Prop :=
  ∀ (c : MClient) (s : Nat) (r : Reference) (p : Nat) (post : List MOp),
    Inv c → c.cur = some s → r.version = Generated.defaultSchemeVersion → (∀ op ∈ post, PostOk c.epoch op) →
    decryptFromDownload (run (step c (.announce r.hash)) post) (sealBlob s r p) r = .ok p

/-- **C17_witness_same_content**: the content was announced in epoch 1 (secret 10) and is announced again in
    epoch 2 (secret 11), processed in its own epoch; the hint lookup by content hash still finds the epoch-1
    message, so after the next commit the second file is lost although secret 11 is stored under epoch 2.
    Open known finding `hint-points-to-other-message`; corpus/C17/same_content.hist -/
theorem C17_witness_same_content : ¬ C17_resend := by
  intro h
  have := h { cur := some 11, epoch := 2, secrets := [(2, 11), (1, 10)], tags := [(wRef.hash, 1)] } 11 wRef 99
    [.advance 12, .touch]
    ⟨fun n hn => by
        have h1 : (2 : Nat) ≠ n := by intro e; subst e; exact absurd hn (by decide)
        have h2 : (1 : Nat) ≠ n := by intro e; subst e; exact absurd hn (by decide)
        simp [alookup, h1, h2],
     fun s hs => by simp [alookup] at hs; simp [hs]⟩
    rfl rfl (by intro op hop; simp at hop; rcases hop with rfl | rfl <;> simp [PostOk])
  revert this
  decide

/-- non-vacuity of `C17_partial`: announcement first, then three commits and other traffic -/
example : decryptFromDownload (run (step (run wClient [.touch]) (.announce wRef.hash))
    [.advance 11, .touch, .advance 12, .announce [1], .advance 13, .touch, .forget 2]) (sealBlob 10 wRef 99) wRef = .ok 99 := by decide

end Hint

/-! ## Part 3 — group image -/

section Image
open MdkVerif.MediaEpoch

/-- v2 round trip: a blob sealed under HKDF(seed) opens with the seed and nonce published in the group data -/
theorem v2_roundtrip (seed nonce plain hash : Nat) (expected : Option Nat) (he : expected = none ∨ expected = some hash) :
    imageDecrypt { key := .derived seed, nonce := nonce, plain := plain, hash := hash, intact := true } expected seed nonce = .ok plain := by
  rcases he with rfl | rfl <;> simp [imageDecrypt, hashMismatch]

/-- v1 round trip: a blob sealed under the raw key still opens (the v2 attempt fails first) -/
theorem v1_roundtrip (key nonce plain hash : Nat) (expected : Option Nat) (he : expected = none ∨ expected = some hash) :
    imageDecrypt { key := .raw key, nonce := nonce, plain := plain, hash := hash, intact := true } expected key nonce = .ok plain := by
  rcases he with rfl | rfl <;> simp [imageDecrypt, hashMismatch]

/-- **blob-hash check order**: with an expected hash that does not match, nothing is decrypted at all -/
theorem hash_checked_first (b : ImgBlob) (h key nonce : Nat) (hne : h ≠ b.hash) :
    imageDecrypt b (some h) key nonce = .err .hashFailed := by
  simp [imageDecrypt, hashMismatch, hne]

/-- **v2_then_v1** and tamper evidence: a success returns the sealed plaintext of an intact blob whose nonce is
    the given one and whose key is the v2 derivation of, or is itself, the given key — nothing else opens -/
theorem v2_then_v1 (b : ImgBlob) (expected : Option Nat) (key nonce q : Nat)
    (h : imageDecrypt b expected key nonce = .ok q) :
    q = b.plain ∧ b.intact = true ∧ b.nonce = nonce ∧ (b.key = .derived key ∨ b.key = .raw key) ∧
    (∀ e, expected = some e → e = b.hash) := by
  unfold imageDecrypt at h
  by_cases hx : hashMismatch expected b.hash = true
  · rw [if_pos hx] at h; cases h
  · rw [if_neg hx] at h
    have hexp : ∀ e, expected = some e → e = b.hash := by
      intro e he; subst he; simpa [hashMismatch] using hx
    by_cases h2 : (b.intact && decide (b.key = .derived key) && decide (b.nonce = nonce)) = true
    · rw [if_pos h2] at h
      simp only [Bool.and_eq_true, decide_eq_true_eq] at h2
      cases h; exact ⟨rfl, h2.1.1, h2.2, Or.inl h2.1.2, hexp⟩
    · rw [if_neg h2] at h
      by_cases h1 : (b.intact && decide (b.key = .raw key) && decide (b.nonce = nonce)) = true
      · rw [if_pos h1] at h
        simp only [Bool.and_eq_true, decide_eq_true_eq] at h1
        cases h; exact ⟨rfl, h1.1.1, h1.2, Or.inr h1.1.2, hexp⟩
      · rw [if_neg h1] at h; cases h

end Image

end MdkVerif.Props.C17
