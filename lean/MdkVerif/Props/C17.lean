import MdkVerif.Model.Media
import MdkVerif.Proofs.Media
/-
  C17 — media part only (the epoch-hint / announcement-order part belongs to the world engine).
  The HKDF context and the AEAD associated data bind a file's key and ciphertext to
  (scheme version, original hash, MIME type, file name).  Property theorems only.
-/
namespace MdkVerif.Props.C17
open MdkVerif MdkVerif.Codec MdkVerif.Tags MdkVerif.Media List

/-- the facts of the source the media model rests on (re-extracted on every run) -/
theorem media_layout_facts :
    Generated.mediaContextAsModelled = true ∧ Generated.mediaAadAsModelled = true ∧
    nulFree Generated.mediaSchemeLabel = true := by decide

/-- general form: with NUL-free label, MIME type and file name and hashes of equal length, the HKDF
    context determines every component (and the suffix) -/
theorem ctx_injective_raw (l l' h h' m m' f f' s s' : Bytes)
    (hl : nulFree l = true) (hl' : nulFree l' = true) (hh : h.length = h'.length)
    (hm : nulFree m = true) (hm' : nulFree m' = true) (hf : nulFree f = true) (hf' : nulFree f' = true)
    (e : buildContext l h m f s = buildContext l' h' m' f' s') :
    l = l' ∧ h = h' ∧ m = m' ∧ f = f' ∧ s = s' := by
  unfold buildContext at e
  obtain ⟨e1, r1⟩ := split_at_nul _ _ _ _ hl hl' e
  obtain ⟨e2, r2⟩ := List.append_inj r1 hh
  simp only [List.cons.injEq, true_and] at r2
  obtain ⟨e3, r3⟩ := split_at_nul _ _ _ _ hm hm' r2
  obtain ⟨e4, r4⟩ := split_at_nul _ _ _ _ hf hf' r3
  exact ⟨e1, e2, e3, e4, r4⟩

/-- **ctx_injective** on validated inputs: two uploads whose MIME types passed `validate_mime_type` and
    whose file names passed `validate_filename`, with 32-byte hashes, derive their keys from the same
    HKDF context only if hash, canonical MIME type and file name all coincide -/
theorem ctx_injective (h h' m m' c c' f f' : Bytes) (hh : h.length = 32) (hh' : h'.length = 32)
    (hm : validateMime m = some c) (hm' : validateMime m' = some c')
    (hf : filenameOk f = true) (hf' : filenameOk f' = true)
    (e : keyContext h c f = keyContext h' c' f') : h = h' ∧ c = c' ∧ f = f' := by
  have hl : nulFree Generated.mediaSchemeLabel = true := by decide
  have := ctx_injective_raw _ _ h h' c c' f f' _ _ hl hl (by omega)
    (validateMime_nulFree m c hm) (validateMime_nulFree m' c' hm')
    (filenameOk_nulFree f hf) (filenameOk_nulFree f' hf') e
  exact ⟨this.2.1, this.2.2.1, this.2.2.2.1⟩

/-- general form for the associated data: the file name is the last component, so it needs no condition -/
theorem aad_injective_raw (l l' h h' m m' f f' : Bytes)
    (hl : nulFree l = true) (hl' : nulFree l' = true) (hh : h.length = h'.length)
    (hm : nulFree m = true) (hm' : nulFree m' = true)
    (e : buildAad l h m f = buildAad l' h' m' f') : l = l' ∧ h = h' ∧ m = m' ∧ f = f' := by
  unfold buildAad at e
  obtain ⟨e1, r1⟩ := split_at_nul _ _ _ _ hl hl' e
  obtain ⟨e2, r2⟩ := List.append_inj r1 hh
  simp only [List.cons.injEq, true_and] at r2
  obtain ⟨e3, r3⟩ := split_at_nul _ _ _ _ hm hm' r2
  exact ⟨e1, e2, e3, r3⟩

/-- **aad_injective** on validated inputs: a ciphertext sealed under the metadata (h, c, f) carries
    associated data that no other (32-byte hash, validated MIME type, ANY file name) reproduces -/
theorem aad_injective (h h' m m' c c' f f' : Bytes) (hh : h.length = 32) (hh' : h'.length = 32)
    (hm : validateMime m = some c) (hm' : validateMime m' = some c')
    (e : aad h c f = aad h' c' f') : h = h' ∧ c = c' ∧ f = f' := by
  have hl : nulFree Generated.mediaSchemeLabel = true := by decide
  have := aad_injective_raw _ _ h h' c c' f f' hl hl (by omega)
    (validateMime_nulFree m c hm) (validateMime_nulFree m' c' hm') e
  exact this.2

/-- key derivation and sealing use different byte strings for the same metadata (domain separation) -/
theorem ctx_ne_aad (h c f : Bytes) : keyContext h c f ≠ aad h c f := by
  intro e
  have := congrArg List.length e
  simp [keyContext, aad, buildContext, buildAad] at this

/-- the validation is NECESSARY: without it the separator is ambiguous — a NUL inside an unvalidated
    MIME string shifts the boundary (the same context for two different (mime, filename) pairs) -/
theorem ctx_ambiguous_without_validation :
    ∃ h m f m' f', (m, f) ≠ (m', f') ∧ keyContext h m f = keyContext h m' f' :=
  ⟨List.replicate 32 1, [97, 0, 98], [99], [97], [98, 0, 99], by decide, by decide⟩

example : validateMime [105, 109, 97, 103, 101, 47, 112, 110, 103] = some [105, 109, 97, 103, 101, 47, 112, 110, 103] ∧
    filenameOk [97, 46, 112, 110, 103] = true := by decide

end MdkVerif.Props.C17
