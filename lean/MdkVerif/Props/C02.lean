import MdkVerif.Model.Client
import MdkVerif.Proofs.Client
import MdkVerif.Props.C02Win
import MdkVerif.Props.C02Chain
/-
  C02 — Application messages on the winning branch arrive exactly once, intact and valid.
  Row-level facts about `process_application_message` / `create_message` in the client model, the
  invalidation performed by a rollback, and the closed witnesses of the two mechanisms that lose a
  message of the winning branch on the current tree (open known findings).
-/
namespace MdkVerif.Props.C02
open MdkVerif MdkVerif.Client

/-- message ids are unique in the table ("never a second copy") -/
def RowsUnique (l : List MsgRow) : Prop := l.Pairwise (fun a b => a.mid ≠ b.mid)

theorem mem_upsertRow (r x : MsgRow) (l : List MsgRow) (h : x ∈ upsertRow r l) : x = r ∨ x ∈ l := by
  induction l with
  | nil => simp [upsertRow] at h; exact Or.inl h
  | cons a t ih =>
    by_cases c : (a.mid == r.mid) = true
    · simp only [upsertRow, c, if_true, List.mem_cons] at h
      rcases h with h | h
      · exact Or.inl h
      · exact Or.inr (List.mem_cons_of_mem _ h)
    · have c' : (a.mid == r.mid) = false := by simpa using c
      simp only [upsertRow, c', Bool.false_eq_true, if_false, List.mem_cons] at h
      rcases h with h | h
      · exact Or.inr (by simp [h])
      · rcases ih h with h | h
        · exact Or.inl h
        · exact Or.inr (List.mem_cons_of_mem _ h)

theorem upsertRow_unique (r : MsgRow) (l : List MsgRow) (h : RowsUnique l) : RowsUnique (upsertRow r l) := by
  induction l with
  | nil => simp [upsertRow, RowsUnique]
  | cons a t ih =>
    have ht := List.pairwise_cons.mp h
    by_cases c : (a.mid == r.mid) = true
    · have ce : a.mid = r.mid := by simpa using c
      simp only [upsertRow, c, if_true]
      exact List.pairwise_cons.mpr ⟨fun x hx => by rw [← ce]; exact ht.1 x hx, ht.2⟩
    · have c' : (a.mid == r.mid) = false := by simpa using c
      simp only [upsertRow, c', Bool.false_eq_true, if_false]
      refine List.pairwise_cons.mpr ⟨?_, ih ht.2⟩
      intro x hx
      rcases mem_upsertRow r x t hx with rfl | hx
      · simpa using c'
      · exact ht.1 x hx

/-- storing a received message keeps ids unique and files exactly the sender's message: id, author,
    content token and timestamp are the event's, the state is Processed -/
theorem storeApp_row (c : Cl) (e : Ev) (mid ts tok : Nat) (hu : RowsUnique c.msgs) :
    RowsUnique (storeApp c e mid ts tok).1.msgs ∧
    ∃ row ∈ (storeApp c e mid ts tok).1.msgs, row.mid = mid ∧ row.author = e.sender ∧ row.tok = tok ∧ row.msgTs = ts ∧ row.state = 1 := by
  refine ⟨upsertRow_unique _ _ hu, ?_⟩
  refine ⟨{ mid := mid, author := e.sender, state := 1, epoch := epochOf c.g.path, wrapper := e.n, msgTs := ts, tok := tok }, ?_, rfl, rfl, rfl, rfl, rfl⟩
  simp only [storeApp, setRec]
  -- the upserted row is a member of the result
  have : ∀ (r : MsgRow) (l : List MsgRow), r ∈ upsertRow r l := by
    intro r l
    induction l with
    | nil => simp [upsertRow]
    | cons a t ih =>
      by_cases c : (a.mid == r.mid) = true
      · simp [upsertRow, c]
      · have c' : (a.mid == r.mid) = false := by simpa using c
        simp [upsertRow, c', ih]
  exact this _ _

/-- **losing_never_valid**: after a rollback to epoch `k`, no stored message filed under a later epoch
    is still valid -/
theorem losing_never_valid (c c1 : Cl) (k : Nat) (h : rollbackTo c k = some c1) :
    ∀ m ∈ c1.msgs, m.epoch > k → m.state = 3 := by
  unfold rollbackTo at h
  split at h
  · cases h
  · split at h
    · cases h
    · cases h
      intro m hm hgt
      simp only [List.mem_map] at hm
      obtain ⟨m0, _, rfl⟩ := hm
      by_cases c0 : m0.epoch > k
      · simp [c0]
      · simp only [c0, if_false] at hgt

/-- … and rows filed under epochs up to `k` keep their state -/
theorem rollback_keeps_earlier (c c1 : Cl) (k : Nat) (h : rollbackTo c k = some c1) :
    ∀ m ∈ c.msgs, m.epoch ≤ k → m ∈ c1.msgs := by
  unfold rollbackTo at h
  split at h
  · cases h
  · split at h
    · cases h
    · cases h
      intro m hm hle
      simp only [List.mem_map]
      exact ⟨m, hm, by simp [Nat.not_lt.mpr hle]⟩

/-! ### the full statement and why it fails on this tree -/

/-- one client, the message and the events around it: a message created on the winning branch, offered
    (again) after everything else, ends stored and valid -/
def winning_message_valid_full : Prop :=
  ∀ (c : Cl) (before : List Ev) (m : Ev) (mid ts tok : Nat), m.kind = .app mid ts tok →
    let c1 := before.foldl (fun c e => (deliver c e 0).1) c
    m.path = c1.g.path.take m.path.length →   -- `m` was created on the branch the client ends on
    ∃ row ∈ (deliver c1 m 0).1.msgs, row.mid = mid ∧ row.state = 1

def by0 : Cl := initCl 2 false 5 [0, 1, 2] [0, 1] 1
def cA : Ev := { n := 1, ts := 20, idnum := 7, cipher := 1, sender := 1, path := [], kind := .commit .selfUpdate [] }
def cB : Ev := { n := 2, ts := 19, idnum := 9, cipher := 2, sender := 0, path := [], kind := .commit .selfUpdate [] }
/-- sent by member 0 BEFORE the fork (state `[]`, epoch 1) -/
def m0 : Ev := { n := 3, ts := 15, idnum := 3, cipher := 3, sender := 0, path := [], kind := .app 0 101 1 }

/-- `receiver-epoch-tag`: the pre-fork message is processed while the client sits on the losing branch;
    it is filed under the RECEIVER's epoch 2, the rollback invalidates it, and re-offering it is refused -/
theorem witness_receiver_epoch_tag :
    let c1 := (deliver (deliver (deliver by0 cA 0).1 m0 0).1 cB 0).1
    c1.g.path = [2] ∧ (c1.msgs.map (fun r => (r.mid, r.state, r.epoch))) = [(0, 3, 2)] ∧ (deliver c1 m0 0).2 = .unprocessable := by
  decide

/-- `handshake-before-predecessor-blocked` for messages: a message of epoch 2 offered before the commit
    that creates epoch 2 cannot be opened, is recorded Failed and is refused for ever -/
def m2 : Ev := { n := 4, ts := 25, idnum := 4, cipher := 4, sender := 0, path := [2], kind := .app 1 102 2 }
theorem witness_message_ahead_of_commit :
    (deliver by0 m2 0).2 = .err eMessage ∧ (deliver (deliver (deliver by0 m2 0).1 cB 0).1 m2 0).2 = .unprocessable := by
  decide

/-- `h-rotation-in-flight`: a message sent in the state everybody ends on, but under the nostr group id that an
    admin's commit rotates away before the message is delivered: not routed (GroupNotFound), recorded Failed
    without group or epoch, never stored, `PreviouslyFailed` on every later offer — although it belongs to the
    winning branch (its sender was at the very state the rotation commit was made in).  The same commit without
    the rotation leaves it deliverable. -/
def cRot : Ev := { n := 6, ts := 30, idnum := 2, cipher := 6, sender := 0, path := [], kind := .commit (.setData { initData [0, 1] 1 with nid := 8 }) [] }
def cNoRot : Ev := { cRot with kind := .commit (.setData { initData [0, 1] 1 with name := 8 }) [] }
theorem witness_rotation_in_flight :
    (deliver (deliver by0 cRot 0).1 m0 0).2 = .err eGroupNotFound ∧
    (deliver (deliver by0 cRot 0).1 m0 0).1.msgs = [] ∧
    (deliver (deliver (deliver by0 cRot 0).1 m0 0).1 m0 0).2 = .previouslyFailed ∧
    (deliver (deliver (deliver by0 cRot 0).1 m0 0).1 m0 0).1.msgs = [] ∧
    ((deliver (deliver by0 cNoRot 0).1 m0 0).1.msgs.map (fun r => (r.mid, r.state))) = [(0, 1)] := by decide

/-- the rotation mechanism refutes the full statement as well: `m0` was created on (a prefix of) the branch the
    client ends on -/
theorem winning_message_valid_full_false_rotation : ¬ winning_message_valid_full := by
  intro h
  have := h by0 [cRot] m0 0 101 1 rfl (by decide)
  revert this; decide

theorem winning_message_valid_full_false : ¬ winning_message_valid_full := by
  intro h
  have := h by0 [m2, cB] m2 1 102 2 rfl (by decide)
  revert this; decide

/-- in-order delivery works: the same message offered after its commit is stored valid (non-vacuity) -/
example : ((deliver (deliver by0 cB 0).1 m2 0).1.msgs.map (fun r => (r.mid, r.state))) = [(1, 1)] := by decide

end MdkVerif.Props.C02

namespace MdkVerif.Props.C02
/-! ### reordering inside / outside the configured windows (Props/C02Win.lean, model Model/Ratchet.lean)

The statements live in `Props/C02Win.lean`; they are restated here so that they are obligations of `./check C02`. -/
open MdkVerif.Ratchet MdkVerif.Props

theorem exactly_once (T F : Nat) (l : List Nat) : (acceptedGens T F Ratchet.new l).Nodup :=
  C02Win.exactly_once T F l

theorem inside_windows_all_accepted (T F : Nat) (l : List Nat) (hn : l.Nodup) (hw : inWin T F 0 l = true) :
    (run T F Ratchet.new l).2 = l.map (fun _ => Verdict.accepted) ∧ acceptedGens T F Ratchet.new l = l ∧
    ∀ g ∈ l, (recv T F (run T F Ratchet.new l).1 g).2 ≠ .accepted ∧
             (recv T F (run T F Ratchet.new l).1 g).1 = (run T F Ratchet.new l).1 :=
  C02Win.inside_windows_all_accepted T F l hn hw

theorem inside_windows_all_stored (c : Cl) (m s : Nat) (ws : List Msg)
    (ok : PastOK c.cfg.P c.joined c.st) (hs : s ≠ c.id) (hj : c.joined ≤ m) (hme : m ≤ c.st.epoch)
    (hP : c.st.epoch - m ≤ c.cfg.P) (hL : c.st.epoch - m ≤ c.cfg.L)
    (first : ∀ t, treeFor c.st m = some t → tlookup s t = none)
    (same : ∀ w ∈ ws, w.sender = s ∧ w.epoch = m)
    (gens : (ws.map (·.gen)).Nodup) (wrappers : (ws.map (·.n)).Nodup) (mids : (ws.map (·.mid)).Nodup)
    (fresh : ∀ w ∈ ws, tlookup w.n c.recs = none)
    (hw : inWin c.cfg.T c.cfg.F 0 (ws.map (·.gen)) = true) :
    (deliverAll c ws).2 = ws.map (fun w => Res.app w.mid) ∧
    (∀ w ∈ ws, findRow w.mid (deliverAll c ws).1.rows = some ⟨w.mid, s, 1, c.st.epoch, w.tok⟩) ∧
    (∀ k, k ∉ ws.map (·.mid) → findRow k (deliverAll c ws).1.rows = findRow k c.rows) ∧
    (∀ w ∈ ws, (deliver (deliverAll c ws).1 w).2 = .unprocessable ∧
               (deliver (deliverAll c ws).1 w).1.rows = (deliverAll c ws).1.rows ∧
               (deliver (deliverAll c ws).1 w).1.st = (deliverAll c ws).1.st) :=
  C02Win.inside_windows_all_stored c m s ws ok hs hj hme hP hL first same gens wrappers mids fresh hw

theorem inside_windows_all_stored_full_false : ¬ C02Win.inside_windows_all_stored_full :=
  C02Win.inside_windows_all_stored_full_false

theorem window_monotone_T (T T' F : Nat) (hT : T ≤ T') (l : List Nat) (i : Nat)
    (h : (run T F Ratchet.new l).2[i]? = some .accepted) : (run T' F Ratchet.new l).2[i]? = some .accepted :=
  C02Win.window_monotone_T T T' F hT l i h

theorem window_monotone_F_full_false : ¬ C02Win.window_monotone_F_full := C02Win.window_monotone_F_full_false

theorem own_copy_confirmed (c : Cl) (ok : PastOK c.cfg.P c.joined c.st) (n mid tok k : Nat)
    (hk : k ≤ c.cfg.P) (hk' : k ≤ c.cfg.L) :
    (deliver (C02Win.commits k (send c n mid tok).1) (send c n mid tok).2).2 = .app mid :=
  (C02Win.own_copy_confirmed c ok n mid tok k hk hk').1

end MdkVerif.Props.C02

namespace MdkVerif.Props.C02
/-! ### history-level theorems (proved in Props/C02Chain.lean over Proofs/ChainMsg.lean and the chain theorems of C01;
    restated here so that they are obligations of `./check C02`).  Vocabulary: see the header of Props/C02Chain.lean.
    HYPOTHESIS of `messages_on_winning_branch_partial` / `all_members_hold_same_valid_messages`: level-by-level delivery
    (as in C01) and every message delivered in its SLOT, i.e. while the client is in the epoch the message was created
    in; the statement for arbitrary interleavings is `C02Chain.C02_history_full`, refuted twice below.
    `losing_messages_never_valid` has no schedule hypothesis. -/
open MdkVerif MdkVerif.Client MdkVerif.Fork MdkVerif.Chain MdkVerif.ChainMsg MdkVerif.Props.C01Fork

/-- `ChainMsg.Uniq` is `RowsUnique` -/
theorem uniq_iff_rowsUnique (l : List MsgRow) : Uniq l ↔ RowsUnique l := Iff.rfl

/-- one message, every state: stored exactly once as sent, under the receiver's epoch; the second offer changes neither
    the table, the group state nor the snapshots; every further one changes nothing -/
theorem app_deliver_stored (c : Cl) (e : Ev) (mid ts tok nx : Nat)
    (hk : e.kind = .app mid ts tok) (hroutes : routes c e = true) (hact : c.g.active = true)
    (hopen : outerOpens (ensureSecret c.g) e = true)
    (hle : epochOf e.path ≤ epochOf c.g.path)
    (hpast : epochOf e.path < epochOf c.g.path → c.g.past.contains e.path = true)
    (hf : e.sender ≠ c.id) (hc : e.cipher ∉ c.g.consumed) (hnb : NotBlocked c e.n) (hu : RowsUnique c.msgs) :
    (deliver c e nx).2 = .app mid ∧
    (deliver c e nx).1.msgs.filter (·.mid == mid) =
      [{ mid := mid, author := e.sender, state := 1, epoch := epochOf c.g.path, wrapper := e.n, msgTs := ts, tok := tok }] ∧
    RowsUnique (deliver c e nx).1.msgs ∧
    (∀ m, m ≠ mid → findRow m (deliver c e nx).1.msgs = findRow m c.msgs) ∧
    (deliver (deliver c e nx).1 e nx).2 = .unprocessable ∧
    (deliver (deliver c e nx).1 e nx).1.msgs = (deliver c e nx).1.msgs ∧
    (deliver (deliver c e nx).1 e nx).1.g = (deliver c e nx).1.g ∧
    (deliver (deliver c e nx).1 e nx).1.mgr = (deliver c e nx).1.mgr ∧
    (deliver (deliver (deliver c e nx).1 e nx).1 e nx).1 = (deliver (deliver c e nx).1 e nx).1 :=
  C02Chain.app_deliver_stored c e mid ts tok nx hk hroutes hact hopen hle hpast hf hc hnb hu

/-- frame of `process_message` on the message table (every state, every foreign event, every fuel) -/
theorem deliver_msgs_frame (fuel nx : Nat) (c : Cl) (e : Ev) (hf : e.sender ≠ c.id) :
    (∀ m row, appMid e ≠ some m → findRow m c.msgs = some row → row.epoch ≤ epochOf e.path →
      findRow m (deliverN fuel nx c e).1.msgs = some row) ∧
    (∀ m, appMid e ≠ some m → findRow m c.msgs = none → findRow m (deliverN fuel nx c e).1.msgs = none) ∧
    (∀ m row, appMid e ≠ some m → findRow m (deliverN fuel nx c e).1.msgs = some row → row.state ≠ 3 →
      findRow m c.msgs = some row) ∧
    (RowsUnique c.msgs → RowsUnique (deliverN fuel nx c e).1.msgs) :=
  C02Chain.deliver_msgs_frame fuel nx c e hf

/-- one fork level (either role, any delivery list, stale events interleaved): rows filed under epochs up to the parent's
    are kept unchanged, no row appears, a row changes at most to invalidated and only if filed under a later epoch -/
theorem fork_keeps_earlier_messages (c : Cl) (T l : List Ev) (nx : Nat) (hat : AtFork c T)
    (hl : ∀ e ∈ l, e ∈ T ∨ StaleAt c T e) :
    (∀ m row, findRow m c.msgs = some row → row.epoch ≤ epochOf c.g.path → findRow m (run nx c l).msgs = some row) ∧
    (∀ m, findRow m c.msgs = none → findRow m (run nx c l).msgs = none) ∧
    (∀ x ∈ (run nx c l).msgs, ∃ y ∈ c.msgs, x = y ∨ (x = { y with state := 3 } ∧ y.epoch > epochOf c.g.path)) ∧
    (RowsUnique c.msgs → RowsUnique (run nx c l).msgs) :=
  C02Chain.fork_keeps_earlier_messages c T l nx hat hl

/-- messages of a losing branch are never left valid on a client that ends on the winning branch: EVERY list of foreign
    events, no schedule hypothesis -/
theorem losing_messages_never_valid (P : Path) (w : Nat) (LM : Nat → Prop) (c : Cl) (l : List Ev) (nx : Nat)
    (hh : HInv c) (hpref : PrefInv c) (hrows : RowInv P w LM c)
    (hl : ∀ e ∈ l, e.sender ≠ c.id ∧ LosingEv P w LM e)
    (hfin : (P ++ [w]) <+: (run nx c l).g.path) :
    ∀ r ∈ (run nx c l).msgs, LM r.mid → r.state = 3 :=
  C02Chain.losing_messages_never_valid P w LM c l nx hh hpref hrows hl hfin

/-- the history theorem: chains of forks with message slots, one client -/
theorem messages_on_winning_branch_partial (c : Cl) (Ls : List Level) (Ms : List (List Ev))
    (sched : List (List Ev × List Ev)) (nx : Nat)
    (hg : c.hasGroup = true) (ha : c.g.active = true) (hr : 1 ≤ c.retention) (hsec : SecretsOK c.g) (hbelow : Below c)
    (hn : c.g.recNid = c.g.nid) (hu : RowsUnique c.msgs)
    (hch : ChainEv c.id (core c.g) Ls) (hms : SlotsEv c.id (core c.g) Ls Ms)
    (hfresh : ∀ e ∈ evs Ls ++ Ms.flatten, getRec c e.n = none ∧ e.cipher ∉ c.g.consumed)
    (hw : MLevelWise (evs Ls ++ Ms.flatten) c.g.path Ls Ms sched) :
    (run nx c (flat sched)).g.path = c.g.path ++ Ls.map (·.1.cipher) ∧ RowsUnique (run nx c (flat sched)).msgs ∧
    (∀ k lm M, sched[k]? = some lm → Ms[k]? = some M → ∀ e ∈ lm.2, e ∈ M → ∀ mid ts tok, e.kind = .app mid ts tok →
      (run nx c (flat sched)).msgs.filter (·.mid == mid) =
        [{ mid := mid, author := e.sender, state := 1, epoch := epochOf c.g.path + k + 1, wrapper := e.n, msgTs := ts, tok := tok }]) ∧
    (∀ mid, (∀ e ∈ Ms.flatten, appMid e ≠ some mid) →
      (findRow mid c.msgs = none → (run nx c (flat sched)).msgs.filter (·.mid == mid) = []) ∧
      (∀ row, findRow mid c.msgs = some row → row.epoch ≤ epochOf c.g.path →
        (run nx c (flat sched)).msgs.filter (·.mid == mid) = [row])) :=
  C02Chain.messages_on_winning_branch_partial c Ls Ms sched nx hg ha hr hsec hbelow hn hu hch hms hfresh hw

/-- a message of a branch that lost, offered anywhere in such a schedule, is never stored -/
theorem losing_branch_messages_absent (c : Cl) (Ls : List Level) (Ms : List (List Ev))
    (sched : List (List Ev × List Ev)) (nx : Nat)
    (hg : c.hasGroup = true) (ha : c.g.active = true) (hr : 1 ≤ c.retention) (hsec : SecretsOK c.g) (hbelow : Below c)
    (hn : c.g.recNid = c.g.nid) (hu : RowsUnique c.msgs)
    (hch : ChainEv c.id (core c.g) Ls) (hms : SlotsEv c.id (core c.g) Ls Ms)
    (hfresh : ∀ e ∈ evs Ls ++ Ms.flatten, getRec c e.n = none ∧ e.cipher ∉ c.g.consumed)
    (hw : MLevelWise (evs Ls ++ Ms.flatten) c.g.path Ls Ms sched)
    (x : Ev) (mid ts tok : Nat) (hx : x.kind = .app mid ts tok) (hmid : ∀ e ∈ Ms.flatten, appMid e ≠ some mid)
    (hnone : findRow mid c.msgs = none) :
    ∀ r ∈ (run nx c (flat sched)).msgs, r.mid ≠ mid :=
  C02Chain.losing_branch_messages_absent c Ls Ms sched nx hg ha hr hsec hbelow hn hu hch hms hfresh hw x mid ts tok hx hmid hnone

/-- many clients, own schedules and slots: same path, and every message two of them were both offered is the SAME single
    valid row at both -/
theorem all_members_hold_same_valid_messages (ps : List C02Chain.MParty) (k0 : Core) (w : Ev) (T : List Ev) (rest : List Level)
    (hmin : IsMin w T) (hcross : ∀ e1 ∈ T, ∀ e2 ∈ evs rest, e1.n ≠ e2.n ∧ e1.cipher ≠ e2.cipher)
    (h : ∀ p ∈ ps, C02Chain.MPartyOK k0 w T rest p) :
    ∀ p ∈ ps, ∀ q ∈ ps,
      p.final.g.path = q.final.g.path ∧ core p.final.g = core q.final.g ∧
      ∀ k lmp lmq Mp Mq, p.sched[k]? = some lmp → q.sched[k]? = some lmq → p.Ms[k]? = some Mp → q.Ms[k]? = some Mq →
        ∀ e, e ∈ lmp.2 → e ∈ Mp → e ∈ lmq.2 → e ∈ Mq → ∀ mid ts tok, e.kind = .app mid ts tok →
          p.final.msgs.filter (·.mid == mid) =
            [{ mid := mid, author := e.sender, state := 1, epoch := epochOf k0.1 + k + 1, wrapper := e.n, msgTs := ts, tok := tok }] ∧
          q.final.msgs.filter (·.mid == mid) = p.final.msgs.filter (·.mid == mid) :=
  C02Chain.all_members_hold_same_valid_messages ps k0 w T rest hmin hcross h

/-- the sender's own copy: Created by `create_message`, Processed when the event comes back; one row throughout -/
theorem own_copy_confirmed_client (c : Cl) (n ts idn mid mts tok nx : Nat) (hg : c.hasGroup = true) (ha : c.g.active = true)
    (hp : c.g.props = []) (hsec : SecretsOK c.g) (hu : RowsUnique c.msgs) :
    ∃ e, (send c n ts idn mid mts tok).2 = .ev e ∧ e.kind = .app mid mts tok ∧ e.sender = c.id ∧ e.path = c.g.path ∧
      (send c n ts idn mid mts tok).1.msgs.filter (·.mid == mid) =
        [{ mid := mid, author := c.id, state := 0, epoch := epochOf c.g.path, wrapper := n, msgTs := mts, tok := tok }] ∧
      (deliver (send c n ts idn mid mts tok).1 e nx).2 = .app mid ∧
      (deliver (send c n ts idn mid mts tok).1 e nx).1.msgs.filter (·.mid == mid) =
        [{ mid := mid, author := c.id, state := 1, epoch := epochOf c.g.path, wrapper := n, msgTs := mts, tok := tok }] :=
  C02Chain.own_copy_confirmed c n ts idn mid mts tok nx hg ha hp hsec hu

/-- a late message (retained past state, outer layer still opens it) is filed under the receiver's epoch and survives every
    later level-by-level schedule with slots -/
theorem late_message_kept_partial (c : Cl) (e : Ev) (mid ts tok : Nat) (Ls : List Level) (Ms : List (List Ev))
    (sched : List (List Ev × List Ev)) (nx : Nat)
    (hg : c.hasGroup = true) (ha : c.g.active = true) (hr : 1 ≤ c.retention) (hsec : SecretsOK c.g) (hbelow : Below c)
    (hn : c.g.recNid = c.g.nid) (hu : RowsUnique c.msgs)
    (hk : e.kind = .app mid ts tok) (htag : e.tag = c.g.recNid)
    (hopen : outerOpens (ensureSecret c.g) e = true) (hle : epochOf e.path ≤ epochOf c.g.path)
    (hpast : epochOf e.path < epochOf c.g.path → c.g.past.contains e.path = true)
    (hf : e.sender ≠ c.id) (hc : e.cipher ∉ c.g.consumed) (hnb : getRec c e.n = none)
    (hch : ChainEv c.id (core c.g) Ls) (hms : SlotsEv c.id (core c.g) Ls Ms)
    (hfresh : ∀ x ∈ evs Ls ++ Ms.flatten, getRec c x.n = none ∧ x.cipher ∉ c.g.consumed)
    (hdist : ∀ x ∈ evs Ls ++ Ms.flatten, x.n ≠ e.n ∧ x.cipher ≠ e.cipher)
    (hmid : ∀ x ∈ Ms.flatten, appMid x ≠ some mid)
    (hw : MLevelWise (evs Ls ++ Ms.flatten) c.g.path Ls Ms sched) :
    (run nx c (e :: flat sched)).g.path = c.g.path ++ Ls.map (·.1.cipher) ∧
    (run nx c (e :: flat sched)).msgs.filter (·.mid == mid) =
      [{ mid := mid, author := e.sender, state := 1, epoch := epochOf c.g.path, wrapper := e.n, msgTs := ts, tok := tok }] ∧
    (∀ k lm M, sched[k]? = some lm → Ms[k]? = some M → ∀ x ∈ lm.2, x ∈ M → ∀ mid' ts' tok', x.kind = .app mid' ts' tok' →
      (run nx c (e :: flat sched)).msgs.filter (·.mid == mid') =
        [{ mid := mid', author := x.sender, state := 1, epoch := epochOf c.g.path + k + 1, wrapper := x.n, msgTs := ts', tok := tok' }]) :=
  C02Chain.late_message_kept_partial c e mid ts tok Ls Ms sched nx hg ha hr hsec hbelow hn hu hk htag hopen hle hpast hf hc hnb
    hch hms hfresh hdist hmid hw

/-- after a level-by-level schedule with slots over n levels, the state after level k (k + d = n) is a retained past state
    if d ≤ max_past_epochs, and the outer layer opens its events if d ≤ 5: the two window conditions of a late message, derived -/
theorem late_window_derived (c : Cl) (Ls : List Level) (Ms : List (List Ev))
    (sched : List (List Ev × List Ev)) (nx : Nat)
    (hg : c.hasGroup = true) (ha : c.g.active = true) (hr : 1 ≤ c.retention) (hsec : SecretsOK c.g) (hbelow : Below c)
    (hn : c.g.recNid = c.g.nid) (hu : RowsUnique c.msgs)
    (hch : ChainEv c.id (core c.g) Ls) (hms : SlotsEv c.id (core c.g) Ls Ms)
    (hfresh : ∀ e ∈ evs Ls ++ Ms.flatten, getRec c e.n = none ∧ e.cipher ∉ c.g.consumed)
    (hw : MLevelWise (evs Ls ++ Ms.flatten) c.g.path Ls Ms sched)
    (k d : Nat) (hkd : k + d = Ls.length) (hd1 : 1 ≤ d) (hdm : d ≤ c.maxPast) (hd5 : d ≤ 5)
    (x : Ev) (hx : x.path = c.g.path ++ (Ls.map (·.1.cipher)).take k) :
    outerOpens (ensureSecret (run nx c (flat sched)).g) x = true ∧
    (run nx c (flat sched)).g.past.contains x.path = true ∧
    epochOf x.path + d = epochOf (run nx c (flat sched)).g.path :=
  C02Chain.late_window_derived c Ls Ms sched nx hg ha hr hsec hbelow hn hu hch hms hfresh hw k d hkd hd1 hdm hd5 x hx

/-- a message of the state after level k that arrives only after the whole schedule (n − k ≤ min(max_past_epochs, 5)) is stored
    exactly once as sent, Processed, under the receiver's epoch; the other rows are what they were -/
theorem late_message_in_chain_partial (c : Cl) (Ls : List Level) (Ms : List (List Ev))
    (sched : List (List Ev × List Ev)) (nx : Nat)
    (hg : c.hasGroup = true) (ha : c.g.active = true) (hr : 1 ≤ c.retention) (hsec : SecretsOK c.g) (hbelow : Below c)
    (hn : c.g.recNid = c.g.nid) (hu : RowsUnique c.msgs)
    (hch : ChainEv c.id (core c.g) Ls) (hms : SlotsEv c.id (core c.g) Ls Ms)
    (hfresh : ∀ e ∈ evs Ls ++ Ms.flatten, getRec c e.n = none ∧ e.cipher ∉ c.g.consumed)
    (hw : MLevelWise (evs Ls ++ Ms.flatten) c.g.path Ls Ms sched)
    (k d : Nat) (hkd : k + d = Ls.length) (hd1 : 1 ≤ d) (hdm : d ≤ c.maxPast) (hd5 : d ≤ 5)
    (x : Ev) (mid ts tok : Nat) (hk : x.kind = .app mid ts tok)
    (hx : x.path = c.g.path ++ (Ls.map (·.1.cipher)).take k) (htag : x.tag = c.g.recNid) (hf : x.sender ≠ c.id)
    (hxfresh : getRec c x.n = none ∧ x.cipher ∉ c.g.consumed)
    (hxn : ∀ e ∈ flat sched, x.n ≠ e.n) (hxc : ∀ e ∈ evs Ls ++ Ms.flatten, e.cipher ≠ x.cipher) :
    (deliver (run nx c (flat sched)) x nx).2 = .app mid ∧
    (run nx c (flat sched ++ [x])).msgs.filter (·.mid == mid) =
      [{ mid := mid, author := x.sender, state := 1, epoch := epochOf c.g.path + Ls.length, wrapper := x.n, msgTs := ts, tok := tok }] ∧
    (∀ m, m ≠ mid → findRow m (run nx c (flat sched ++ [x])).msgs = findRow m (run nx c (flat sched)).msgs) :=
  C02Chain.late_message_in_chain_partial c Ls Ms sched nx hg ha hr hsec hbelow hn hu hch hms hfresh hw k d hkd hd1 hdm hd5 x mid ts tok
    hk hx htag hf hxfresh hxn hxc

/-- the final state of such a schedule satisfies the per-client hypotheses again (the theorems compose) -/
theorem chain_with_slots_restores (c : Cl) (Ls : List Level) (Ms : List (List Ev))
    (sched : List (List Ev × List Ev)) (nx : Nat)
    (hg : c.hasGroup = true) (ha : c.g.active = true) (hr : 1 ≤ c.retention) (hsec : SecretsOK c.g) (hbelow : Below c)
    (hn : c.g.recNid = c.g.nid) (hu : RowsUnique c.msgs)
    (hch : ChainEv c.id (core c.g) Ls) (hms : SlotsEv c.id (core c.g) Ls Ms)
    (hfresh : ∀ e ∈ evs Ls ++ Ms.flatten, getRec c e.n = none ∧ e.cipher ∉ c.g.consumed)
    (hw : MLevelWise (evs Ls ++ Ms.flatten) c.g.path Ls Ms sched) :
    (run nx c (flat sched)).hasGroup = true ∧ (run nx c (flat sched)).g.active = true ∧ 1 ≤ (run nx c (flat sched)).retention ∧
    SecretsOK (run nx c (flat sched)).g ∧ Below (run nx c (flat sched)) ∧
    (run nx c (flat sched)).g.recNid = (run nx c (flat sched)).g.nid ∧ (run nx c (flat sched)).g.recNid = c.g.recNid ∧
    (run nx c (flat sched)).id = c.id ∧ (run nx c (flat sched)).maxPast = c.maxPast ∧
    core (run nx c (flat sched)).g = (Ls.map (·.1)).foldl coreStep (core c.g) ∧
    (∀ n, getRec c n = none → (∀ e ∈ flat sched, n ≠ e.n) → getRec (run nx c (flat sched)) n = none) ∧
    (∀ x ∈ (run nx c (flat sched)).g.consumed, x ∈ c.g.consumed ∨ ∃ e ∈ evs Ls ++ Ms.flatten, e.cipher = x) :=
  C02Chain.chain_with_slots_restores c Ls Ms sched nx hg ha hr hsec hbelow hn hu hch hms hfresh hw

/-- the slot hypothesis is needed: for arbitrary interleavings the statement is false of the code
    (`handshake-before-predecessor-blocked`; `receiver-epoch-tag`) -/
theorem history_needs_slots : ¬ C02Chain.C02_history_full := C02Chain.C02_history_full_false
theorem history_needs_slots_epoch_tag : ¬ C02Chain.C02_history_full := C02Chain.C02_history_full_false_epoch_tag

end MdkVerif.Props.C02
