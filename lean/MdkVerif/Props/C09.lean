import MdkVerif.Model.Store
import MdkVerif.Proofs.Store
/-
  C09 — Rollback restores exactly one group's state and destroys nothing else.
  All statements are for every store value, both backends, every group id and snapshot name.
-/
namespace MdkVerif.Props.C09
open MdkVerif MdkVerif.Store List

/-- a snapshot is well formed when the record it holds belongs to the group it was taken for
    (true of every snapshot `takeSnap` produces: `takeSnap_wf`, hence of every stored one: `snaps_wf_step`) -/
def SnapWF (p : Snap) : Prop := ∀ g, p.group = some g → g.gid = p.gid

theorem takeSnap_wf (s : Store) (gid name ts : Nat) : SnapWF (takeSnap s gid name ts) := by
  intro g hg
  simp only [takeSnap] at hg ⊢
  exact findGroup_gid hg

/-- the restored relay set -/
theorem relays_after (p : Snap) (gid : Nat) (l : List (Nat × List Nat)) :
    (alookup gid (if p.relays.isEmpty then aerase gid l else ainsert gid p.relays (aerase gid l))).getD []
      = p.relays := by
  by_cases he : p.relays.isEmpty = true
  · have : p.relays = [] := by simpa using he
    simp [he, alookup_aerase_self, this]
  · simp [he, alookup_ainsert_self]

/-! ### restore_exact: the group's record, relays, per-epoch secrets and MLS rows are exactly the
    snapshot's, i.e. what `takeSnap` copied when the snapshot was taken -/

theorem restore_exact (s s' : Store) (gid name : Nat) (p : Snap)
    (hf : findSnap s gid name = some p) (hwf : SnapWF p)
    (hr : snapRollback s gid name = some s') :
    findGroup s' gid = p.group ∧ (alookup gid s'.relays).getD [] = p.relays ∧
    groupSecrets s' gid = p.secrets ∧ groupMls s' gid = p.mls := by
  obtain ⟨_, hg, _⟩ := findSnap_spec hf
  subst hg
  simp only [snapRollback, hf, restoreFrom] at hr
  cases hb : s.backend with
  | mem =>
    simp only [hb] at hr
    cases hpg : p.group with
    | none =>
      simp only [hpg, Option.some.injEq] at hr
      subst hr
      refine ⟨?_, relays_after p _ _, ?_, ?_⟩
      · simp [findGroup, find_filter_ne_self]
      · simp only [groupSecrets]; exact rows_restore_self _ _ _
      · simp only [groupMls]; exact rows_restore_self _ _ _
    | some g =>
      have hgg : g.gid = p.gid := hwf g hpg
      simp only [hpg, Option.some.injEq] at hr
      subst hr
      refine ⟨?_, relays_after p _ _, ?_, ?_⟩
      · simp only [findGroup]; rw [← hgg]; exact find_replaceGroup_self g _
      · simp only [groupSecrets]; exact rows_restore_self _ _ _
      · simp only [groupMls]; exact rows_restore_self _ _ _
  | sql =>
    simp only [hb] at hr
    cases hpg : p.group with
    | none => simp [hpg] at hr
    | some g =>
      have hgg : g.gid = p.gid := hwf g hpg
      simp only [hpg] at hr
      split at hr
      · cases hr
      · simp only [Option.some.injEq] at hr
        subst hr
        refine ⟨?_, ?_, ?_, ?_⟩
        · simp only [findGroup]; rw [← hgg]; exact find_replaceGroup_self g _
        · simp [alookup_ainsert_self]
        · simp only [groupSecrets]; exact rows_restore_self _ _ _
        · simp only [groupMls]; exact rows_restore_self _ _ _

/-! ### restore_frame: nothing that belongs to other groups changes; no message, processed-message
    record, welcome, processed-welcome or other snapshot is destroyed; exactly the named snapshot is
    consumed.  For SQLite `s'.msgs = s.msgs` depends on `Generated.sqlRestoreCascadesMessages = false`
    (re-extracted each run from the restore SQL and the schema's ON DELETE CASCADE edges). -/

theorem restore_frame (s s' : Store) (gid name : Nat) (p : Snap)
    (hf : findSnap s gid name = some p) (hwf : SnapWF p)
    (hr : snapRollback s gid name = some s') :
    (∀ k, k ≠ gid → findGroup s' k = findGroup s k ∧ alookup k s'.relays = alookup k s.relays ∧
                    groupSecrets s' k = groupSecrets s k ∧ groupMls s' k = groupMls s k) ∧
    s'.msgs = s.msgs ∧ s'.pms = s.pms ∧ s'.welcomes = s.welcomes ∧ s'.pws = s.pws ∧
    s'.snaps = dropSnap gid name s.snaps := by
  have hcas : Generated.sqlRestoreCascadesMessages = false := by decide
  obtain ⟨_, hg, hn⟩ := findSnap_spec hf
  subst hg; subst hn
  simp only [snapRollback, hf, restoreFrom] at hr
  have hrel : ∀ k, k ≠ p.gid →
      alookup k (if p.relays.isEmpty then aerase p.gid s.relays else ainsert p.gid p.relays (aerase p.gid s.relays))
        = alookup k s.relays := by
    intro k hk
    by_cases he : p.relays.isEmpty = true
    · simp [he, alookup_aerase_ne _ _ _ hk]
    · simp [he, alookup_ainsert_ne _ _ _ _ hk, alookup_aerase_ne _ _ _ hk]
  cases hb : s.backend with
  | mem =>
    simp only [hb] at hr
    cases hpg : p.group with
    | none =>
      simp only [hpg, Option.some.injEq] at hr
      subst hr
      refine ⟨?_, rfl, rfl, rfl, rfl, rfl⟩
      intro k hk
      refine ⟨?_, hrel k hk, ?_, ?_⟩
      · simp only [findGroup]; exact find_filter_ne_other _ _ _ hk
      · simp only [groupSecrets]; rw [rows_restore_ne _ _ _ _ hk]
      · simp only [groupMls]; rw [rows_restore_ne _ _ _ _ hk]
    | some g =>
      have hgg : g.gid = p.gid := hwf g hpg
      simp only [hpg, Option.some.injEq] at hr
      subst hr
      refine ⟨?_, rfl, rfl, rfl, rfl, rfl⟩
      intro k hk
      refine ⟨?_, hrel k hk, ?_, ?_⟩
      · simp only [findGroup]; exact find_replaceGroup_ne g _ k (by omega)
      · simp only [groupSecrets]; rw [rows_restore_ne _ _ _ _ hk]
      · simp only [groupMls]; rw [rows_restore_ne _ _ _ _ hk]
  | sql =>
    simp only [hb] at hr
    cases hpg : p.group with
    | none => simp [hpg] at hr
    | some g =>
      have hgg : g.gid = p.gid := hwf g hpg
      simp only [hpg] at hr
      split at hr
      · cases hr
      · simp only [hcas, Bool.false_eq_true, if_false, Option.some.injEq] at hr
        subst hr
        refine ⟨?_, rfl, rfl, rfl, rfl, rfl⟩
        intro k hk
        refine ⟨?_, ?_, ?_, ?_⟩
        · simp only [findGroup]; exact find_replaceGroup_ne g _ k (by omega)
        · simp [alookup_ainsert_ne _ _ _ _ hk, alookup_aerase_ne _ _ _ hk]
        · simp only [groupSecrets]; rw [rows_restore_ne _ _ _ _ hk]
        · simp only [groupMls]; rw [rows_restore_ne _ _ _ _ hk]

/-- a refused rollback (unknown snapshot, or SQLite's UNIQUE conflict) leaves the store as it was -/
theorem restore_refused_no_effect (s : Store) (gid name : Nat) (h : snapRollback s gid name = none) :
    (step s (.snapRollback gid name)).1 = s := by
  simp [step, okErr, h]

/-- other snapshots survive a rollback -/
theorem restore_keeps_other_snapshots (s s' : Store) (gid name : Nat) (p q : Snap)
    (hf : findSnap s gid name = some p) (hwf : SnapWF p) (hr : snapRollback s gid name = some s')
    (hq : q ∈ s.snaps) (hne : ¬ (q.gid = gid ∧ q.name = name)) : q ∈ s'.snaps := by
  rw [(restore_frame s s' gid name p hf hwf hr).2.2.2.2.2]
  simp only [dropSnap, List.mem_filter]
  refine ⟨hq, ?_⟩
  simp only [Bool.not_eq_true', Bool.and_eq_false_iff, beq_eq_false_iff_ne]
  by_cases c : q.gid = gid
  · right; intro h; exact hne ⟨c, h⟩
  · left; exact c

/-! ### snapshot_pure: taking, releasing, listing or pruning snapshots changes no live state -/

/-- everything except the snapshot table -/
def live (s : Store) : Store := { s with snaps := [] }

theorem snapshot_pure_create (s s' : Store) (gid name ts : Nat) (h : snapCreate s gid name ts = some s') :
    live s' = live s := by
  unfold snapCreate at h
  cases hb : s.backend <;> simp only [hb] at h
  · cases h; simp [live, hb]
  · split at h
    · cases h; rfl
    · split at h
      · cases h
      · split at h
        · split at h
          · cases h; simp [live, hb]
          · cases h
        · cases h; simp [live, hb]

theorem snapshot_pure_release (s : Store) (gid name : Nat) : live (snapRelease s gid name) = live s := rfl
theorem snapshot_pure_prune (s : Store) (t : Nat) : live (snapPrune s t).1 = live s := rfl
theorem snapshot_pure_list (s : Store) (gid : Nat) : (step s (.snapList gid)).1 = s := rfl

/-! ### retake_replaces: re-taking a snapshot under an existing name replaces it -/

theorem find_dropSnap_append (l : List Snap) (p : Snap) (gid name : Nat) (hg : p.gid = gid) (hn : p.name = name) :
    (dropSnap gid name l ++ [p]).find? (fun q => q.gid == gid && q.name == name) = some p := by
  rw [List.find?_append]
  have : (dropSnap gid name l).find? (fun q => q.gid == gid && q.name == name) = none := by
    apply List.find?_eq_none.mpr
    intro a ha
    simp only [dropSnap, List.mem_filter] at ha
    have h2 := ha.2
    simp only [Bool.not_eq_true', Bool.and_eq_false_iff, beq_eq_false_iff_ne] at h2
    simp only [Bool.and_eq_true, beq_iff_eq, not_and]
    intro h1
    rcases h2 with h2 | h2
    · exact absurd h1 h2
    · exact h2
  simp [this, hg, hn]

/-- on both backends a successful (re-)take leaves exactly the new snapshot under that name.
    (SQLite: depends on `Generated.sqlSnapshotRetakeReplaces`.) -/
theorem retake_replaces (s s' : Store) (gid name ts : Nat)
    (hrows : (takeSnap s gid name ts).rows ≠ 0 ∨ s.backend = .mem)
    (h : snapCreate s gid name ts = some s') :
    findSnap s' gid name = some (takeSnap s gid name ts) := by
  unfold snapCreate at h
  cases hb : s.backend with
  | mem =>
    simp only [hb] at h
    cases h
    simp only [findSnap]
    exact find_dropSnap_append s.snaps (takeSnap s gid name ts) gid name rfl rfl
  | sql =>
    simp only [hb] at h
    have hr : (takeSnap s gid name ts).rows ≠ 0 := by
      rcases hrows with h | h
      · exact h
      · rw [hb] at h; cases h
    have hr' : ((takeSnap s gid name ts).rows == 0) = false := by simp [hr]
    simp only [hr', Bool.false_eq_true, if_false] at h
    split at h
    · cases h
    · split at h
      · cases h
        simp only [findSnap]
        exact find_dropSnap_append s.snaps (takeSnap s gid name ts) gid name rfl rfl
      · rename_i hnone
        cases h
        simp only [findSnap]
        rw [List.find?_append]
        have : s.snaps.find? (fun p => p.gid == gid && p.name == name) = none := by
          simpa [findSnap] using hnone
        simp [this, takeSnap]

/-- and taking a snapshot of an existing group never fails, whether or not the name is in use -/
theorem retake_succeeds (s : Store) (gid name ts : Nat) (hg : (findGroup s gid).isSome) :
    (snapCreate s gid name ts).isSome := by
  unfold snapCreate
  cases hb : s.backend with
  | mem => simp
  | sql =>
    simp only
    have hgrp : (takeSnap s gid name ts).group.isNone = false := by
      simp only [takeSnap]; cases h : findGroup s gid <;> simp_all
    split
    · simp
    · simp only [hgrp, Bool.false_eq_true, if_false]
      split
      · simp; decide
      · simp

/-! ### every stored snapshot is well formed, in every reachable store -/

def SnapsWF (s : Store) : Prop := ∀ p ∈ s.snaps, SnapWF p

theorem snaps_wf_empty (b : Backend) : SnapsWF (Store.empty b) := by
  intro p hp; simp [Store.empty] at hp

theorem snaps_wf_step (s : Store) (op : Op) (h : SnapsWF s) : SnapsWF (step s op).1 := by
  rcases step_snaps s op with he | ⟨g, n, t, rfl⟩ | ⟨g, n, rfl⟩ | ⟨g, n, rfl⟩ | ⟨t, rfl⟩
  · intro p hp; rw [he] at hp; exact h p hp
  · -- create: the only new snapshot is `takeSnap`
    intro p hp
    simp only [step, okErr] at hp
    cases hc : snapCreate s g n t with
    | none => simp only [hc] at hp; exact h p hp
    | some s' =>
      simp only [hc] at hp
      unfold snapCreate at hc
      have sub : ∀ q ∈ dropSnap g n s.snaps, SnapWF q := fun q hq => h q (List.mem_filter.mp hq).1
      cases hb : s.backend <;> simp only [hb] at hc
      · cases hc
        rcases List.mem_append.mp hp with hp | hp
        · exact sub p hp
        · simp at hp; subst hp; exact takeSnap_wf s g n t
      · repeat' split at hc
        all_goals (cases hc)
        · exact h p hp
        · rcases List.mem_append.mp hp with hp | hp
          · exact sub p hp
          · simp at hp; subst hp; exact takeSnap_wf s g n t
        · rcases List.mem_append.mp hp with hp | hp
          · exact h p hp
          · simp at hp; subst hp; exact takeSnap_wf s g n t
  · -- rollback: only removes
    intro p hp
    simp only [step, okErr] at hp
    cases hc : snapRollback s g n with
    | none => simp only [hc] at hp; exact h p hp
    | some s' =>
      simp only [hc] at hp
      cases hf : findSnap s g n with
      | none => simp [snapRollback, hf] at hc
      | some q =>
        have hq := (findSnap_spec hf).1
        rw [(restore_frame s s' g n q hf (h q hq) hc).2.2.2.2.2] at hp
        exact h p (List.mem_filter.mp hp).1
  · intro p hp
    simp only [step, snapRelease, dropSnap] at hp
    exact h p (List.mem_filter.mp hp).1
  · intro p hp
    simp only [step, snapPrune] at hp
    exact h p (List.mem_filter.mp hp).1

/-- in every store reachable from the empty one by any operation sequence, every stored snapshot
    is well formed — so `restore_exact` / `restore_frame` apply to every rollback of every history -/
theorem snaps_wf_reachable (b : Backend) (ops : List Op) : SnapsWF (run (Store.empty b) ops) := by
  have : ∀ (ops : List Op) (s : Store), SnapsWF s → SnapsWF (run s ops) := by
    intro ops
    induction ops with
    | nil => intro s h; exact h
    | cons o os ih => intro s h; exact ih _ (snaps_wf_step s o h)
  exact this ops _ (snaps_wf_empty b)

/-- **C09 for every history**: after any operation sequence on either backend, a successful rollback
    restores the group exactly and leaves everything else intact -/
theorem C09_rollback_any_history (b : Backend) (ops : List Op) (gid name : Nat) (s' : Store)
    (hr : snapRollback (run (Store.empty b) ops) gid name = some s') :
    ∃ p, findSnap (run (Store.empty b) ops) gid name = some p ∧
      findGroup s' gid = p.group ∧ (alookup gid s'.relays).getD [] = p.relays ∧
      groupSecrets s' gid = p.secrets ∧ groupMls s' gid = p.mls ∧
      s'.msgs = (run (Store.empty b) ops).msgs ∧ s'.pms = (run (Store.empty b) ops).pms ∧
      s'.welcomes = (run (Store.empty b) ops).welcomes ∧ s'.pws = (run (Store.empty b) ops).pws ∧
      s'.snaps = dropSnap gid name (run (Store.empty b) ops).snaps ∧
      (∀ k, k ≠ gid → findGroup s' k = findGroup (run (Store.empty b) ops) k ∧
          alookup k s'.relays = alookup k (run (Store.empty b) ops).relays ∧
          groupSecrets s' k = groupSecrets (run (Store.empty b) ops) k ∧
          groupMls s' k = groupMls (run (Store.empty b) ops) k) := by
  cases hf : findSnap (run (Store.empty b) ops) gid name with
  | none => simp [snapRollback, hf] at hr
  | some p =>
    have hwf := snaps_wf_reachable b ops p (findSnap_spec hf).1
    obtain ⟨e1, e2, e3, e4⟩ := restore_exact _ s' gid name p hf hwf hr
    obtain ⟨f0, f1, f2, f3, f4, f5⟩ := restore_frame _ s' gid name p hf hwf hr
    exact ⟨p, rfl, e1, e2, e3, e4, f1, f2, f3, f4, f5, f0⟩

/-- non-vacuity: a concrete history with two groups, messages, a snapshot, later writes and a rollback -/
def exOps : List Op :=
  [ .saveGroup { gid := 1, nid := 11, nameLen := 1, descLen := 0, admins := 1, img := 0, lastId := none, lastAt := none, lastProc := none, epoch := 0, state := 0, selfUpd := 0 },
    .saveGroup { gid := 2, nid := 12, nameLen := 1, descLen := 0, admins := 1, img := 0, lastId := none, lastAt := none, lastProc := none, epoch := 0, state := 0, selfUpd := 0 },
    .saveSecret 1 0 7, .mlsWrite 1 0 5, .replaceRelays 1 [1, 2],
    .snapCreate 1 3 1000,
    .saveMessage { id := 7, gid := 1, pk := 0, kind := 9, created := 100, processed := 101, content := 0, contentLen := 4, tag := 0, wrapper := 5, epoch := some 1, state := 1 },
    .saveGroup { gid := 1, nid := 11, nameLen := 2, descLen := 0, admins := 1, img := 0, lastId := none, lastAt := none, lastProc := none, epoch := 1, state := 0, selfUpd := 0 },
    .saveSecret 1 1 8, .mlsWrite 1 0 6 ]

example : (snapRollback (run (Store.empty .sql) exOps) 1 3).isSome = true := by decide
example : ((snapRollback (run (Store.empty .sql) exOps) 1 3).map (·.msgs.length)) = some 1 := by decide
example : ((snapRollback (run (Store.empty .mem) exOps) 1 3).map (fun s => (findGroup s 1).map (·.epoch))) = some (some 0) := by decide

end MdkVerif.Props.C09
