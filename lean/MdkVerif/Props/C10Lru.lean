import MdkVerif.Model.Lru
import MdkVerif.Model.MemLru
import MdkVerif.Proofs.Lru
import MdkVerif.Proofs.MemLru
import MdkVerif.Proofs.MemLruVis
/-
  C10 (and the storage side of C08 / C09) for the memory backend AS IT IS BUILT: nine `lru::LruCache`s of
  `cache_size` entries each plus a per-group message cap (`Model/Lru.lean`, `Model/MemLru.lean`).

  (a) `lru_refines_map`      while at most `cap` distinct keys are in play a cache IS the unbounded map;
  (b) `lru_evicts_lru`       at capacity a `put` of a new key evicts exactly the least recently used key;
      `lru_size_le_cap`      never more than `cap` entries, for ALL operation sequences;
  (c) `mem_within_capacity_eq_unbounded`  the memory backend with its caches agrees, observation by
      observation, with the unbounded `.mem` model of `Model/Store.lean` on every history that stays within
      the capacities (`WithinCapRun`, decidable), whatever order the `HashMap`s iterate in;
      `backends_equal_lru_partial`        hence C10's `backends_equal_partial` holds for the REAL memory backend;
  (d) `index_consistent`     over ALL histories — beyond the capacities too — whatever
      `find_group_by_nostr_group_id` answers is the record `find_group_by_mls_group_id` holds for that group and
      carries the id asked for, PROVIDED no rollback brings back a nostr id another held group carries
      (`NoCollisionRun`; that collision is the open finding restore-nostr-id-collision);
      `index_full_false`     without the proviso and beyond the capacity the statement is false
      (`witness_index_ghost`, replayed on the implementation: corpus/C10lru/index_ghost_after_collision.trace).
  Beyond the capacities (outside C10's "documented limits") the backend forgets: §5 records what that does to C09
  and C08 as closed witnesses.
-/
namespace MdkVerif.Props.C10Lru
open MdkVerif MdkVerif.Store MdkVerif.Lru MdkVerif.MemLru

/-! ### (a) refinement of one cache to the unbounded association list -/

/-- from ANY well-formed cache, for ALL operation sequences over a key set `T` of at most `cap` keys that also
    contains the keys already held: every `get` / `peek` / `contains` / `pop` answers as the plain association list
    does, and no `put` evicts anything -/
theorem lru_refines_map {κ α : Type} [DecidableEq κ] (c : Lru κ α) (T : List κ) (ops : List (LOp κ α))
    (hwf : c.WF) (hT : T.length ≤ c.cap) (hc : ∀ k ∈ keys c.items, k ∈ T) (ho : ∀ o ∈ ops, o.key ∈ T) :
    c.observe ops = mapObserve c.items ops :=
  observe_sim ops c c.items T hwf hT (fun _ => rfl) hc ho

/-- from the empty cache: at most `cap` DISTINCT keys touched -/
theorem lru_refines_map_fresh {κ α : Type} [DecidableEq κ] (cap : Nat) (hcap : 0 < cap) (ops : List (LOp κ α))
    (h : (ops.map LOp.key).eraseDups.length ≤ cap) :
    (Lru.empty cap : Lru κ α).observe ops = mapObserve [] ops :=
  lru_refines_map (Lru.empty cap) ((ops.map LOp.key).eraseDups) ops (wf_empty cap hcap) h
    (fun _ hk => by simp [Lru.empty, keys] at hk)
    (fun o ho => List.mem_eraseDups.mpr (List.mem_map_of_mem ho))

/-- non-vacuity: three keys in a cache of three, with re-puts, a pop and promoting reads -/
example : ((([LOp.put 1 10, .put 2 20, .get 1, .put 3 30, .put 2 21, .pop 1, .put 1 11, .peek 2, .contains 3] :
    List (LOp Nat Nat)).map LOp.key).eraseDups.length ≤ 3) := by decide

/-- one key more than the capacity and the cache is NOT the map any more -/
theorem lru_refines_map_needs_bound :
    (Lru.empty 2 : Lru Nat Nat).observe [.put 1 10, .put 2 20, .put 3 30, .peek 1] ≠
      mapObserve [] [.put 1 10, .put 2 20, .put 3 30, .peek 1] := by decide

/-! ### (b) eviction -/

/-- a NEW key put into a FULL cache pushes out exactly the last entry of the recency order — the entry whose last
    `get` / `put` lies furthest back — and nothing else: every other key keeps its value, the new key has its value,
    the order of the survivors is kept with the new key in front -/
theorem lru_evicts_lru {κ α : Type} [DecidableEq κ] (c : Lru κ α) (h : c.WF) (k : κ) (v : α)
    (hnew : c.contains k = false) (hfull : c.len = c.cap) :
    ∃ e, c.items.getLast? = some e ∧ (c.put k v).2 = some e ∧ e.1 ≠ k ∧
      (c.put k v).1.items = (k, v) :: c.items.dropLast ∧
      (c.put k v).1.peek k = some v ∧ (c.put k v).1.peek e.1 = none ∧
      ∀ k', k' ≠ k → k' ≠ e.1 → (c.put k v).1.peek k' = c.peek k' := by
  have hn : lookup k c.items = none := by
    simp only [Lru.contains] at hnew
    cases hl : lookup k c.items with
    | none => rfl
    | some x => rw [hl] at hnew; simp at hnew
  exact put_full c h k v hn hfull

/-- a `put` of a held key, or into a cache that is not full, evicts nothing and touches no other key -/
theorem lru_put_keeps_others {κ α : Type} [DecidableEq κ] (c : Lru κ α) (k : κ) (v : α)
    (h : c.contains k = true ∨ c.len < c.cap) (k' : κ) :
    (c.put k v).2 = none ∧ (c.put k v).1.peek k' = if k' = k then some v else c.peek k' :=
  peek_put_noevict c k v h k'

/-- for ALL operation sequences: never more than `cap` entries, keys pairwise distinct -/
theorem lru_size_le_cap {κ α : Type} [DecidableEq κ] (cap : Nat) (hcap : 0 < cap) (ops : List (LOp κ α)) :
    ((Lru.empty cap : Lru κ α).run ops).len ≤ cap ∧ (keys ((Lru.empty cap : Lru κ α).run ops).items).Nodup := by
  have h := wf_run (Lru.empty cap : Lru κ α) (wf_empty cap hcap) ops
  have hc : ((Lru.empty cap : Lru κ α).run ops).cap = cap := by
    have : ∀ (ops : List (LOp κ α)) (c : Lru κ α), (c.run ops).cap = c.cap := by
      intro ops
      induction ops with
      | nil => intro c; rfl
      | cons o os ih =>
        intro c
        show ((c.step o).1.run os).cap = c.cap
        rw [ih]
        cases o with
        | get k => simp only [Lru.step, Lru.get]; split <;> rfl
        | peek k => rfl
        | contains k => rfl
        | put k v => simp only [Lru.step, Lru.put]; split; rfl; split <;> rfl
        | pop k => rfl
    rw [this]; rfl
  exact ⟨by have := h.size; rw [hc] at this; exact this, h.nodup⟩

/-- the way `Model/MemLru.lean` carries a cache — content table plus recency queue of its keys — is the same
    cache: the keys of the recency-ordered list follow `qTouch` / `qPromote` / `qRemove`, the evicted key is the one
    the queue pushes out, and the content is the plain map update minus that key -/
theorem lru_layered {κ α : Type} [DecidableEq κ] (c : Lru κ α) (h : c.WF) (k : κ) (v : α) :
    keys (c.put k v).1.items = (qTouch c.cap k (keys c.items)).1 ∧
    (c.put k v).2.map Prod.fst = (qTouch c.cap k (keys c.items)).2 ∧
    (∀ k', lookup k' (c.put k v).1.items =
      if (c.put k v).2.map Prod.fst = some k' then none else lookup k' (Lru.insert k v c.items)) ∧
    keys (c.get k).1.items = qPromote k (keys c.items) ∧
    keys (c.pop k).1.items = qRemove k (keys c.items) :=
  ⟨(keys_put c k v).1, (keys_put c k v).2, fun k' => lookup_put c h k v k', keys_get c k, keys_pop c k⟩

/-! ### (c) within the capacities the memory backend is the unbounded `.mem` model -/

/-- for EVERY history whose unbounded run stays within the capacities (`WithinCapRun`: at most `cap` group records,
    index entries, relay sets, exporter secrets, welcomes, processed welcomes, processed messages and groups with
    messages, at most `msgCap` messages per group, after every operation) and for EVERY resolution `ch` of the map-order choice of a restore: the observations are those of the unbounded `.mem` store, and so is the content -/
theorem mem_within_capacity_eq_unbounded (cap msgCap : Nat) (ops : List (Op × List Nat))
    (hw : WithinCapRun cap msgCap (Store.empty .mem) (ops.map (·.1)) = true) :
    MemLru.observe (MemStore.empty cap msgCap) ops = (Store.observe (Store.empty .mem, []) (ops.map (·.1))).2 ∧
    (MemLru.run (MemStore.empty cap msgCap) ops).u = (Store.observe (Store.empty .mem, []) (ops.map (·.1))).1 :=
  observe_within ops (MemStore.empty cap msgCap) (cinv_empty cap msgCap) hw

/-- C10 for the real memory backend: within the capacities and within both backends' limits (`WLrun`, Props/C10)
    the LRU-backed memory backend and the SQLite backend give the same observations -/
theorem backends_equal_lru_partial (cap msgCap : Nat) (ops : List (Op × List Nat))
    (hc : WithinCapRun cap msgCap (Store.empty .mem) (ops.map (·.1)) = true)
    (hw : WLrun (Store.empty .mem) (ops.map (·.1)) = true) :
    MemLru.observe (MemStore.empty cap msgCap) ops = (Store.observe (Store.empty .sql, []) (ops.map (·.1))).2 := by
  rw [(mem_within_capacity_eq_unbounded cap msgCap ops hc).1]
  exact (observe_agree (ops.map (·.1)) _ _ [] agree_empty hw).1

def grp (gid nid : Nat) : Group :=
  { gid := gid, nid := nid, nameLen := 1, descLen := 0, admins := 1, img := 0, lastId := none, lastAt := none,
    lastProc := none, epoch := 0, state := 0, selfUpd := 0 }

def msg (id gid created : Nat) : Msg :=
  { id := id, gid := gid, pk := 0, kind := 9, created := created, processed := created, content := 1, contentLen := 8,
    tag := 0, wrapper := id, epoch := some 1, state := 1 }

/-- non-vacuity: two groups, relays, two secrets, a message, a snapshot, a rotation of the nostr id, a rollback,
    lookups and a dump fit `cache_size` 2 / one message per group, and are within `WL` -/
def exWithin : List Op :=
  [.saveGroup (grp 1 11), .saveGroup (grp 2 12), .replaceRelays 1 [3, 1], .saveSecret 1 0 7, .saveMessage (msg 1 1 100),
   .snapCreate 1 1 1000, .saveSecret 1 1 8, .saveGroup (grp 1 15), .snapRollback 1 1, .findGroupNostr 11,
   .messages 1 none none none, .dump]

example : WithinCapRun 2 1 (Store.empty .mem) exWithin = true ∧ WLrun (Store.empty .mem) exWithin = true := by decide

/-- the hypothesis is needed: one group more than `cache_size` and the backend answers differently from the
    unbounded model (the first group is gone) -/
theorem mem_beyond_capacity_differs :
    MemLru.observe (MemStore.empty 1 10) [(.saveGroup (grp 1 11), []), (.saveGroup (grp 2 12), []), (.findGroup 1, [])] ≠
      (Store.observe (Store.empty .mem, []) [.saveGroup (grp 1 11), .saveGroup (grp 2 12), .findGroup 1]).2 ∧
    WithinCapRun 1 10 (Store.empty .mem) [.saveGroup (grp 1 11), .saveGroup (grp 2 12), .findGroup 1] = false := by decide

/-! ### (d) the two group caches never disagree — all histories, beyond the capacities too -/

/-- what a caller of the two lookups may rely on -/
def IndexOK (s : MemStore) : Prop :=
  ∀ n g, (findGroupNostr s.u n = some g → g.nid = n ∧ findGroup s.u g.gid = some g) ∧
         (findGroup s.u n = some g → findGroupNostr s.u g.nid = some g)

/-- for ALL histories and ALL choices, any `cache_size ≥ 1`, any message cap: if no rollback brings back a nostr id
    that another held group carries (`NoCollisionRun`, decidable), then
    * whatever `find_group_by_nostr_group_id n` returns carries the id `n` and is exactly the record
      `find_group_by_mls_group_id` returns for its group — never another group's record, never a stale copy, never a
      group the primary cache has dropped;
    * every group the primary cache holds is found under the nostr id its record carries.
    Evictions do not disturb this: the two caches evict in step (`Paired`). -/
theorem index_consistent (cap msgCap : Nat) (hcap : 0 < cap) (ops : List (Op × List Nat))
    (hnc : NoCollisionRun (MemStore.empty cap msgCap) ops = true) :
    IndexOK (MemLru.run (MemStore.empty cap msgCap) ops) :=
  fun n g => paired_lookups _ (run_paired ops _ (pinv_empty cap msgCap hcap) hnc) n g

/-- non-vacuity: cache_size 1, three groups saved in turn (each save evicts the previous record from BOTH
    caches), a rotation, a snapshot and a rollback of a group that was evicted in between -/
def exPaired : List (Op × List Nat) :=
  [(.saveGroup (grp 1 11), []), (.snapCreate 1 1 1000, []), (.saveGroup (grp 2 12), []), (.saveGroup (grp 2 13), []),
   (.saveGroup (grp 3 14), []), (.snapRollback 1 1, []), (.findGroupNostr 11, [])]

example : NoCollisionRun (MemStore.empty 1 1) exPaired = true ∧
    (MemLru.run (MemStore.empty 1 1) exPaired).evlog.length = 6 := by decide

/-- the full statement (no proviso) … -/
def index_full : Prop :=
  ∀ (cap msgCap : Nat), 0 < cap → ∀ ops : List (Op × List Nat), IndexOK (MemLru.run (MemStore.empty cap msgCap) ops)

/-- … fails: after a rollback onto a nostr id that another group has taken (the restore's `put` REPLACES that
    group's index entry, so the index holds one entry fewer than the primary cache) the next new group pushes the
    oldest record out of the primary cache but nothing out of the index — the index still answers with a group the
    primary cache no longer holds.  cache_size 3; corpus/C10lru/index_ghost_after_collision.trace -/
def wGhost : List (Op × List Nat) :=
  [(.saveGroup (grp 3 13), []), (.saveGroup (grp 1 11), []), (.snapCreate 1 1 1000, []),
   (.saveGroup { grp 1 15 with epoch := 1 }, []), (.saveGroup (grp 2 11), []), (.snapRollback 1 1, []),
   (.saveGroup (grp 4 14), [])]

theorem witness_index_ghost :
    findGroupNostr (MemLru.run (MemStore.empty 3 10000) wGhost).u 13 = some (grp 3 13) ∧
    findGroup (MemLru.run (MemStore.empty 3 10000) wGhost).u 3 = none ∧
    NoCollisionRun (MemStore.empty 3 10000) wGhost = false := by decide

theorem index_full_false : ¬ index_full := by
  intro h
  have := (h 3 10000 (by decide) wGhost 13 (grp 3 13)).1 witness_index_ghost.1
  have h3 : findGroup (MemLru.run (MemStore.empty 3 10000) wGhost).u 3 = some (grp 3 13) := this.2
  rw [witness_index_ghost.2.1] at h3
  cases h3

/-! ### beyond the capacities: what eviction does to C09 and to the dependants of a group (closed witnesses,
    every one replayed on the implementation by the `lru` profile's corpus / generator) -/

/-- C09 beyond the capacity: rolling group 1 back (its record had been evicted meanwhile) puts the record into a
    full cache and DESTROYS group 2's record — a rollback of one group that changes another group -/
theorem witness_rollback_evicts_other_group :
    let s := MemLru.run (MemStore.empty 1 10) [(.saveGroup (grp 1 11), []), (.snapCreate 1 1 1000, []), (.saveGroup (grp 2 12), [])]
    findGroup s.u 2 = some (grp 2 12) ∧ findGroup (MemLru.step s (.snapRollback 1 1) []).1.u 2 = none ∧
    findGroup (MemLru.step s (.snapRollback 1 1) []).1.u 1 = some (grp 1 11) := by decide

/-- the record of a group is evicted while its messages, relays and secrets stay cached: listings of that group are
    refused, `find_message_by_event_id` still answers, and saving the record again brings the dependants back -/
theorem witness_evicted_group_keeps_dependants :
    let s := MemLru.run (MemStore.empty 1 10) [(.saveGroup (grp 1 11), []), (.replaceRelays 1 [2], []), (.saveSecret 1 0 7, []),
      (.saveMessage (msg 5 1 100), []), (.saveGroup (grp 2 12), [])]
    (MemLru.step s (.messages 1 none none none) []).2 = "err" ∧
    (MemLru.step s (.relays 1) []).2 = "err" ∧
    findMessage s.u 1 5 = some (msg 5 1 100) ∧
    (MemLru.step (MemLru.step s (.saveGroup (grp 1 11)) []).1 (.relays 1) []).2 = "[2]" ∧
    (MemLru.step (MemLru.step s (.saveGroup (grp 1 11)) []).1 (.getSecret 1 0) []).2 = "some:7" := by decide

/-- since /repo 3a82aa4 the per-group message cap evicts THE last message of the default listing order
    (`created_at`, then `processed_at`, then id — regenerated facts `memCapVictimKeys`, `memCapVictimIsMin`): among
    equally old messages the one with the smallest id, whatever `ch` (before: whichever the map yielded first) -/
theorem witness_message_cap_victim (ch : List Nat) :
    let s := MemLru.run (MemStore.empty 4 2) [(.saveGroup (grp 1 11), []), (.saveMessage (msg 2 1 100), []), (.saveMessage (msg 1 1 100), [])]
    findMessage (MemLru.step s (.saveMessage (msg 3 1 101)) ch).1.u 1 1 = none ∧
    findMessage (MemLru.step s (.saveMessage (msg 3 1 101)) ch).1.u 1 2 = some (msg 2 1 100) ∧
    findMessage (MemLru.step s (.saveMessage (msg 3 1 101)) ch).1.u 1 3 = some (msg 3 1 101) := by
  have hch : ∀ (s : MemStore) (m : Msg), MemLru.step s (.saveMessage m) ch = MemLru.step s (.saveMessage m) [] := fun _ _ => rfl
  simp only [hch]
  decide

/-- reads never promote: after reading the oldest record a new record still pushes it out; a write does promote -/
theorem witness_reads_do_not_promote :
    let s := MemLru.run (MemStore.empty 2 10) [(.saveGroup (grp 1 11), []), (.saveGroup (grp 2 12), [])]
    findGroup (MemLru.run s [(.findGroup 1, []), (.findGroupNostr 11, []), (.allGroups, []), (.saveGroup (grp 3 13), [])]).u 1 = none ∧
    findGroup (MemLru.run s [(.saveGroup (grp 1 11), []), (.saveGroup (grp 3 13), [])]).u 1 = some (grp 1 11) ∧
    findGroup (MemLru.run s [(.saveGroup (grp 1 11), []), (.saveGroup (grp 3 13), [])]).u 2 = none := by decide

/-! ### `messages_cache` is write-only, and what a rollback can never touch -/

/-- `messages_cache` (by message id) is written by `save_message` / `invalidate_messages_after_epoch` and read by no
    trait method: for ALL histories, two backends that differ only in that cache (content, recency order) and in the
    eviction log give the same observations and still differ only there.  So its capacity, its evictions and the
    unobservable map order in which `invalidate_messages_after_epoch` promotes its entries cannot matter. -/
theorem messages_cache_unobservable (ops : List (Op × List Nat)) (a b : MemStore) (h : vis a = vis b) :
    MemLru.observe a ops = MemLru.observe b ops ∧ vis (MemLru.run a ops) = vis (MemLru.run b ops) := by
  induction ops generalizing a b with
  | nil => exact ⟨rfl, h⟩
  | cons oc os ih =>
    obtain ⟨o, ch⟩ := oc
    obtain ⟨h1, h2⟩ := vis_step a b h o ch
    obtain ⟨i1, i2⟩ := ih _ _ h2
    exact ⟨by simp only [MemLru.observe, h1, i1], i2⟩

/-- C09's frame, the part that survives beyond the capacities: whatever the fill level and whatever a rollback
    evicts, it never changes a stored message, a dedup record, a welcome or a processed-welcome record, nor the
    recency order of their caches (what it CAN evict beyond the capacity: other groups' records, relay sets and
    exporter secrets — `witness_rollback_evicts_other_group`) -/
theorem rollback_keeps_messages_and_records (s : MemStore) (hb : s.u.backend = .mem) (gid name : Nat) (ch : List Nat)
    (s' : MemStore) (h : MemLru.snapRollback s gid name ch = some s') :
    s'.u.msgs = s.u.msgs ∧ s'.u.pms = s.u.pms ∧ s'.u.welcomes = s.u.welcomes ∧ s'.u.pws = s.u.pws ∧
    s'.qMsgGroups = s.qMsgGroups ∧ s'.qPms = s.qPms ∧ s'.qWelcomes = s.qWelcomes ∧ s'.qPws = s.qPws := by
  have f := rframe_snapRollback s hb gid name ch s' h
  exact ⟨f.msgs, f.pms, f.welcomes, f.pws, f.q1, f.q2, f.q3, f.q4⟩

end MdkVerif.Props.C10Lru
