import MdkVerif.Model.Codec
import MdkVerif.Model.Tags
import MdkVerif.Proofs.Codec
import MdkVerif.Proofs.Tags
/-
  C15 — Wire formats round-trip and parsers accept nothing ambiguous.
  Property theorems only (helper lemmas live in Proofs/Codec.lean and Proofs/Tags.lean).

  Every theorem about the group-data extension holds for EVERY `Env` (= every notion of UTF-8
  validity and every `RelayUrl::parse`), every value, every byte string — no size bound.
-/
namespace MdkVerif.Props.C15
open MdkVerif MdkVerif.Codec MdkVerif.Tags List

/-! ### 1. the variable-length length prefix (tls_codec, `mls` feature) -/

/-- every length below 2^30 has an encoding -/
theorem vlen_total (n : Nat) (h : n < 1073741824) : ∃ hdr, encLen n = some hdr :=
  encLen_isSome n h

/-- lengths of 2^30 and more are refused by the encoder -/
theorem vlen_cap (n : Nat) (h : 1073741824 ≤ n) : encLen n = none := by
  unfold encLen
  rw [if_neg (by omega), if_neg (by omega), if_neg (by omega)]

/-- reading back a written prefix gives the length, the prefix width, and leaves the rest untouched -/
theorem vlen_roundtrip (n : Nat) (hdr tl : Bytes) (h : encLen n = some hdr) :
    decLen (hdr ++ tl) = some (n, hdr.length, tl) :=
  decLen_encLen n tl hdr h

/-- the prefix the reader accepts is exactly the one the writer produces: a non-minimal prefix
    (and the 8-byte form) is refused, so a length has ONE accepted spelling -/
theorem vlen_minimal (bs : Bytes) (hb : isBytes bs = true) (n k : Nat) (rest : Bytes)
    (h : decLen bs = some (n, k, rest)) :
    ∃ hdr, encLen n = some hdr ∧ bs = hdr ++ rest ∧ k = hdr.length :=
  decLen_canonical bs hb n k rest h

theorem vlen_unique (a b : Bytes) (ha : isBytes a = true) (hb : isBytes b = true) (n ka kb : Nat) (ra rb : Bytes)
    (h1 : decLen a = some (n, ka, ra)) (h2 : decLen b = some (n, kb, rb)) :
    a.take ka = b.take kb := by
  obtain ⟨h, e1, rfl, rfl⟩ := vlen_minimal a ha n ka ra h1
  obtain ⟨h', e2, rfl, rfl⟩ := vlen_minimal b hb n kb rb h2
  rw [e1] at e2; cases e2; simp

example : decLen [64, 5] = none := by decide               -- 5 spelled with two bytes
example : decLen [128, 0, 0, 5, 9] = none := by decide     -- 5 spelled with four bytes
example : decLen [192, 0, 0, 0, 0, 0, 0, 5] = none := by decide   -- 8-byte form
example : decLen [5, 9] = some (5, 1, [9]) := by decide
example : isBytes [64, 5] = true := by decide

/-! ### 2. the group-data extension -/

/-- every well-formed value serialises -/
theorem encode_total (env : Env) (x : Ext) (h : x.WF env) : ∃ bs, encode x = some bs :=
  encode_isSome env x h

/-- **round trip**: for every well-formed extension value — any UTF-8 name / description, any admin
    and relay sets, every presence pattern of the four optional image fields, version 1..65535 —
    deserialising what was serialised gives back the value -/
theorem decode_encode (env : Env) (x : Ext) (h : x.WF env) (bs : Bytes) (he : encode x = some bs) :
    decode env bs = .ok x := by
  have hd := decRaw_encRaw (asRaw x) bs [] he h.gid.1 (fun a ha => (h.admins.1 a ha).1)
  rw [List.append_nil] at hd
  simp only [decode, hd, List.isEmpty_nil, if_true]
  exact fromRaw_asRaw env x h

/-- **trailing bytes** after a valid encoding are refused -/
theorem reject_trailing (env : Env) (x : Ext) (h : x.WF env) (bs t : Bytes) (he : encode x = some bs)
    (ht : t ≠ []) : decode env (bs ++ t) = .error .trailing := by
  have hd := decRaw_encRaw (asRaw x) bs t he h.gid.1 (fun a ha => (h.admins.1 a ha).1)
  have : t.isEmpty = false := by cases t <;> simp_all
  simp [decode, hd, this]

/-- **version 0** is never accepted, whatever the bytes -/
theorem reject_version0 (env : Env) (bs : Bytes) (x : Ext) (h : decode env bs = .ok x) : 1 ≤ x.version := by
  unfold decode at h
  split at h
  · cases h
  · split at h
    · exact Nat.one_le_iff_ne_zero.mpr (fromRaw_ok_version env _ x h)
    · cases h

theorem reject_version0_raw (env : Env) (raw : Raw) (h : raw.version = 0) :
    fromRaw env raw = .error .version0 := by
  simp [fromRaw, h]

/-- **fixed lengths**: an accepted value carries image hash / key / upload key of exactly 32 bytes and a
    nonce of exactly 12 bytes, or none; a field of any other length is refused, whatever the bytes -/
theorem reject_bad_len (env : Env) (bs : Bytes) (x : Ext) (h : decode env bs = .ok x) :
    (∀ b, x.ih = some b → b.length = 32) ∧ (∀ b, x.ik = some b → b.length = 32) ∧
    (∀ b, x.inn = some b → b.length = 12) ∧ (∀ b, x.iu = some b → b.length = 32) := by
  unfold decode at h
  split at h
  · cases h
  · split at h
    · exact fromRaw_ok_lengths env _ x h
    · cases h

theorem reject_bad_len_raw (env : Env) (raw : Raw) (x : Ext)
    (hbad : (raw.ih.length ≠ 0 ∧ raw.ih.length ≠ 32) ∨ (raw.ik.length ≠ 0 ∧ raw.ik.length ≠ 32) ∨
            (raw.inn.length ≠ 0 ∧ raw.inn.length ≠ 12) ∨ (raw.iu.length ≠ 0 ∧ raw.iu.length ≠ 32)) :
    fromRaw env raw ≠ .ok x :=
  fromRaw_bad_len env raw x hbad

/-- the facts of the source the codec model rests on (re-extracted on every run) -/
theorem layout_facts : Generated.extLayoutAsModelled = true ∧ Generated.extTrailingBytesChecked = true := by decide

/-- non-vacuity: a concrete well-formed value with unicode, two admins, two relays, two optional fields -/
def sample : Ext :=
  { version := 2, gid := List.replicate 32 7, name := [240, 159, 166, 128, 32, 103], desc := [],
    admins := [List.replicate 32 1, List.replicate 32 2],
    relays := [{ key := [119, 115, 115, 58, 47, 47, 97, 46, 105, 111, 47], text := [119, 115, 115, 58, 47, 47, 97, 46, 105, 111] },
               { key := [119, 115, 115, 58, 47, 47, 98, 46, 105, 111, 47, 120], text := [119, 115, 115, 58, 47, 47, 98, 46, 105, 111, 47, 120] }],
    ih := some (List.replicate 32 9), ik := none, inn := some (List.replicate 12 3), iu := none }

example : (encode sample).isSome = true := by decide
example : sample.WF stdEnv :=
  ⟨by decide, by decide, by decide, by decide, by decide, by decide, by decide, by decide, by decide, by decide, by decide⟩
set_option maxRecDepth 20000 in
example : decodesTo (decode stdEnv ((encode sample).getD [])) sample = true := by decide
set_option maxRecDepth 20000 in
example : failsWith (decode stdEnv ((encode sample).getD [] ++ [0])) .trailing = true := by decide

/-! ### 3. hex and the `h` tag -/

theorem hex_roundtrip (b : Bytes) (hb : isBytes b = true) : hexDec (hexEnc b) = some b :=
  hexDec_hexEnc b hb

theorem hex_length (s b : Bytes) (h : hexDec s = some b) : s.length = 2 * b.length :=
  hexDec_length s b h

/-- the `h` tag written for a 32-byte group id is read back as that id -/
theorem gid_roundtrip (g : Bytes) (hb : isBytes g = true) (hl : g.length = 32) :
    extractGid [{ name := .h, vals := [hexEnc g] }] = .ok g := by
  have h1 : (hexEnc g).length = 64 := by rw [hexEnc_length, hl]
  simp [extractGid, Tag.content, h1, hexDec_hexEnc g hb, hl]

/-- an accepted `h` tag is unique, 64 characters long, and decodes to exactly 32 bytes -/
theorem gid_length_check (tags : List Tag) (g : Bytes) (h : extractGid tags = .ok g) :
    g.length = 32 ∧ ∃ t v, tags.filter (fun t => t.name == .h) = [t] ∧ t.content = some v ∧
      v.length = 64 ∧ hexDec v = some g :=
  extractGid_ok tags g h

/-! ### 4. key-package events -/

/-- `validate_key_package_tags` accepts **iff** the explicit predicate `KpTagsSpec` holds:
    version = "1.0" ∧ ciphersuite = "0x0001" ∧ extensions ⊇ required (all well-formed) ∧ ≥ 1 relay, all
    valid ∧ exactly one non-empty hex `i` value — each read from the FIRST tag of its kind -/
theorem kp_tags_accept_iff (env : Env) (tags : List Tag) : kpTagsOk env tags = true ↔ KpTagsSpec env tags :=
  kpTagsOk_iff env tags

/-- `parse_key_package` accepts **iff** kind = 443, the tags are valid, some `encoding` tag says base64,
    the content is a valid key package, its credential identity is the event author, and the first
    `i` tag decodes to the key package's reference -/
theorem kp_accept_iff (env : Env) (ev : KpEvent) :
    parseKp env ev = .ok ↔
      ev.kind = Generated.kindMlsKeyPackage ∧ KpTagsSpec env ev.tags ∧ hasBase64Encoding ev.tags = true ∧
      ev.content = .ok ∧ ev.credIdentity.length = 32 ∧ ev.credIdentity = ev.author ∧
      iTagBytes ev.tags = some ev.kpRef := by
  rw [parseKp_ok_iff, kpTagsOk_iff]

/-- **binding**: an accepted key-package event has kind 443, its credential identity IS the event's
    author, its first `i` tag IS (the hex of) the computed KeyPackageRef, and it carries an
    `encoding` tag whose value is `base64` up to ASCII case -/
theorem kp_bound (env : Env) (ev : KpEvent) (h : parseKp env ev = .ok) :
    ev.kind = 443 ∧ ev.credIdentity = ev.author ∧
    (∃ t v, firstTag .i ev.tags = some t ∧ t.content = some v ∧ hexDec v = some ev.kpRef) ∧
    (∃ t ∈ ev.tags, t.name = .encoding ∧ ∃ v, t.content = some v ∧ lower v = Generated.encodingTagValue) := by
  obtain ⟨hk, _, he, _, _, hid, hi⟩ := (kp_accept_iff env ev).mp h
  refine ⟨hk, hid, ?_, ?_⟩
  · unfold iTagBytes at hi
    cases hf : firstTag .i ev.tags with
    | none => simp [hf] at hi
    | some t =>
      cases hc : t.content with
      | none => simp [hf, hc] at hi
      | some v => simp only [hf, hc] at hi; exact ⟨t, v, rfl, hc, hi⟩
  · unfold hasBase64Encoding at he
    simp only [List.any_eq_true, Bool.and_eq_true, beq_iff_eq] at he
    obtain ⟨t, ht, hn, hv⟩ := he
    cases hc : t.content with
    | none => simp [hc] at hv
    | some v => simp only [hc, beq_iff_eq] at hv; exact ⟨t, ht, hn, v, hc, hv⟩

/-- each mutation the property names is refused (contrapositives of `kp_accept_iff`) -/
theorem kp_reject_wrong_kind (env : Env) (ev : KpEvent) (h : ev.kind ≠ 443) : parseKp env ev ≠ .ok :=
  fun hk => h (kp_bound env ev hk).1
theorem kp_reject_identity (env : Env) (ev : KpEvent) (h : ev.credIdentity ≠ ev.author) : parseKp env ev ≠ .ok :=
  fun hk => h (kp_bound env ev hk).2.1
theorem kp_reject_ref_mismatch (env : Env) (ev : KpEvent) (h : iTagBytes ev.tags ≠ some ev.kpRef) :
    parseKp env ev ≠ .ok :=
  fun hk => h ((kp_accept_iff env ev).mp hk).2.2.2.2.2.2
theorem kp_reject_no_encoding (env : Env) (ev : KpEvent) (h : ∀ t ∈ ev.tags, t.name ≠ .encoding) :
    parseKp env ev ≠ .ok := by
  intro hk
  obtain ⟨t, ht, hn, _⟩ := (kp_bound env ev hk).2.2.2
  exact h t ht hn
theorem kp_reject_bad_tags (env : Env) (ev : KpEvent) (h : ¬ KpTagsSpec env ev.tags) : parseKp env ev ≠ .ok :=
  fun hk => h ((kp_accept_iff env ev).mp hk).2.1

/-- **trailing bytes in the content**: a kind-443 event whose content is a valid key package followed by
    further bytes is refused (`KeyPackageIn::tls_deserialize_exact`; rests on `Generated.kpDeserializeExact`,
    re-extracted on every run — if the reader-based call comes back the fact flips and this proof breaks) -/
theorem kp_reject_trailing_content (env : Env) (ev : KpEvent) (h : ev.content = .trailing) :
    parseKp env ev ≠ .ok := by
  intro hk
  have := ((kp_accept_iff env ev).mp hk).2.2.2.1
  rw [h] at this; cases this

/-- **what the library writes, its own parser accepts** — provided the relay list is not empty -/
theorem kp_create_accepted (env : Env) (relays : List Bytes) (p : Bool) (ref author : Bytes)
    (hne : relays ≠ []) (hr : ∀ r ∈ relays, (env.relayParse r).isSome = true)
    (hb : isBytes ref = true) (hrl : ref ≠ []) (ha : author.length = 32) :
    parseKp env { kind := Generated.kindMlsKeyPackage, tags := kpCreate relays p ref, content := .ok,
                  author := author, credIdentity := author, kpRef := ref } = .ok := by
  have hhex : hexEnc ref ≠ [] := by
    cases ref with
    | nil => exact absurd rfl hrl
    | cons a as => simp [hexEnc]
  have hdec := hexDec_hexEnc ref hb
  have hrel : relaysOk env { name := .relays, vals := relays } = true :=
    (relaysOk_iff env _).mpr ⟨hne, hr⟩
  have hi : iOk { name := .i, vals := [hexEnc ref] } = true :=
    (iOk_iff _).mpr ⟨hexEnc ref, rfl, hhex, by simp [hdec]⟩
  have hpv : pvOk { name := .protoVer, vals := [Generated.kpProtocolVersion] } = true := by
    simp [pvOk, Tag.content]
  have hcs : csOk { name := .ciphersuite, vals := [Generated.kpCiphersuiteTag] } = true := by decide
  have hext : extOk { name := .extensions, vals := Generated.kpCreatedExtensionTags } = true := by decide
  rw [parseKp_ok_iff]
  refine ⟨rfl, ?_, ?_, rfl, ha, rfl, ?_⟩
  · cases p <;> simp [kpTagsOk, kpCreate, firstTag, hpv, hcs, hext, hrel, hi]
  · cases p <;> simp [hasBase64Encoding, kpCreate, Tag.content] <;> decide
  · cases p <;> simp [iTagBytes, kpCreate, firstTag, Tag.content, hdec]

/-- the full-strength statement (no condition on the relay list) — FALSE of the code -/
def kp_create_accepted_full : Prop :=
  ∀ (env : Env) (relays : List Bytes) (p : Bool) (ref author : Bytes),
    (∀ r ∈ relays, (env.relayParse r).isSome = true) → isBytes ref = true → ref ≠ [] → author.length = 32 →
    parseKp env { kind := Generated.kindMlsKeyPackage, tags := kpCreate relays p ref, content := .ok,
                  author := author, credIdentity := author, kpRef := ref } = .ok

/-- witness: `create_key_package_for_event(pk, [])` writes `["relays"]`, which `parse_key_package`
    refuses ("Relays tag must have at least one relay URL") — corpus/C15/zero_relays.trace -/
theorem kp_create_zero_relays_refused : ¬ kp_create_accepted_full := by
  intro h
  have := h stdEnv [] false (List.replicate 32 171) (List.replicate 32 161)
    (by intro r hr; cases hr) (by decide) (by decide) (by decide)
  revert this
  decide

example : ∃ relays : List Bytes, relays ≠ [] ∧ ∀ r ∈ relays, (stdEnv.relayParse r).isSome = true :=
  ⟨[[119, 115, 115, 58, 47, 47, 97, 46, 105, 111]], by decide, by decide⟩

/-! ### 5. welcome rumors -/

/-- the explicit acceptance predicate of `validate_welcome_event` -/
structure WelcomeSpec (env : Env) (r : Rumor) : Prop where
  kind : r.kind = Generated.kindMlsWelcome
  count : Generated.welcomeMinTags ≤ r.tags.length
  relaysValid : ∀ t ∈ r.tags, t.name = .relays → ∀ v ∈ t.vals, (env.relayParse v).isSome = true
  clientNonEmpty : ∀ t ∈ r.tags, t.name = .client → ∃ v, t.content = some v ∧ v ≠ []
  encodingExact : ∀ t ∈ r.tags, t.name = .encoding → t.content = some Generated.encodingTagValue
  hasRelays : ∃ t ∈ r.tags, t.name = .relays ∧ t.vals ≠ []
  hasEvent : ∃ t ∈ r.tags, t.name = .e ∧ ∃ v, t.content = some v ∧ v ≠ []
  hasEncoding : ∃ t ∈ r.tags, t.name = .encoding

theorem welcome_accept_iff (env : Env) (r : Rumor) : validateWelcome env r = true ↔ WelcomeSpec env r := by
  unfold validateWelcome
  rw [wScan_eq]
  constructor
  · intro h
    by_cases hk : r.kind ≠ Generated.kindMlsWelcome
    · rw [if_pos hk] at h; cases h
    · rw [if_neg hk] at h
      by_cases hc : r.tags.length < Generated.welcomeMinTags
      · rw [if_pos hc] at h; cases h
      · rw [if_neg hc] at h
        by_cases hb : r.tags.any (wTagBad env) = true
        · rw [if_pos hb] at h; cases h
        · rw [if_neg hb] at h
          simp only [Bool.false_or, Bool.and_eq_true, List.any_eq_true] at h
          obtain ⟨⟨⟨t1, m1, s1⟩, ⟨t2, m2, s2⟩⟩, ⟨t3, m3, s3⟩⟩ := h
          have hall : ∀ t ∈ r.tags, wTagBad env t = false := by
            intro t ht
            cases hbt : wTagBad env t with
            | false => rfl
            | true => exact absurd (List.any_eq_true.mpr ⟨t, ht, hbt⟩) hb
          simp only [wSetsRelays, Bool.and_eq_true, beq_iff_eq, Bool.not_eq_true', List.isEmpty_eq_false_iff] at s1
          simp only [wSetsE, Bool.and_eq_true, beq_iff_eq] at s2
          simp only [wSetsEnc, beq_iff_eq] at s3
          refine ⟨by simpa using hk, by omega, ?_, ?_, ?_, ⟨t1, m1, s1.1, s1.2⟩, ⟨t2, m2, s2.1, ?_⟩, ⟨t3, m3, s3⟩⟩
          · intro t ht; exact ((wTagBad_false_iff env t).mp (hall t ht)).1
          · intro t ht; exact ((wTagBad_false_iff env t).mp (hall t ht)).2.1
          · intro t ht; exact ((wTagBad_false_iff env t).mp (hall t ht)).2.2
          · cases hc2 : t2.content with
            | none => simp [hc2] at s2
            | some v =>
              have := s2.2; simp only [hc2, Bool.not_eq_true', List.isEmpty_eq_false_iff] at this
              exact ⟨v, rfl, this⟩
  · intro h
    have hk : ¬ r.kind ≠ Generated.kindMlsWelcome := by simp [h.kind]
    have hc : ¬ r.tags.length < Generated.welcomeMinTags := by have := h.count; omega
    have hb : ¬ r.tags.any (wTagBad env) = true := by
      intro hb
      obtain ⟨t, ht, hbt⟩ := List.any_eq_true.mp hb
      have := (wTagBad_false_iff env t).mpr ⟨h.relaysValid t ht, h.clientNonEmpty t ht, h.encodingExact t ht⟩
      rw [this] at hbt; cases hbt
    rw [if_neg hk, if_neg hc, if_neg hb]
    obtain ⟨t1, m1, n1, v1⟩ := h.hasRelays
    obtain ⟨t2, m2, n2, v2, c2, ne2⟩ := h.hasEvent
    obtain ⟨t3, m3, n3⟩ := h.hasEncoding
    have a1 : r.tags.any wSetsRelays = true :=
      List.any_eq_true.mpr ⟨t1, m1, by simp [wSetsRelays, n1, v1]⟩
    have a2 : r.tags.any wSetsE = true :=
      List.any_eq_true.mpr ⟨t2, m2, by simp [wSetsE, n2, c2, ne2]⟩
    have a3 : r.tags.any wSetsEnc = true :=
      List.any_eq_true.mpr ⟨t3, m3, by simp [wSetsEnc, n3]⟩
    simp [a1, a2, a3]

theorem welcome_reject_wrong_kind (env : Env) (r : Rumor) (h : r.kind ≠ 444) : validateWelcome env r = false := by
  cases hv : validateWelcome env r with
  | false => rfl
  | true => exact absurd ((welcome_accept_iff env r).mp hv).kind h

theorem welcome_reject_no_encoding (env : Env) (r : Rumor) (h : ∀ t ∈ r.tags, t.name ≠ .encoding) :
    validateWelcome env r = false := by
  cases hv : validateWelcome env r with
  | false => rfl
  | true =>
    obtain ⟨t, ht, hn⟩ := ((welcome_accept_iff env r).mp hv).hasEncoding
    exact absurd hn (h t ht)

theorem welcome_reject_non_base64 (env : Env) (r : Rumor) (t : Tag) (ht : t ∈ r.tags) (hn : t.name = .encoding)
    (hv : t.content ≠ some Generated.encodingTagValue) : validateWelcome env r = false := by
  cases hval : validateWelcome env r with
  | false => rfl
  | true => exact absurd (((welcome_accept_iff env r).mp hval).encodingExact t ht hn) hv

/-- what the tag writer produces for a non-empty relay list is accepted -/
theorem welcome_tags_accepted (env : Env) (relays : List Bytes) (eid : Bytes)
    (hne : relays ≠ []) (hr : ∀ r ∈ relays, (env.relayParse r).isSome = true) (he : eid ≠ []) :
    validateWelcome env { kind := Generated.kindMlsWelcome, tags := welcomeCreate relays eid } = true := by
  rw [welcome_accept_iff]
  refine ⟨rfl, by simp [welcomeCreate]; decide, ?_, ?_, ?_, ?_, ?_, ?_⟩
  · intro t ht hn v hv
    simp only [welcomeCreate, List.mem_cons, List.not_mem_nil, or_false] at ht
    rcases ht with rfl | rfl | rfl | rfl <;> simp_all
  · intro t ht hn
    simp only [welcomeCreate, List.mem_cons, List.not_mem_nil, or_false] at ht
    rcases ht with rfl | rfl | rfl | rfl <;> simp_all [Tag.content]
    decide
  · intro t ht hn
    simp only [welcomeCreate, List.mem_cons, List.not_mem_nil, or_false] at ht
    rcases ht with rfl | rfl | rfl | rfl <;> simp_all [Tag.content]
  · exact ⟨{ name := .relays, vals := relays }, by simp [welcomeCreate], rfl, hne⟩
  · exact ⟨{ name := .e, vals := [eid] }, by simp [welcomeCreate], rfl, eid, rfl, he⟩
  · exact ⟨{ name := .encoding, vals := [Generated.encodingTagValue] }, by simp [welcomeCreate], rfl⟩

/-- **whatever an invitation produces, `process_welcome` accepts** — the FULL statement, for every relay
    list including the empty one: since the repair "inviting members requires at least one relay"
    (`Generated.inviteRequiresRelay`, re-extracted on every run) an empty relay list produces NO rumor
    (`create_group` / `add_members` return `Err(Error::Group)`), and every rumor that is produced passes
    validation and, with its own (exact) content, the whole of `process_welcome`.  If the precondition is
    removed from the source the fact flips and this proof breaks; the former witness stays in
    corpus/C15/zero_relays.trace as a regression trace. -/
theorem welcome_create_accepted (env : Env) (relays : List Bytes) (eid : Bytes) (tags : List Tag)
    (hr : ∀ r ∈ relays, (env.relayParse r).isSome = true) (he : eid ≠ [])
    (hprod : inviteTags relays eid = some tags) :
    processWelcome env { rumor := { kind := Generated.kindMlsWelcome, tags := tags }, content := .ok } = .ok := by
  have hfact : Generated.inviteRequiresRelay = true := by decide
  unfold inviteTags at hprod
  cases relays with
  | nil => simp [hfact] at hprod
  | cons r rs =>
    simp only [hfact, List.isEmpty_cons, Bool.and_false, Bool.false_eq_true, if_false, Option.some.injEq] at hprod
    subst hprod
    have hv := welcome_tags_accepted env (r :: rs) eid (by simp) hr he
    have henc : hasBase64Encoding (welcomeCreate (r :: rs) eid) = true := by
      simp [hasBase64Encoding, welcomeCreate, Tag.content]; decide
    simp [processWelcome, hv, henc]

/-- an invitation without any relay produces nothing -/
theorem invite_zero_relays_refused (eid : Bytes) : inviteTags [] eid = none := by
  have hfact : Generated.inviteRequiresRelay = true := by decide
  simp [inviteTags, hfact]

example : ∃ tags, inviteTags [[119, 115, 115, 58, 47, 47, 97, 46, 105, 111]] [52, 50] = some tags := ⟨_, rfl⟩

/-- **trailing bytes in the content**: a rumor whose content is a valid MLS welcome message followed by
    further bytes is refused (rests on `Generated.welcomeRejectsTrailing`) -/
theorem welcome_reject_trailing_content (env : Env) (ev : WelcomeEvent) (h : ev.content = .trailing) :
    processWelcome env ev ≠ .ok := by
  have hfact : Generated.welcomeRejectsTrailing = true := by decide
  unfold processWelcome
  rw [h]
  by_cases h1 : validateWelcome env ev.rumor = false
  · simp [h1]
  · by_cases h2 : hasBase64Encoding ev.rumor.tags = false
    · simp [h1, h2]
    · simp [h1, h2, hfact]

/-- `process_welcome` accepts only validated rumors with exact content -/
theorem welcome_process_ok (env : Env) (ev : WelcomeEvent) (h : processWelcome env ev = .ok) :
    WelcomeSpec env ev.rumor ∧ ev.content = .ok := by
  have hfact : Generated.welcomeRejectsTrailing = true := by decide
  unfold processWelcome at h
  by_cases h1 : validateWelcome env ev.rumor = false
  · simp [h1] at h
  · have h1' : validateWelcome env ev.rumor = true := by simpa using h1
    by_cases h2 : hasBase64Encoding ev.rumor.tags = false
    · simp [h1, h2] at h
    · cases hc : ev.content <;> simp [h1, h2, hc, hfact] at h
      exact ⟨(welcome_accept_iff env ev.rumor).mp h1', rfl⟩

/-! ### 6. imeta tags -/

/-- decimal printing and `u32` parsing of dimensions round-trip, for every pair of `u32` values -/
theorem imeta_dim_roundtrip (w h : Nat) (hw : w < 4294967296) (hh : h < 4294967296) :
    parseDim (showNat w ++ 120 :: showNat h) = some (w, h) :=
  parseDim_show w h hw hh

/-- **parse ∘ create**: parsing the tag `create_imeta_tag` writes yields exactly the media reference
    `create_media_reference` builds — for every URL, every canonical allowed MIME type, every valid
    file name, every 32-byte hash, 12-byte nonce, every (optional) `u32 × u32` dimensions and every
    (optional) blurhash -/
theorem imeta_parse_create (u : Upload) (url : Bytes)
    (hm : validateMime u.mime = some u.mime) (hf : filenameOk u.filename = true)
    (hx : isBytes u.hash = true ∧ u.hash.length = 32) (hn : isBytes u.nonce = true ∧ u.nonce.length = 12)
    (hd : ∀ w h, u.dims = some (w, h) → w < 4294967296 ∧ h < 4294967296) :
    imetaParse (imetaCreate u url) = .ok (mediaRefOf u url) :=
  imetaParse_create u url hm hf hx hn (fun w h e => parseDim_show w h (hd w h e).1 (hd w h e).2)

/-- every MIME type of the allow-list (and the escape hatch) is its own canonical form, so the
    hypothesis `hm` above holds for everything `encrypt_for_upload` can produce -/
theorem mime_allowlist_canonical :
    (Generated.escapeHatchMimeType :: Generated.supportedMimeTypes).all (fun m => validateMime m == some m) = true := by
  decide

example : filenameOk [97, 32, 98, 46, 112, 110, 103] = true := by decide
example : validateMime [32, 73, 77, 65, 71, 69, 47, 80, 78, 71, 32, 59, 113] = some [105, 109, 97, 103, 101, 47, 112, 110, 103] := by decide

/-- **what an accepted imeta tag must contain**: the tag is named `imeta`, has ≥ 6 items, a supported
    scheme version, a hash that is the hex of exactly 32 bytes, a nonce that is the hex of exactly 12
    bytes, an allowed MIME type, a valid file name and a URL — each taken from an item of the tag -/
theorem imeta_accept_implies (t : Tag) (r : MediaRef) (h : imetaParse t = .ok r) :
    t.name = .imeta ∧ 6 ≤ t.vals.length ∧ r.version ∈ Generated.supportedSchemeVersions ∧
    r.hash.length = 32 ∧ r.nonce.length = 12 ∧ filenameOk r.filename = true ∧
    (∃ it ∈ t.vals, splitKV it = some (kUrl, r.url)) ∧
    (∃ it ∈ t.vals, ∃ raw, splitKV it = some (kM, raw) ∧ validateMime raw = some r.mime) ∧
    (∃ it ∈ t.vals, splitKV it = some (kFilename, r.filename)) ∧
    (∃ it ∈ t.vals, ∃ v, splitKV it = some (kX, v) ∧ hexDec v = some r.hash) ∧
    (∃ it ∈ t.vals, ∃ v, splitKV it = some (kN, v) ∧ hexDec v = some r.nonce) ∧
    (∃ it ∈ t.vals, splitKV it = some (kV, r.version)) :=
  imetaParse_ok t r h

/-- rejection lemmas: a tag lacking a mandatory field is refused -/
theorem imeta_reject_missing (t : Tag) (k : Bytes) (hk : k ∈ [kUrl, kM, kFilename, kX, kN, kV])
    (hmiss : ∀ it ∈ t.vals, ∀ v, splitKV it ≠ some (k, v)) (r : MediaRef) : imetaParse t ≠ .ok r := by
  intro h
  obtain ⟨_, _, _, _, _, _, ⟨i1, m1, e1⟩, ⟨i2, m2, v2, e2, _⟩, ⟨i3, m3, e3⟩, ⟨i4, m4, v4, e4, _⟩, ⟨i5, m5, v5, e5, _⟩, ⟨i6, m6, e6⟩⟩ :=
    imeta_accept_implies t r h
  simp only [List.mem_cons, List.not_mem_nil, or_false] at hk
  rcases hk with rfl | rfl | rfl | rfl | rfl | rfl
  · exact hmiss i1 m1 _ e1
  · exact hmiss i2 m2 _ e2
  · exact hmiss i3 m3 _ e3
  · exact hmiss i4 m4 _ e4
  · exact hmiss i5 m5 _ e5
  · exact hmiss i6 m6 _ e6

theorem imeta_reject_wrong_name (t : Tag) (h : t.name ≠ .imeta) (r : MediaRef) : imetaParse t ≠ .ok r :=
  fun hk => h (imeta_accept_implies t r hk).1

theorem imeta_reject_version (t : Tag) (r : MediaRef) (h : imetaParse t = .ok r) :
    r.version = Generated.defaultSchemeVersion := by
  have := (imeta_accept_implies t r h).2.2.1
  have hs : Generated.supportedSchemeVersions = [Generated.defaultSchemeVersion] := by decide
  rw [hs] at this
  simpa using this

end MdkVerif.Props.C15
