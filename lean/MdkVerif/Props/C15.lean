import MdkVerif.Model.Codec
import MdkVerif.Model.Tags
import MdkVerif.Proofs.Codec
import MdkVerif.Proofs.Tags
/-
  C15 — Wire formats round-trip and parsers accept nothing ambiguous.
  Property theorems only (helper lemmas live in Proofs/Codec.lean and Proofs/Tags.lean).

  Every theorem about the group-data extension holds for EVERY `Env` (= every notion of UTF-8
  validity and every `RelayUrl::parse`), every value, every byte string — no size bound.
-/
namespace MdkVerif.Props.C15
open MdkVerif MdkVerif.Codec MdkVerif.Tags List

/-! ### 1. the variable-length length prefix (tls_codec, `mls` feature) -/

/-- every length below 2^30 has an encoding -/
theorem vlen_total (n : Nat) (h : n < 1073741824) : ∃ hdr, encLen n = some hdr :=
  encLen_isSome n h

/-- lengths of 2^30 and more are refused by the encoder -/
theorem vlen_cap (n : Nat) (h : 1073741824 ≤ n) : encLen n = none := by
  unfold encLen
  rw [if_neg (by omega), if_neg (by omega), if_neg (by omega)]

/-- reading back a written prefix gives the length, the prefix width, and leaves the rest untouched -/
theorem vlen_roundtrip (n : Nat) (hdr tl : Bytes) (h : encLen n = some hdr) :
    decLen (hdr ++ tl) = some (n, hdr.length, tl) :=
  decLen_encLen n tl hdr h

/-- the prefix the reader accepts is exactly the one the writer produces: a non-minimal prefix
    (and the 8-byte form) is refused, so a length has ONE accepted spelling -/
theorem vlen_minimal (bs : Bytes) (hb : isBytes bs = true) (n k : Nat) (rest : Bytes)
    (h : decLen bs = some (n, k, rest)) :
    ∃ hdr, encLen n = some hdr ∧ bs = hdr ++ rest ∧ k = hdr.length :=
  decLen_canonical bs hb n k rest h

theorem vlen_unique (a b : Bytes) (ha : isBytes a = true) (hb : isBytes b = true) (n ka kb : Nat) (ra rb : Bytes)
    (h1 : decLen a = some (n, ka, ra)) (h2 : decLen b = some (n, kb, rb)) :
    a.take ka = b.take kb := by
  obtain ⟨h, e1, rfl, rfl⟩ := vlen_minimal a ha n ka ra h1
  obtain ⟨h', e2, rfl, rfl⟩ := vlen_minimal b hb n kb rb h2
  rw [e1] at e2; cases e2; simp

example : decLen [64, 5] = none := by decide               -- 5 spelled with two bytes
example : decLen [128, 0, 0, 5, 9] = none := by decide     -- 5 spelled with four bytes
example : decLen [192, 0, 0, 0, 0, 0, 0, 5] = none := by decide   -- 8-byte form
example : decLen [5, 9] = some (5, 1, [9]) := by decide
example : isBytes [64, 5] = true := by decide

/-! ### 2. the group-data extension -/

/-- every well-formed value serialises -/
theorem encode_total (env : Env) (x : Ext) (h : x.WF env) : ∃ bs, encode x = some bs :=
  encode_isSome env x h

/-- **round trip**: for every well-formed extension value — any UTF-8 name / description, any admin
    and relay sets, every presence pattern of the four optional image fields, version 1..65535 —
    deserialising what was serialised gives back the value -/
theorem decode_encode (env : Env) (x : Ext) (h : x.WF env) (bs : Bytes) (he : encode x = some bs) :
    decode env bs = .ok x := by
  have hd := decRaw_encRaw (asRaw x) bs [] he h.gid.1 (fun a ha => (h.admins.1 a ha).1)
  rw [List.append_nil] at hd
  simp only [decode, hd, List.isEmpty_nil, if_true]
  exact fromRaw_asRaw env x h

/-- **trailing bytes** after a valid encoding are refused -/
theorem reject_trailing (env : Env) (x : Ext) (h : x.WF env) (bs t : Bytes) (he : encode x = some bs)
    (ht : t ≠ []) : decode env (bs ++ t) = .error .trailing := by
  have hd := decRaw_encRaw (asRaw x) bs t he h.gid.1 (fun a ha => (h.admins.1 a ha).1)
  have : t.isEmpty = false := by cases t <;> simp_all
  simp [decode, hd, this]

/-- **version 0** is never accepted, whatever the bytes -/
theorem reject_version0 (env : Env) (bs : Bytes) (x : Ext) (h : decode env bs = .ok x) : 1 ≤ x.version := by
  unfold decode at h
  split at h
  · cases h
  · split at h
    · exact Nat.one_le_iff_ne_zero.mpr (fromRaw_ok_version env _ x h)
    · cases h

theorem reject_version0_raw (env : Env) (raw : Raw) (h : raw.version = 0) :
    fromRaw env raw = .error .version0 := by
  simp [fromRaw, h]

/-- **fixed lengths**: an accepted value carries image hash / key / upload key of exactly 32 bytes and a
    nonce of exactly 12 bytes, or none; a field of any other length is refused, whatever the bytes -/
theorem reject_bad_len (env : Env) (bs : Bytes) (x : Ext) (h : decode env bs = .ok x) :
    (∀ b, x.ih = some b → b.length = 32) ∧ (∀ b, x.ik = some b → b.length = 32) ∧
    (∀ b, x.inn = some b → b.length = 12) ∧ (∀ b, x.iu = some b → b.length = 32) := by
  unfold decode at h
  split at h
  · cases h
  · split at h
    · exact fromRaw_ok_lengths env _ x h
    · cases h

theorem reject_bad_len_raw (env : Env) (raw : Raw) (x : Ext)
    (hbad : (raw.ih.length ≠ 0 ∧ raw.ih.length ≠ 32) ∨ (raw.ik.length ≠ 0 ∧ raw.ik.length ≠ 32) ∨
            (raw.inn.length ≠ 0 ∧ raw.inn.length ≠ 12) ∨ (raw.iu.length ≠ 0 ∧ raw.iu.length ≠ 32)) :
    fromRaw env raw ≠ .ok x :=
  fromRaw_bad_len env raw x hbad

/-- the facts of the source the codec model rests on (re-extracted on every run) -/
theorem layout_facts : Generated.extLayoutAsModelled = true ∧ Generated.extTrailingBytesChecked = true := by decide

/-- non-vacuity: a concrete well-formed value with unicode, two admins, two relays, two optional fields -/
def sample : Ext :=
  { version := 2, gid := List.replicate 32 7, name := [240, 159, 166, 128, 32, 103], desc := [],
    admins := [List.replicate 32 1, List.replicate 32 2],
    relays := [{ key := [119, 115, 115, 58, 47, 47, 97, 46, 105, 111, 47], text := [119, 115, 115, 58, 47, 47, 97, 46, 105, 111] },
               { key := [119, 115, 115, 58, 47, 47, 98, 46, 105, 111, 47, 120], text := [119, 115, 115, 58, 47, 47, 98, 46, 105, 111, 47, 120] }],
    ih := some (List.replicate 32 9), ik := none, inn := some (List.replicate 12 3), iu := none }

example : (encode sample).isSome = true := by decide
example : sample.WF stdEnv :=
  ⟨by decide, by decide, by decide, by decide, by decide, by decide, by decide, by decide, by decide, by decide, by decide⟩
set_option maxRecDepth 20000 in
example : decodesTo (decode stdEnv ((encode sample).getD [])) sample = true := by decide
set_option maxRecDepth 20000 in
example : failsWith (decode stdEnv ((encode sample).getD [] ++ [0])) .trailing = true := by decide

/-! ### 3. hex and the `h` tag -/

theorem hex_roundtrip (b : Bytes) (hb : isBytes b = true) : hexDec (hexEnc b) = some b :=
  hexDec_hexEnc b hb

theorem hex_length (s b : Bytes) (h : hexDec s = some b) : s.length = 2 * b.length :=
  hexDec_length s b h

/-- the `h` tag written for a 32-byte group id is read back as that id -/
theorem gid_roundtrip (g : Bytes) (hb : isBytes g = true) (hl : g.length = 32) :
    extractGid [{ name := .h, vals := [hexEnc g] }] = .ok g := by
  have h1 : (hexEnc g).length = 64 := by rw [hexEnc_length, hl]
  simp [extractGid, Tag.content, h1, hexDec_hexEnc g hb, hl]

/-- an accepted `h` tag is unique, 64 characters long, and decodes to exactly 32 bytes -/
theorem gid_length_check (tags : List Tag) (g : Bytes) (h : extractGid tags = .ok g) :
    g.length = 32 ∧ ∃ t v, tags.filter (fun t => t.name == .h) = [t] ∧ t.content = some v ∧
      v.length = 64 ∧ hexDec v = some g :=
  extractGid_ok tags g h

end MdkVerif.Props.C15
