import MdkVerif.Model.Client
import MdkVerif.Proofs.Client
import MdkVerif.Props.C01Fork
import MdkVerif.Props.C01Chain
/-
  C01 — Members converge on one MIP-03-selected group state under races and reordering.
  This file: the MIP-03 order and its agreement with `is_better_candidate`; what one client does with
  two competing commits in either order; the closed witnesses of the mechanisms that break convergence
  on the current tree (each is an open known finding and is replayed on the implementation).
  `Props/C01Fork.lean` carries the general single-fork theorem (any number of siblings, any order,
  any repetition).
-/
namespace MdkVerif.Props.C01
open MdkVerif MdkVerif.Client

/-- MIP-03: earliest wrapper timestamp wins, then the smallest event id -/
def mip03Lt (a b : Nat × Nat) : Bool := a.1 < b.1 || (a.1 == b.1 && a.2 < b.2)

theorem mip03_irrefl (a : Nat × Nat) : mip03Lt a a = false := by simp [mip03Lt]
theorem mip03_trans (a b c : Nat × Nat) (h1 : mip03Lt a b = true) (h2 : mip03Lt b c = true) : mip03Lt a c = true := by
  obtain ⟨a1, a2⟩ := a; obtain ⟨b1, b2⟩ := b; obtain ⟨c1, c2⟩ := c
  simp [mip03Lt] at *; omega
theorem mip03_total (a b : Nat × Nat) (h : a ≠ b) : mip03Lt a b = true ∨ mip03Lt b a = true := by
  obtain ⟨a1, a2⟩ := a; obtain ⟨b1, b2⟩ := b
  simp [mip03Lt] at *; omega
theorem mip03_asymm (a b : Nat × Nat) (h : mip03Lt a b = true) : mip03Lt b a = false := by
  obtain ⟨a1, a2⟩ := a; obtain ⟨b1, b2⟩ := b
  simp [mip03Lt] at *; omega

/-- `is_better_candidate` IS the MIP-03 comparison with the commit applied at that epoch — as long as the
    snapshot's timestamp is known (non-zero: not a hydrated entry) -/
theorem isBetter_iff_mip03 (c : Cl) (ee : Nat) (e : Ev) (s : Snap)
    (hf : c.mgr.find? (·.epoch == ee) = some s) (hts : s.ts ≠ 0) :
    isBetter c ee e = mip03Lt (e.ts, e.idnum) (s.ts, s.commit) := by
  unfold isBetter mip03Lt
  simp only [hf]
  have : (s.ts == 0) = false := by simpa using hts
  simp only [this, Bool.false_eq_true, if_false]
  by_cases h1 : e.ts < s.ts
  · simp [h1]
  · by_cases h2 : e.ts > s.ts
    · have : ¬ e.ts = s.ts := by omega
      simp [h1, h2, this]
    · have : e.ts = s.ts := by omega
      simp [h1, h2, this]

/-- without a snapshot for that epoch nothing is ever 'better' -/
theorem isBetter_no_snapshot (c : Cl) (ee : Nat) (e : Ev) (h : c.mgr.find? (·.epoch == ee) = none) :
    isBetter c ee e = false := by
  simp [isBetter, h]

/-- a hydrated entry (timestamp lost in a restart) is never compared -/
theorem isBetter_hydrated (c : Cl) (ee : Nat) (e : Ev) (s : Snap)
    (hf : c.mgr.find? (·.epoch == ee) = some s) (hts : s.ts = 0) : isBetter c ee e = false := by
  simp [isBetter, hf, hts]

/-! ### one bystander, two competing commits: both delivery orders end on the MIP-03 winner -/

def by0 : Cl := initCl 2 false 5 [0, 1, 2] [0, 1] 1
def cA : Ev := { n := 1, ts := 20, idnum := 7, cipher := 1, sender := 1, path := [], kind := .commit .selfUpdate [] }
def cB : Ev := { n := 2, ts := 19, idnum := 9, cipher := 2, sender := 0, path := [], kind := .commit (.setData { initData [0, 1] 1 with name := 4 }) [] }

theorem two_orders_converge :
    (deliver (deliver by0 cA 0).1 cB 0).1.g.path = [2] ∧ (deliver (deliver by0 cB 0).1 cA 0).1.g.path = [2] ∧
    (deliver (deliver by0 cA 0).1 cB 0).1.g.name = 4 ∧ (deliver (deliver by0 cB 0).1 cA 0).1.g.name = 4 := by decide

/-- … and offering the loser again afterwards changes nothing -/
theorem loser_stays_out :
    proj (deliver (deliver (deliver by0 cA 0).1 cB 0).1 cA 0).1 = proj (deliver (deliver by0 cA 0).1 cB 0).1 := by decide

/-! ### the full statement and the mechanisms that refute it on the current tree -/

/-- the convergence statement for one fork: whatever the order in which two sibling commits reach a
    client (and however it applies its own), it ends on the MIP-03 winner -/
def single_fork_full : Prop :=
  ∀ (c : Cl) (a b : Ev) (pre : Cl → Cl), a.path = c.g.path → b.path = c.g.path →
    mip03Lt (b.ts, b.idnum) (a.ts, a.idnum) = true →
    (deliver (deliver (pre c) a 0).1 b 0).1.g.path = c.g.path ++ [b.n]

/-- (1) a committer that merges its own commit immediately (`merge_pending_commit` takes no snapshot)
    cannot roll back when the better competitor arrives: signature `immediate-merge-no-snapshot` -/
def committer : Cl := (stageCommit (initCl 1 false 5 [0, 1, 2] [0, 1] 1) 1 20 7 .selfUpdate false).1
theorem witness_immediate_merge :
    (deliver (merge committer).1 cB 0).2 = .unprocessable ∧ (deliver (merge committer).1 cB 0).1.g.path = [1] := by decide

/-- (2) a commit offered before its predecessor fails the outer layer, is recorded Failed, and the dedup
    step blocks it for ever, even after the predecessor was applied: `handshake-before-predecessor-blocked` -/
def cB2 : Ev := { n := 3, ts := 30, idnum := 5, cipher := 3, sender := 0, path := [2], kind := .commit .selfUpdate [] }
theorem witness_ahead_of_predecessor :
    (deliver by0 cB2 0).2 = .err eMessage ∧
    (deliver (deliver (deliver by0 cB2 0).1 cB 0).1 cB2 0).2 = .unprocessable ∧
    (deliver (deliver (deliver by0 cB2 0).1 cB 0).1 cB2 0).1.g.path = [2] := by decide

/-- (3) after a restart the manager's timestamps are gone (hydration), so a better competitor that
    arrives after the restart is refused: `hydrated-timestamp-zero` -/
def by0p : Cl := initCl 2 true 5 [0, 1, 2] [0, 1] 1
theorem witness_hydrated :
    (deliver (restart (deliver by0p cA 0).1).1 cB 0).2 = .unprocessable ∧
    (deliver (deliver by0p cA 0).1 cB 0).2 = .commit := by decide

theorem single_fork_full_false : ¬ single_fork_full := by
  intro h
  have := h (initCl 2 true 5 [0, 1, 2] [0, 1] 1) cA cB (fun c => c) rfl rfl (by decide)
  -- the statement holds for this plain bystander …
  have h2 := h (initCl 1 false 5 [0, 1, 2] [0, 1] 1) { cA with n := 9 } cB
    (fun c => (merge (stageCommit c 1 20 7 .selfUpdate false).1).1) rfl rfl (by decide)
  -- … but not for the committer that merged immediately
  revert h2; decide

/-! ### the general single-fork theorems (proved in Props/C01Fork.lean; restated here so that this
    module's audit — `#print axioms` on every theorem of the file — covers them) -/

open MdkVerif.Fork MdkVerif.Props.C01Fork in
theorem single_fork_bystander (c : Cl) (S : List Ev) (l : List Ev) (nx : Nat)
    (hg : c.hasGroup = true) (ha : c.g.active = true) (hr : 1 ≤ c.retention) (hsec : SecretsOK c.g) (hm : NoForkSnapshot c)
    (hn : c.g.recNid = c.g.nid)
    (hS : Siblings c S) (hl : ∀ e ∈ l, e ∈ S) (hne : l ≠ []) :
    ∃ w ∈ l, (∀ e ∈ l, e = w ∨ klt (key w) (key e) = true) ∧
      (l.foldl (fun c e => (deliver c e nx).1) c).g.path = c.g.path ++ [w.cipher] ∧
      wc (l.foldl (fun c e => (deliver c e nx).1) c).g [] = wc (childG c w) [] ∧
      (getRec (l.foldl (fun c e => (deliver c e nx).1) c) w.n).map (·.state) = some 2 ∧
      ∀ e ∈ l, e ≠ w → ∃ r, getRec (l.foldl (fun c e => (deliver c e nx).1) c) e.n = some r ∧ (r.state = 3 ∨ r.state = 4) :=
  C01Fork.single_fork_bystander c S l nx hg ha hr hsec hm hn hS hl hne

open MdkVerif.Fork MdkVerif.Props.C01Fork in
theorem single_fork_committer (c : Cl) (o : Ev) (S : List Ev) (l : List Ev) (nx : Nat)
    (hg : c.hasGroup = true) (ha : c.g.active = true) (hr : 1 ≤ c.retention) (hsec : SecretsOK c.g) (hm : NoForkSnapshot c)
    (hn : c.g.recNid = c.g.nid)
    (ho : OwnCommit c o) (hS : Siblings c S)
    (hd : ∀ e ∈ S, e.n ≠ o.n ∧ (e.ts, e.idnum) ≠ (o.ts, o.idnum))
    (hl : ∀ e ∈ l, e ∈ o :: S) (hne : l ≠ []) :
    ∃ w ∈ l, (∀ e ∈ l, e = w ∨ klt (key w) (key e) = true) ∧
      (l.foldl (fun c e => (deliver c e nx).1) c).g.path = c.g.path ++ [w.cipher] ∧
      wc (l.foldl (fun c e => (deliver c e nx).1) c).g [] = wc (childG c w) [] ∧
      (l.foldl (fun c e => (deliver c e nx).1) c).g.pending = none ∧
      (getRec (l.foldl (fun c e => (deliver c e nx).1) c) w.n).map (·.state) = some 2 ∧
      ∀ e ∈ l, e ≠ w → e ≠ o → ∃ r, getRec (l.foldl (fun c e => (deliver c e nx).1) c) e.n = some r ∧ (r.state = 3 ∨ r.state = 4) :=
  C01Fork.single_fork_committer c o S l nx hg ha hr hsec hm hn ho hS hd hl hne

/-- DESIGN's `secrets_follow_path` (and "no snapshot of the current epoch"): invariants of every history -/
theorem secrets_follow_path (id : Nat) (p : Bool) (r : Nat) (ms as : List Nat) (name : Nat) (ops : List C08.COp) :
    C01Fork.SecretsOK (ops.foldl C08.cstep (initCl id p r ms as name)).g ∧
    C01Fork.NoForkSnapshot (ops.foldl C08.cstep (initCl id p r ms as name)) ∧
    ∀ s ∈ (ops.foldl C08.cstep (initCl id p r ms as name)).mgr, C01Fork.SecretsOK s.saved :=
  C01Fork.secrets_follow_path id p r ms as name ops

open MdkVerif.Fork MdkVerif.Props.C01Fork in
/-- staging + publishing a commit establishes the committer theorem's hypotheses -/
theorem stage_own_commit (c : Cl) (n ts idn : Nat) (b : Body) (na : Bool) (o : Ev)
    (hts : ts ≠ 0) (hsec : SecretsOK c.g) (hm : NoForkSnapshot c)
    (hk : ∀ d, b = .setData d → d.nid = c.g.recNid) (hme : removesMe c.id b c.g.props = false)
    (h : (stageCommit c n ts idn b na).2 = .ev o) :
    OwnCommit (stageCommit c n ts idn b na).1 o ∧ SecretsOK (stageCommit c n ts idn b na).1.g ∧
    NoForkSnapshot (stageCommit c n ts idn b na).1 ∧ (stageCommit c n ts idn b na).1.g.path = c.g.path ∧
    (stageCommit c n ts idn b na).1.g.recNid = c.g.recNid ∧ (stageCommit c n ts idn b na).1.g.nid = c.g.nid :=
  C01Fork.stage_own_commit c n ts idn b na o hts hsec hm hk hme h

open MdkVerif.Fork MdkVerif.Props.C01Fork in
/-- the bystander theorem for every client state reachable by any history of API calls -/
theorem single_fork_reachable (id : Nat) (p : Bool) (r : Nat) (ms as : List Nat) (name : Nat) (ops : List C08.COp)
    (S l : List Ev) (nx : Nat)
    (hg : (ops.foldl C08.cstep (initCl id p r ms as name)).hasGroup = true)
    (ha : (ops.foldl C08.cstep (initCl id p r ms as name)).g.active = true)
    (hr : 1 ≤ (ops.foldl C08.cstep (initCl id p r ms as name)).retention)
    (hS : Siblings (ops.foldl C08.cstep (initCl id p r ms as name)) S) (hl : ∀ e ∈ l, e ∈ S) (hne : l ≠ []) :
    ∃ w ∈ l, (∀ e ∈ l, e = w ∨ klt (key w) (key e) = true) ∧
      (l.foldl (fun c e => (deliver c e nx).1) (ops.foldl C08.cstep (initCl id p r ms as name))).g.path =
        (ops.foldl C08.cstep (initCl id p r ms as name)).g.path ++ [w.cipher] :=
  C01Fork.single_fork_reachable id p r ms as name ops S l nx hg ha hr hS hl hne

/-- the excluded sibling of the bystander theorem: one that rotates the nostr group id (`h-rotation-in-flight`) -/
theorem single_fork_needs_fixed_id : ¬ C01Fork.single_fork_any_id_full := C01Fork.single_fork_any_id_full_false

/-- the excluded sibling of the bystander theorem: one that removes the receiver (`evicted-by-losing-commit`) -/
theorem single_fork_needs_membership : ¬ C01Fork.single_fork_any_target_full := C01Fork.single_fork_any_target_full_false

/-- the excluded configuration of the bystander theorem: retention 0 -/
theorem single_fork_needs_retention : ¬ C01Fork.single_fork_bystander_full := C01Fork.single_fork_bystander_full_false


/-! ### many clients and chains of forks (proved in Props/C01Chain.lean over Proofs/Chain.lean; restated here
    so that this module's audit covers them).  Common hypothesis: LEVEL-BY-LEVEL delivery, every client
    offered every sibling of every level; the statement for every schedule is `C01Chain.C01_full`, refuted
    by `chain_needs_level_by_level`.  With the widened client model: the client is active, its record's id is
    the extension's, every event carries the id in force, no commit of the chain rotates the id or removes
    the receiver (`ChainEv` / `LevelEv`: conditions on the events and the core of the start state). -/

open MdkVerif.Fork MdkVerif.Chain MdkVerif.Props.C01Fork in
/-- two clients at one fork, any combination of roles, own orders and repetitions: same MLS state, same group state -/
theorem fork_agree (c1 c2 : Cl) (T l1 l2 : List Ev) (nx1 nx2 : Nat)
    (h1 : AtFork c1 T) (h2 : AtFork c2 T) (hp : SameParent c1.g c2.g) (hmp : c1.maxPast = c2.maxPast)
    (hl1 : Covers T l1) (hl2 : Covers T l2) (hne : T ≠ []) :
    ∃ w, IsMin w T ∧
      (run nx1 c1 l1).g.path = c1.g.path ++ [w.cipher] ∧
      (run nx1 c1 l1).g.path = (run nx2 c2 l2).g.path ∧
      wc (run nx1 c1 l1).g [] = wc (run nx2 c2 l2).g [] :=
  C01Chain.fork_agree c1 c2 T l1 l2 nx1 nx2 h1 h2 hp hmp hl1 hl2 hne

open MdkVerif.Fork MdkVerif.Chain MdkVerif.Props.C01Fork in
/-- two clients offered the same SET of siblings (not necessarily all) agree -/
theorem fork_agree_sameset (c1 c2 : Cl) (T l1 l2 : List Ev) (nx1 nx2 : Nat)
    (h1 : AtFork c1 T) (h2 : AtFork c2 T) (hp : SameParent c1.g c2.g) (hmp : c1.maxPast = c2.maxPast)
    (hl1 : ∀ e ∈ l1, e ∈ T) (hl2 : ∀ e ∈ l2, e ∈ T) (hset : ∀ e, e ∈ l1 ↔ e ∈ l2) (hne : l1 ≠ []) :
    ∃ w, IsMin w l1 ∧
      (run nx1 c1 l1).g.path = c1.g.path ++ [w.cipher] ∧
      (run nx1 c1 l1).g.path = (run nx2 c2 l2).g.path ∧
      wc (run nx1 c1 l1).g [] = wc (run nx2 c2 l2).g [] :=
  C01Chain.fork_agree_sameset c1 c2 T l1 l2 nx1 nx2 h1 h2 hp hmp hl1 hl2 hset hne

open MdkVerif.Fork MdkVerif.Chain MdkVerif.Props.C01Fork in
/-- same epoch, MLS state, member set, whole group data, stored record, activity -/
theorem fork_agree_data (c1 c2 : Cl) (T l1 l2 : List Ev) (nx1 nx2 : Nat)
    (h1 : AtFork c1 T) (h2 : AtFork c2 T) (hp : SameParent c1.g c2.g) (hmp : c1.maxPast = c2.maxPast)
    (hl1 : Covers T l1) (hl2 : Covers T l2) (hne : T ≠ []) :
    epochOf (run nx1 c1 l1).g.path = epochOf (run nx2 c2 l2).g.path ∧
    (run nx1 c1 l1).g.path = (run nx2 c2 l2).g.path ∧
    (run nx1 c1 l1).g.members = (run nx2 c2 l2).g.members ∧
    dataOf (run nx1 c1 l1).g = dataOf (run nx2 c2 l2).g ∧
    (run nx1 c1 l1).g.recEpoch = (run nx2 c2 l2).g.recEpoch ∧
    (run nx1 c1 l1).g.recName = (run nx2 c2 l2).g.recName ∧
    (run nx1 c1 l1).g.recAdmins = (run nx2 c2 l2).g.recAdmins ∧
    (run nx1 c1 l1).g.recDesc = (run nx2 c2 l2).g.recDesc ∧
    (run nx1 c1 l1).g.recRelays = (run nx2 c2 l2).g.recRelays ∧
    (run nx1 c1 l1).g.recNid = (run nx2 c2 l2).g.recNid ∧
    (run nx1 c1 l1).g.pending = (run nx2 c2 l2).g.pending ∧
    (run nx1 c1 l1).g.props = (run nx2 c2 l2).g.props ∧
    (run nx1 c1 l1).g.active = (run nx2 c2 l2).g.active :=
  C01Chain.fork_agree_data c1 c2 T l1 l2 nx1 nx2 h1 h2 hp hmp hl1 hl2 hne

open MdkVerif.Fork MdkVerif.Chain MdkVerif.Props.C01Fork in
/-- … with only path, members and group data shared at the start -/
theorem fork_agree_core (c1 c2 : Cl) (T l1 l2 : List Ev) (nx1 nx2 : Nat)
    (h1 : AtFork c1 T) (h2 : AtFork c2 T) (hp : core c1.g = core c2.g)
    (hl1 : Covers T l1) (hl2 : Covers T l2) (hne : T ≠ []) :
    ∃ w, IsMin w T ∧ core (run nx1 c1 l1).g = coreStep (core c1.g) w ∧ core (run nx2 c2 l2).g = coreStep (core c1.g) w :=
  C01Chain.fork_agree_core c1 c2 T l1 l2 nx1 nx2 h1 h2 hp hl1 hl2 hne

open MdkVerif.Fork MdkVerif.Chain MdkVerif.Props.C01Fork in
/-- n clients at one fork -/
theorem fork_agree_all (cs : List (Cl × List Ev × Nat)) (T : List Ev) (w : Ev) (g0 : GState) (mp : Nat)
    (hw : IsMin w T)
    (h : ∀ p ∈ cs, AtFork p.1 T ∧ SameParent p.1.g g0 ∧ p.1.maxPast = mp ∧ Covers T p.2.1) :
    (∀ p ∈ cs, (run p.2.2 p.1 p.2.1).g.path = g0.path ++ [w.cipher] ∧
      wc (run p.2.2 p.1 p.2.1).g [] = wc (childOfG mp g0 w) []) ∧
    (∀ p ∈ cs, ∀ q ∈ cs, (run p.2.2 p.1 p.2.1).g.path = (run q.2.2 q.1 q.2.1).g.path ∧
      wc (run p.2.2 p.1 p.2.1).g [] = wc (run q.2.2 q.1 q.2.1).g []) :=
  C01Chain.fork_agree_all cs T w g0 mp hw h

open MdkVerif.Fork MdkVerif.Chain MdkVerif.Props.C01Fork in
/-- frame of `process_message`, every state / event / fuel -/
theorem deliver_frame (fuel nx : Nat) (c : Cl) (e : Ev) :
    (deliverN fuel nx c e).1.id = c.id ∧ (deliverN fuel nx c e).1.persistent = c.persistent ∧
    (deliverN fuel nx c e).1.retention = c.retention ∧ (deliverN fuel nx c e).1.maxPast = c.maxPast ∧
    (deliverN fuel nx c e).1.hasGroup = c.hasGroup ∧
    (∀ n, n ≠ e.n → getRec c n = none → getRec (deliverN fuel nx c e).1 n = none) ∧
    (∀ n r, n ≠ e.n → getRec c n = some r → rbRec (epochOf e.path) r = r → getRec (deliverN fuel nx c e).1 n = some r) ∧
    (∀ n, n ≠ e.n → (getRec (deliverN fuel nx c e).1 n).isSome = (getRec c n).isSome) :=
  C01Chain.deliver_frame fuel nx c e

open MdkVerif.Fork MdkVerif.Chain MdkVerif.Props.C01Fork in
/-- frame on the consumed ratchet generations (for every state satisfying the snapshot invariant `ConsMono`) -/
theorem consumed_frame (fuel nx : Nat) (c : Cl) (e : Ev) (h : ConsMono c) :
    (∀ x ∈ (deliverN fuel nx c e).1.g.consumed, x ∈ c.g.consumed ∨ x = e.cipher) ∧ ConsMono (deliverN fuel nx c e).1 :=
  C01Chain.consumed_frame fuel nx c e h

open MdkVerif.Fork MdkVerif.Chain MdkVerif.Props.C01Fork in
/-- `ConsMono` holds of every reachable client state -/
theorem consMono_reachable (id : Nat) (p : Bool) (r : Nat) (ms as : List Nat) (name : Nat) (ops : List C08.COp) :
    ConsMono (ops.foldl C08.cstep (initCl id p r ms as name)) :=
  C01Chain.consMono_reachable id p r ms as name ops

open MdkVerif.Fork MdkVerif.Chain MdkVerif.Props.C01Fork in
/-- … and the consumed frame does not hold for every state -/
theorem consumed_frame_needs_inv :
    ¬ (∀ (c : Cl) (e : Ev) (nx : Nat), ∀ x ∈ (deliver c e nx).1.g.consumed, x ∈ c.g.consumed ∨ x = e.cipher) :=
  C01Chain.consumed_frame_needs_inv

open MdkVerif.Fork MdkVerif.Chain MdkVerif.Props.C01Fork in
/-- after a fork level the per-client hypotheses hold again one epoch later -/
theorem fork_restores (c : Cl) (T l : List Ev) (nx : Nat) (hat : AtFork c T) (hb : Below c)
    (hl : ∀ e ∈ l, e ∈ T) (hne : l ≠ []) :
    (run nx c l).hasGroup = true ∧ (run nx c l).g.active = true ∧ 1 ≤ (run nx c l).retention ∧
    SecretsOK (run nx c l).g ∧ Below (run nx c l) ∧
    NoForkSnapshot (run nx c l) ∧ (run nx c l).id = c.id ∧ (run nx c l).maxPast = c.maxPast ∧
    Synced (run nx c l).g ∧ (run nx c l).g.recNid = (run nx c l).g.nid ∧ (run nx c l).g.recNid = c.g.recNid ∧
    (∃ w ∈ l, core (run nx c l).g = coreStep (core c.g) w) ∧
    epochOf (run nx c l).g.path = epochOf c.g.path + 1 ∧
    (∀ x ∈ (run nx c l).g.consumed, x ∈ c.g.consumed ∨ ∃ e ∈ T, e.cipher = x) :=
  C01Chain.fork_restores c T l nx hat hb hl hne

open MdkVerif.Fork MdkVerif.Chain MdkVerif.Props.C01Fork in
/-- a chain of forks, one client, every level-by-level schedule -/
theorem chain_bystander (c : Cl) (Ls : List Level) (ls : List (List Ev)) (nx : Nat)
    (hg : c.hasGroup = true) (ha : c.g.active = true) (hr : 1 ≤ c.retention) (hsec : SecretsOK c.g) (hbelow : Below c)
    (hn : c.g.recNid = c.g.nid)
    (hch : ChainEv c.id (core c.g) Ls)
    (hu : ∀ e ∈ evs Ls, getRec c e.n = none ∧ e.cipher ∉ c.g.consumed)
    (hw : LevelWise Ls ls) :
    (run nx c ls.flatten).g.path = c.g.path ++ Ls.map (·.1.cipher) ∧
    wc (run nx c ls.flatten).g [] = wc (chainG c.maxPast c.g (Ls.map (·.1))) [] ∧
    (∀ L ∈ Ls, (getRec (run nx c ls.flatten) L.1.n).map (·.state) = some 2) ∧
    (∀ L ∈ Ls, ∀ e ∈ L.2, e ≠ L.1 →
      ∃ r, getRec (run nx c ls.flatten) e.n = some r ∧ (r.state = 3 ∨ r.state = 4)) :=
  C01Chain.chain_bystander c Ls ls nx hg ha hr hsec hbelow hn hch hu hw

open MdkVerif.Fork MdkVerif.Chain MdkVerif.Props.C01Fork in
/-- members and the whole group data after the chain: the winners' commits applied in order -/
theorem chain_bystander_data (c : Cl) (Ls : List Level) (ls : List (List Ev)) (nx : Nat)
    (hg : c.hasGroup = true) (ha : c.g.active = true) (hr : 1 ≤ c.retention) (hsec : SecretsOK c.g) (hbelow : Below c)
    (hn : c.g.recNid = c.g.nid)
    (hch : ChainEv c.id (core c.g) Ls)
    (hu : ∀ e ∈ evs Ls, getRec c e.n = none ∧ e.cipher ∉ c.g.consumed)
    (hw : LevelWise Ls ls) :
    core (run nx c ls.flatten).g = (Ls.map (·.1)).foldl coreStep (core c.g) ∧
    dataOf (run nx c ls.flatten).g = ((Ls.map (·.1)).foldl coreStep (core c.g)).2.2 ∧
    (run nx c ls.flatten).g.members = ((Ls.map (·.1)).foldl coreStep (core c.g)).2.1 ∧
    epochOf (run nx c ls.flatten).g.path = epochOf c.g.path + Ls.length ∧
    (run nx c ls.flatten).g.active = true ∧
    (run nx c ls.flatten).g.recNid = (run nx c ls.flatten).g.nid :=
  C01Chain.chain_bystander_data c Ls ls nx hg ha hr hsec hbelow hn hch hu hw

open MdkVerif.Fork MdkVerif.Chain MdkVerif.Props.C01Fork in
/-- the chain theorem for every reachable client state -/
theorem chain_reachable (id : Nat) (p : Bool) (r : Nat) (ms as : List Nat) (name : Nat) (ops : List C08.COp)
    (Ls : List Level) (ls : List (List Ev)) (nx : Nat)
    (hg : (ops.foldl C08.cstep (initCl id p r ms as name)).hasGroup = true)
    (ha : (ops.foldl C08.cstep (initCl id p r ms as name)).g.active = true)
    (hr : 1 ≤ (ops.foldl C08.cstep (initCl id p r ms as name)).retention)
    (hch : ChainEv (ops.foldl C08.cstep (initCl id p r ms as name)).id (core (ops.foldl C08.cstep (initCl id p r ms as name)).g) Ls)
    (hu : ∀ e ∈ evs Ls, getRec (ops.foldl C08.cstep (initCl id p r ms as name)) e.n = none ∧
      e.cipher ∉ (ops.foldl C08.cstep (initCl id p r ms as name)).g.consumed)
    (hw : LevelWise Ls ls) :
    (run nx (ops.foldl C08.cstep (initCl id p r ms as name)) ls.flatten).g.path =
      (ops.foldl C08.cstep (initCl id p r ms as name)).g.path ++ Ls.map (·.1.cipher) :=
  C01Chain.chain_reachable id p r ms as name ops Ls ls nx hg ha hr hch hu hw

open MdkVerif.Fork MdkVerif.Chain MdkVerif.Props.C01Fork in
/-- a chain of forks, many clients (bystanders and committers of the first level), own schedules -/
theorem chain_converges (ps : List C01Chain.Party) (g0 : GState) (mp : Nat) (w : Ev) (T : List Ev) (rest : List Level)
    (hmin : IsMin w T) (hcross : ∀ e1 ∈ T, ∀ e2 ∈ evs rest, e1.n ≠ e2.n ∧ e1.cipher ≠ e2.cipher)
    (h : ∀ p ∈ ps, C01Chain.PartyOK g0 mp w T rest p) :
    (∀ p ∈ ps, p.final.g.path = g0.path ++ (w :: rest.map (·.1)).map (·.cipher) ∧
      wc p.final.g [] = wc (chainG mp g0 (w :: rest.map (·.1))) []) ∧
    (∀ p ∈ ps, ∀ q ∈ ps, p.final.g.path = q.final.g.path ∧ wc p.final.g [] = wc q.final.g []) :=
  C01Chain.chain_converges ps g0 mp w T rest hmin hcross h

open MdkVerif.Fork MdkVerif.Chain MdkVerif.Props.C01Fork in
/-- same epoch, MLS state, member set, whole group data, stored record, activity for any two parties -/
theorem chain_converges_data (ps : List C01Chain.Party) (g0 : GState) (mp : Nat) (w : Ev) (T : List Ev) (rest : List Level)
    (hmin : IsMin w T) (hcross : ∀ e1 ∈ T, ∀ e2 ∈ evs rest, e1.n ≠ e2.n ∧ e1.cipher ≠ e2.cipher)
    (h : ∀ p ∈ ps, C01Chain.PartyOK g0 mp w T rest p) :
    ∀ p ∈ ps, ∀ q ∈ ps,
      epochOf p.final.g.path = epochOf q.final.g.path ∧ p.final.g.path = q.final.g.path ∧
      p.final.g.members = q.final.g.members ∧ dataOf p.final.g = dataOf q.final.g ∧
      p.final.g.recEpoch = q.final.g.recEpoch ∧ p.final.g.recName = q.final.g.recName ∧
      p.final.g.recAdmins = q.final.g.recAdmins ∧ p.final.g.recDesc = q.final.g.recDesc ∧
      p.final.g.recRelays = q.final.g.recRelays ∧ p.final.g.recNid = q.final.g.recNid ∧
      p.final.g.pending = q.final.g.pending ∧ p.final.g.props = q.final.g.props ∧
      p.final.g.active = q.final.g.active ∧
      epochOf p.final.g.path = epochOf g0.path + (rest.length + 1) ∧
      core p.final.g = (w :: rest.map (·.1)).foldl coreStep (core g0) :=
  C01Chain.chain_converges_data ps g0 mp w T rest hmin hcross h

open MdkVerif.Fork MdkVerif.Chain MdkVerif.Props.C01Fork in
/-- … with only path, members and group data shared at the start -/
theorem chain_converges_core (ps : List C01Chain.Party) (k0 : Core) (w : Ev) (T : List Ev) (rest : List Level)
    (hmin : IsMin w T) (hcross : ∀ e1 ∈ T, ∀ e2 ∈ evs rest, e1.n ≠ e2.n ∧ e1.cipher ≠ e2.cipher)
    (h : ∀ p ∈ ps, AtFork p.c T ∧ Below p.c ∧ core p.c.g = k0 ∧ Covers T p.l ∧
      ChainEv p.c.id (coreStep k0 w) rest ∧
      (∀ e ∈ evs rest, getRec p.c e.n = none ∧ e.cipher ∉ p.c.g.consumed) ∧ LevelWise rest p.ls) :
    ∀ p ∈ ps, core p.final.g = (w :: rest.map (·.1)).foldl coreStep k0 :=
  C01Chain.chain_converges_core ps k0 w T rest hmin hcross h

open MdkVerif.Fork MdkVerif.Chain MdkVerif.Props.C01Fork in
/-- an event created on a branch the client is not on is refused and changes nothing but its own record -/
theorem stale_refused (c : Cl) (e : Ev) (nx : Nat) (hs : SecretsOK c.g)
    (hst : ¬ e.path <+: c.g.path) :
    proj (deliver c e nx).1 = proj c ∧
    ((deliver c e nx).1.g = c.g ∨ (deliver c e nx).1.g = ensureSecret c.g) ∧
    (deliver c e nx).1.mgr = c.mgr ∧
    (∀ m, m ≠ e.n → getRec (deliver c e nx).1 m = getRec c m) ∧
    (∃ r, getRec (deliver c e nx).1 e.n = some r ∧ (r.state = 3 ∨ r.state = 4)) ∧
    ((deliver c e nx).2 = .unprocessable ∨ (deliver c e nx).2 = .previouslyFailed ∨
      (deliver c e nx).2 = .err eGroupNotFound ∨ (deliver c e nx).2 = .err eExportSecret ∨
      (deliver c e nx).2 = .err eMessage) ∧
    (routes c e = true → c.g.active = true →
      (deliver c e nx).2 = .unprocessable ∨ (deliver c e nx).2 = .err eMessage) :=
  C01Chain.stale_refused c e nx hs hst

open MdkVerif.Fork MdkVerif.Chain MdkVerif.Props.C01Fork in
/-- the chain theorem with stale events interleaved freely inside every level's delivery list -/
theorem chain_bystander_stale (c : Cl) (Ls : List Level) (ls : List (List Ev)) (nx : Nat)
    (hg : c.hasGroup = true) (ha : c.g.active = true) (hr : 1 ≤ c.retention) (hsec : SecretsOK c.g) (hbelow : Below c)
    (hn : c.g.recNid = c.g.nid)
    (hch : ChainEv c.id (core c.g) Ls)
    (hu : ∀ e ∈ evs Ls, getRec c e.n = none ∧ e.cipher ∉ c.g.consumed)
    (hw : LevelWiseS (evs Ls) c.g.path Ls ls) :
    (run nx c ls.flatten).g.path = c.g.path ++ Ls.map (·.1.cipher) ∧
    wc (run nx c ls.flatten).g [] = wc (chainG c.maxPast c.g (Ls.map (·.1))) [] ∧
    (∀ L ∈ Ls, (getRec (run nx c ls.flatten) L.1.n).map (·.state) = some 2) ∧
    (∀ L ∈ Ls, ∀ e ∈ L.2, e ≠ L.1 →
      ∃ r, getRec (run nx c ls.flatten) e.n = some r ∧ (r.state = 3 ∨ r.state = 4)) :=
  C01Chain.chain_bystander_stale c Ls ls nx hg ha hr hsec hbelow hn hch hu hw

open MdkVerif.Fork MdkVerif.Chain MdkVerif.Props.C01Fork in
/-- many clients, own schedules, stale events interleaved -/
theorem chain_converges_stale (ps : List C01Chain.Party) (g0 : GState) (mp : Nat) (w : Ev) (T : List Ev) (rest : List Level)
    (hmin : IsMin w T) (hcross : ∀ e1 ∈ T, ∀ e2 ∈ evs rest, e1.n ≠ e2.n ∧ e1.cipher ≠ e2.cipher)
    (h : ∀ p ∈ ps, C01Chain.PartyOKS g0 mp w T rest p) :
    (∀ p ∈ ps, p.final.g.path = g0.path ++ (w :: rest.map (·.1)).map (·.cipher) ∧
      wc p.final.g [] = wc (chainG mp g0 (w :: rest.map (·.1))) []) ∧
    (∀ p ∈ ps, ∀ q ∈ ps, p.final.g.path = q.final.g.path ∧ wc p.final.g [] = wc q.final.g []) :=
  C01Chain.chain_converges_stale ps g0 mp w T rest hmin hcross h

open MdkVerif.Fork MdkVerif.Chain MdkVerif.Props.C01Fork in
/-- a rollback over two epochs (retention ≥ 2) -/
theorem depth2_rollback (c : Cl) (a b a' : Ev) (nx : Nat)
    (hg : c.hasGroup = true) (ha : c.g.active = true) (hr : 2 ≤ c.retention) (hsec : SecretsOK c.g) (hbelow : Below c)
    (hnid : c.g.recNid = c.g.nid)
    (hS : Siblings c [a, b]) (hab : a ≠ b) (hlt : klt (key b) (key a) = true)
    (hc : ChildOf c a a') (hn : a'.n ≠ a.n ∧ a'.n ≠ b.n) (hci : a'.cipher ≠ a.cipher) :
    (run nx c [a, a', b]).g.path = c.g.path ++ [b.cipher] ∧
    wc (run nx c [a, a', b]).g [] = wc (childG c b) [] ∧
    (getRec (run nx c [a, a', b]) b.n).map (·.state) = some 2 ∧
    (getRec (run nx c [a, a', b]) a.n).map (·.state) = some 4 ∧
    (getRec (run nx c [a, a', b]) a'.n).map (·.state) = some 4 :=
  C01Chain.depth2_rollback c a b a' nx hg ha hr hsec hbelow hnid hS hab hlt hc hn hci

/-- the level-by-level hypothesis is needed: convergence for every schedule is false of the code
    (`handshake-before-predecessor-blocked`) -/
theorem chain_needs_level_by_level : ¬ C01Chain.C01_full := C01Chain.C01_full_false

end MdkVerif.Props.C01
