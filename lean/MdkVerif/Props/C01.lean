import MdkVerif.Model.Client
import MdkVerif.Proofs.Client
import MdkVerif.Props.C01Fork
/-
  C01 — Members converge on one MIP-03-selected group state under races and reordering.
  This file: the MIP-03 order and its agreement with `is_better_candidate`; what one client does with
  two competing commits in either order; the closed witnesses of the mechanisms that break convergence
  on the current tree (each is an open known finding and is replayed on the implementation).
  `Props/C01Fork.lean` carries the general single-fork theorem (any number of siblings, any order,
  any repetition).
-/
namespace MdkVerif.Props.C01
open MdkVerif MdkVerif.Client

/-- MIP-03: earliest wrapper timestamp wins, then the smallest event id -/
def mip03Lt (a b : Nat × Nat) : Bool := a.1 < b.1 || (a.1 == b.1 && a.2 < b.2)

theorem mip03_irrefl (a : Nat × Nat) : mip03Lt a a = false := by simp [mip03Lt]
theorem mip03_trans (a b c : Nat × Nat) (h1 : mip03Lt a b = true) (h2 : mip03Lt b c = true) : mip03Lt a c = true := by
  obtain ⟨a1, a2⟩ := a; obtain ⟨b1, b2⟩ := b; obtain ⟨c1, c2⟩ := c
  simp [mip03Lt] at *; omega
theorem mip03_total (a b : Nat × Nat) (h : a ≠ b) : mip03Lt a b = true ∨ mip03Lt b a = true := by
  obtain ⟨a1, a2⟩ := a; obtain ⟨b1, b2⟩ := b
  simp [mip03Lt] at *; omega
theorem mip03_asymm (a b : Nat × Nat) (h : mip03Lt a b = true) : mip03Lt b a = false := by
  obtain ⟨a1, a2⟩ := a; obtain ⟨b1, b2⟩ := b
  simp [mip03Lt] at *; omega

/-- `is_better_candidate` IS the MIP-03 comparison with the commit applied at that epoch — as long as the
    snapshot's timestamp is known (non-zero: not a hydrated entry) -/
theorem isBetter_iff_mip03 (c : Cl) (ee : Nat) (e : Ev) (s : Snap)
    (hf : c.mgr.find? (·.epoch == ee) = some s) (hts : s.ts ≠ 0) :
    isBetter c ee e = mip03Lt (e.ts, e.idnum) (s.ts, s.commit) := by
  unfold isBetter mip03Lt
  simp only [hf]
  have : (s.ts == 0) = false := by simpa using hts
  simp only [this, Bool.false_eq_true, if_false]
  by_cases h1 : e.ts < s.ts
  · simp [h1]
  · by_cases h2 : e.ts > s.ts
    · have : ¬ e.ts = s.ts := by omega
      simp [h1, h2, this]
    · have : e.ts = s.ts := by omega
      simp [h1, h2, this]

/-- without a snapshot for that epoch nothing is ever 'better' -/
theorem isBetter_no_snapshot (c : Cl) (ee : Nat) (e : Ev) (h : c.mgr.find? (·.epoch == ee) = none) :
    isBetter c ee e = false := by
  simp [isBetter, h]

/-- a hydrated entry (timestamp lost in a restart) is never compared -/
theorem isBetter_hydrated (c : Cl) (ee : Nat) (e : Ev) (s : Snap)
    (hf : c.mgr.find? (·.epoch == ee) = some s) (hts : s.ts = 0) : isBetter c ee e = false := by
  simp [isBetter, hf, hts]

/-! ### one bystander, two competing commits: both delivery orders end on the MIP-03 winner -/

def by0 : Cl := initCl 2 false 5 [0, 1, 2] [0, 1] 1
def cA : Ev := { n := 1, ts := 20, idnum := 7, cipher := 1, sender := 1, path := [], kind := .commit .selfUpdate [] }
def cB : Ev := { n := 2, ts := 19, idnum := 9, cipher := 2, sender := 0, path := [], kind := .commit (.setData { initData [0, 1] 1 with name := 4 }) [] }

theorem two_orders_converge :
    (deliver (deliver by0 cA 0).1 cB 0).1.g.path = [2] ∧ (deliver (deliver by0 cB 0).1 cA 0).1.g.path = [2] ∧
    (deliver (deliver by0 cA 0).1 cB 0).1.g.name = 4 ∧ (deliver (deliver by0 cB 0).1 cA 0).1.g.name = 4 := by decide

/-- … and offering the loser again afterwards changes nothing -/
theorem loser_stays_out :
    proj (deliver (deliver (deliver by0 cA 0).1 cB 0).1 cA 0).1 = proj (deliver (deliver by0 cA 0).1 cB 0).1 := by decide

/-! ### the full statement and the mechanisms that refute it on the current tree -/

/-- the convergence statement for one fork: whatever the order in which two sibling commits reach a
    client (and however it applies its own), it ends on the MIP-03 winner -/
def single_fork_full : Prop :=
  ∀ (c : Cl) (a b : Ev) (pre : Cl → Cl), a.path = c.g.path → b.path = c.g.path →
    mip03Lt (b.ts, b.idnum) (a.ts, a.idnum) = true →
    (deliver (deliver (pre c) a 0).1 b 0).1.g.path = c.g.path ++ [b.n]

/-- (1) a committer that merges its own commit immediately (`merge_pending_commit` takes no snapshot)
    cannot roll back when the better competitor arrives: signature `immediate-merge-no-snapshot` -/
def committer : Cl := (stageCommit (initCl 1 false 5 [0, 1, 2] [0, 1] 1) 1 20 7 .selfUpdate false).1
theorem witness_immediate_merge :
    (deliver (merge committer).1 cB 0).2 = .unprocessable ∧ (deliver (merge committer).1 cB 0).1.g.path = [1] := by decide

/-- (2) a commit offered before its predecessor fails the outer layer, is recorded Failed, and the dedup
    step blocks it for ever, even after the predecessor was applied: `handshake-before-predecessor-blocked` -/
def cB2 : Ev := { n := 3, ts := 30, idnum := 5, cipher := 3, sender := 0, path := [2], kind := .commit .selfUpdate [] }
theorem witness_ahead_of_predecessor :
    (deliver by0 cB2 0).2 = .err eMessage ∧
    (deliver (deliver (deliver by0 cB2 0).1 cB 0).1 cB2 0).2 = .unprocessable ∧
    (deliver (deliver (deliver by0 cB2 0).1 cB 0).1 cB2 0).1.g.path = [2] := by decide

/-- (3) after a restart the manager's timestamps are gone (hydration), so a better competitor that
    arrives after the restart is refused: `hydrated-timestamp-zero` -/
def by0p : Cl := initCl 2 true 5 [0, 1, 2] [0, 1] 1
theorem witness_hydrated :
    (deliver (restart (deliver by0p cA 0).1).1 cB 0).2 = .unprocessable ∧
    (deliver (deliver by0p cA 0).1 cB 0).2 = .commit := by decide

theorem single_fork_full_false : ¬ single_fork_full := by
  intro h
  have := h (initCl 2 true 5 [0, 1, 2] [0, 1] 1) cA cB (fun c => c) rfl rfl (by decide)
  -- the statement holds for this plain bystander …
  have h2 := h (initCl 1 false 5 [0, 1, 2] [0, 1] 1) { cA with n := 9 } cB
    (fun c => (merge (stageCommit c 1 20 7 .selfUpdate false).1).1) rfl rfl (by decide)
  -- … but not for the committer that merged immediately
  revert h2; decide

/-! ### the general single-fork theorems (proved in Props/C01Fork.lean; restated here so that this
    module's audit — `#print axioms` on every theorem of the file — covers them) -/

open MdkVerif.Fork MdkVerif.Props.C01Fork in
theorem single_fork_bystander (c : Cl) (S : List Ev) (l : List Ev) (nx : Nat)
    (hg : c.hasGroup = true) (ha : c.g.active = true) (hr : 1 ≤ c.retention) (hsec : SecretsOK c.g) (hm : NoForkSnapshot c)
    (hn : c.g.recNid = c.g.nid)
    (hS : Siblings c S) (hl : ∀ e ∈ l, e ∈ S) (hne : l ≠ []) :
    ∃ w ∈ l, (∀ e ∈ l, e = w ∨ klt (key w) (key e) = true) ∧
      (l.foldl (fun c e => (deliver c e nx).1) c).g.path = c.g.path ++ [w.cipher] ∧
      wc (l.foldl (fun c e => (deliver c e nx).1) c).g [] = wc (childG c w) [] ∧
      (getRec (l.foldl (fun c e => (deliver c e nx).1) c) w.n).map (·.state) = some 2 ∧
      ∀ e ∈ l, e ≠ w → ∃ r, getRec (l.foldl (fun c e => (deliver c e nx).1) c) e.n = some r ∧ (r.state = 3 ∨ r.state = 4) :=
  C01Fork.single_fork_bystander c S l nx hg ha hr hsec hm hn hS hl hne

open MdkVerif.Fork MdkVerif.Props.C01Fork in
theorem single_fork_committer (c : Cl) (o : Ev) (S : List Ev) (l : List Ev) (nx : Nat)
    (hg : c.hasGroup = true) (ha : c.g.active = true) (hr : 1 ≤ c.retention) (hsec : SecretsOK c.g) (hm : NoForkSnapshot c)
    (hn : c.g.recNid = c.g.nid)
    (ho : OwnCommit c o) (hS : Siblings c S)
    (hd : ∀ e ∈ S, e.n ≠ o.n ∧ (e.ts, e.idnum) ≠ (o.ts, o.idnum))
    (hl : ∀ e ∈ l, e ∈ o :: S) (hne : l ≠ []) :
    ∃ w ∈ l, (∀ e ∈ l, e = w ∨ klt (key w) (key e) = true) ∧
      (l.foldl (fun c e => (deliver c e nx).1) c).g.path = c.g.path ++ [w.cipher] ∧
      wc (l.foldl (fun c e => (deliver c e nx).1) c).g [] = wc (childG c w) [] ∧
      (l.foldl (fun c e => (deliver c e nx).1) c).g.pending = none ∧
      (getRec (l.foldl (fun c e => (deliver c e nx).1) c) w.n).map (·.state) = some 2 ∧
      ∀ e ∈ l, e ≠ w → e ≠ o → ∃ r, getRec (l.foldl (fun c e => (deliver c e nx).1) c) e.n = some r ∧ (r.state = 3 ∨ r.state = 4) :=
  C01Fork.single_fork_committer c o S l nx hg ha hr hsec hm hn ho hS hd hl hne

/-- DESIGN's `secrets_follow_path` (and "no snapshot of the current epoch"): invariants of every history -/
theorem secrets_follow_path (id : Nat) (p : Bool) (r : Nat) (ms as : List Nat) (name : Nat) (ops : List C08.COp) :
    C01Fork.SecretsOK (ops.foldl C08.cstep (initCl id p r ms as name)).g ∧
    C01Fork.NoForkSnapshot (ops.foldl C08.cstep (initCl id p r ms as name)) ∧
    ∀ s ∈ (ops.foldl C08.cstep (initCl id p r ms as name)).mgr, C01Fork.SecretsOK s.saved :=
  C01Fork.secrets_follow_path id p r ms as name ops

open MdkVerif.Fork MdkVerif.Props.C01Fork in
/-- staging + publishing a commit establishes the committer theorem's hypotheses -/
theorem stage_own_commit (c : Cl) (n ts idn : Nat) (b : Body) (na : Bool) (o : Ev)
    (hts : ts ≠ 0) (hsec : SecretsOK c.g) (hm : NoForkSnapshot c)
    (hk : ∀ d, b = .setData d → d.nid = c.g.recNid) (hme : removesMe c.id b c.g.props = false)
    (h : (stageCommit c n ts idn b na).2 = .ev o) :
    OwnCommit (stageCommit c n ts idn b na).1 o ∧ SecretsOK (stageCommit c n ts idn b na).1.g ∧
    NoForkSnapshot (stageCommit c n ts idn b na).1 ∧ (stageCommit c n ts idn b na).1.g.path = c.g.path ∧
    (stageCommit c n ts idn b na).1.g.recNid = c.g.recNid ∧ (stageCommit c n ts idn b na).1.g.nid = c.g.nid :=
  C01Fork.stage_own_commit c n ts idn b na o hts hsec hm hk hme h

open MdkVerif.Fork MdkVerif.Props.C01Fork in
/-- the bystander theorem for every client state reachable by any history of API calls -/
theorem single_fork_reachable (id : Nat) (p : Bool) (r : Nat) (ms as : List Nat) (name : Nat) (ops : List C08.COp)
    (S l : List Ev) (nx : Nat)
    (hg : (ops.foldl C08.cstep (initCl id p r ms as name)).hasGroup = true)
    (ha : (ops.foldl C08.cstep (initCl id p r ms as name)).g.active = true)
    (hr : 1 ≤ (ops.foldl C08.cstep (initCl id p r ms as name)).retention)
    (hS : Siblings (ops.foldl C08.cstep (initCl id p r ms as name)) S) (hl : ∀ e ∈ l, e ∈ S) (hne : l ≠ []) :
    ∃ w ∈ l, (∀ e ∈ l, e = w ∨ klt (key w) (key e) = true) ∧
      (l.foldl (fun c e => (deliver c e nx).1) (ops.foldl C08.cstep (initCl id p r ms as name))).g.path =
        (ops.foldl C08.cstep (initCl id p r ms as name)).g.path ++ [w.cipher] :=
  C01Fork.single_fork_reachable id p r ms as name ops S l nx hg ha hr hS hl hne

/-- the excluded sibling of the bystander theorem: one that rotates the nostr group id (`h-rotation-in-flight`) -/
theorem single_fork_needs_fixed_id : ¬ C01Fork.single_fork_any_id_full := C01Fork.single_fork_any_id_full_false

/-- the excluded sibling of the bystander theorem: one that removes the receiver (`evicted-by-losing-commit`) -/
theorem single_fork_needs_membership : ¬ C01Fork.single_fork_any_target_full := C01Fork.single_fork_any_target_full_false

/-- the excluded configuration of the bystander theorem: retention 0 -/
theorem single_fork_needs_retention : ¬ C01Fork.single_fork_bystander_full := C01Fork.single_fork_bystander_full_false

/-! (the chain theorems of Props/C01Chain.lean are being repaired against the widened client model and are re-attached here afterwards) -/

end MdkVerif.Props.C01
