import MdkVerif.Model.Snapshots
import MdkVerif.Proofs.Store
import MdkVerif.Props.C09
import MdkVerif.Proofs.SnapBound
/-
  C20 — Rollback snapshots stay bounded in number and age.
  For every retention value, every backend and every sequence of commits (create), rollbacks, MIP-03
  comparisons, restarts (with any TTL) and group saves.
-/
namespace MdkVerif.Props.C20
open MdkVerif MdkVerif.Store MdkVerif.Snapshots

/-! ### queue bookkeeping -/

theorem queue_setQueue_self (m : Mgr) (g : Nat) (q : List Meta) : (m.setQueue g q).queue g = q := by
  simp [Mgr.queue, Mgr.setQueue, alookup_ainsert_self]

theorem queue_setQueue_ne (m : Mgr) (g g' : Nat) (q : List Meta) (h : g' ≠ g) :
    (m.setQueue g q).queue g' = m.queue g' := by
  simp [Mgr.queue, Mgr.setQueue, alookup_ainsert_ne _ _ _ _ h]

theorem trim_len (r : Nat) (s : Store) (g : Nat) (q : List Meta) : (trim r s g q).2.length ≤ r := by
  simp [trim]; omega

/-- the bound: every group's queue holds at most `retention` entries -/
def Bounded (m : Mgr) : Prop := ∀ g, (m.queue g).length ≤ m.retention

theorem hydrate_retention (m : Mgr) (g : Nat) : (hydrate m g).retention = m.retention := by
  unfold hydrate
  cases m.store.backend <;> simp only
  split <;> simp [Mgr.setQueue]

theorem hydrate_bounded (m : Mgr) (g : Nat) (h : Bounded m) : Bounded (hydrate m g) := by
  unfold hydrate
  cases hb : m.store.backend <;> simp only
  · exact h
  · split
    · exact h
    · intro g'
      by_cases c : g' = g
      · subst c
        simp only [Mgr.queue, Mgr.setQueue, alookup_ainsert_self, Option.getD_some]
        exact trim_len _ _ _ _
      · have := h g'
        simp only [Mgr.queue, Mgr.setQueue, alookup_ainsert_ne _ _ _ _ c] at this ⊢
        exact this

theorem create_bounded (m : Mgr) (g e c t k : Nat) (h : Bounded m) : Bounded (create m g e c t k).1 := by
  have hh := hydrate_bounded m g h
  have hr := hydrate_retention m g
  unfold create
  simp only
  split
  · exact hh
  · intro g'
    by_cases cg : g' = g
    · subst cg
      simp only [Mgr.queue, Mgr.setQueue, alookup_ainsert_self, Option.getD_some]
      exact trim_len _ _ _ _
    · have := hh g'
      simp only [Mgr.queue, Mgr.setQueue, alookup_ainsert_ne _ _ _ _ cg] at this ⊢
      exact this

theorem isBetter_bounded (m : Mgr) (g e t c : Nat) (h : Bounded m) : Bounded (isBetter m g e t c).1 := by
  have hh := hydrate_bounded m g h
  unfold isBetter
  simp only
  split
  · exact hh
  · split
    · exact hh
    · split
      · exact hh
      · split <;> exact hh

theorem rollback_bounded (m : Mgr) (g e : Nat) (h : Bounded m) : Bounded (rollback m g e).1 := by
  have hh := hydrate_bounded m g h
  unfold rollback
  simp only
  split
  · exact hh
  · split
    · exact hh
    · split
      · exact hh
      · intro g'
        by_cases cg : g' = g
        · subst cg
          simp only [Mgr.queue, Mgr.setQueue, alookup_ainsert_self, Option.getD_some]
          have := hh g'
          simp only [Mgr.queue] at this
          have h2 : ((alookup g' (hydrate m g').queues).getD []).length ≤ m.retention := by
            rw [← hydrate_retention m g']; exact this
          rw [hydrate_retention]
          simp only [List.length_take]
          omega
        · have := hh g'
          simp only [Mgr.queue, Mgr.setQueue, alookup_ainsert_ne _ _ _ _ cg] at this ⊢
          exact this

theorem restart_bounded (m : Mgr) (now ttl : Nat) (h : Bounded m) : Bounded (restart m now ttl) := by
  unfold restart
  cases m.store.backend <;> simp only
  · exact h
  · intro g; simp [Mgr.queue, alookup]

theorem step_bounded (m : Mgr) (op : Snapshots.Op) (h : Bounded m) : Bounded (Snapshots.step m op).1 := by
  cases op with
  | create g e c t k => exact create_bounded m g e c t k h
  | better g e t c => exact isBetter_bounded m g e t c h
  | rollback g e => exact rollback_bounded m g e h
  | restart now ttl => exact restart_bounded m now ttl h
  | list g => exact h
  | saveGroup g n =>
    simp only [Snapshots.step]
    split
    · exact h
    · exact h

/-- **bound_inv**: for every retention value `r` (0 included), either backend, and every sequence of
    operations, every group's rollback queue holds at most `r` snapshots after every step -/
theorem bound_inv (b : Backend) (r : Nat) (ops : List Snapshots.Op) (g : Nat) :
    ((Snapshots.run (init b r) ops).queue g).length ≤ r := by
  have hret : ∀ (ops : List Snapshots.Op) (m : Mgr), (Snapshots.run m ops).retention = m.retention := by
    intro ops
    induction ops with
    | nil => intro m; rfl
    | cons o os ih =>
      intro m
      simp only [Snapshots.run, List.foldl_cons] at ih ⊢
      rw [ih]
      cases o with
      | create g e c t k =>
        simp only [Snapshots.step, create]; split <;> simp [Mgr.setQueue, hydrate_retention]
      | better g e t c =>
        simp only [Snapshots.step, isBetter]; repeat' split
        all_goals simp [hydrate_retention]
      | rollback g e =>
        simp only [Snapshots.step, rollback]; repeat' split
        all_goals simp [Mgr.setQueue, hydrate_retention]
      | restart now ttl => simp only [Snapshots.step, restart]; split <;> rfl
      | list g => rfl
      | saveGroup g n => simp only [Snapshots.step]; split <;> rfl
  have hb : ∀ (ops : List Snapshots.Op) (m : Mgr), Bounded m → Bounded (Snapshots.run m ops) := by
    intro ops
    induction ops with
    | nil => intro m h; exact h
    | cons o os ih => intro m h; exact ih _ (step_bounded m o h)
  have h0 : Bounded (init b r) := by intro g; simp [init, Mgr.queue, alookup]
  have := hb ops _ h0 g
  rw [hret] at this
  exact this

/-! ### age: after a restart nothing older than the TTL is stored (persistent backend) -/

theorem ttl_enforced (m : Mgr) (now ttl : Nat) (hb : m.store.backend = .sql) :
    ∀ p ∈ (restart m now ttl).store.snaps, now - ttl ≤ p.createdAt := by
  intro p hp
  simp only [restart, hb, snapPrune] at hp
  have := (List.mem_filter.mp hp).2
  simpa using this

/-! ### a rollback discards the consumed snapshot and every later one from the queue -/

theorem findIdx_take (q : List Meta) (e i : Nat) (h : Snapshots.findIdx q e = some i) : Snapshots.findIdx (q.take i) e = none := by
  induction q generalizing i with
  | nil => simp [Snapshots.findIdx] at h
  | cons x t ih =>
    simp only [Snapshots.findIdx] at h
    by_cases c : (x.epoch == e) = true
    · simp only [c, if_true, Option.some.injEq] at h
      subst h; simp [Snapshots.findIdx]
    · have c' : (x.epoch == e) = false := by simpa using c
      simp only [c', Bool.false_eq_true, if_false] at h
      cases hj : Snapshots.findIdx t e with
      | none => simp [hj] at h
      | some j =>
        simp only [hj, Option.map_some, Option.some.injEq] at h
        subst h
        simp only [List.take_succ_cons, Snapshots.findIdx, c', Bool.false_eq_true, if_false, ih j hj, Option.map_none]

/-- after a successful rollback to epoch `e`, the group's queue is the part strictly before the
    rolled-back entry: it contains no entry for `e` any more -/
theorem rollback_discards (m : Mgr) (g e : Nat) (h : (rollback m g e).2 = true) :
    Snapshots.findIdx ((rollback m g e).1.queue g) e = none := by
  unfold rollback at h ⊢
  simp only at h ⊢
  split
  · rename_i hn; simp [hn] at h
  · rename_i i hi
    split
    · rename_i hd; simp [hi, hd] at h
    · rename_i x later hd
      split
      · rename_i hr; simp [hi, hd, hr] at h
      · have : ∀ (mm : Mgr) (st : Store), ({ mm with store := st } : Mgr).queue g = mm.queue g := fun _ _ => rfl
        rw [this, queue_setQueue_self]
        exact findIdx_take _ _ _ hi

/-! ### the MIP-03 comparison never prefers a candidate to itself, and ignores hydrated entries -/

theorem never_better_than_itself (m : Mgr) (g e : Nat) (x : Meta)
    (hx : ((hydrate m g).queue g).find? (·.epoch == e) = some x) :
    (isBetter m g e x.ts x.commit).2 = false := by
  unfold isBetter
  simp only [hx]
  split
  · rfl
  · split
    · omega
    · simp

/-- non-vacuity / regression: retention 2, three commits, the oldest is released -/
example : ((Snapshots.run (init .sql 2) [.saveGroup 1 11, .create 1 1 7 100 1000, .create 1 2 8 101 1001, .create 1 3 9 102 1002]).store.snaps.map (·.name))
    = [mkName 2 8, mkName 3 9] := by decide
example : ((Snapshots.run (init .mem 0) [.saveGroup 1 11, .create 1 1 7 100 1000]).store.snaps.length) = 0 := by decide

/-! ### the bound on STORED snapshots

  `bound_inv` bounds the manager's queue; what costs disk / memory is the snapshot table.  The
  invariant `SInv r` (Proofs/SnapBound.lean) ties the two: the names stored for a group are
  duplicate-free (snapshot keys `(group, name)` are unique) and — on memory always, on SQLite once the
  group is hydrated — contained in the names of that group's queue; for a SQLite group not yet
  hydrated after a restart the queue is empty and the stored set is at most what it was (it only
  shrinks: start-up prune).  Hypotheses, both true of `Snapshots.Op`: snapshots enter the store only
  through the manager, and the retention value is the same across restarts.  No assumption on epochs
  or names: the queue may hold the same name twice (a re-taken snapshot) — the bound still holds. -/

/-- the invariant holds after every operation sequence, either backend, every retention value -/
theorem stored_inv (b : Backend) (r : Nat) (ops : List Snapshots.Op) : SInv r (Snapshots.run (init b r) ops) :=
  run_sinv r ops _ (init_sinv b r)

/-- snapshot keys are unique: per group, no name is stored twice -/
theorem stored_keys_unique (b : Backend) (r : Nat) (ops : List Snapshots.Op) (g : Nat) :
    (namesOf (Snapshots.run (init b r) ops).store.snaps g).Nodup :=
  (stored_inv b r ops).nodup g

/-- every stored snapshot of a group the manager has loaded is in that group's queue -/
theorem stored_subset_queue (b : Backend) (r : Nat) (ops : List Snapshots.Op) (g : Nat)
    (hc : covered (Snapshots.run (init b r) ops) g) :
    ∀ n ∈ namesOf (Snapshots.run (init b r) ops).store.snaps g,
      n ∈ ((Snapshots.run (init b r) ops).queue g).map (·.name) :=
  (stored_inv b r ops).sub g hc

/-- **stored_bound**: for every retention value `r` (0 included), either backend, every sequence of
    commits, comparisons, rollbacks, group saves and restarts (any TTL), and every group: at most
    `r` snapshots of that group are stored -/
theorem stored_bound (b : Backend) (r : Nat) (ops : List Snapshots.Op) (g : Nat) :
    ((Snapshots.run (init b r) ops).store.snaps.filter (·.gid == g)).length ≤ r := by
  have := (stored_inv b r ops).stored_le g
  simpa [namesOf] using this

/-- non-vacuity / regression: retention 2 on SQLite — three commits, a restart that prunes nothing,
    hydration on the next use, a fourth commit: two snapshots stored, the two newest -/
example : ((Snapshots.run (init .sql 2) [.saveGroup 1 11, .create 1 1 7 100 1000, .create 1 2 8 101 1001, .create 1 3 9 102 1002,
      .restart 2000 5000, .create 1 4 6 103 1003]).store.snaps.map (·.name)) = [mkName 3 9, mkName 4 6] := by decide

/-- the same snapshot name taken twice (queue holds the name twice, the store once): still within the bound -/
example : ((Snapshots.run (init .mem 3) [.saveGroup 1 11, .create 1 1 7 100 1000, .create 1 1 7 100 1001]).queue 1).length = 2 ∧
    ((Snapshots.run (init .mem 3) [.saveGroup 1 11, .create 1 1 7 100 1000, .create 1 1 7 100 1001]).store.snaps.length) = 1 := by decide

end MdkVerif.Props.C20
