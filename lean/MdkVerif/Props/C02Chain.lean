import MdkVerif.Model.Client
import MdkVerif.Proofs.Client
import MdkVerif.Proofs.Fork
import MdkVerif.Proofs.ForkInv
import MdkVerif.Proofs.Chain
import MdkVerif.Proofs.ChainMsg
import MdkVerif.Props.C01Fork
/-
  C02 — application messages at the level of HISTORIES, on top of the chain theorems of C01
  (Proofs/Chain.lean, Props/C01Chain.lean; DESIGN §13.7, §13.9).

  Vocabulary (Proofs/Chain.lean, Proofs/ChainMsg.lean):
    `run nx c l`              deliver the list `l` to client `c`, one event after the other
    `findRow m rows`          the stored row of message id `m`;  `Uniq rows`: ids are unique in the table
                              (with it, `rows.filter (·.mid == m) = [row]` says: stored exactly once)
    `Level = (w, S)`, `ChainEv id k Ls`, `AtFork c T`, `IsMin w T`   as in C01Chain
    `SlotEv id k M`           conditions on the EVENTS of one slot: application messages created in the state with
                              core `k`, by others than `id`, tagged with that state's nostr group id, pairwise distinct
                              event numbers / ciphertexts / message ids
    `SlotsEv id k Ls Ms`      slot j (`Ms[j]`) holds messages created in the state the winners of levels 1..j+1 lead to;
                              numbers and ciphertexts distinct from the chain's commits and from later slots
    `MLevelWise all p Ls Ms sched`   the schedule: `sched[j] = (l, m)`; `l` is the delivery list of level j+1 (all its
                              commits, any order, any repetition, events stale for the level interleaved), `m` the delivery
                              list of slot j (messages of the slot — any of them, any order, any repetition — and events
                              that are stale for the winner's state, e.g. messages and commits of branches that lost)
    `flat sched`              the whole delivery list `l₁ ++ m₁ ++ l₂ ++ m₂ ++ …`

  HYPOTHESIS of the history theorems, and the reason the property is only PARTIAL: a message is delivered while the
  client is in the epoch the message was created in (slot j lies between level j+1 and level j+2), on top of the
  level-by-level hypothesis of C01.  The statement for arbitrary interleavings is `C02_history_full`; it is false of the
  code (`C02_history_full_false`: a message offered before the commit that creates its epoch is recorded Failed and
  refused for ever; `C02_history_full_false_epoch_tag`: a message processed while the receiver sits on a losing sibling
  of a LATER level is filed under the receiver's epoch, invalidated by the rollback and refused afterwards).
  The second sentence of the property (messages of a losing branch are never left valid) needs NO schedule hypothesis:
  `losing_messages_never_valid` holds for every list of foreign events.
-/
namespace MdkVerif.Props.C02Chain
open MdkVerif MdkVerif.Client MdkVerif.Fork MdkVerif.Chain MdkVerif.ChainMsg MdkVerif.Props.C01Fork

/-! ### 1. one message, every state -/

/-- **app_deliver_stored** (every state, every event).  A client that is offered an application message which passes
    the tests of `process_message` — not blocked by its dedup record, routed by its `h` tag to an active group, opened by
    the outer layer, created in the client's current epoch or in a retained past state (`past.contains e.path`: the
    past-epoch window), by another member, its ratchet generation unused — stores EXACTLY ONE row for the message id:
    author = the sender, the message's own timestamp and content token, the wrapper's event number, state Processed,
    filed under the RECEIVER's current epoch; ids stay unique and no other row is touched.  A second offer is answered
    Unprocessable and changes neither the message table, the group state nor the snapshots (it only turns the event's own
    dedup record to Failed); every further offer changes nothing at all. -/
theorem app_deliver_stored (c : Cl) (e : Ev) (mid ts tok nx : Nat)
    (hk : e.kind = .app mid ts tok) (hroutes : routes c e = true) (hact : c.g.active = true)
    (hopen : outerOpens (ensureSecret c.g) e = true)
    (hle : epochOf e.path ≤ epochOf c.g.path)
    (hpast : epochOf e.path < epochOf c.g.path → c.g.past.contains e.path = true)
    (hf : e.sender ≠ c.id) (hc : e.cipher ∉ c.g.consumed) (hnb : NotBlocked c e.n) (hu : Uniq c.msgs) :
    (deliver c e nx).2 = .app mid ∧
    (deliver c e nx).1.msgs.filter (·.mid == mid) =
      [{ mid := mid, author := e.sender, state := 1, epoch := epochOf c.g.path, wrapper := e.n, msgTs := ts, tok := tok }] ∧
    Uniq (deliver c e nx).1.msgs ∧
    (∀ m, m ≠ mid → findRow m (deliver c e nx).1.msgs = findRow m c.msgs) ∧
    (deliver (deliver c e nx).1 e nx).2 = .unprocessable ∧
    (deliver (deliver c e nx).1 e nx).1.msgs = (deliver c e nx).1.msgs ∧
    (deliver (deliver c e nx).1 e nx).1.g = (deliver c e nx).1.g ∧
    (deliver (deliver c e nx).1 e nx).1.mgr = (deliver c e nx).1.mgr ∧
    (deliver (deliver (deliver c e nx).1 e nx).1 e nx).1 = (deliver (deliver c e nx).1 e nx).1 := by
  have hst := deliverN_app_store 3 nx c e mid ts tok hnb hroutes hact hopen hk hle hpast hf hc
  have hs := storeApp_stored c e mid ts tok
  rw [← hst] at hs
  change AppStored c e _ (deliver c e nx).1 at hs
  generalize hc1 : (deliver c e nx).1 = c1 at hs
  have hres : (deliver c e nx).2 = .app mid := by
    show (deliverN 3 nx c e).2 = _
    rw [hst]; rfl
  have hu1 : Uniq c1.msgs := by rw [hs.msgs]; exact uniq_upsertRow _ _ hu
  have hfound := findRow_upsert_self { mid := mid, author := e.sender, state := 1, epoch := epochOf c.g.path, wrapper := e.n, msgTs := ts, tok := tok } c.msgs
  rw [← hs.msgs] at hfound
  -- the second offer
  have hroutes1 : routes c1 e = true := by
    simp only [routes, hs.hasGroup, hs.recNid] at hroutes ⊢; exact hroutes
  have hopen1 : outerOpens (ensureSecret c1.g) e = true := by
    rw [hs.fix, outerOpens_congr (ensureSecret c.g) c1.g e (by rw [hs.path, ensureSecret_path]) hs.secrets]
    exact hopen
  have hnb1 : NotBlocked c1 e.n := by
    intro r hr; rw [hs.record] at hr; cases hr; simp
  obtain ⟨retry, hd⟩ := deliverN_once 3 nx c1 e
  have h2 : deliver c1 e nx = failUnprocessable (withSecret c1) e := by
    show deliverN 3 nx c1 e = _
    rw [hd, deliverOnce_notBlocked retry nx c1 e hnb1,
      step1_app_dup retry nx c1 e mid ts tok hroutes1 (hs.active.trans hact) hopen1 hk (by rw [hs.path]; exact hle)
        (by rw [hs.path, hs.past]; exact hpast) (by rw [hs.id]; simpa using hf) (by rw [hs.consumed]; simp)]
  have hw1 : withSecret c1 = c1 := withSecret_eq c1 hs.fix
  rw [hw1] at h2
  refine ⟨hres, uniq_filter hu1 hfound, hu1, fun m hm => by rw [hs.msgs]; exact findRow_upsert_ne _ m _ hm, ?_, ?_, ?_, ?_, ?_⟩
  · rw [h2]; rfl
  · rw [h2]; rfl
  · rw [h2]; rfl
  · rw [h2]; rfl
  · rw [h2]
    obtain ⟨retry3, hd3⟩ := deliverN_once 3 nx (failUnprocessable c1 e).1 e
    show (deliverN 3 nx (failUnprocessable c1 e).1 e).1 = _
    rw [hd3]
    exact deliverOnce_blocked retry3 nx _ e _
      (by simp only [failUnprocessable, getRec, recordFailure, setRec]; exact Store.alookup_ainsert_self _ _ _) (Or.inl rfl)

/-- … in particular a message created in the client's CURRENT state: the outer layer opens it because the stored
    exporter secrets follow the client's path (`SecretsOK`) -/
theorem app_deliver_stored_current (c : Cl) (e : Ev) (mid ts tok nx : Nat)
    (hk : e.kind = .app mid ts tok) (hg : c.hasGroup = true) (htag : e.tag = c.g.recNid) (hact : c.g.active = true)
    (hsec : SecretsOK c.g) (hp : e.path = c.g.path)
    (hf : e.sender ≠ c.id) (hc : e.cipher ∉ c.g.consumed) (hnb : NotBlocked c e.n) (hu : Uniq c.msgs) :
    (deliver c e nx).2 = .app mid ∧
    (deliver c e nx).1.msgs.filter (·.mid == mid) =
      [{ mid := mid, author := e.sender, state := 1, epoch := epochOf c.g.path, wrapper := e.n, msgTs := ts, tok := tok }] ∧
    (deliver (deliver c e nx).1 e nx).1.msgs = (deliver c e nx).1.msgs := by
  have h := app_deliver_stored c e mid ts tok nx hk (by simp [routes, hg, htag]) hact (outerOpens_current c.g e hsec hp)
    (by rw [hp]; exact Nat.le_refl _) (by rw [hp]; intro a; exact absurd a (Nat.lt_irrefl _)) hf hc hnb hu
  exact ⟨h.1, h.2.1, h.2.2.2.2.2.1⟩

/-! ### the running example

  receiver 2 in a group of four (admins 0, 1).
  level 1, created in the start state (path []):   A (by 1, ts 20), B (by 0, ts 19)                      — B wins
  slot 1, created in the state reached by B ([2]): X (by 0: id 10), Y (by 3: id 11)
  losing branch, created in A's state ([1]):       L (by 1: id 12)
  level 2, created in [2]:                         F (by 3, ts 31), C (by 0, ts 30)                      — C wins
  slot 2, created in the state reached by C ([2,6]): Z (by 0: id 13) -/

def r2 : Cl := initCl 2 false 5 [0, 1, 2, 3] [0, 1] 1
def cA : Ev := { n := 1, ts := 20, idnum := 7, cipher := 1, sender := 1, path := [], kind := .commit .selfUpdate [] }
def cB : Ev := { n := 2, ts := 19, idnum := 9, cipher := 2, sender := 0, path := [], kind := .commit .selfUpdate [] }
def mX : Ev := { n := 3, ts := 25, idnum := 3, cipher := 3, sender := 0, path := [2], kind := .app 10 101 5 }
def mY : Ev := { n := 4, ts := 26, idnum := 4, cipher := 4, sender := 3, path := [2], kind := .app 11 102 6 }
def mL : Ev := { n := 5, ts := 27, idnum := 5, cipher := 5, sender := 1, path := [1], kind := .app 12 103 7 }
def cC : Ev := { n := 6, ts := 30, idnum := 6, cipher := 6, sender := 0, path := [2], kind := .commit .selfUpdate [] }
def mZ : Ev := { n := 7, ts := 35, idnum := 8, cipher := 7, sender := 0, path := [2, 6], kind := .app 13 104 8 }
def cF : Ev := { n := 8, ts := 31, idnum := 2, cipher := 8, sender := 3, path := [2], kind := .commit .selfUpdate [] }
def T1 : List Ev := [cA, cB]
def T2 : List Ev := [cF, cC]
def chain2 : List Level := [(cB, T1), (cC, T2)]
def slots2 : List (List Ev) := [[mX, mY], [mZ]]
/-- level 1: A, B, A again; slot 1: Y, the losing L, X, Y again; level 2: L once more, F, C; slot 2: Z twice -/
def sched2 : List (List Ev × List Ev) := [([cA, cB, cA], [mY, mL, mX, mY]), ([mL, cF, cC], [mZ, mZ])]

theorem r2_secrets : SecretsOK r2.g := by intro ep q h; simp [r2, initCl, initG, alookup] at h
theorem r2_below : Below r2 := by intro s hs; cases hs
theorem r2_uniq : Uniq r2.msgs := by decide

theorem chain2_ev : ChainEv r2.id (core r2.g) chain2 :=
  ⟨levelEv_of_dec _ _ _ (by decide) (by decide) (by decide) (by decide) (by decide) (by decide), by decide, by decide,
   levelEv_of_dec _ _ _ (by decide) (by decide) (by decide) (by decide) (by decide) (by decide), by decide, by decide, trivial⟩

theorem r2_atFork : AtFork r2 T1 :=
  .bystander rfl rfl (by decide) r2_secrets r2_below.noFork rfl
    (siblings_of_dec r2 T1 rfl (by decide) (by decide) (by decide) (by decide) (by decide) (by decide) (by decide))

/-- non-vacuity of `app_deliver_stored_current`: X offered to the receiver at B's state -/
example : ((deliver (run 0 r2 [cA, cB]) mX 0).1.msgs.filter (·.mid == 10)) =
    [{ mid := 10, author := 0, state := 1, epoch := 2, wrapper := 3, msgTs := 101, tok := 5 }] := by
  obtain ⟨w, _, _, hd⟩ := fork_level r2 T1 [cA, cB] 0 r2_atFork (by decide) (by decide)
  exact (app_deliver_stored_current (run 0 r2 [cA, cB]) mX 10 101 5 0 rfl (by decide) (by decide) (by decide)
    (hd.secrets r2_secrets) (by decide) (by decide) (by decide) (notBlocked_of_none (by decide)) (by decide)).2.1

/-! ### 2. the message table through deliveries and fork levels -/

/-- **deliver_msgs_frame** (every state, every foreign event, every fuel): apart from the row of the message the event
    carries, a delivery changes the message table only by the re-marking of a rollback to the event's epoch — a row of
    another message id filed under an epoch up to the event's is exactly as it was, no row of another id appears, no row of
    another id is (re-)validated, and ids stay unique -/
theorem deliver_msgs_frame (fuel nx : Nat) (c : Cl) (e : Ev) (hf : e.sender ≠ c.id) :
    (∀ m row, appMid e ≠ some m → findRow m c.msgs = some row → row.epoch ≤ epochOf e.path →
      findRow m (deliverN fuel nx c e).1.msgs = some row) ∧
    (∀ m, appMid e ≠ some m → findRow m c.msgs = none → findRow m (deliverN fuel nx c e).1.msgs = none) ∧
    (∀ m row, appMid e ≠ some m → findRow m (deliverN fuel nx c e).1.msgs = some row → row.state ≠ 3 →
      findRow m c.msgs = some row) ∧
    (Uniq c.msgs → Uniq (deliverN fuel nx c e).1.msgs) := by
  have h := mtrans_deliverN fuel nx c e
  have hok : ∀ m, appMid e ≠ some m → ∀ r, OkRow c.id e (recMid c e.n) r → r.mid ≠ m := by
    intro m hm r hr
    rcases hr with ⟨_, h2⟩ | ⟨h1, _⟩
    · exact fun x => hm (x ▸ h2)
    · exact absurd h1 hf
  refine ⟨?_, ?_, ?_, h.uniq⟩
  · intro m row hm hrow hle
    exact h.frame m (hok m hm) (· = some row) (fun o ho => by rw [ho]; simp [rbRow_le hle]) hrow
  · intro m hm hn
    exact h.frame m (hok m hm) (· = none) (fun o ho => by rw [ho]; rfl) hn
  · intro m row hm
    refine h.frame m (hok m hm) (fun o => o = some row → row.state ≠ 3 → findRow m c.msgs = some row) ?_ (fun x _ => x)
    intro o ho hx hv
    cases o with
    | none => cases hx
    | some r =>
      simp only [Option.map_some, Option.some.injEq] at hx
      by_cases hgt : r.epoch > epochOf e.path
      · rw [← hx] at hv; exact absurd (rbRow_gt hgt) hv
      · rw [rbRow_le (by omega)] at hx
        exact ho (by rw [hx]) hv

/-- **fork_keeps_earlier_messages** (one fork level, either role, any delivery list over the fork's commits with stale
    events interleaved): every row filed under an epoch up to the PARENT's is still there afterwards, unchanged (in
    particular still valid); no row appears; the only change a row can undergo is invalidation, and only if its epoch tag is
    later than the parent's (it was filed while the client sat on a sibling that lost); ids stay unique -/
theorem fork_keeps_earlier_messages (c : Cl) (T l : List Ev) (nx : Nat) (hat : AtFork c T)
    (hl : ∀ e ∈ l, e ∈ T ∨ StaleAt c T e) :
    (∀ m row, findRow m c.msgs = some row → row.epoch ≤ epochOf c.g.path → findRow m (run nx c l).msgs = some row) ∧
    (∀ m, findRow m c.msgs = none → findRow m (run nx c l).msgs = none) ∧
    (∀ x ∈ (run nx c l).msgs, ∃ y ∈ c.msgs, x = y ∨ (x = { y with state := 3 } ∧ y.epoch > epochOf c.g.path)) ∧
    (Uniq c.msgs → Uniq (run nx c l).msgs) := by
  have h : MTrans (epochOf c.g.path) (fun _ => False) c.msgs (run nx c l).msgs := by
    have := level_rows c T nx hat l [] (by simpa using hl) (ownRec_atFork hat)
    simpa using this
  refine ⟨?_, ?_, h.rows_noupsert, h.uniq⟩
  · intro m row hrow hle
    exact h.frame m (fun r hr => hr.elim) (· = some row) (fun o ho => by rw [ho]; simp [rbRow_le hle]) hrow
  · intro m hn
    exact h.frame m (fun r hr => hr.elim) (· = none) (fun o ho => by rw [ho]; rfl) hn

/-- non-vacuity: the receiver with X and Y stored at B's state is at the fork {F, C}; the level keeps both rows -/
example : (run 0 (run 0 r2 [cA, cB, mX, mY]) [cF, cC, cF]).msgs.map (fun r => (r.mid, r.state, r.epoch)) = [(10, 1, 2), (11, 1, 2)] := by
  decide

/-! ### 3. messages of a losing branch: every schedule of foreign events -/

/-- **losing_messages_never_valid**.  `P` is the MLS path of a fork's parent state, `w` the ciphertext of one of its
    commits, `LM` a set of message ids such that every application message carrying one of them was created on a branch
    through ANOTHER child of `P` (`LosingEv`).  For a client whose state satisfies the history invariants (`HInv`, `PrefInv`:
    stored secrets and snapshots follow the client's path — they hold of a fresh client and are kept by every delivery) and
    whose rows are filed under epochs it has not rolled back beyond (`RowInv`), and for EVERY list of events of other members
    — any kinds, any order, any repetition, no level-by-level hypothesis — : if the client ends on the branch through `w`,
    every stored row with an id of `LM` is invalidated.  (`losing_never_valid` of Props/C02.lean, lifted from one rollback
    to whole histories.) -/
theorem losing_messages_never_valid (P : Path) (w : Nat) (LM : Nat → Prop) (c : Cl) (l : List Ev) (nx : Nat)
    (hh : HInv c) (hpref : PrefInv c) (hrows : RowInv P w LM c)
    (hl : ∀ e ∈ l, e.sender ≠ c.id ∧ LosingEv P w LM e)
    (hfin : (P ++ [w]) <+: (run nx c l).g.path) :
    ∀ r ∈ (run nx c l).msgs, LM r.mid → r.state = 3 := by
  obtain ⟨_, _, h2⟩ := li_run nx l c hl hh ⟨hpref, hrows⟩
  intro r hr hlm
  apply Classical.byContradiction
  intro hv
  exact (h2.losing r hr hlm hv).2 hfin

/-- the invariants hold of a client that has just joined or created the group (no snapshots, no messages) -/
theorem fresh_client_inv (P : Path) (w : Nat) (LM : Nat → Prop) (id : Nat) (p : Bool) (r : Nat) (ms as : List Nat) (name : Nat) :
    HInv (initCl id p r ms as name) ∧ PrefInv (initCl id p r ms as name) ∧ RowInv P w LM (initCl id p r ms as name) :=
  ⟨hinv_init id p r ms as name, ⟨fun s hs => (by cases hs), List.Pairwise.nil⟩, ⟨fun r hr => (by cases hr), fun r hr => (by cases hr)⟩⟩

/-- non-vacuity: the receiver follows the loser A, stores L there (epoch tag 2), then B arrives; X is stored on the winning
    branch; L offered again.  The theorem applies (parent [], winner B = 2, losing ids {12}) … -/
example : ∀ r ∈ (run 0 r2 [cA, mL, cB, mX, mL]).msgs, r.mid = 12 → r.state = 3 := by
  obtain ⟨h1, h2, h3⟩ := fresh_client_inv [] 2 (· = 12) 2 false 5 [0, 1, 2, 3] [0, 1] 1
  refine losing_messages_never_valid [] 2 (· = 12) r2 [cA, mL, cB, mX, mL] 0 h1 h2 h3 ?_ (by decide)
  intro e he
  simp only [List.mem_cons, List.not_mem_nil, or_false] at he
  rcases he with rfl | rfl | rfl | rfl | rfl
  · exact ⟨by decide, fun m hm => by simp [appMid, cA] at hm⟩
  · exact ⟨by decide, fun m _ _ => ⟨1, by decide, by decide⟩⟩
  · exact ⟨by decide, fun m hm => by simp [appMid, cB] at hm⟩
  · refine ⟨by decide, fun m hm hl => ?_⟩
    simp [appMid, mX] at hm
    omega
  · exact ⟨by decide, fun m _ _ => ⟨1, by decide, by decide⟩⟩

/-- … and this is what happens: L's row (filed under epoch 2 on the losing branch) is invalidated, X is valid -/
example : (run 0 r2 [cA, mL]).msgs.map (fun r => (r.mid, r.state, r.epoch)) = [(12, 1, 2)] ∧
    (run 0 r2 [cA, mL, cB, mX, mL]).msgs.map (fun r => (r.mid, r.state, r.epoch)) = [(12, 3, 2), (10, 1, 2)] ∧
    (run 0 r2 [cA, mL, cB, mX, mL]).g.path = [2] := by decide

/-! ### 4. the history theorem: chains of forks with message slots -/

theorem rowOf_app {ep : Nat} {e : Ev} {mid ts tok : Nat} (hk : e.kind = .app mid ts tok) :
    rowOf ep e = some { mid := mid, author := e.sender, state := 1, epoch := ep, wrapper := e.n, msgTs := ts, tok := tok } := by
  simp [rowOf, hk]

/-- the conclusions of the history theorems, from what the induction over levels and slots gives (`MsgDone`) -/
theorem msgDone_rows {c c' : Cl} {Ls : List Level} {Ms : List (List Ev)} {sched : List (List Ev × List Ev)}
    (h : MsgDone c Ls Ms sched c') :
    c'.g.path = c.g.path ++ Ls.map (·.1.cipher) ∧ Uniq c'.msgs ∧
    (∀ k lm M, sched[k]? = some lm → Ms[k]? = some M → ∀ e ∈ lm.2, e ∈ M → ∀ mid ts tok, e.kind = .app mid ts tok →
      c'.msgs.filter (·.mid == mid) =
        [{ mid := mid, author := e.sender, state := 1, epoch := epochOf c.g.path + k + 1, wrapper := e.n, msgTs := ts, tok := tok }]) ∧
    (∀ mid, (∀ e ∈ Ms.flatten, appMid e ≠ some mid) →
      (findRow mid c.msgs = none → c'.msgs.filter (·.mid == mid) = []) ∧
      (∀ row, findRow mid c.msgs = some row → row.epoch ≤ epochOf c.g.path → c'.msgs.filter (·.mid == mid) = [row])) := by
  refine ⟨h.path, h.uniq, ?_, ?_⟩
  · intro k lm M hk hM e he heM mid ts tok hkind
    exact uniq_filter h.uniq (h.stored k lm M hk hM e he heM _ (rowOf_app hkind))
  · intro mid hmid
    obtain ⟨h1, h2⟩ := h.kept mid hmid
    exact ⟨fun hn => filter_nil_of_findRow_none (h1 hn), fun row hrow hle => by
      have := h2 row hrow hle
      have hm := (findRow_mid this).1
      rw [← hm]
      exact uniq_filter h.uniq (hm ▸ this)⟩

/-- **messages_on_winning_branch_partial**.  A client (group present and active, retention ≥ 1, stored secrets following
    the path, no snapshot of the current or a later epoch, id in force = the extension's id, message ids unique) and a chain
    of forks `Ls = [(w₁,S₁), …, (wₙ,Sₙ)]` starting at its state (`ChainEv`: conditions on the EVENTS, see C01Chain), with
    message slots `Ms = [M₁, …, Mₙ]` (`SlotsEv`): `M_k` are application messages created in the state the MIP-03 winners
    `w₁ … w_k` lead to, by members other than the receiver, tagged with that state's nostr group id, with distinct event
    numbers, ciphertexts and message ids (within the slot, against later slots, against the chain's commits), everything
    unseen and unconsumed at the START.  For EVERY schedule `sched = [(l₁,m₁), …, (lₙ,mₙ)]` (`MLevelWise`) in which
      `l_k` delivers level k — every commit of `S_k` at least once, any order, any repetition, with events that are stale
            for the level interleaved (descendants and messages of branches that lost earlier, …) — and
      `m_k` delivers slot k, BETWEEN level k and level k+1 (after the last level for k = n) — any of the messages of `M_k`,
            any order, any repetition, with events that are stale for the winner's state interleaved (messages created on a
            sibling that lost level k, for instance) —
    the client ends on the path of the winners, message ids are still unique, and
    (a) every message of `M_k` that was delivered in `m_k` is stored EXACTLY ONCE, with the author, message timestamp and
        content token its sender gave it, the event number of its wrapper, state Processed (valid: neither invalidated nor
        failed), filed under the epoch of the state it was created in — whatever levels and slots followed;
    (b) for every message id that belongs to no slot (the id of a message created on a losing branch, say): if there was no
        row for it at the start there is none at the end, and a row filed under an epoch up to the start epoch is the only
        row of its id and unchanged.
    The per-client conditions of the later levels and slots are derived, not assumed. -/
theorem messages_on_winning_branch_partial (c : Cl) (Ls : List Level) (Ms : List (List Ev))
    (sched : List (List Ev × List Ev)) (nx : Nat)
    (hg : c.hasGroup = true) (ha : c.g.active = true) (hr : 1 ≤ c.retention) (hsec : SecretsOK c.g) (hbelow : Below c)
    (hn : c.g.recNid = c.g.nid) (hu : Uniq c.msgs)
    (hch : ChainEv c.id (core c.g) Ls) (hms : SlotsEv c.id (core c.g) Ls Ms)
    (hfresh : ∀ e ∈ evs Ls ++ Ms.flatten, getRec c e.n = none ∧ e.cipher ∉ c.g.consumed)
    (hw : MLevelWise (evs Ls ++ Ms.flatten) c.g.path Ls Ms sched) :
    (run nx c (flat sched)).g.path = c.g.path ++ Ls.map (·.1.cipher) ∧ Uniq (run nx c (flat sched)).msgs ∧
    (∀ k lm M, sched[k]? = some lm → Ms[k]? = some M → ∀ e ∈ lm.2, e ∈ M → ∀ mid ts tok, e.kind = .app mid ts tok →
      (run nx c (flat sched)).msgs.filter (·.mid == mid) =
        [{ mid := mid, author := e.sender, state := 1, epoch := epochOf c.g.path + k + 1, wrapper := e.n, msgTs := ts, tok := tok }]) ∧
    (∀ mid, (∀ e ∈ Ms.flatten, appMid e ≠ some mid) →
      (findRow mid c.msgs = none → (run nx c (flat sched)).msgs.filter (·.mid == mid) = []) ∧
      (∀ row, findRow mid c.msgs = some row → row.epoch ≤ epochOf c.g.path →
        (run nx c (flat sched)).msgs.filter (·.mid == mid) = [row])) :=
  msgDone_rows (msg_chain_rest nx (evs Ls ++ Ms.flatten) Ls c Ms sched ⟨hg, ha, hr, hsec, hbelow, hn⟩ hu hch hms
    (fun _ h => h) hfresh hw)

/-- messages created on a branch that LOST are never stored by such a schedule, wherever they are offered in it: an
    application message whose id belongs to no slot (all ids of the winning branch's messages are different) and for which
    the client holds no row at the start has no row at the end — so none that is valid.  (Offered while the client still
    SITS on the losing sibling — inside the level, which `MLevelWise` does not allow — it is stored and then invalidated:
    `losing_messages_never_valid`.) -/
theorem losing_branch_messages_absent (c : Cl) (Ls : List Level) (Ms : List (List Ev))
    (sched : List (List Ev × List Ev)) (nx : Nat)
    (hg : c.hasGroup = true) (ha : c.g.active = true) (hr : 1 ≤ c.retention) (hsec : SecretsOK c.g) (hbelow : Below c)
    (hn : c.g.recNid = c.g.nid) (hu : Uniq c.msgs)
    (hch : ChainEv c.id (core c.g) Ls) (hms : SlotsEv c.id (core c.g) Ls Ms)
    (hfresh : ∀ e ∈ evs Ls ++ Ms.flatten, getRec c e.n = none ∧ e.cipher ∉ c.g.consumed)
    (hw : MLevelWise (evs Ls ++ Ms.flatten) c.g.path Ls Ms sched)
    (x : Ev) (mid ts tok : Nat) (_hx : x.kind = .app mid ts tok) (hmid : ∀ e ∈ Ms.flatten, appMid e ≠ some mid)
    (hnone : findRow mid c.msgs = none) :
    ∀ r ∈ (run nx c (flat sched)).msgs, r.mid ≠ mid := by
  have h := ((messages_on_winning_branch_partial c Ls Ms sched nx hg ha hr hsec hbelow hn hu hch hms hfresh hw).2.2.2 mid hmid).1 hnone
  intro r hr' hm
  have : r ∈ (run nx c (flat sched)).msgs.filter (·.mid == mid) := List.mem_filter.mpr ⟨hr', by simpa using hm⟩
  rw [h] at this
  cases this

theorem slots2_ev : SlotsEv r2.id (core r2.g) chain2 slots2 := by decide

/-- non-vacuity of `messages_on_winning_branch_partial`: the two-level chain with a race at each level, two messages in
    slot 1 (delivered out of order, one twice), one in slot 2 (twice), the losing branch's message L offered in slot 1 and
    again inside level 2 -/
example : (run 0 r2 (flat sched2)).g.path = [2, 6] ∧
    (run 0 r2 (flat sched2)).msgs.filter (·.mid == 10) = [{ mid := 10, author := 0, state := 1, epoch := 2, wrapper := 3, msgTs := 101, tok := 5 }] ∧
    (run 0 r2 (flat sched2)).msgs.filter (·.mid == 11) = [{ mid := 11, author := 3, state := 1, epoch := 2, wrapper := 4, msgTs := 102, tok := 6 }] ∧
    (run 0 r2 (flat sched2)).msgs.filter (·.mid == 13) = [{ mid := 13, author := 0, state := 1, epoch := 3, wrapper := 7, msgTs := 104, tok := 8 }] ∧
    (run 0 r2 (flat sched2)).msgs.filter (·.mid == 12) = [] := by
  obtain ⟨h1, _, h3, h4⟩ := messages_on_winning_branch_partial r2 chain2 slots2 sched2 0 rfl rfl (by decide) r2_secrets r2_below rfl
    r2_uniq chain2_ev slots2_ev (by decide) (by decide)
  exact ⟨h1, h3 0 _ _ rfl rfl mX (by decide) (by decide) 10 101 5 rfl, h3 0 _ _ rfl rfl mY (by decide) (by decide) 11 102 6 rfl,
    h3 1 _ _ rfl rfl mZ (by decide) (by decide) 13 104 8 rfl, (h4 12 (by decide)).1 (by decide)⟩

/-- … and the table itself, computed: Y, X (slot 1, epoch 2) and Z (slot 2, epoch 3), all Processed; nothing of L -/
example : (run 0 r2 (flat sched2)).msgs.map (fun r => (r.mid, r.author, r.state, r.epoch, r.msgTs, r.tok)) =
    [(11, 3, 1, 2, 102, 6), (10, 0, 1, 2, 101, 5), (13, 0, 1, 3, 104, 8)] := by decide

/-- **late_message_kept_partial** (the past-epoch window at the level of histories).  A message that reaches the client
    LATE — the client has moved on, but the state the message was created in is a retained past state
    (`past.contains e.path`, at most `max_past_epochs` back) and the outer layer still opens it (its exporter secret is one
    of the 5 past epochs' the outer layer looks at) — is stored under the RECEIVER's current epoch (`app_deliver_stored`),
    and then survives EVERY later level-by-level schedule with slots that starts there, as the only row of its id, valid and
    unchanged: a later level rolls back to its own parent epoch, which is never below the epoch the row was filed under.
    (The two window conditions are hypotheses about the state at the moment of delivery; `late_window_derived` derives
    them from a chain.  Offered while the client sits on a sibling that loses afterwards, the row is invalidated:
    `C02_history_full_false_epoch_tag`.) -/
theorem late_message_kept_partial (c : Cl) (e : Ev) (mid ts tok : Nat) (Ls : List Level) (Ms : List (List Ev))
    (sched : List (List Ev × List Ev)) (nx : Nat)
    (hg : c.hasGroup = true) (ha : c.g.active = true) (hr : 1 ≤ c.retention) (hsec : SecretsOK c.g) (hbelow : Below c)
    (hn : c.g.recNid = c.g.nid) (hu : Uniq c.msgs)
    (hk : e.kind = .app mid ts tok) (htag : e.tag = c.g.recNid)
    (hopen : outerOpens (ensureSecret c.g) e = true) (hle : epochOf e.path ≤ epochOf c.g.path)
    (hpast : epochOf e.path < epochOf c.g.path → c.g.past.contains e.path = true)
    (hf : e.sender ≠ c.id) (hc : e.cipher ∉ c.g.consumed) (hnb : getRec c e.n = none)
    (hch : ChainEv c.id (core c.g) Ls) (hms : SlotsEv c.id (core c.g) Ls Ms)
    (hfresh : ∀ x ∈ evs Ls ++ Ms.flatten, getRec c x.n = none ∧ x.cipher ∉ c.g.consumed)
    (hdist : ∀ x ∈ evs Ls ++ Ms.flatten, x.n ≠ e.n ∧ x.cipher ≠ e.cipher)
    (hmid : ∀ x ∈ Ms.flatten, appMid x ≠ some mid)
    (hw : MLevelWise (evs Ls ++ Ms.flatten) c.g.path Ls Ms sched) :
    (run nx c (e :: flat sched)).g.path = c.g.path ++ Ls.map (·.1.cipher) ∧
    (run nx c (e :: flat sched)).msgs.filter (·.mid == mid) =
      [{ mid := mid, author := e.sender, state := 1, epoch := epochOf c.g.path, wrapper := e.n, msgTs := ts, tok := tok }] ∧
    (∀ k lm M, sched[k]? = some lm → Ms[k]? = some M → ∀ x ∈ lm.2, x ∈ M → ∀ mid' ts' tok', x.kind = .app mid' ts' tok' →
      (run nx c (e :: flat sched)).msgs.filter (·.mid == mid') =
        [{ mid := mid', author := x.sender, state := 1, epoch := epochOf c.g.path + k + 1, wrapper := x.n, msgTs := ts', tok := tok' }]) := by
  have hroutes : routes c e = true := by simp [routes, hg, htag]
  have hst := deliverN_app_store 3 nx c e mid ts tok (notBlocked_of_none hnb) hroutes ha hopen hk hle hpast hf hc
  have hs := storeApp_stored c e mid ts tok
  rw [← hst] at hs
  change AppStored c e _ (deliver c e nx).1 at hs
  rw [run_cons]
  generalize (deliver c e nx).1 = c1 at hs
  have hfound := findRow_upsert_self { mid := mid, author := e.sender, state := 1, epoch := epochOf c.g.path, wrapper := e.n, msgTs := ts, tok := tok } c.msgs
  rw [← hs.msgs] at hfound
  have hmain := messages_on_winning_branch_partial c1 Ls Ms sched nx (hs.hasGroup ▸ hg) (hs.active ▸ ha) (hs.retention ▸ hr)
    (hs.secretsOK hsec) (hs.ready ⟨hg, ha, hr, hsec, hbelow, hn⟩).below (by rw [hs.recNid, hs.nid]; exact hn)
    (by rw [hs.msgs]; exact uniq_upsertRow _ _ hu) (by rw [hs.id, hs.core]; exact hch) (by rw [hs.id, hs.core]; exact hms)
    (hs.keepsFresh _ hfresh hdist) (by rw [hs.path]; exact hw)
  rw [hs.path] at hmain
  exact ⟨hmain.1, (hmain.2.2.2 mid hmid).2 _ hfound (Nat.le_refl _), hmain.2.2.1⟩

/-- non-vacuity: X (created in B's state, epoch 2) reaches the receiver only after level 2 (receiver at [2,6], epoch 3; [2] is
    a retained past state): it is filed under epoch 3 and survives level 3 = {G} and its slot -/
def cG : Ev := { n := 9, ts := 40, idnum := 1, cipher := 9, sender := 0, path := [2, 6], kind := .commit .selfUpdate [] }
def mW : Ev := { n := 10, ts := 45, idnum := 10, cipher := 10, sender := 3, path := [2, 6, 9], kind := .app 14 105 9 }

example : (run 0 (run 0 r2 [cB, cC]) (mX :: flat [([cG], [mW])])).msgs.filter (·.mid == 10) =
    [{ mid := 10, author := 0, state := 1, epoch := 3, wrapper := 3, msgTs := 101, tok := 5 }] := by
  have hinv : HInv (run 0 r2 [cB, cC]) :=
    Props.C01Fork.reachable_hinv 2 false 5 [0, 1, 2, 3] [0, 1] 1 [C08.COp.deliver cB 0, C08.COp.deliver cC 0]
  exact (late_message_kept_partial (run 0 r2 [cB, cC]) mX 10 101 5 [(cG, [cG])] [[mW]] [([cG], [mW])] 0 (by decide) (by decide)
    (by decide) hinv.sec hinv.below (by decide) (by decide) rfl (by decide) (by decide) (by decide) (by decide) (by decide)
    (by decide) (by decide)
    ⟨levelEv_of_dec _ _ _ (by decide) (by decide) (by decide) (by decide) (by decide) (by decide), by decide, by decide, trivial⟩
    (by decide) (by decide) (by decide) (by decide) (by decide)).2.1

example : (run 0 (run 0 r2 [cB, cC]) (mX :: flat [([cG], [mW])])).msgs.map (fun r => (r.mid, r.state, r.epoch)) =
    [(10, 1, 3), (14, 1, 4)] := by decide

/-- after a level-by-level schedule with slots the per-client hypotheses of the chain theorems hold again (so the theorems
    compose: a further chain, or a late message by `late_message_kept_partial`, may start at the final state), and events
    that were not delivered are as unseen and unconsumed as before -/
theorem chain_with_slots_restores (c : Cl) (Ls : List Level) (Ms : List (List Ev))
    (sched : List (List Ev × List Ev)) (nx : Nat)
    (hg : c.hasGroup = true) (ha : c.g.active = true) (hr : 1 ≤ c.retention) (hsec : SecretsOK c.g) (hbelow : Below c)
    (hn : c.g.recNid = c.g.nid) (hu : Uniq c.msgs)
    (hch : ChainEv c.id (core c.g) Ls) (hms : SlotsEv c.id (core c.g) Ls Ms)
    (hfresh : ∀ e ∈ evs Ls ++ Ms.flatten, getRec c e.n = none ∧ e.cipher ∉ c.g.consumed)
    (hw : MLevelWise (evs Ls ++ Ms.flatten) c.g.path Ls Ms sched) :
    (run nx c (flat sched)).hasGroup = true ∧ (run nx c (flat sched)).g.active = true ∧ 1 ≤ (run nx c (flat sched)).retention ∧
    SecretsOK (run nx c (flat sched)).g ∧ Below (run nx c (flat sched)) ∧
    (run nx c (flat sched)).g.recNid = (run nx c (flat sched)).g.nid ∧ (run nx c (flat sched)).g.recNid = c.g.recNid ∧
    (run nx c (flat sched)).id = c.id ∧ (run nx c (flat sched)).maxPast = c.maxPast ∧
    core (run nx c (flat sched)).g = (Ls.map (·.1)).foldl coreStep (core c.g) ∧
    (∀ n, getRec c n = none → (∀ e ∈ flat sched, n ≠ e.n) → getRec (run nx c (flat sched)) n = none) ∧
    (∀ x ∈ (run nx c (flat sched)).g.consumed, x ∈ c.g.consumed ∨ ∃ e ∈ evs Ls ++ Ms.flatten, e.cipher = x) := by
  have h := msg_chain_rest nx (evs Ls ++ Ms.flatten) Ls c Ms sched ⟨hg, ha, hr, hsec, hbelow, hn⟩ hu hch hms (fun _ h => h) hfresh hw
  exact ⟨h.ready.hasGroup, h.ready.act, h.ready.ret, h.ready.sec, h.ready.below, h.ready.nid, h.recNid, h.id, h.maxPast, h.core,
    h.unseen, h.cons⟩

/-- **late_window_derived** (the past-epoch window, derived from the chain): after a level-by-level schedule with slots over n
    levels, the state the client was in after level k (k + d = n, 1 ≤ d) is still a retained past state if it is at most
    `max_past_epochs` back, and the outer layer opens its events if it is at most `DEFAULT_EPOCH_LOOKBACK = 5` back -/
theorem late_window_derived (c : Cl) (Ls : List Level) (Ms : List (List Ev))
    (sched : List (List Ev × List Ev)) (nx : Nat)
    (hg : c.hasGroup = true) (ha : c.g.active = true) (hr : 1 ≤ c.retention) (hsec : SecretsOK c.g) (hbelow : Below c)
    (hn : c.g.recNid = c.g.nid) (hu : Uniq c.msgs)
    (hch : ChainEv c.id (core c.g) Ls) (hms : SlotsEv c.id (core c.g) Ls Ms)
    (hfresh : ∀ e ∈ evs Ls ++ Ms.flatten, getRec c e.n = none ∧ e.cipher ∉ c.g.consumed)
    (hw : MLevelWise (evs Ls ++ Ms.flatten) c.g.path Ls Ms sched)
    (k d : Nat) (hkd : k + d = Ls.length) (hd1 : 1 ≤ d) (hdm : d ≤ c.maxPast) (hd5 : d ≤ 5)
    (x : Ev) (hx : x.path = c.g.path ++ (Ls.map (·.1.cipher)).take k) :
    outerOpens (ensureSecret (run nx c (flat sched)).g) x = true ∧
    (run nx c (flat sched)).g.past.contains x.path = true ∧
    epochOf x.path + d = epochOf (run nx c (flat sched)).g.path := by
  have h := msg_chain_rest nx (evs Ls ++ Ms.flatten) Ls c Ms sched ⟨hg, ha, hr, hsec, hbelow, hn⟩ hu hch hms (fun _ h => h) hfresh hw
  have hret := h.own k d hkd hd1 hdm
  rw [← hx] at hret
  exact ⟨outerOpens_retained hret hd5 x rfl, hret.contains, hret.epoch⟩

/-- **late_message_in_chain_partial**: a message created in the state after level k of the chain, by another member, that
    reaches the client only after the whole schedule (n levels with their slots; n − k ≤ min(max_past_epochs, 5)) is stored
    exactly once as sent, Processed, under the RECEIVER's epoch (start epoch + n), and the rows of the slot messages are
    what they were.  Both window conditions are DERIVED here (`late_window_derived`).  By `chain_with_slots_restores` and
    `late_message_kept_partial` the row then survives every further level-by-level schedule. -/
theorem late_message_in_chain_partial (c : Cl) (Ls : List Level) (Ms : List (List Ev))
    (sched : List (List Ev × List Ev)) (nx : Nat)
    (hg : c.hasGroup = true) (ha : c.g.active = true) (hr : 1 ≤ c.retention) (hsec : SecretsOK c.g) (hbelow : Below c)
    (hn : c.g.recNid = c.g.nid) (hu : Uniq c.msgs)
    (hch : ChainEv c.id (core c.g) Ls) (hms : SlotsEv c.id (core c.g) Ls Ms)
    (hfresh : ∀ e ∈ evs Ls ++ Ms.flatten, getRec c e.n = none ∧ e.cipher ∉ c.g.consumed)
    (hw : MLevelWise (evs Ls ++ Ms.flatten) c.g.path Ls Ms sched)
    (k d : Nat) (hkd : k + d = Ls.length) (hd1 : 1 ≤ d) (hdm : d ≤ c.maxPast) (hd5 : d ≤ 5)
    (x : Ev) (mid ts tok : Nat) (hk : x.kind = .app mid ts tok)
    (hx : x.path = c.g.path ++ (Ls.map (·.1.cipher)).take k) (htag : x.tag = c.g.recNid) (hf : x.sender ≠ c.id)
    (hxfresh : getRec c x.n = none ∧ x.cipher ∉ c.g.consumed)
    (hxn : ∀ e ∈ flat sched, x.n ≠ e.n) (hxc : ∀ e ∈ evs Ls ++ Ms.flatten, e.cipher ≠ x.cipher) :
    (deliver (run nx c (flat sched)) x nx).2 = .app mid ∧
    (run nx c (flat sched ++ [x])).msgs.filter (·.mid == mid) =
      [{ mid := mid, author := x.sender, state := 1, epoch := epochOf c.g.path + Ls.length, wrapper := x.n, msgTs := ts, tok := tok }] ∧
    (∀ m, m ≠ mid → findRow m (run nx c (flat sched ++ [x])).msgs = findRow m (run nx c (flat sched)).msgs) := by
  have h := msg_chain_rest nx (evs Ls ++ Ms.flatten) Ls c Ms sched ⟨hg, ha, hr, hsec, hbelow, hn⟩ hu hch hms (fun _ h => h) hfresh hw
  obtain ⟨w1, w2, w3⟩ := late_window_derived c Ls Ms sched nx hg ha hr hsec hbelow hn hu hch hms hfresh hw k d hkd hd1 hdm hd5 x hx
  have hep : epochOf (run nx c (flat sched)).g.path = epochOf c.g.path + Ls.length := by
    rw [h.path]; simp [epochOf]; omega
  have hst := app_deliver_stored (run nx c (flat sched)) x mid ts tok nx hk
    (by simp [routes, h.ready.hasGroup, htag, h.recNid]) h.ready.act w1 (by omega) (fun _ => w2) (by rw [h.id]; exact hf)
    (by
      intro hc
      rcases h.cons _ hc with y | ⟨e, he, y⟩
      · exact hxfresh.2 y
      · exact hxc e he y)
    (notBlocked_of_none (h.unseen x.n hxfresh.1 hxn)) h.uniq
  rw [run_append]
  rw [hep] at hst
  exact ⟨hst.1, hst.2.1, hst.2.2.2.1⟩

/-- non-vacuity: X (created in B's state, after level 1) is not offered in its slot; it arrives after level 2 and its slot: the
    window conditions are derived (1 epoch back), it is filed under epoch 3 -/
example : (run 0 r2 (flat [([cA, cB], [mY]), ([cF, cC], [mZ])] ++ [mX])).msgs.filter (·.mid == 10) =
    [{ mid := 10, author := 0, state := 1, epoch := 3, wrapper := 3, msgTs := 101, tok := 5 }] :=
  (late_message_in_chain_partial r2 chain2 [[mY], [mZ]] [([cA, cB], [mY]), ([cF, cC], [mZ])] 0 rfl rfl (by decide) r2_secrets r2_below rfl
    r2_uniq chain2_ev (by decide) (by decide) (by decide) 1 1 rfl (by decide) (by decide) (by decide) mX 10 101 5 rfl rfl rfl (by decide)
    (by decide) (by decide) (by decide)).2.1

/-- **own_copy_confirmed**: `create_message` files the sender's own copy as Created (state 0) under the current epoch; when
    the published event comes back from the relay the copy is confirmed — Processed, same id, author, timestamp, content
    and epoch tag, still the only row of its id.  (For every client state with the group present and active, no queued
    proposals, stored secrets following the path.  With commits in between: `C02Win.own_copy_confirmed`, ratchet model.) -/
theorem own_copy_confirmed (c : Cl) (n ts idn mid mts tok nx : Nat) (hg : c.hasGroup = true) (ha : c.g.active = true)
    (hp : c.g.props = []) (hsec : SecretsOK c.g) (hu : Uniq c.msgs) :
    ∃ e, (send c n ts idn mid mts tok).2 = .ev e ∧ e.kind = .app mid mts tok ∧ e.sender = c.id ∧ e.path = c.g.path ∧
      (send c n ts idn mid mts tok).1.msgs.filter (·.mid == mid) =
        [{ mid := mid, author := c.id, state := 0, epoch := epochOf c.g.path, wrapper := n, msgTs := mts, tok := tok }] ∧
      (deliver (send c n ts idn mid mts tok).1 e nx).2 = .app mid ∧
      (deliver (send c n ts idn mid mts tok).1 e nx).1.msgs.filter (·.mid == mid) =
        [{ mid := mid, author := c.id, state := 1, epoch := epochOf c.g.path, wrapper := n, msgTs := mts, tok := tok }] := by
  have hsend : send c n ts idn mid mts tok = (sent c n mid mts tok, .ev (sentEv c n ts idn mid mts tok)) :=
    send_eq c n ts idn mid mts tok hg ha hp
  have hu1 : Uniq (sent c n mid mts tok).msgs := uniq_upsertRow _ c.msgs hu
  have hep : epochOf (ensureSecret c.g).path = epochOf c.g.path := by rw [ensureSecret_path]
  rw [hsend]
  refine ⟨sentEv c n ts idn mid mts tok, rfl, rfl, rfl, ensureSecret_path c.g, ?_, ?_, ?_⟩
  · have := uniq_filter hu1 (findRow_upsert_self { mid := mid, author := c.id, state := 0, epoch := epochOf (ensureSecret c.g).path, wrapper := n, msgTs := mts, tok := tok } c.msgs)
    rw [← hep]
    exact this
  · show (deliver (sent c n mid mts tok) (sentEv c n ts idn mid mts tok) nx).2 = _
    rw [own_step c n ts idn mid mts tok nx hg ha hsec, own_result]
  · show (deliver (sent c n mid mts tok) (sentEv c n ts idn mid mts tok) nx).1.msgs.filter _ = _
    rw [own_step c n ts idn mid mts tok nx hg ha hsec, own_result]
    have := uniq_filter (uniq_upsertRow _ _ hu1) (findRow_upsert_self { mid := mid, author := c.id, state := 1, epoch := epochOf (ensureSecret c.g).path, wrapper := n, msgTs := mts, tok := tok } (sent c n mid mts tok).msgs)
    rw [← hep]
    exact this

/-- non-vacuity: the receiver itself sends at B's state and gets its event back -/
example : ((deliver (send (run 0 r2 [cB]) 20 50 1 15 106 9).1 { n := 20, ts := 50, idnum := 1, cipher := 20, sender := 2, path := [2], kind := .app 15 106 9 } 0).1.msgs.map
    (fun r => (r.mid, r.author, r.state, r.epoch))) = [(15, 2, 1, 2)] ∧
    ((send (run 0 r2 [cB]) 20 50 1 15 106 9).1.msgs.map (fun r => (r.mid, r.author, r.state, r.epoch))) = [(15, 2, 0, 2)] := by decide

/-! ### 5. many clients -/

/-- a client with the slots it receives (the messages of the winning branch it did not send itself) and its own schedule -/
structure MParty where
  c : Cl
  Ms : List (List Ev)
  sched : List (List Ev × List Ev)
  nx : Nat

def MParty.final (p : MParty) : Cl := run p.nx p.c (flat p.sched)

/-- what every party must satisfy: at the first fork `T` in either role (a bystander, or a committer applying its own
    staged commit on relay echo), its state has the common core `k0` (MLS path, members, group data), the later levels and
    all its slots are foreign to it, unseen and unconsumed, its own schedule is level-by-level with slots -/
structure MPartyOK (k0 : Core) (w : Ev) (T : List Ev) (rest : List Level) (p : MParty) : Prop where
  fork : AtFork p.c T
  below : Below p.c
  uniq : Uniq p.c.msgs
  start : core p.c.g = k0
  chain : ChainEv p.c.id (coreStep k0 w) rest
  slots : SlotsEv p.c.id k0 ((w, T) :: rest) p.Ms
  fresh : ∀ e ∈ evs rest ++ p.Ms.flatten, getRec p.c e.n = none ∧ e.cipher ∉ p.c.g.consumed
  sched : MLevelWise (T ++ evs rest ++ p.Ms.flatten) k0.1 ((w, T) :: rest) p.Ms p.sched

theorem mparty_done (k0 : Core) (w : Ev) (T : List Ev) (rest : List Level) (hmin : IsMin w T)
    (hcross : ∀ e1 ∈ T, ∀ e2 ∈ evs rest, e1.n ≠ e2.n ∧ e1.cipher ≠ e2.cipher) (p : MParty) (ok : MPartyOK k0 w T rest p) :
    MsgDone p.c ((w, T) :: rest) p.Ms p.sched p.final := by
  have hk : core p.c.g = k0 := ok.start
  have hp : p.c.g.path = k0.1 := congrArg (fun k : Core => k.1) hk
  exact msg_chain_run p.nx (T ++ evs rest ++ p.Ms.flatten) p.c w T rest p.Ms p.sched ok.fork ok.below ok.uniq hmin hcross
    (by rw [hk]; exact ok.chain) (by rw [hk]; exact ok.slots) (fun _ h => h) ok.fresh (by rw [hp]; exact ok.sched)

/-- **all_members_hold_same_valid_messages**.  Any list of clients that start with the same core state `k0` — at the first
    fork each one a bystander or a committer, bystanders of the later levels — each with ITS OWN schedule (own orders, own
    repetitions, own stale events) and its own slots (the messages of the winning branch that OTHERS sent): all end on the
    same MLS path, and every message that two of them were both offered in its slot is stored by both exactly once, as the
    SAME row: id, author, message timestamp, content token, wrapper, state Processed, epoch tag = the epoch of the state the
    message was created in.  So the clients hold the same set of valid messages of the winning branch. -/
theorem all_members_hold_same_valid_messages (ps : List MParty) (k0 : Core) (w : Ev) (T : List Ev) (rest : List Level)
    (hmin : IsMin w T) (hcross : ∀ e1 ∈ T, ∀ e2 ∈ evs rest, e1.n ≠ e2.n ∧ e1.cipher ≠ e2.cipher)
    (h : ∀ p ∈ ps, MPartyOK k0 w T rest p) :
    ∀ p ∈ ps, ∀ q ∈ ps,
      p.final.g.path = q.final.g.path ∧ core p.final.g = core q.final.g ∧
      ∀ k lmp lmq Mp Mq, p.sched[k]? = some lmp → q.sched[k]? = some lmq → p.Ms[k]? = some Mp → q.Ms[k]? = some Mq →
        ∀ e, e ∈ lmp.2 → e ∈ Mp → e ∈ lmq.2 → e ∈ Mq → ∀ mid ts tok, e.kind = .app mid ts tok →
          p.final.msgs.filter (·.mid == mid) =
            [{ mid := mid, author := e.sender, state := 1, epoch := epochOf k0.1 + k + 1, wrapper := e.n, msgTs := ts, tok := tok }] ∧
          q.final.msgs.filter (·.mid == mid) = p.final.msgs.filter (·.mid == mid) := by
  intro p hp q hq
  have dp := mparty_done k0 w T rest hmin hcross p (h p hp)
  have dq := mparty_done k0 w T rest hmin hcross q (h q hq)
  have hpp : p.c.g.path = k0.1 := congrArg (fun k : Core => k.1) (h p hp).start
  have hqp : q.c.g.path = k0.1 := congrArg (fun k : Core => k.1) (h q hq).start
  refine ⟨by rw [dp.path, dq.path, hpp, hqp], by rw [dp.core, dq.core, (h p hp).start, (h q hq).start], ?_⟩
  intro k lmp lmq Mp Mq h1 h2 h3 h4 e e1 e2 e3 e4 mid ts tok hk
  have rp := (msgDone_rows dp).2.2.1 k lmp Mp h1 h3 e e1 e2 mid ts tok hk
  have rq := (msgDone_rows dq).2.2.1 k lmq Mq h2 h4 e e3 e4 mid ts tok hk
  rw [hpp] at rp
  rw [hqp] at rq
  exact ⟨rp, by rw [rp, rq]⟩

/-- non-vacuity: the bystander 2 and client 1, the committer of A (staged, applied on relay echo, rolled back for B); client
    1 is not offered its own message L -/
def k1 : Cl := (stageCommit (initCl 1 false 5 [0, 1, 2, 3] [0, 1] 1) 1 20 7 .selfUpdate false).1
def pa : MParty := { c := r2, Ms := slots2, sched := sched2, nx := 0 }
def pb : MParty := { c := k1, Ms := slots2, sched := [([cB, cA], [mX, mY, mX]), ([cC, cF], [mZ])], nx := 0 }

theorem k1_atFork : AtFork k1 T1 := by
  obtain ⟨ho, hsec, hm, _⟩ := stage_own_commit (initCl 1 false 5 [0, 1, 2, 3] [0, 1] 1) 1 20 7 .selfUpdate false cA
    (by decide) (by intro ep q h; simp [initCl, initG, alookup] at h) (by intro s hs; cases hs)
    (by intro d hd; cases hd) (by decide) (by decide)
  exact .committer cA [cB] rfl rfl (by decide) hsec hm rfl ho
    (siblings_of_dec k1 [cB] rfl (by decide) (by decide) (by decide) (by decide) (by decide) (by decide) (by decide))
    (by decide) (fun e => Iff.rfl)

theorem later2 (id : Nat) (h : id = 1 ∨ id = 2) : ChainEv id (coreStep (core r2.g) cB) [(cC, T2)] := by
  rcases h with rfl | rfl <;>
  exact ⟨levelEv_of_dec _ _ _ (by decide) (by decide) (by decide) (by decide) (by decide) (by decide), by decide, by decide, trivial⟩

theorem pa_ok : MPartyOK (core r2.g) cB T1 [(cC, T2)] pa :=
  ⟨r2_atFork, r2_below, r2_uniq, rfl, later2 2 (Or.inr rfl), slots2_ev, by decide, by decide⟩
theorem pb_ok : MPartyOK (core r2.g) cB T1 [(cC, T2)] pb :=
  ⟨k1_atFork, (by intro s hs; cases hs), by decide, by decide, later2 1 (Or.inl rfl), by decide, by decide, by decide⟩

example : pa.final.g.path = pb.final.g.path ∧
    pb.final.msgs.filter (·.mid == 11) = pa.final.msgs.filter (·.mid == 11) ∧
    pb.final.msgs.filter (·.mid == 13) = pa.final.msgs.filter (·.mid == 13) := by
  have h := all_members_hold_same_valid_messages [pa, pb] (core r2.g) cB T1 [(cC, T2)] (by decide) (by decide)
    (fun p hp => by
      simp only [List.mem_cons, List.not_mem_nil, or_false] at hp
      rcases hp with rfl | rfl
      · exact pa_ok
      · exact pb_ok) pa (by simp) pb (by simp)
  exact ⟨h.1, (h.2.2 0 _ _ _ _ rfl rfl rfl rfl mY (by decide) (by decide) (by decide) (by decide) 11 102 6 rfl).2,
    (h.2.2 1 _ _ _ _ rfl rfl rfl rfl mZ (by decide) (by decide) (by decide) (by decide) 13 104 8 rfl).2⟩

example : pb.final.g.path = [2, 6] ∧ pb.final.g.pending = none ∧
    pb.final.msgs.map (fun r => (r.mid, r.author, r.state, r.epoch, r.msgTs, r.tok)) =
      [(10, 0, 1, 2, 101, 5), (11, 3, 1, 2, 102, 6), (13, 0, 1, 3, 104, 8)] := by decide

/-! ### 6. the full statement (arbitrary interleavings) and its refutation -/

/-- the history statement WITHOUT the slot hypothesis: whatever the order in which the commits of the chain and the
    messages of the winning branch reach the client (each at least once, re-offered as often as one likes), every message
    of the winning branch ends stored and valid -/
def C02_history_full : Prop :=
  ∀ (c : Cl) (Ls : List Level) (Ms : List (List Ev)) (l : List Ev) (nx : Nat),
    c.hasGroup = true → c.g.active = true → 1 ≤ c.retention → SecretsOK c.g → Below c → c.g.recNid = c.g.nid → Uniq c.msgs →
    ChainEv c.id (core c.g) Ls → SlotsEv c.id (core c.g) Ls Ms →
    (∀ e ∈ evs Ls ++ Ms.flatten, getRec c e.n = none ∧ e.cipher ∉ c.g.consumed) →
    (∀ e ∈ l, e ∈ evs Ls ++ Ms.flatten) → (∀ e ∈ evs Ls ++ Ms.flatten, e ∈ l) →
    ∀ e ∈ Ms.flatten, ∀ mid ts tok, e.kind = .app mid ts tok →
      ∃ row ∈ (run nx c l).msgs, row.mid = mid ∧ row.state = 1

/-- witness 1 (open finding `handshake-before-predecessor-blocked`, as `C02.witness_message_ahead_of_commit`): X, created
    in B's state, offered BEFORE B: the outer layer cannot open it, it is recorded Failed and refused for ever -/
theorem witness_history_ahead :
    (run 0 r2 [mX, cB, mX, mX]).msgs = [] ∧ (run 0 r2 [mX, cB, mX, mX]).g.path = [2] ∧
    (deliver (run 0 r2 [mX, cB]) mX 0).2 = .unprocessable ∧
    (run 0 r2 [cB, mX]).msgs.map (fun r => (r.mid, r.state)) = [(10, 1)] := by decide

theorem C02_history_full_false : ¬ C02_history_full := by
  intro h
  obtain ⟨row, hrow, _⟩ := h r2 [(cB, [cB])] [[mX]] [mX, cB, mX, mX] 0 rfl rfl (by decide) r2_secrets r2_below rfl r2_uniq
    ⟨levelEv_of_dec _ _ _ (by decide) (by decide) (by decide) (by decide) (by decide) (by decide), by decide, by decide, trivial⟩
    (by decide) (by decide) (by decide) (by decide) mX (by decide) 10 101 5 rfl
  rw [witness_history_ahead.1] at hrow
  cases hrow

/-- witness 2 (open finding `receiver-epoch-tag`, as `C02.witness_receiver_epoch_tag`, one level later): X, created in B's
    state, is offered while the receiver sits on F, the LOSING commit of level 2: it is filed under the receiver's epoch 3,
    the rollback for C invalidates it, and re-offering it is refused — although X belongs to the winning branch -/
theorem witness_history_epoch_tag :
    (run 0 r2 [cB, cF, mX]).msgs.map (fun r => (r.mid, r.state, r.epoch)) = [(10, 1, 3)] ∧
    (run 0 r2 [cB, cF, mX, cC, mX]).msgs.map (fun r => (r.mid, r.state, r.epoch)) = [(10, 3, 3)] ∧
    (run 0 r2 [cB, cF, mX, cC, mX]).g.path = [2, 6] ∧
    (deliver (run 0 r2 [cB, cF, mX, cC]) mX 0).2 = .unprocessable := by decide

theorem C02_history_full_false_epoch_tag : ¬ C02_history_full := by
  intro h
  obtain ⟨row, hrow, hm, hs⟩ := h r2 [(cB, [cB]), (cC, T2)] [[mX], []] [cB, cF, mX, cC, mX] 0 rfl rfl (by decide) r2_secrets r2_below rfl
    r2_uniq
    ⟨levelEv_of_dec _ _ _ (by decide) (by decide) (by decide) (by decide) (by decide) (by decide), by decide, by decide,
     levelEv_of_dec _ _ _ (by decide) (by decide) (by decide) (by decide) (by decide) (by decide), by decide, by decide, trivial⟩
    (by decide) (by decide) (by decide) (by decide) mX (by decide) 10 101 5 rfl
  have : ∀ r ∈ (run 0 r2 [cB, cF, mX, cC, mX]).msgs, r.state ≠ 1 := by decide
  exact this row hrow hs

/-- … while the slot schedule over the same events stores X valid (`messages_on_winning_branch_partial` applies) -/
example : (run 0 r2 (flat [([cB], [mX]), ([cF, cC], [])])).msgs.filter (·.mid == 10) =
    [{ mid := 10, author := 0, state := 1, epoch := 2, wrapper := 3, msgTs := 101, tok := 5 }] :=
  (messages_on_winning_branch_partial r2 [(cB, [cB]), (cC, T2)] [[mX], []] [([cB], [mX]), ([cF, cC], [])] 0 rfl rfl (by decide)
    r2_secrets r2_below rfl r2_uniq
    ⟨levelEv_of_dec _ _ _ (by decide) (by decide) (by decide) (by decide) (by decide) (by decide), by decide, by decide,
     levelEv_of_dec _ _ _ (by decide) (by decide) (by decide) (by decide) (by decide) (by decide), by decide, by decide, trivial⟩
    (by decide) (by decide) (by decide)).2.2.1 0 _ _ rfl rfl mX (by decide) (by decide) 10 101 5 rfl

end MdkVerif.Props.C02Chain
