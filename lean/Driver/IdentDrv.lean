import MdkVerif.Model.Identity
/- line protocol of the C05 identity correspondence (vlib/c05ident.py): every line carries the receiver's whole state
     commit   <tree> <admins> <store> <sender> <props> <path>   →  `ok <tree'>` | `err:<kind>`
     proposal <tree> <admins> <store> <prop>                    →  `stored <store'>` | `ignored <store'>`
   tree `leaf:cred,…` | `-`; cred `b<id>.<sigkey>` | `x<tag>` (identity does not parse) | `n<tag>` (not a BasicCredential);
   sender `m<leaf>` | `e` | `c` | `p`; prop `<A|U><cred>@<sender>@<r|i>` | `R<leaf>@<sender>@<r|i>` | `O<tag>@<sender>@<r|i>`, lists with `;`.
   The model runs with the REGENERATED shape `codeShape` and the rules found in OpenMLS 0.8.1. -/
namespace Driver.IdentDrv
open MdkVerif MdkVerif.Identity

def toks (line : String) : List String :=
  (line.trimAscii.toString.splitOn " ").filter (· ≠ "")

def parseCred (s : String) : Option Cred :=
  let r := (s.drop 1).toString
  match s.take 1 |>.toString with
  | "b" => match r.splitOn "." with
    | [a, b] => do some (.basic (← a.toNat?) (← b.toNat?))
    | _ => none
  | "x" => r.toNat?.map .badId
  | "n" => r.toNat?.map .notBasic
  | _ => none

def showCred : Cred → String
  | .basic i k => s!"b{i}.{k}"
  | .badId n => s!"x{n}"
  | .notBasic n => s!"n{n}"

def parseSender (s : String) : Option Sender :=
  match s.take 1 |>.toString with
  | "m" => (s.drop 1).toString.toNat?.map .member
  | "e" => some .external
  | "c" => some .newMemberCommit
  | "p" => some .newMemberProposal
  | _ => none

def parseProp (s : String) : Option QProp :=
  match s.splitOn "@" with
  | [p, snd, r] => do
    let sender ← parseSender snd
    let body := (p.drop 1).toString
    let pp ← match p.take 1 |>.toString with
      | "A" => (parseCred body).map Prop'.add
      | "U" => (parseCred body).map Prop'.update
      | "R" => body.toNat?.map Prop'.remove
      | "O" => body.toNat?.map Prop'.other
      | _ => none
    some { p := pp, sender := sender, byRef := r == "r" }
  | _ => none

def showSender : Sender → String
  | .member l => s!"m{l}" | .external => "e" | .newMemberCommit => "c" | .newMemberProposal => "p"

def showProp (q : QProp) : String :=
  let b := match q.p with
    | .add c => "A" ++ showCred c | .update c => "U" ++ showCred c | .remove l => s!"R{l}" | .other n => s!"O{n}"
  b ++ "@" ++ showSender q.sender ++ "@" ++ (if q.byRef then "r" else "i")

def parseList {α} (f : String → Option α) (sep : String) (s : String) : Option (List α) :=
  if s == "-" then some [] else (s.splitOn sep).mapM f

def parseLeaf (s : String) : Option (Leaf × Cred) :=
  match s.splitOn ":" with
  | [l, c] => do some (← l.toNat?, ← parseCred c)
  | _ => none

def insertSorted (x : Leaf × Cred) : Tree → Tree
  | [] => [x]
  | y :: t => if x.1 ≤ y.1 then x :: y :: t else y :: insertSorted x t

def showTree (t : Tree) : String :=
  let s := t.foldr insertSorted []
  if s.isEmpty then "-" else ",".intercalate (s.map fun (l, c) => s!"{l}:{showCred c}")

def showStore (s : List QProp) : String := if s.isEmpty then "-" else ";".intercalate (s.map showProp)

def showErr : Err → String
  | .notBasic => "notBasic" | .badIdentity => "badIdentity" | .identityChange => "identityChange"
  | .nonAdmin => "nonAdmin" | .nonMember => "nonMember" | .mls => "mls"

def run (t : List String) : String :=
  match t with
  | ["commit", tr, ad, sto, snd, props, path] =>
    match parseList parseLeaf "," tr, parseList String.toNat? "," ad, parseList parseProp ";" sto, parseSender snd,
          parseList parseProp ";" props, (if path == "-" then some none else (parseCred path).map some) with
    | some tree, some admins, some store, some sender, some ps, some pth =>
      let st : St := { tree := tree, admins := admins, store := store }
      let (st', r) := processCommit codeShape openmls081 st { sender := sender, props := ps, path := pth }
      match r with
      | .ok () => "ok " ++ showTree st'.tree
      | .error e => "err:" ++ showErr e
    | _, _, _, _, _, _ => "bad-op"
  | ["proposal", tr, ad, sto, prop] =>
    match parseList parseLeaf "," tr, parseList String.toNat? "," ad, parseList parseProp ";" sto, parseProp prop with
    | some tree, some admins, some store, some q =>
      let st : St := { tree := tree, admins := admins, store := store }
      let st' := processProposal codeShape st q
      (if st'.store.length > store.length then "stored " else "ignored ") ++ showStore st'.store
    | _, _, _, _ => "bad-op"
  | _ => "bad-op"

partial def loop (h : IO.FS.Stream) : IO Unit := do
  let line ← h.getLine
  if line.isEmpty then return ()
  match toks line with
  | [] => loop h
  | ts =>
    IO.println (run ts)
    (← IO.getStdout).flush
    loop h

def main : IO Unit := do loop (← IO.getStdin)

end Driver.IdentDrv
