import MdkVerif.Model.Basic
import MdkVerif.Model.Knowledge
/- line protocol of the knowledge engine (property C03): the world (group states with their member
   lists, as the harness observed them on the actors) and every client's steps are replayed on
   `Model.Knowledge`; predicted per line: whether a delivered commit applies, whether a delivered message
   is stored, whether `create_message` is possible, and the stored message ids per group at an audit. -/
namespace Driver.KnowDrv
open MdkVerif MdkVerif.Knowledge

inductive EvInfo where
  | commit (frm to : Nat)
  | msg (mid s sender : Nat)
  deriving Inhabited

structure St where
  states : List (Nat × GState)
  clients : List (Nat × Client)
  events : List (Nat × EvInfo)

def St.init : St := { states := [], clients := [], events := [] }

def world (s : St) : World := fun k => alookup k s.states
def client (s : St) (j : Nat) : Client := (alookup j s.clients).getD Client.empty
def setClient (s : St) (j : Nat) (c : Client) : St := { s with clients := ainsert j c s.clients }
def doStep (s : St) (j : Nat) (st : Step) : St := setClient s j (step (world s) j (client s j) st)

def natsOf (x : String) : List Nat :=
  if x == "-" || x == "" then [] else (x.splitOn ",").filterMap (·.toNat?)
def n (x : String) : Nat := x.toNat?.getD 0

def stored (c : Client) (mid : Nat) : Bool := c.msgs.any (·.1 == mid)

/-- feeding one event to client j; returns the new state and the predicted result -/
def feed (s : St) (j ev : Nat) : St × String :=
  match alookup ev s.events with
  | none => (s, "unknown")
  | some (.commit frm to) =>
    let c := client s j
    let c' := step (world s) j c (.apply frm to)
    let g := ((world s) frm).map (·.gid) |>.getD 0
    if c'.cur g != c.cur g then (setClient s j c', "commit") else (s, "nocommit")
  | some (.msg mid st sender) =>
    let c := client s j
    -- the sender's own wrapper comes back as the message it already stored
    if sender == j && stored c mid then (s, "app")
    else if c.held.contains st && !stored c mid then (setClient s j (step (world s) j c (.recv mid st)), "app") else (s, "noapp")

def audit (s : St) (j : Nat) : String :=
  let c := client s j
  let gids := (c.msgs.filterMap fun (_, st) => ((world s) st).map (·.gid)).eraseDups
  let gids := sortBy (fun a b => a < b) gids
  let parts := gids.map fun g =>
    let mids := sortBy (fun a b => a < b) ((c.msgs.filter fun (_, st) => ((world s) st).map (·.gid) == some g).map (·.1)).eraseDups
    s!"M{g}:{natList mids}"
  if parts.isEmpty then "ok -" else "ok " ++ joinWith " " parts

def toks (line : String) : List String :=
  (line.trimAscii.toString.splitOn " ").filter (· ≠ "")

def exec (s : St) (t : List String) : St × String :=
  match t with
  | ["state", tok, gid, epoch, parent, members, added] =>
    let g : GState := { gid := n gid, epoch := n epoch, members := natsOf members, parent := parent.toNat?, added := natsOf added }
    ({ s with states := ainsert (n tok) g s.states }, "ok")
  | ["create", i, tok] => (doStep s (n i) (.create (n tok)), "ok")
  | ["own", i, frm, to] => (doStep s (n i) (.apply (n frm) (n to)), "ok")
  | ["join", j, tok] => (doStep s (n j) (.join (n tok)), "ok")
  | ["evcommit", ev, frm, to] => ({ s with events := ainsert (n ev) (.commit (n frm) (n to)) s.events }, "ok")
  | ["evmsg", ev, mid, tok, sender] => ({ s with events := ainsert (n ev) (.msg (n mid) (n tok) (n sender)) s.events }, "ok")
  | ["deliver", j, ev] => feed s (n j) (n ev)
  | ["send", i, g, mid] =>
    match (client s (n i)).cur (n g) with
    | none => (s, "err")
    | some st => (doStep s (n i) (.send (n mid) st), s!"ok tok={st}")
  | ["flood", j, seq] =>
    let s' := (seq.splitOn ",").foldl (fun s item =>
      if item.startsWith "e" then (feed s (n j) ((item.drop 1).toNat?.getD 0)).1 else s) s
    (s', "ok")
  | ["audit", j] => (s, audit s (n j))
  | _ => (s, "bad-op")

partial def loop (h : IO.FS.Stream) (s : St) : IO Unit := do
  let line ← h.getLine
  if line.isEmpty then return ()
  match toks line with
  | [] => loop h s
  | "setup" :: _ => IO.println "ok"; loop h St.init
  | t =>
    let (s', out) := exec s t
    IO.println out
    loop h s'

def main : IO Unit := do
  let h ← IO.getStdin
  loop h St.init

end Driver.KnowDrv
