import MdkVerif.Model.Store
/- line protocol for the `store` engine: one op per line, one observation per line -/
namespace Driver.StoreDrv
open MdkVerif MdkVerif.Store

def optNat (s : String) : Option (Option Nat) :=
  if s == "-" then some none else s.toNat?.map some

def natListOf (s : String) : Option (List Nat) :=
  if s == "-" || s == "" then some [] else (s.splitOn ",").mapM (·.toNat?)

def parseArgs (l : List String) : Option (List (Option Nat)) := l.mapM optNat

def parseOp (toks : List String) : Option Op :=
  match toks with
  | [] => none
  | "replace_relays" :: [g, rs] => do pure (.replaceRelays (← g.toNat?) (← natListOf rs))
  | cmd :: rest =>
    match parseArgs rest with
    | none => none
    | some args =>
      match cmd, args with
      | "save_group", [some gid, some nid, some nl, some dl, some ad, some img, li, la, lp, some ep, some st, some su] =>
        some (.saveGroup { gid := gid, nid := nid, nameLen := nl, descLen := dl, admins := ad, img := img, lastId := li, lastAt := la, lastProc := lp, epoch := ep, state := st, selfUpd := su })
      | "find_group", [some g] => some (.findGroup g)
      | "find_group_nostr", [some n] => some (.findGroupNostr n)
      | "all_groups", [] => some .allGroups
      | "save_message", [some id, some gid, some pk, some kind, some cr, some pr, some co, some cl, some tag, some wr, ep, some st] =>
        some (.saveMessage { id := id, gid := gid, pk := pk, kind := kind, created := cr, processed := pr, content := co, contentLen := cl, tag := tag, wrapper := wr, epoch := ep, state := st })
      | "find_message", [some g, some id] => some (.findMessage g id)
      | "messages", [some g, l, o, so] => some (.messages g l o so)
      | "last_message", [some g, some so] => some (.lastMessage g so)
      | "save_pm", [some w, mi, some pa, ep, g, some st, re] =>
        some (.savePm { wrapper := w, msgId := mi, processedAt := pa, epoch := ep, gid := g, state := st, reason := re })
      | "find_pm", [some w] => some (.findPm w)
      | "inval_msgs", [some g, some e] => some (.invalMsgs g e)
      | "inval_pms", [some g, some e] => some (.invalPms g e)
      | "find_inval_msgs", [some g] => some (.findInvalMsgs g)
      | "find_inval_pms", [some g] => some (.findInvalPms g)
      | "failed_retry", [some g] => some (.failedRetry g)
      | "mark_retryable", [some w] => some (.markRetryable w)
      | "upd_last", [some g, some c, some p, some i] => some (.updLast g c p i)
      | "find_epoch_by_tag", [some g, some t, some m] => some (.findEpochByTag g t m)
      | "admins", [some g] => some (.admins g)
      | "relays", [some g] => some (.relays g)
      | "get_secret", [some g, some e] => some (.getSecret g e)
      | "save_secret", [some g, some e, some v] => some (.saveSecret g e v)
      | "save_welcome", [some id, some gid, some nid, some nl, some dl, some ad, some rl, some rlen, some we, some mc, some st, some wr] =>
        some (.saveWelcome { id := id, gid := gid, nid := nid, nameLen := nl, descLen := dl, admins := ad, relays := rl, relayLen := rlen, welcomer := we, memberCount := mc, state := st, wrapper := wr })
      | "find_welcome", [some id] => some (.findWelcome id)
      | "pending_welcomes", [l, o] => some (.pendingWelcomes l o)
      | "save_pw", [some w, wi, some pa, some st, re] =>
        some (.savePw { wrapper := w, welcomeId := wi, processedAt := pa, state := st, reason := re })
      | "find_pw", [some w] => some (.findPw w)
      | "mls_write", [some g, some k, some v] => some (.mlsWrite g k v)
      | "mls_read", [some g, some k] => some (.mlsRead g k)
      | "mls_delete", [some g, some k] => some (.mlsDelete g k)
      | "snap_create", [some g, some n, some ts] => some (.snapCreate g n ts)
      | "snap_rollback", [some g, some n] => some (.snapRollback g n)
      | "snap_release", [some g, some n] => some (.snapRelease g n)
      | "snap_list", [some g] => some (.snapList g)
      | "snap_prune", [some t] => some (.snapPrune t)
      | "dump", [] => some .dump
      | _, _ => none

def toks (line : String) : List String :=
  (line.trimAscii.toString.splitOn " ").filter (· ≠ "")

partial def loop (h : IO.FS.Stream) (s : Store) : IO Unit := do
  let line ← h.getLine
  if line.isEmpty then return ()
  match toks line with
  | [] => loop h s
  | ["backend", "mem"] => IO.println "ok"; loop h (Store.empty .mem)
  | ["backend", "sql"] => IO.println "ok"; loop h (Store.empty .sql)
  | ts =>
    match parseOp ts with
    | none => IO.println "bad-op"; loop h s
    | some op =>
      let (s', out) := step s op
      IO.println out
      loop h s'

def main : IO Unit := do loop (← IO.getStdin) (Store.empty .mem)

end Driver.StoreDrv
