import MdkVerif.Generated
import MdkVerif.Model.Basic
import MdkVerif.Model.Wrap
/- line protocol of the `wrap` engine (C06 outer layer, C08 routing): the wrapper events `vh wrap` offered to real
   MDK instances are replayed on `Model.Wrap.process`.  vlib/wrapeng.py translates the harness' observations:
     cfg <j> <skew> <maxAge>
     groups <j> [g<idx>:<nid hex>:<mls epoch|->:<record epoch>:<current sid|->:<loadable 0|1>:<epoch=sid,..>]…
                                        the groups of client j as OBSERVED (after set-up commands and after an event
                                        that reached the MLS layer — the MLS layer is not modelled here)
     rec <j> <n> <state>:<epoch|->:<g<idx>|->:<m|->:<reason|->      a record as observed (same occasions)
     offer <j> <now> id=<n> kind=<k> ts=<t> tags=<..> content=<..>   → `<result> | G[..] R[..]` predicted
     ?groups … / ?rec …                 the same, applied only if the model's last verdict for that client was `handed`
   Between two `groups`/`rec` lines of a client the model runs on its own state. -/
namespace Driver.WrapDrv
open MdkVerif MdkVerif.Wrap

structure St where
  cfgs : List Cfg
  stores : List Store
  handed : List Bool          -- per client: the model's last verdict was `handed` (the MLS layer ran)
  deriving Inhabited

def St.init : St := ⟨List.replicate 3 Cfg.default, List.replicate 3 ⟨[], []⟩, List.replicate 3 false⟩

def hexDigit (n : Nat) : Char := if n < 10 then Char.ofNat (48 + n) else Char.ofNat (87 + n)
def hexOf (b : Bytes) : String := String.ofList (b.flatMap (fun x => [hexDigit (x / 16), hexDigit (x % 16)]))

def parseHex (s : String) : Option Bytes := hexDecode (s.toList.map Char.toNat)

def optNat (s : String) : Option (Option Nat) :=
  if s == "-" then some none else s.toNat?.map some

def parseG (s : String) : Option Nat := if s.startsWith "g" then (s.drop 1).toNat? else none

def optG (s : String) : Option (Option Nat) :=
  if s == "-" then some none else (parseG s).map some

def parseSecrets (s : String) : Option (List (Nat × Nat)) :=
  if s.isEmpty then some []
  else (s.splitOn ",").mapM (fun kv =>
    match kv.splitOn "=" with
    | [a, b] => match a.toNat?, b.toNat? with
      | some a, some b => some (a, b)
      | _, _ => none
    | _ => none)

def parseGroup (s : String) : Option Group :=
  match s.splitOn ":" with
  | [g, nid, ep, rep, cur, ld, sec] =>
    match parseG g, parseHex nid, optNat ep, rep.toNat?, optNat cur, parseSecrets sec with
    | some g, some nid, some ep, some rep, some cur, some sec =>
      some { gid := g, nid := nid, epoch := ep.getD 0, recEpoch := rep, curSid := cur.getD 0, secrets := sec, loadable := ld == "1", inner := 0 }
    | _, _, _, _, _, _ => none
  | _ => none

def reasonIdx (s : String) : Option Nat :=
  let b := s.toList.map Char.toNat
  (List.range Generated.sanitizeReasons.length).find? (fun i => Generated.sanitizeReasons[i]? == some b)

def parseRec (s : String) : Option Rec :=
  match s.splitOn ":" with
  | [st, ep, g, m, r] =>
    match st.toNat?, optNat ep, optG g with
    | some st, some ep, some g =>
      let reason := if r == "-" then some none else (reasonIdx r).map some
      reason.map (fun reason => { state := st, epoch := ep, gid := g, mid := if m == "m" then some 0 else none, reason := reason })
    | _, _, _ => none
  | _ => none

def parseTag (s : String) : Option Tag :=
  (s.splitOn ",").mapM (fun x => if x == "." then some [] else parseHex x)

def parseTags (s : String) : Option (List Tag) :=
  if s == "-" then some [] else (s.splitOn ";").mapM parseTag

def parseInner (s : String) : Option Inner :=
  if s == "g" then some .garbage
  else if s.startsWith "m" then (s.drop 1).toNat?.map .mls
  else none

def parseContent (s : String) : Option Content :=
  if s == "nb64" then some .notBase64
  else if s == "empty" then some .empty
  else match s.splitOn ":" with
    | ["p", v, l, k, c, i] =>
      match v.toNat?, l.toNat?, optNat k, c.toNat?, parseInner i with
      | some v, some l, some k, some c, some i => some (.bytes ⟨v, l, k, c, i⟩)
      | _, _, _, _, _ => none
    | _ => none

def field (pre : String) (s : String) : Option String :=
  if s.startsWith pre then some (s.drop pre.length).toString else none

def parseEv (toks : List String) : Option Ev :=
  match toks with
  | [a, b, c, d, e] =>
    match (field "id=" a).bind (·.toNat?), (field "kind=" b).bind (·.toNat?), (field "ts=" c).bind (·.toNat?),
          (field "tags=" d).bind parseTags, (field "content=" e).bind parseContent with
    | some id, some k, some ts, some tags, some ct => some ⟨id, k, ts, tags, ct⟩
    | _, _, _, _, _ => none
  | _ => none

def errName : ErrKind → String
  | .unexpectedEvent => "UnexpectedEvent" | .invalidTimestamp => "InvalidTimestamp" | .missingTag => "MissingGroupIdTag"
  | .multipleTags => "MultipleGroupIdTags" | .invalidFormat => "InvalidGroupIdFormat" | .groupNotFound => "GroupNotFound"
  | .message => "Message" | .group => "Group"

def resStr : Res → String
  | .err k => "err:" ++ errName k
  | .unprocessable g => s!"unprocessable:g{g}"
  | .previouslyFailed => "previously_failed"
  | .handed g => s!"handed:g{g}"
  | .panic => "panic"

def optStrG (o : Option Nat) : String :=
  match o with
  | none => "-"
  | some g => s!"g{g}"

def reasonStr (o : Option Nat) : String :=
  match o with
  | none => "-"
  | some i => String.ofList ((Generated.sanitizeReasons.getD i []).map Char.ofNat)

def groupStr (g : Group) : String :=
  let ep := if g.loadable then toString g.epoch else "-"
  let cur := if g.loadable then toString g.curSid else "-"
  s!"g{g.gid}:{hexOf g.nid}:{ep}:{g.recEpoch}:{cur}:{if g.loadable then 1 else 0}:" ++
    joinWith "," (g.secrets.map (fun p => s!"{p.1}={p.2}"))

def recStr (p : Nat × Rec) : String :=
  s!"{p.1}:{p.2.state}:{optStr p.2.epoch}:{optStrG p.2.gid}:{if p.2.mid.isSome then "m" else "-"}:{reasonStr p.2.reason}"

def view (s : Store) : String :=
  "G[" ++ joinWith " " (s.groups.map groupStr) ++ "] R[" ++ joinWith "," (s.recs.map recStr) ++ "]"

def execBase (st : St) (toks : List String) : St × String :=
  match toks with
  | ["reset"] => (St.init, "ok")
  | ["cfg", j, skew, age] =>
    match j.toNat?, skew.toNat?, age.toNat? with
    | some j, some skew, some age => ({ st with cfgs := st.cfgs.set j ⟨skew, age⟩ }, "ok")
    | _, _, _ => (st, "error cfg")
  | "groups" :: j :: gs =>
    match j.toNat?, gs.mapM parseGroup with
    | some j, some gs =>
      let s := st.stores.getD j ⟨[], []⟩
      ({ st with stores := st.stores.set j { s with groups := gs } }, "ok")
    | _, _ => (st, "error groups")
  | ["rec", j, n, r] =>
    match j.toNat?, n.toNat?, parseRec r with
    | some j, some n, some r =>
      let s := st.stores.getD j ⟨[], []⟩
      ({ st with stores := st.stores.set j { s with recs := ainsert n r s.recs } }, "ok")
    | _, _, _ => (st, "error rec")
  | "offer" :: j :: now :: rest =>
    match j.toNat?, now.toNat?, parseEv rest with
    | some j, some now, some e =>
      let s := st.stores.getD j ⟨[], []⟩
      let (s', r) := process (st.cfgs.getD j Cfg.default) now s e
      let h := match r with
        | .handed _ => true
        | _ => false
      ({ st with stores := st.stores.set j s', handed := st.handed.set j h }, resStr r ++ " | " ++ view s')
    | _, _, _ => (st, "error offer")
  | _ => (st, "error bad-line")

/-- `?groups` / `?rec`: what the MLS layer did is taken from the run — applied only when the model's last verdict for
    that client was `handed` -/
def exec (st : St) (toks : List String) : St × String :=
  match toks with
  | cmd :: j :: rest =>
    if cmd == "?groups" || cmd == "?rec" then
      if st.handed.getD (j.toNat?.getD 9) false then
        let (st', out) := execBase st ((cmd.drop 1).toString :: j :: rest)
        (st', if out == "ok" then "ok applied" else out)
      else (st, "ok skipped")
    else execBase st toks
  | _ => execBase st toks

partial def loop (h : IO.FS.Stream) (st : St) : IO Unit := do
  let line ← h.getLine
  if line.isEmpty then return
  let toks := (line.trimAscii.toString.splitOn " ").filter (· ≠ "")
  if toks.isEmpty then loop h st
  else
    let (st', out) := exec st toks
    IO.println out
    loop h st'

def main : IO Unit := do loop (← IO.getStdin) St.init

end Driver.WrapDrv
