import MdkVerif.Generated
import MdkVerif.Model.AppMsg
import MdkVerif.Model.Basic
/- line protocol of the `appmsg` engine (property C04): the commands executed by `vh appmsg` on real MDK
   instances are replayed on `Model.AppMsg` (with `Generated.rumorIdRecomputed` as the id rule); one predicted
   observation `<result> | <message tables>` per line.  Fixed cast (as in harness/src/appmsg.rs):
   g0 = {0,1,2,3} (4 is a stale ex-member still holding g0 at the old epoch), g1 = {1,2,3}, g2 = {5}.
   `deliver j n mls=ok|fail` carries the MLS verdict the harness observed for events of / at the stale
   ex-member (the only place where the model does not decide it itself). -/
namespace Driver.AppMsgDrv
open MdkVerif MdkVerif.AppMsg

structure St where
  events : List Wrapper       -- index = event number = wid
  stores : List Store         -- six clients
  deriving Inhabited

def St.init : St := ⟨[], List.replicate 6 Store.empty⟩

def mine (j : Nat) : List Nat :=
  match j with
  | 0 => [0] | 1 => [0, 1] | 2 => [0, 1] | 3 => [0, 1] | 4 => [0] | 5 => [2] | _ => []

def currentMembers (g : Nat) : List Nat :=
  match g with
  | 0 => [0, 1, 2, 3] | 1 => [1, 2, 3] | 2 => [5] | _ => []

def whoStr (n : Nat) : String := if n ≥ 100 then s!"out{n - 100}" else toString n

def bodyStr (b : Body) : String := s!"h({whoStr b.pubkey},{b.createdAt},{b.kind},{b.tags},{b.content})"

def idStr : Id → String
  | .hash b => bodyStr b
  | .raw n => s!"raw{n}"

def rowStr (r : Row) : String :=
  let ok := decide (r.id = .hash r.body)
  let i := if ok then "self" else idStr r.id
  let f := if ok then "1" else "0"
  s!"id={i},ok={f},ev={f},a={whoStr r.author},ts={r.createdAt},k={r.kind},t={r.tags},c={r.content},w={r.wrapper}"

def view (st : St) (j : Nat) : String :=
  let s := st.stores.getD j Store.empty
  let parts := (mine j).map (fun g => s!"G{g}[" ++ joinWith ";" ((s.rows.filter (fun r => r.gid = g)).map rowStr) ++ "]")
  if parts.isEmpty then "-" else joinWith " " parts

def parsePk (i : Nat) (t : String) : Option Nat :=
  if t == "own" then some i
  else if t.startsWith "out" then (t.drop 3).toNat?.map (· + 100)
  else if t.startsWith "c" then (t.drop 1).toNat?
  else none

def parseId (st : St) (b : Body) (t : String) : Option (Option Id) :=
  if t == "none" then some none
  else if t == "ok" then some (some (.hash b))
  else if t.startsWith "raw" then (t.drop 3).toNat?.map (fun k => some (.raw k))
  else if t.startsWith "m" then
    match (t.drop 1).toNat? with
    | some n => (st.events[n]?).map (fun w => some (nip01Id w.ct.rumor))
    | none => none
  else none

def setStore (st : St) (j : Nat) (s : Store) : St := { st with stores := st.stores.set j s }

def resStr (w : Wrapper) : Res → String
  | .app id => if id = nip01Id w.ct.rumor then s!"app:{idStr id}" else s!"app:!{idStr id}"
  | .refused => "refused"

def exec (st : St) (toks : List String) : St × String :=
  match toks with
  | ["setup"] => (St.init, "ok | " ++ view St.init 3)
  -- membership churn of g0 (B out, F in): no store changes; what OpenMLS opens afterwards comes with the
  -- deliver lines (`mls=ok|fail`)
  | ["swap"] => (st, "ok | -")
  | ["send", i, g, ts, k, tg, c] =>
    match i.toNat?, g.toNat?, ts.toNat?, k.toNat?, tg.toNat?, c.toNat? with
    | some i, some g, some ts, some k, some tg, some c =>
      let n := st.events.length
      let r : Rumor := ⟨⟨i, ts, k, tg, c⟩, some (.hash ⟨i, ts, k, tg, c⟩)⟩
      let w : Wrapper := ⟨n, g, g, true, ⟨n, g, i, r⟩⟩
      let st1 := { st with events := st.events ++ [w] }
      let st2 := setStore st1 i (send i (st1.stores.getD i Store.empty) g r n)
      (st2, s!"ev={n} id={idStr (nip01Id r)} | " ++ view st2 i)
    | _, _, _, _, _, _ => (st, "error parse")
  | ["adv", i, g, pk, idt, ts, k, tg, c, wg] =>
    match i.toNat?, g.toNat?, ts.toNat?, k.toNat?, tg.toNat?, c.toNat?, wg.toNat? with
    | some i, some g, some ts, some k, some tg, some c, some wg =>
      match parsePk i pk with
      | none => (st, "error pk")
      | some p =>
        let b : Body := ⟨p, ts, k, tg, c⟩
        match parseId st b idt with
        | none => (st, "err:NoSuchEvent | -")
        | some pre =>
          let n := st.events.length
          let w : Wrapper := ⟨n, wg, wg, true, ⟨n, g, i, ⟨b, pre⟩⟩⟩
          ({ st with events := st.events ++ [w] }, s!"ev={n} id={bodyStr b} | -")
    | _, _, _, _, _, _, _ => (st, "error parse")
  | ["rewrap", n] =>
    match n.toNat?.bind (st.events[·]?) with
    | some w => let m := st.events.length; ({ st with events := st.events ++ [{ w with wid := m }] }, s!"ev={m} | -")
    | none => (st, "error event")
  | ["retag", n, g] =>
    match n.toNat?.bind (st.events[·]?), g.toNat? with
    | some w, some g => let m := st.events.length; ({ st with events := st.events ++ [{ w with wid := m, hTag := g }] }, s!"ev={m} | -")
    | _, _ => (st, "error event")
  | "deliver" :: j :: n :: rest =>
    match j.toNat?, n.toNat?.bind (st.events[·]?) with
    | some j, some w0 =>
      -- the MLS layer opens it iff sender and receiver are current members of the MLS group (hatch: env verdict)
      let auto := decide (w0.ct.sender ∈ currentMembers w0.ct.gid ∧ j ∈ currentMembers w0.ct.gid)
      let ok := match rest with
        | ["mls=ok"] => true
        | ["mls=fail"] => false
        | _ => auto
      let w := { w0 with mlsOk := ok }
      let (s', r) := recv Generated.rumorIdRecomputed j (mine j) (st.stores.getD j Store.empty) w
      let st' := setStore st j s'
      (st', resStr w r ++ " | " ++ view st' j)
    | _, _ => (st, "error deliver")
  | ["view", j] =>
    match j.toNat? with
    | some j => (st, "view | " ++ view st j)
    | none => (st, "error view")
  | _ => (st, "error bad-line")

partial def loop (h : IO.FS.Stream) (st : St) : IO Unit := do
  let line ← h.getLine
  if line.isEmpty then return
  let toks := (line.trimAscii.toString.splitOn " ").filter (· ≠ "")
  if toks.isEmpty then loop h st
  else
    let (st', out) := exec st toks
    IO.println out
    loop h st'

def main : IO Unit := do loop (← IO.getStdin) St.init

end Driver.AppMsgDrv
