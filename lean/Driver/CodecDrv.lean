import MdkVerif.Model.Codec
import MdkVerif.Model.Tags
import MdkVerif.Model.Media
/- line protocol for the `codec` engine (C15): one op per line, one observation per line.
   Same syntax as harness/src/codec.rs; only the part left of ` | ` is produced here. -/
namespace Driver.CodecDrv
open MdkVerif MdkVerif.Codec MdkVerif.Tags

def strBytes (s : String) : Bytes := s.toList.map Char.toNat
def bytesStr (b : Bytes) : String := String.ofList (b.map Char.ofNat)

def unhex (s : String) : Option Bytes := if s == "-" then some [] else hexDec (strBytes s)
def toHex (b : Bytes) : String := bytesStr (hexEnc b)
def hexOrDash (b : Bytes) : String := if b.isEmpty then "-" else toHex b
def optHex (o : Option Bytes) : String := match o with | none => "-" | some b => toHex b

def joinWith (sep : String) : List String → String
  | [] => ""
  | [x] => x
  | x :: xs => x ++ sep ++ joinWith sep xs
def listOrDash (l : List String) : String := if l.isEmpty then "-" else joinWith "," l

def hexList (s : String) : Option (List Bytes) :=
  if s == "-" then some [] else (s.splitOn ",").mapM (fun x => hexDec (strBytes x))

def field (toks : List String) (key : String) : Option String :=
  toks.findSome? (fun t => match t.splitOn "=" with
    | [k, v] => if k == key then some v else none
    | _ => none)

/-! fixtures mirrored from the harness: only their *relations* matter (equal / different) -/
def pkA : Bytes := List.replicate 32 161
def pkB : Bytes := List.replicate 32 178
def refR : Bytes := List.replicate 32 171
def refR2 : Bytes := List.replicate 32 172
def refR3 : Bytes := List.replicate 32 173
def refX (r : Bytes) : Bytes := match r with | [] => [] | b :: t => (if b % 2 = 0 then b + 1 else b - 1) :: t
def upper (s : Bytes) : Bytes := s.map (fun c => if 97 ≤ c ∧ c ≤ 122 then c - 32 else c)
def eventIdHex : Bytes := hexEnc (List.replicate 32 66)
def fixtureGid : Bytes := List.replicate 32 165

def nameOf (tok : String) : Option TagName :=
  match tok with
  | "pv" => some .protoVer | "cs" => some .ciphersuite | "ext" => some .extensions
  | "relays" => some .relays | "i" => some .i | "e" => some .e | "h" => some .h
  | "client" => some .client | "encoding" => some .encoding | "imeta" => some .imeta
  | "dash" => some .protected_
  | o => match o.toList with
         | 'o' :: r => (String.ofList r).toNat?.map TagName.other
         | _ => none

def tokOf : TagName → String
  | .protoVer => "pv" | .ciphersuite => "cs" | .extensions => "ext" | .relays => "relays" | .i => "i"
  | .e => "e" | .h => "h" | .client => "client" | .encoding => "encoding" | .imeta => "imeta"
  | .protected_ => "dash" | .other n => "o" ++ toString n

def parseVal (subst : List (String × Bytes)) (x : String) : Option Bytes :=
  match subst.find? (fun p => p.1 == x) with
  | some p => some p.2
  | none => hexDec (strBytes x)

def parseTag (subst : List (String × Bytes)) (part : String) : Option Tag :=
  match part.splitOn ":" with
  | [n] => (nameOf n).map (fun nm => { name := nm, vals := [] })
  | [n, v] => do
    let nm ← nameOf n
    let vals ← (v.splitOn ",").mapM (parseVal subst)
    pure { name := nm, vals := vals }
  | _ => none

def parseTags (subst : List (String × Bytes)) (s : String) : Option (List Tag) :=
  if s == "-" then some [] else (s.splitOn ";").mapM (parseTag subst)

def showVal (subst : List (String × Bytes)) (v : Bytes) : String :=
  match subst.find? (fun p => p.2 == v) with
  | some p => p.1
  | none => toHex v

def showTag (subst : List (String × Bytes)) (t : Tag) : String :=
  if t.vals.isEmpty then tokOf t.name else tokOf t.name ++ ":" ++ joinWith "," (t.vals.map (showVal subst))

def showTags (subst : List (String × Bytes)) (ts : List Tag) : String :=
  if ts.isEmpty then "-" else joinWith ";" (ts.map (showTag subst))

def errKind : DecErr → String
  | .tls => "tls" | .trailing => "trailing" | .version0 => "version0" | .utf8 => "utf8"
  | .relayUrl => "relayurl" | .hashLen => "hashlen" | .keyLen => "keylen" | .nonceLen => "noncelen"
  | .uploadLen => "uploadlen"

def showExt (x : Ext) : String :=
  "v=" ++ toString x.version ++ " gid=" ++ toHex x.gid ++ " name=" ++ hexOrDash x.name ++
  " desc=" ++ hexOrDash x.desc ++ " admins=" ++ listOrDash (x.admins.map toHex) ++
  " relays=" ++ listOrDash (x.relays.map (fun r => toHex r.text)) ++
  " ih=" ++ optHex x.ih ++ " ik=" ++ optHex x.ik ++ " in=" ++ optHex x.inn ++ " iu=" ++ optHex x.iu

def optField (toks : List String) (k : String) : Option (Option Bytes) :=
  match field toks k with
  | none => none
  | some "-" => some none
  | some h => (hexDec (strBytes h)).map some

def extEncode (toks : List String) : Option String := do
  let name ← unhex (← field toks "name")
  let desc ← unhex (← field toks "desc")
  let gid ← unhex (← field toks "gid")
  let admins ← hexList (← field toks "admins")
  let relaysB ← hexList (← field toks "relays")
  let ih ← optField toks "ih"
  let ik ← optField toks "ik"
  let inn ← optField toks "in"
  let iu ← optField toks "iu"
  -- `Vec<RelayUrl> -> BTreeSet` goes through `FromIterator` (stable sort + dedup that keeps the LAST of
  -- equal keys), unlike the element-wise `insert` of `from_raw` (keeps the first): reverse the input
  let relays ← match relaysFrom stdEnv relaysB.reverse [] with
    | .ok r => some r
    | .error _ => none
  let x : Ext := { version := Generated.extCurrentVersion, gid := gid, name := name, desc := desc,
                   admins := setOfList bytesLt admins, relays := relays, ih := ih, ik := ik, inn := inn, iu := iu }
  match encode x with
  | some bs => pure ("ok " ++ toHex bs)
  | none => pure "err encode"

def extDecode (h : String) : Option String := do
  let bs ← unhex h
  match decode stdEnv bs with
  | .ok x => pure ("ok " ++ showExt x)
  | .error e => pure ("err " ++ errKind e)

def showKpRes : KpRes → String
  | .ok => "ok" | .errKind => "err:kind" | .errKp => "err:kp" | .errIdentity => "err:identity"
  | .errOther => "err:other"

def kpCreateOp (toks : List String) : Option String := do
  let relays ← hexList (← field toks "relays")
  let prot := (← field toks "protected") == "1"
  let tags := kpCreate relays prot refR
  let ev : KpEvent := { kind := 443, tags := tags, content := .ok, author := pkA, credIdentity := pkA, kpRef := refR }
  pure ("tags=" ++ showTags [("$REF", hexEnc refR)] tags ++ " parse=" ++ showKpRes (parseKp stdEnv ev))

def kpParseOp (toks : List String) : Option String := do
  let kind ← (← field toks "kind").toNat?
  let author ← match (← field toks "author") with
    | "self" => some pkA | "other" => some pkB | _ => none
  -- (content verdict, credential identity, ref of the content, the ref `$REF` stands for)
  let (content, cred, cref, dollar) ← match (← field toks "content") with
    | "real" => some (Content.ok, pkA, refR, refR)
    | "otherkp" => some (Content.ok, pkA, refR2, refR)
    | "foreign" => some (Content.ok, pkB, refR3, refR3)
    | "trail" => some (Content.trailing, pkA, refR, refR)
    | "nb64" => some (Content.notBase64, pkA, refR, refR)
    | "garbage" => some (Content.badMls, pkA, refR, refR)
    | "trunc" => some (Content.badMls, pkA, refR, refR)
    | _ => none
  let subst := [("$REF", hexEnc dollar), ("$REFU", upper (hexEnc dollar)), ("$REFX", hexEnc (refX dollar)),
                ("$REFP", hexEnc (dollar.take (dollar.length / 2))), ("$REFQ", hexEnc (dollar.take 1)), ("$REFE", hexEnc (dollar ++ [171]))]
  let tags ← parseTags subst (← field toks "tags")
  let ev : KpEvent := { kind := kind, tags := tags, content := content, author := author, credIdentity := cred, kpRef := cref }
  pure (showKpRes (parseKp stdEnv ev))

def welcomeValidateOp (toks : List String) : Option String := do
  let kind ← (← field toks "kind").toNat?
  let tags ← parseTags [("$E", eventIdHex)] (← field toks "tags")
  pure (if validateWelcome stdEnv { kind := kind, tags := tags } then "pass" else "reject")

def welcomeCreateOp (toks : List String) : Option String := do
  let relays ← hexList (← field toks "relays")
  let content := if field toks "content" == some "trail" then Content.trailing else Content.ok
  match inviteTags relays eventIdHex with
  | none => pure "err create"
  | some tags =>
    let verdict := match processWelcome stdEnv { rumor := { kind := Generated.kindMlsWelcome, tags := tags }, content := content } with
      | .ok => "ok" | .invalid => "reject" | .errWelcome => "err:welcome"
    pure ("kind=" ++ toString Generated.kindMlsWelcome ++ " tags=" ++ showTags [("$E", eventIdHex)] tags ++
          " verdict=" ++ verdict)

def hexGidOp (toks : List String) : Option String := do
  let tags ← parseTags [] (← field toks "tags")
  match extractGid tags with
  | .ok b => pure (if b = fixtureGid then "ok:found" else "ok:notfound")
  | .error .missing => pure "err:missing"
  | .error .multiple => pure "err:multiple"
  | .error .format => pure "err:format"

def showDims : Option (Nat × Nat) → String
  | none => "-"
  | some (w, h) => toString w ++ "x" ++ toString h

def showImeta (sep : String) : Except ImetaErr MediaRef → String
  | .ok r => "ok" ++ sep ++ "url=" ++ hexOrDash r.url ++ sep ++ "x=" ++ toHex r.hash ++ sep ++ "m=" ++ hexOrDash r.mime ++
      sep ++ "filename=" ++ hexOrDash r.filename ++ sep ++ "dim=" ++ showDims r.dims ++ sep ++ "v=" ++ hexOrDash r.version ++
      sep ++ "n=" ++ toHex r.nonce
  | .error .invalid => "err:invalid"
  | .error .version => "err:version"

def parseDimField (s : String) : Option (Option (Nat × Nat)) :=
  if s == "-" then some none
  else match s.splitOn "x" with
    | [w, h] => do pure (some ((← w.toNat?), (← h.toNat?)))
    | _ => none

def imetaCreateOp (toks : List String) : Option String := do
  let mime ← unhex (← field toks "mime")
  let filename ← unhex (← field toks "filename")
  let url ← unhex (← field toks "url")
  let dims ← parseDimField (← field toks "dim")
  let blur ← optField toks "blur"
  let x ← unhex (← field toks "x")
  let n ← unhex (← field toks "n")
  let u : Upload := { mime := mime, filename := filename, dims := dims, blurhash := blur, hash := x, nonce := n }
  let tag := imetaCreate u url
  pure ("tag=" ++ showTag [] tag ++ " parse=" ++ showImeta "~" (imetaParse tag))

def imetaParseOp (toks : List String) : Option String := do
  let tags ← parseTags [] (← field toks "tag")
  let t ← tags.head?
  pure (showImeta " " (imetaParse t))

def mediaPairOp (toks : List String) : Option String := do
  let h1 ← unhex (← field toks "h1")
  let m1 ← unhex (← field toks "m1")
  let f1 ← unhex (← field toks "f1")
  let h2 ← unhex (← field toks "h2")
  let m2 ← unhex (← field toks "m2")
  let f2 ← unhex (← field toks "f2")
  let sameCtx := MdkVerif.Media.keyContext h1 m1 f1 == MdkVerif.Media.keyContext h2 m2 f2
  let sameAad := MdkVerif.Media.aad h1 m1 f1 == MdkVerif.Media.aad h2 m2 f2
  pure ("ctx=" ++ (if sameCtx then "same" else "diff") ++ " aad=" ++ (if sameAad then "open" else "fail"))

def exec (toks : List String) : String :=
  let r := match toks with
    | "pool" :: _ => some "ok"
    | "ext_encode" :: _ => extEncode toks
    | ["ext_decode", h] => extDecode h
    | "kp_create" :: _ => kpCreateOp toks
    | "kp_parse" :: _ => kpParseOp toks
    | "welcome_validate" :: _ => welcomeValidateOp toks
    | "welcome_create" :: _ => welcomeCreateOp toks
    | "hex_gid" :: _ => hexGidOp toks
    | "imeta_create" :: _ => imetaCreateOp toks
    | "imeta_parse" :: _ => imetaParseOp toks
    | "media_pair" :: _ => mediaPairOp toks
    | _ => none
  r.getD "bad-op"

def toks (line : String) : List String :=
  (line.trimAscii.toString.splitOn " ").filter (· ≠ "")

partial def loop (h : IO.FS.Stream) : IO Unit := do
  let line ← h.getLine
  if line.isEmpty then return ()
  match toks line with
  | [] => loop h
  | ts =>
    if (ts.head?.getD "").startsWith "#" then loop h
    else
      IO.println (exec ts)
      loop h

def main : IO Unit := do loop (← IO.getStdin)

end Driver.CodecDrv
