import MdkVerif.Model.Keyring
import MdkVerif.Model.OpenMatrix
/- line protocol of the `atrest` engine (property C13): the op lines executed by `vh atrest` on the real
   code, completed with the observed environment (numbers of generated keys, the linearised keyring
   event trace of a concurrent run), are replayed on `Model.OpenMatrix` / `Model.Keyring`; one predicted
   observation per line, in the harness' own format. -/
namespace Driver.AtrestDrv
open MdkVerif MdkVerif.OpenMatrix

def octal (n : Nat) : String := String.ofList (Nat.toDigits 8 n)

def showKey (k : Nat) : String := s!"k{k}"

def parseKeyTok (s : String) : Option Nat :=
  if s.startsWith "k" then (s.drop 1).toNat? else none

def parseFile (s : String) : Option FileSt :=
  match s with
  | "missing" => some .missing
  | "empty" => some .empty
  | "small" => some .small
  | "plain" => some (.plain 99)
  | "garbage" => some .garbage
  | "special" => some .special
  | _ => if s.startsWith "enc" then (s.drop 3).toNat?.map (fun k => .enc k k) else none

def parseRing (s : String) : Option RingSt :=
  match s with
  | "none" => some .none
  | "bad" => some .bad
  | "noaccess" => some .noaccess
  | "fail" => some .platfail
  | "nostore" => some .nostore
  | _ => (parseKeyTok s).map .key

def parseCtor (s : String) : Option Ctor :=
  match s with
  | "new" => some .new
  | "unenc" => some .unenc
  | _ => if s.startsWith "key" then (s.drop 3).toNat?.map .withKey else none

def showFile : FileSt → String
  | .missing => "missing"
  | .empty => "empty"
  | .small => "small"
  | .plain _ => "plain"
  | .enc k d => s!"enc{k}:{d}"
  | .garbage => "garbage"
  | .special => "special"

def showRing : RingSt → String
  | .none => "none"
  | .key k => showKey k
  | .bad => "bad"
  | .noaccess => "noaccess"
  | .platfail => "fail"
  | .nostore => "nostore"

def showErr : ErrKind → String
  | .unencryptedWithEncryption => "UnencryptedDatabaseWithEncryption"
  | .wrongKey => "WrongEncryptionKey"
  | .keyringEntryMissing => "KeyringEntryMissing"
  | .keyringNotInitialized => "KeyringNotInitialized"
  | .keyring => "Keyring"
  | .sqlite => "Sqlite"

def freshField (before after : World) (fresh : Nat) : String :=
  if after.stores > before.stores then showKey fresh else "-"

def tail (before after : World) (fresh : Nat) : String :=
  let special := after.file == .special
  let fm := if special then "-" else octal after.fmode
  let dm := if special then "-" else match after.dir with
    | none => "-"
    | some m => octal m
  s!"fresh={freshField before after fresh} file={showFile after.file} ring={showRing after.ring} stores={after.stores} fmode={fm} dir={dm}"

def showOpen (c : Ctor) (before : World) (fresh : Nat) : World × String :=
  let (w, o) := openDb before c fresh
  let head := match o with
    | .err e => s!"err {showErr e}"
    | .opened key d =>
      let ks := match c, key with
        | .unenc, _ => "-"
        | _, some k => showKey k
        | _, none => "-"
      s!"ok key={ks} data={d}"
  (w, s!"{head} {tail before w fresh}")

def keyTail (before after : World) (fresh : Nat) : String :=
  s!"fresh={freshField before after fresh} ring={showRing after.ring} stores={after.stores}"

/-! ### replay of a concurrent `get_or_create_db_key` run on `Model.Keyring` -/

structure KEv where
  t : Nat
  op : String
  val : String      -- none | err | k<n>

def parseEvents (s : String) : List KEv :=
  if s == "-" then [] else
  (s.splitOn ";").filterMap fun e =>
    match e.splitOn "." with
    | [t, op, v] => t.toNat?.map fun t => { t := t, op := op, val := v }
    | _ => none

def dedup (l : List Nat) : List Nat := l.foldl (fun acc x => if acc.contains x then acc else acc ++ [x]) []

def ringOfWorld : RingSt → Option Nat
  | .key k => some k
  | _ => none

/-- replays the observed events; returns the model's final state, the predicted event strings and the
    keys stored -/
def replayKey (s0 : Keyring.St) (evs : List KEv) : Keyring.St × List String × List Nat :=
  evs.foldl (fun (acc : Keyring.St × List String × List Nat) e =>
    let (s, outs, stored) := acc
    -- a read that returns an entry of the wrong length makes `get_db_key` fail like an unavailable store
    let ok := e.val != "err" && e.val != "bad"
    match e.op with
    | "get" =>
      -- the lock acquisition is invisible to the keyring: a caller whose fast path saw no entry takes
      -- the lock right before its second read — the model must find the lock free at that point
      let (s1, blocked) := match s.pc e.t with
        | .wantLock =>
          let s' := Keyring.step s (.step e.t 0 true)
          (s', s'.pc e.t == Keyring.Pc.wantLock)
        | _ => (s, false)
      if blocked then (s1, outs ++ [s!"{e.t}.get.LOCK-HELD-BY-ANOTHER"], stored) else
      match s1.pc e.t with
      | .start | .locked =>
        let pred := if !ok then e.val else match s1.ring with
          | some k => showKey k
          | none => "none"
        (Keyring.step s1 (.step e.t 0 ok), outs ++ [s!"{e.t}.get.{pred}"], stored)
      | _ => (s1, outs ++ [s!"{e.t}.get.UNEXPECTED"], stored)
    | "set" =>
      match s.pc e.t, parseKeyTok e.val with
      | .gen, some k =>
        let s1 := Keyring.step s (.step e.t k true)        -- generate() returned k
        let s2 := Keyring.step s1 (.step e.t k true)       -- set_secret
        (s2, outs ++ [s!"{e.t}.set.{showKey k}"], stored ++ [k])
      | .gen, none =>
        let s1 := Keyring.step s (.step e.t 0 true)
        let s2 := Keyring.step s1 (.step e.t 0 false)      -- set_secret failed
        (s2, outs ++ [s!"{e.t}.set.err"], stored)
      | _, _ => (s, outs ++ [s!"{e.t}.set.UNEXPECTED"], stored)
    | "del" =>
      let pred := if !ok then "err" else match s.ring with
        | some k => showKey k
        | none => "none"
      ((if ok then Keyring.step s .delete else s), outs ++ [s!"{e.t}.del.{pred}"], stored)
    | _ => (s, outs ++ ["BAD-EVENT"], stored)) (s0, [], [])

def showConcKey (w : World) (n : Nat) (evs : List KEv) : World × String :=
  let s0 := Keyring.init (ringOfWorld w.ring)
  let (s, outs, stored) := replayKey s0 evs
  let rets := (List.range n).map fun i =>
    match s.pc (i + 1) with
    | .done k => showKey k
    | .failed => "err"
    | _ => "RUNNING"
  let returned := dedup ((List.range n).filterMap fun i => match s.pc (i + 1) with
    | .done k => some k
    | _ => none)
  let ring' : RingSt := match s.ring with
    | some k => .key k
    | none => match w.ring with
      | .key _ => .none
      | r => r
  let w' := { w with ring := ring', stores := w.stores + s.stores }
  let evs := if outs.isEmpty then "-" else ";".intercalate outs
  (w', s!"ev={evs} ret={",".intercalate rets} stores={s.stores} distinct_stored={(dedup stored).length} distinct_returned={returned.length} usable=1 file=- ring={showRing ring'}")

/-! ### replay of concurrent `MdkSqliteStorage::new` calls on `Model.Keyring.nstep` -/

open Keyring in
def nfileOf : FileSt → Option NFile
  | .missing => some .missing
  | .empty => some .empty
  | .enc k _ => some (.enc k)
  | _ => none

/-- `rets`: the observed results, used ONLY to place the invisible file probe of a follower (a follower
    that reported KeyringEntryMissing probed after the creator had written the header) -/
def showConcNew (w : World) (n : Nat) (evs : List KEv) (rets : List String) : World × String :=
  open Keyring in
  match nfileOf w.file with
  | none => (w, "UNSUPPORTED-START-STATE")
  | some f0 =>
  let s0 : NSt := { file := f0, k := Keyring.init (ringOfWorld w.ring), pc := fun _ => .pre }
  -- the creator is the thread that performs a second keyring operation (if any); with a key already
  -- in the keyring creator and followers are indistinguishable (one read each) and behave alike
  let counts := fun (t : Nat) => (evs.filter (·.t == t)).length
  let creator := (List.range n).map (· + 1) |>.find? (fun t => counts t ≥ 2)
  let s1 := match creator with
    | some c => nstep s0 c 0
    | none => s0
  let deferred := fun (t : Nat) => rets.getD (t - 1) "" == "err:KeyringEntryMissing"
  let (s2, outs, stored) := evs.foldl (fun (acc : NSt × List String × List Nat) e =>
    let (s, outs, stored) := acc
    let s := if s.pc e.t == NPc.pre then nstep s e.t 0 else s
    match e.op with
    | "get" =>
      let (s, blocked) :=
        if s.pc e.t == NPc.kr && s.k.pc e.t == Pc.wantLock then
          let s' := nstep s e.t 0
          (s', s'.k.pc e.t == Pc.wantLock)
        else (s, false)
      if blocked then (s, outs ++ [s!"{e.t}.get.LOCK-HELD-BY-ANOTHER"], stored) else
      let readable := (s.pc e.t == NPc.kr && (s.k.pc e.t == Pc.start || s.k.pc e.t == Pc.locked)) || s.pc e.t == NPc.chk
      if !readable then (s, outs ++ [s!"{e.t}.get.UNEXPECTED"], stored) else
      let pred := match s.k.ring with
        | some k => showKey k
        | none => "none"
      let s' := nstep s e.t 0
      -- a follower that saw no key probes the file at once (unless the observation says otherwise)
      let s'' := if s'.pc e.t == NPc.probe && !deferred e.t then nstep s' e.t 0 else s'
      (s'', outs ++ [s!"{e.t}.get.{pred}"], stored)
    | "set" =>
      match parseKeyTok e.val with
      | some k =>
        if s.pc e.t == NPc.kr && s.k.pc e.t == Pc.gen then
          -- generate() = k; set_secret; return; the creator opens (writes the header) right after
          let s4 := nstep (nstep (nstep (nstep s e.t k) e.t k) e.t k) e.t k
          (s4, outs ++ [s!"{e.t}.set.{showKey k}"], stored ++ [k])
        else (s, outs ++ [s!"{e.t}.set.UNEXPECTED"], stored)
      | none => (s, outs ++ [s!"{e.t}.set.UNEXPECTED"], stored)
    | _ => (s, outs ++ ["BAD-EVENT"], stored)) (s1, [], [])
  -- remaining invisible steps (return from get_or_create, open, deferred probes)
  let s3 := (List.range n).foldl (fun s i =>
    let t := i + 1
    nstep (nstep (nstep (nstep (nstep s t 0) t 0) t 0) t 0) t 0) s2
  let showE : NErr → String
    | .unencrypted => "err:UnencryptedDatabaseWithEncryption"
    | .keyMissing => "err:KeyringEntryMissing"
    | .wrongKey => "err:WrongEncryptionKey"
    | .keyring => "err:Keyring"
  let retS := (List.range n).map fun i =>
    match s3.pc (i + 1) with
    | .ok k => showKey k
    | .err e => showE e
    | _ => "RUNNING"
  let returned := dedup ((List.range n).filterMap fun i => match s3.pc (i + 1) with
    | .ok k => some k
    | _ => none)
  let file' : FileSt := match s3.file, w.file with
    | .enc k, .enc k' d => if k = k' then .enc k d else .enc k 0
    | .enc k, _ => .enc k 0
    | .empty, _ => .empty
    | .missing, _ => .missing
  let ring' : RingSt := match s3.k.ring with
    | some k => .key k
    | none => w.ring
  let dir' := match w.dir with
    | none => some mode700
    | d => d
  let fmode' := match w.file with
    | .missing => mode600
    | _ => if returned.isEmpty then w.fmode else mode600
  let w' := { w with file := file', ring := ring', stores := w.stores + s3.k.stores, dir := dir', fmode := fmode' }
  let evs := if outs.isEmpty then "-" else ";".intercalate outs
  (w', s!"ev={evs} ret={",".intercalate retS} stores={s3.k.stores} distinct_stored={(dedup stored).length} distinct_returned={returned.length} usable=1 file={showFile file'} ring={showRing ring'}")

def toks (line : String) : List String :=
  (line.trimAscii.toString.splitOn " ").filter (· ≠ "")

def freshOf (s : String) : Nat := (parseKeyTok s).getD 0

partial def loop (h : IO.FS.Stream) (w : World) : IO Unit := do
  let line ← h.getLine
  if line.isEmpty then return ()
  match toks line with
  | [] => loop h w
  | ["reset", d] =>
    let dir := match d with
      | "pre755" => some mode755
      | "pre700" => some mode700
      | _ => none
    IO.println "ok"; loop h (World.fresh dir)
  | ["file", f] =>
    match parseFile f with
    | some f => IO.println "ok"; loop h (setFile w f)
    | none => IO.println "bad-op"; loop h w
  | ["ring", r] =>
    match parseRing r with
    | some r => IO.println "ok"; loop h (setRing w r)
    | none => IO.println "bad-op"; loop h w
  | ["open", c, fresh] =>
    match parseCtor c with
    | some c =>
      let (w', out) := showOpen c w (freshOf fresh)
      IO.println out; loop h w'
    | none => IO.println "bad-op"; loop h w
  | ["getkey", _] =>
    let out := match getDbKey w.ring with
      | .error e => s!"err {showErr e}"
      | .ok none => "none"
      | .ok (some k) => s!"some {showKey k}"
    IO.println s!"{out} {keyTail w w 0}"; loop h w
  | ["getorcreate", fresh] =>
    let f := freshOf fresh
    let (w', r) := getOrCreate w f
    let out := match r with
      | .error e => s!"err {showErr e}"
      | .ok k => s!"some {showKey k}"
    IO.println s!"{out} {keyTail w w' f}"; loop h w'
  | ["delkey", _] =>
    let (w', r) := deleteDbKey w
    let out := match r with
      | .error e => s!"err {showErr e}"
      | .ok _ => "ok"
    IO.println s!"{out} {keyTail w w' 0}"; loop h w'
  | ["conc", "key", n, evs] =>
    let (w', out) := showConcKey w (n.toNat?.getD 0) (parseEvents evs)
    IO.println out; loop h w'
  | ["conc", "new", n, evs, rets] =>
    let (w', out) := showConcNew w (n.toNat?.getD 0) (parseEvents evs) (rets.splitOn ",")
    IO.println out; loop h w'
  | _ => IO.println "bad-op"; loop h w

def main : IO Unit := do
  let h ← IO.getStdin
  loop h (World.fresh none)

end Driver.AtrestDrv
