import MdkVerif.Generated
import MdkVerif.Model.Keyring
import MdkVerif.Model.OpenMatrix
/- line protocol of the `atrest` engine (property C13): the op lines executed by `vh atrest` on the real
   code, completed with the observed environment (numbers of generated keys, the linearised keyring
   event trace of a concurrent run), are replayed on `Model.OpenMatrix` / `Model.Keyring`; one predicted
   observation per line, in the harness' own format.
   Faults: `ring panic <k>` arms a panic of the k-th credential call from now; a panic inside the locked
   section of `get_or_create_db_key` poisons KEY_GENERATION_LOCK for the rest of the harness PROCESS
   (`newprocess` = a fresh process).  What a poisoned lock does to later callers is the model's rule
   `Generated.lockPoisonFailsClosed`, re-extracted from keyring.rs on every run. -/
namespace Driver.AtrestDrv
open MdkVerif MdkVerif.OpenMatrix

/-- how the code under test treats a poisoned lock -/
def fcRule : Bool := Generated.lockPoisonFailsClosed

/-- process-level state of the harness: is KEY_GENERATION_LOCK poisoned; the armed fault (credential
    calls left until the panic); has the fault fired -/
structure Proc where
  pz : Bool := false
  arm : Option Nat := none
  fired : Bool := false

def Proc.faulty (p : Proc) : Bool := p.pz || p.arm.isSome

/-- account for `calls` credential calls, the `at`-th of which (if any) was the injected panic -/
def Proc.spend (p : Proc) (calls : Nat) (panicked : Bool) (pz : Bool) : Proc :=
  if panicked then { pz := pz, arm := none, fired := true }
  else { p with pz := pz, arm := p.arm.map (· - calls) }

def octal (n : Nat) : String := String.ofList (Nat.toDigits 8 n)

def showKey (k : Nat) : String := s!"k{k}"

def parseKeyTok (s : String) : Option Nat :=
  if s.startsWith "k" then (s.drop 1).toNat? else none

def parseFile (s : String) : Option FileSt :=
  match s with
  | "missing" => some .missing
  | "empty" => some .empty
  | "small" => some .small
  | "plain" => some (.plain 99)
  | "garbage" => some .garbage
  | "special" => some .special
  | _ => if s.startsWith "enc" then (s.drop 3).toNat?.map (fun k => .enc k k) else none

def parseRing (s : String) : Option RingSt :=
  match s with
  | "none" => some .none
  | "bad" => some .bad
  | "noaccess" => some .noaccess
  | "fail" => some .platfail
  | "nostore" => some .nostore
  | _ =>
    -- rdk<n> / rdnk<n>: the entry k<n> is stored but unreadable (read error → Keyring / → KeyringNotInitialized)
    if s.startsWith "rdn" then (parseKeyTok (s.drop 3).toString).map (fun k => .rdfail k true)
    else if s.startsWith "rd" then (parseKeyTok (s.drop 2).toString).map (fun k => .rdfail k false)
    else (parseKeyTok s).map .key

def parseCtor (s : String) : Option Ctor :=
  match s with
  | "new" => some .new
  | "unenc" => some .unenc
  | _ => if s.startsWith "key" then (s.drop 3).toNat?.map .withKey else none

def showFile : FileSt → String
  | .missing => "missing"
  | .empty => "empty"
  | .small => "small"
  | .plain _ => "plain"
  | .enc k d => s!"enc{k}:{d}"
  | .garbage => "garbage"
  | .special => "special"

def showRing : RingSt → String
  | .none => "none"
  | .key k => showKey k
  | .bad => "bad"
  | .noaccess => "noaccess"
  | .platfail => "fail"
  | .nostore => "nostore"
  | .rdfail k ni => (if ni then "rdn" else "rd") ++ showKey k

def showErr : ErrKind → String
  | .unencryptedWithEncryption => "UnencryptedDatabaseWithEncryption"
  | .wrongKey => "WrongEncryptionKey"
  | .keyringEntryMissing => "KeyringEntryMissing"
  | .keyringNotInitialized => "KeyringNotInitialized"
  | .keyring => "Keyring"
  | .sqlite => "Sqlite"

def freshField (before after : World) (fresh : Nat) : String :=
  if after.stores > before.stores then showKey fresh else "-"

def tail (before after : World) (fresh : Nat) : String :=
  let special := after.file == .special
  let fm := if special then "-" else octal after.fmode
  let dm := if special then "-" else match after.dir with
    | none => "-"
    | some m => octal m
  s!"fresh={freshField before after fresh} file={showFile after.file} ring={showRing after.ring} stores={after.stores} fmode={fm} dir={dm}"

def showOpen (c : Ctor) (before : World) (fresh : Nat) : World × String :=
  let (w, o) := openDb before c fresh
  let head := match o with
    | .err e => s!"err {showErr e}"
    | .opened key d =>
      let ks := match c, key with
        | .unenc, _ => "-"
        | _, some k => showKey k
        | _, none => "-"
      s!"ok key={ks} data={d}"
  (w, s!"{head} {tail before w fresh}")

def keyTail (before after : World) (fresh : Nat) : String :=
  s!"fresh={freshField before after fresh} ring={showRing after.ring} stores={after.stores}"

/-! ### replay of a concurrent `get_or_create_db_key` run on `Model.Keyring` -/

structure KEv where
  t : Nat
  op : String
  val : String      -- none | err | k<n>

def parseEvents (s : String) : List KEv :=
  if s == "-" then [] else
  (s.splitOn ";").filterMap fun e =>
    match e.splitOn "." with
    | [t, op, v] => t.toNat?.map fun t => { t := t, op := op, val := v }
    | _ => none

def dedup (l : List Nat) : List Nat := l.foldl (fun acc x => if acc.contains x then acc else acc ++ [x]) []

def ringOfWorld : RingSt → Option Nat
  | .key k => some k
  | _ => none

/-- is the `i`-th credential call (1-based) of this op the one the armed fault hits? -/
def hits (arm : Option Nat) (i : Nat) : Bool := arm == some i

/-- replays the observed events; returns the model's final state, the predicted event strings and the
    keys stored.  A `panic` event is an input (like a failing call) but must sit exactly where the
    armed fault says. -/
def replayKey (s0 : Keyring.St) (arm : Option Nat) (evs : List KEv) : Keyring.St × List String × List Nat :=
  let r := evs.foldl (fun (acc : Keyring.St × List String × List Nat × Nat) e =>
    let (s, outs, stored, i) := acc
    let i := i + 1
    let isPanic := e.val == "panic"
    if isPanic != hits arm i then (s, outs ++ [s!"{e.t}.{e.op}.FAULT-NOT-WHERE-INJECTED"], stored, i) else
    -- a read that returns an entry of the wrong length makes `get_db_key` fail like an unavailable store
    let ok := e.val != "err" && e.val != "bad"
    match e.op with
    | "get" =>
      -- the lock acquisition is invisible to the keyring: a caller whose fast path saw no entry takes
      -- the lock right before its second read — the model must find the lock free at that point
      let (s1, blocked) := match s.pc e.t with
        | .wantLock =>
          let s' := Keyring.step fcRule s (.step e.t 0 true)
          (s', s'.pc e.t == Keyring.Pc.wantLock)
        | _ => (s, false)
      if blocked then (s1, outs ++ [s!"{e.t}.get.LOCK-HELD-BY-ANOTHER"], stored, i) else
      match s1.pc e.t with
      | .start | .locked =>
        if isPanic then (Keyring.step fcRule s1 (.panic e.t), outs ++ [s!"{e.t}.get.panic"], stored, i) else
        let pred := if !ok then e.val else match s1.ring with
          | some k => showKey k
          | none => "none"
        (Keyring.step fcRule s1 (.step e.t 0 ok), outs ++ [s!"{e.t}.get.{pred}"], stored, i)
      | _ => (s1, outs ++ [s!"{e.t}.get.UNEXPECTED"], stored, i)
    | "set" =>
      match s.pc e.t, parseKeyTok e.val with
      | .gen, some k =>
        let s1 := Keyring.step fcRule s (.step e.t k true)        -- generate() returned k
        let s2 := Keyring.step fcRule s1 (.step e.t k true)       -- set_secret
        (s2, outs ++ [s!"{e.t}.set.{showKey k}"], stored ++ [k], i)
      | .gen, none =>
        let s1 := Keyring.step fcRule s (.step e.t 0 true)
        if isPanic then (Keyring.step fcRule s1 (.panic e.t), outs ++ [s!"{e.t}.set.panic"], stored, i) else
        let s2 := Keyring.step fcRule s1 (.step e.t 0 false)      -- set_secret failed
        (s2, outs ++ [s!"{e.t}.set.err"], stored, i)
      | _, _ => (s, outs ++ [s!"{e.t}.set.UNEXPECTED"], stored, i)
    | "del" =>
      let pred := if !ok then "err" else match s.ring with
        | some k => showKey k
        | none => "none"
      ((if ok then Keyring.step fcRule s .delete else s), outs ++ [s!"{e.t}.del.{pred}"], stored, i)
    | _ => (s, outs ++ ["BAD-EVENT"], stored, i)) (s0, [], [], 0)
  (r.1, r.2.1, r.2.2.1)

def hasPanic (evs : List KEv) : Bool := evs.any (·.val == "panic")

def showConcKey (w : World) (pr : Proc) (n : Nat) (evs : List KEv) : World × Proc × String :=
  let s0 := Keyring.init (ringOfWorld w.ring) pr.pz
  let (s, outs, stored) := replayKey s0 pr.arm evs
  -- callers that have no further keyring operation to show: a caller waiting for the lock takes it now
  -- (a poisoned lock, under the fail-closed rule, makes it return Err without any keyring call)
  let s := (List.range n).foldl (fun s i =>
    match s.pc (i + 1) with
    | .wantLock => Keyring.step fcRule s (.step (i + 1) 0 true)
    | _ => s) s
  let panicked := (evs.filter (·.val == "panic")).map (·.t)
  let rets := (List.range n).map fun i =>
    match s.pc (i + 1) with
    | .done k => showKey k
    | .failed => if panicked.contains (i + 1) then "panic" else "err"
    | _ => "RUNNING"
  let returned := dedup ((List.range n).filterMap fun i => match s.pc (i + 1) with
    | .done k => some k
    | _ => none)
  let ring' : RingSt := match s.ring with
    | some k => .key k
    | none => match w.ring with
      | .key _ => .none
      | r => r
  let w' := { w with ring := ring', stores := w.stores + s.stores }
  let evs' := if outs.isEmpty then "-" else ";".intercalate outs
  (w', pr.spend evs.length (hasPanic evs) s.poisoned,
   s!"ev={evs'} ret={",".intercalate rets} stores={s.stores} distinct_stored={(dedup stored).length} distinct_returned={returned.length} usable=1 file=- ring={showRing ring'}")

/-! ### a lone caller under a fault (armed panic and / or poisoned lock), on the interleaving models -/

def isCallPc : Keyring.Pc → Bool
  | .start => true
  | .locked => true
  | .store _ => true
  | _ => false

/-- `get_or_create_db_key` by a lone caller `t`; returns the final state, the number of credential calls
    made and whether the fault fired -/
def loneKey (s0 : Keyring.St) (t fresh : Nat) (arm : Option Nat) : Keyring.St × Nat × Bool :=
  (List.range 8).foldl (fun (acc : Keyring.St × Nat × Bool) _ =>
    let (s, calls, fired) := acc
    match s.pc t with
    | .done _ => acc
    | .failed => acc
    | pc =>
      if isCallPc pc then
        if hits arm (calls + 1) then (Keyring.step fcRule s (.panic t), calls + 1, true)
        else (Keyring.step fcRule s (.step t fresh true), calls + 1, fired)
      else (Keyring.step fcRule s (.step t fresh true), calls, fired)) (s0, 0, false)

def showLoneKey (w : World) (pr : Proc) (fresh : Nat) : World × Proc × String :=
  match w.ring with
  | .none | .key _ =>
    let (s, calls, fired) := loneKey (Keyring.init (ringOfWorld w.ring) pr.pz) 1 fresh pr.arm
    let head := match s.pc 1 with
      | .done k => s!"some {showKey k}"
      | .failed => if fired then "panic" else "err Keyring"
      | _ => "RUNNING"
    let ring' : RingSt := match s.ring with
      | some k => .key k
      | none => .none
    let w' := { w with ring := ring', stores := w.stores + s.stores }
    (w', pr.spend calls fired s.poisoned, s!"{head} {keyTail w w' fresh}")
  | _ => (w, pr, "UNSUPPORTED-RING-STATE-UNDER-FAULT")

/-! ### replay of concurrent `MdkSqliteStorage::new` calls on `Model.Keyring.nstep` -/

open Keyring in
def nfileOf : FileSt → Option NFile
  | .missing => some .missing
  | .empty => some .empty
  | .enc k _ => some (.enc k)
  | _ => none

/-- `rets`: the observed results, used ONLY to place the invisible file probe of a follower (a follower
    that reported KeyringEntryMissing probed after the creator had written the header) -/
def showConcNew (w : World) (pr : Proc) (n : Nat) (evs : List KEv) (rets : List String) : World × Proc × String :=
  open Keyring in
  match nfileOf w.file with
  | none => (w, pr, "UNSUPPORTED-START-STATE")
  | some f0 =>
  let nstep := Keyring.nstep fcRule
  let s0 : NSt := { file := f0, k := Keyring.init (ringOfWorld w.ring) pr.pz, pc := fun _ => .pre }
  -- the creator is the thread that performs a second keyring operation (if any); with a key already
  -- in the keyring creator and followers are indistinguishable (one read each) and behave alike
  let counts := fun (t : Nat) => (evs.filter (·.t == t)).length
  -- under a poisoned lock (fail-closed rule) the creator shows ONE read and returns Err(Keyring); a
  -- creator whose first read panics shows one event, too: the observed results tell who won O_EXCL
  let ts := (List.range n).map (· + 1)
  let creator := (ts.find? (fun t => counts t ≥ 2)).orElse fun _ =>
    if f0 != NFile.missing then none else
    (ts.find? (fun t => rets.getD (t - 1) "" == "err:Keyring")).orElse fun _ =>
    ts.find? (fun t => rets.getD (t - 1) "" == "panic")
  let s1 := match creator with
    | some c => nstep s0 c 0
    | none => s0
  let deferred := fun (t : Nat) => rets.getD (t - 1) "" == "err:KeyringEntryMissing"
  let (s2, outs, stored, _) := evs.foldl (fun (acc : NSt × List String × List Nat × Nat) e =>
    let (s, outs, stored, i) := acc
    let i := i + 1
    let isPanic := e.val == "panic"
    if isPanic != hits pr.arm i then (s, outs ++ [s!"{e.t}.{e.op}.FAULT-NOT-WHERE-INJECTED"], stored, i) else
    let s := if s.pc e.t == NPc.pre then nstep s e.t 0 else s
    match e.op with
    | "get" =>
      let (s, blocked) :=
        if s.pc e.t == NPc.kr && s.k.pc e.t == Pc.wantLock then
          let s' := nstep s e.t 0
          (s', s'.k.pc e.t == Pc.wantLock)
        else (s, false)
      if blocked then (s, outs ++ [s!"{e.t}.get.LOCK-HELD-BY-ANOTHER"], stored, i) else
      let readable := (s.pc e.t == NPc.kr && (s.k.pc e.t == Pc.start || s.k.pc e.t == Pc.locked)) || s.pc e.t == NPc.chk
      if !readable then (s, outs ++ [s!"{e.t}.get.UNEXPECTED"], stored, i) else
      if isPanic then (npanic s e.t, outs ++ [s!"{e.t}.get.panic"], stored, i) else
      let pred := match s.k.ring with
        | some k => showKey k
        | none => "none"
      let s' := nstep s e.t 0
      -- a follower that saw no key probes the file at once (unless the observation says otherwise)
      let s'' := if s'.pc e.t == NPc.probe && !deferred e.t then nstep s' e.t 0 else s'
      (s'', outs ++ [s!"{e.t}.get.{pred}"], stored, i)
    | "set" =>
      match parseKeyTok e.val with
      | some k =>
        if s.pc e.t == NPc.kr && s.k.pc e.t == Pc.gen then
          -- generate() = k; set_secret; return; the creator opens (writes the header) right after
          let s4 := nstep (nstep (nstep (nstep s e.t k) e.t k) e.t k) e.t k
          (s4, outs ++ [s!"{e.t}.set.{showKey k}"], stored ++ [k], i)
        else (s, outs ++ [s!"{e.t}.set.UNEXPECTED"], stored, i)
      | none =>
        if isPanic && s.pc e.t == NPc.kr && s.k.pc e.t == Pc.gen then
          (npanic (nstep s e.t 0) e.t, outs ++ [s!"{e.t}.set.panic"], stored, i)
        else (s, outs ++ [s!"{e.t}.set.UNEXPECTED"], stored, i)
    | _ => (s, outs ++ ["BAD-EVENT"], stored, i)) (s1, [], [], 0)
  -- remaining invisible steps (return from get_or_create, open, deferred probes)
  let s3 := (List.range n).foldl (fun s i =>
    let t := i + 1
    nstep (nstep (nstep (nstep (nstep s t 0) t 0) t 0) t 0) t 0) s2
  let showE : NErr → String
    | .unencrypted => "err:UnencryptedDatabaseWithEncryption"
    | .keyMissing => "err:KeyringEntryMissing"
    | .wrongKey => "err:WrongEncryptionKey"
    | .keyring => "err:Keyring"
  let retS := (List.range n).map fun i =>
    match s3.pc (i + 1) with
    | .ok k => showKey k
    | .err e => showE e
    | .panicked => "panic"
    | _ => "RUNNING"
  let returned := dedup ((List.range n).filterMap fun i => match s3.pc (i + 1) with
    | .ok k => some k
    | _ => none)
  let file' : FileSt := match s3.file, w.file with
    | .enc k, .enc k' d => if k = k' then .enc k d else .enc k 0
    | .enc k, _ => .enc k 0
    | .empty, _ => .empty
    | .missing, _ => .missing
  let ring' : RingSt := match s3.k.ring with
    | some k => .key k
    | none => w.ring
  let dir' := match w.dir with
    | none => some mode700
    | d => d
  let fmode' := match w.file with
    | .missing => mode600
    | _ => if returned.isEmpty then w.fmode else mode600
  let w' := { w with file := file', ring := ring', stores := w.stores + s3.k.stores, dir := dir', fmode := fmode' }
  let evs' := if outs.isEmpty then "-" else ";".intercalate outs
  (w', pr.spend evs.length (hasPanic evs) s3.k.poisoned,
   s!"ev={evs'} ret={",".intercalate retS} stores={s3.k.stores} distinct_stored={(dedup stored).length} distinct_returned={returned.length} usable=1 file={showFile file'} ring={showRing ring'}")

/-- `MdkSqliteStorage::new` by a lone caller under a fault, on `Model.Keyring.nstep` / `npanic` -/
def showLoneNew (w : World) (pr : Proc) (fresh : Nat) : World × Proc × String :=
  open Keyring in
  let ringOk := match w.ring with
    | .none => true
    | .key _ => true
    | _ => false
  match nfileOf w.file with
  | none => (w, pr, "UNSUPPORTED-FILE-STATE-UNDER-FAULT")
  | some f0 =>
  if !ringOk then (w, pr, "UNSUPPORTED-RING-STATE-UNDER-FAULT") else
  let t := 1
  let s0 : NSt := { file := f0, k := Keyring.init (ringOfWorld w.ring) pr.pz, pc := fun _ => .pre }
  let (s, calls, fired) := (List.range 14).foldl (fun (acc : NSt × Nat × Bool) _ =>
    let (s, calls, fired) := acc
    let isCall := match s.pc t with
      | .chk => true
      | .kr => isCallPc (s.k.pc t)
      | _ => false
    match s.pc t with
    | .ok _ => acc
    | .err _ => acc
    | .panicked => acc
    | _ =>
      if isCall then
        if hits pr.arm (calls + 1) then (npanic s t, calls + 1, true)
        else (Keyring.nstep fcRule s t fresh, calls + 1, fired)
      else (Keyring.nstep fcRule s t fresh, calls, fired)) (s0, 0, false)
  let opened := match s.pc t with
    | .ok _ => true
    | _ => false
  let head := match s.pc t with
    | .ok k =>
      let d := match w.file with
        | .enc k' d' => if k = k' then d' else 0
        | _ => 0
      s!"ok key={showKey k} data={d}"
    | .err .unencrypted => "err UnencryptedDatabaseWithEncryption"
    | .err .keyMissing => "err KeyringEntryMissing"
    | .err .wrongKey => "err WrongEncryptionKey"
    | .err .keyring => "err Keyring"
    | .panicked => "panic"
    | _ => "RUNNING"
  let file' : FileSt := match s.file, w.file with
    | .enc k, .enc k' d => if k = k' then .enc k d else .enc k 0
    | .enc k, _ => .enc k 0
    | .empty, _ => .empty
    | .missing, _ => .missing
  let ring' : RingSt := match s.k.ring with
    | some k => .key k
    | none => .none
  let dir' := match w.dir with
    | none => some mode700
    | d => d
  let fmode' := match w.file with
    | .missing => mode600
    | _ => if opened then mode600 else w.fmode
  let w' := { w with file := file', ring := ring', stores := w.stores + s.k.stores, dir := dir', fmode := fmode' }
  (w', pr.spend calls fired s.k.poisoned, s!"{head} {tail w w' fresh}")

def toks (line : String) : List String :=
  (line.trimAscii.toString.splitOn " ").filter (· ≠ "")

def freshOf (s : String) : Nat := (parseKeyTok s).getD 0

partial def loop (h : IO.FS.Stream) (w : World) (pr : Proc) : IO Unit := do
  let line ← h.getLine
  if line.isEmpty then return ()
  match toks line with
  | [] => loop h w pr
  | ["newprocess"] =>
    -- a fresh harness process: KEY_GENERATION_LOCK exists anew, nothing is armed
    IO.println "ok"; loop h (World.fresh none) {}
  | ["reset", d] =>
    let dir := match d with
      | "pre755" => some mode755
      | "pre700" => some mode700
      | _ => none
    -- the keyring and the files are new; the process-wide lock is not
    IO.println "ok"; loop h (World.fresh dir) { pz := pr.pz }
  | ["file", f] =>
    match parseFile f with
    | some f => IO.println "ok"; loop h (setFile w f) pr
    | none => IO.println "bad-op"; loop h w pr
  | ["ring", "panic", k] =>
    match k.toNat? with
    | some (k + 1) => IO.println "ok"; loop h w { pz := pr.pz, arm := some (k + 1), fired := false }
    | _ => IO.println "bad-op"; loop h w pr
  | ["faultstate"] =>
    let out := match pr.arm, pr.fired with
      | some n, _ => s!"fault=armed:{n}"
      | none, true => "fault=fired"
      | none, false => "fault=none"
    IO.println out; loop h w pr
  | ["ring", r] =>
    match parseRing r with
    | some r => IO.println "ok"; loop h (setRing w r) pr
    | none => IO.println "bad-op"; loop h w pr
  | ["open", c, fresh] =>
    match parseCtor c with
    | some .new =>
      if pr.faulty then
        let (w', pr', out) := showLoneNew w pr (freshOf fresh)
        IO.println out; loop h w' pr'
      else
        let (w', out) := showOpen .new w (freshOf fresh)
        IO.println out; loop h w' pr
    | some c =>
      let (w', out) := showOpen c w (freshOf fresh)
      IO.println out; loop h w' pr
    | none => IO.println "bad-op"; loop h w pr
  | ["getkey", _] =>
    if hits pr.arm 1 then
      IO.println s!"panic {keyTail w w 0}"; loop h w (pr.spend 1 true pr.pz)
    else
      let out := match getDbKey w.ring with
        | .error e => s!"err {showErr e}"
        | .ok none => "none"
        | .ok (some k) => s!"some {showKey k}"
      -- one credential call, unless no store is installed (Entry::new fails first)
      let calls := if w.ring == RingSt.nostore then 0 else 1
      IO.println s!"{out} {keyTail w w 0}"; loop h w (pr.spend calls false pr.pz)
  | ["getorcreate", fresh] =>
    let f := freshOf fresh
    if pr.faulty then
      let (w', pr', out) := showLoneKey w pr f
      IO.println out; loop h w' pr'
    else
      let (w', r) := getOrCreate w f
      let out := match r with
        | .error e => s!"err {showErr e}"
        | .ok k => s!"some {showKey k}"
      IO.println s!"{out} {keyTail w w' f}"; loop h w' pr
  | ["delkey", _] =>
    if pr.arm.isSome then IO.println "UNSUPPORTED-UNDER-ARMED-FAULT"; loop h w pr else
    let (w', r) := deleteDbKey w
    let out := match r with
      | .error e => s!"err {showErr e}"
      | .ok _ => "ok"
    IO.println s!"{out} {keyTail w w' 0}"; loop h w' pr
  | ["conc", "key", n, evs] =>
    let (w', pr', out) := showConcKey w pr (n.toNat?.getD 0) (parseEvents evs)
    IO.println out; loop h w' pr'
  | ["conc", "new", n, evs, rets] =>
    let (w', pr', out) := showConcNew w pr (n.toNat?.getD 0) (parseEvents evs) (rets.splitOn ",")
    IO.println out; loop h w' pr'
  | _ => IO.println "bad-op"; loop h w pr

def main : IO Unit := do
  let h ← IO.getStdin
  loop h (World.fresh none) {}

end Driver.AtrestDrv
