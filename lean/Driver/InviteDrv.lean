import MdkVerif.Model.Welcome
/- line protocol of the `invite` engine (property C16): the commands executed by `vh invite` on real MDK
   instances, completed with the environment the harness observed (abstract group / welcome / event
   numbers, the inviter's post-commit epoch, state token and member count), are replayed on
   `Model.Welcome`; one predicted observation `<result> | <view>` per line.  Clients that create groups
   (0 and 2) are environment: their own views are not predicted (`-`). -/
namespace Driver.InviteDrv
open MdkVerif MdkVerif.Store MdkVerif.Welcome

structure Head where
  tok : Nat
  epoch : Nat
  members : Nat
  nameLen : Nat
  nid : Nat                 -- the nostr group id in force (number assigned by the harness at first occurrence)
  deriving Inhabited

structure WInfo where
  recipients : List Nat
  inv : Invite
  deriving Inhabited

structure EvInfo where
  commit : Commit
  removed : List Nat
  deriving Inhabited

structure St where
  clients : List (Nat × Client)
  heads : List (Nat × Head)
  welcomes : List (Nat × WInfo)
  events : List (Nat × EvInfo)
  variants : List ((Nat × String) × Nat)     -- (w, variant) ↦ rumor number
  nextRid : Nat
  used : List (Nat × List (Nat × Nat))        -- client ↦ (w, salt) in order of first use
  ngroups : Nat
  seq : Nat

def St.init (b : Backend) : St :=
  { clients := [(0, Client.empty .mem), (1, Client.empty b), (2, Client.empty .mem), (3, Client.empty .mem)],
    heads := [], welcomes := [], events := [], variants := [], nextRid := 0, used := [], ngroups := 0, seq := 0 }

def wrapperOf (w salt : Nat) : Nat := w * 100000 + salt
def wrapperName (x : Nat) : String := s!"{x / 100000}.{x % 100000}"

def client (s : St) (j : Nat) : Client := (alookup j s.clients).getD (Client.empty .mem)
def setClient (s : St) (j : Nat) (c : Client) : St := { s with clients := ainsert j c s.clients }

def natsOf (x : String) : List Nat :=
  if x == "-" || x == "" then [] else (x.splitOn ",").filterMap (·.toNat?)

def stChar : Nat → String
  | 0 => "a"
  | 1 => "i"
  | _ => "p"

def wStChar : Nat → String
  | 0 => "p"
  | 1 => "a"
  | 2 => "d"
  | _ => "g"

def errName : ErrK → String
  | .invalidWelcome => "err:InvalidWelcomeMessage"
  | .previouslyFailed => "err:WelcomePreviouslyFailed"
  | .welcome => "err:Welcome"
  | .group => "err:Group"
  | .missingRumorId => "err:MissingRumorEventId"
  | .noStored => "nostored"

def showWelcomeRes (w : Store.Welcome) : String :=
  s!"ok W{w.id}:{wStChar w.state}:{wrapperName w.wrapper}:g{w.gid}"

def view (s : St) (j : Nat) : String :=
  if j == 0 || j == 2 then "-" else
  let c := client s j
  let gparts := (List.range s.ngroups).filterMap fun g =>
    let mls := match alookup g c.mls with
      | some m => s!"T{m.tok}:ME{m.epoch}:MM{m.members}"
      | none => "T-:ME-:MM-"
    match findGroup c.store g with
    | none => if (alookup g c.mls).isSome then some s!"G{g}:norecord:{mls}" else none
    | some r =>
      let su := if r.selfUpd == 0 then "r" else "c"
      let relays := (alookup g c.store.relays).getD []
      let nmsgs := (groupMsgs c.store g).length
      -- routing: the record the store answers for this nostr group id
      let routed := match findGroupNostr c.store r.nid with
        | some x => if x.gid == g then "" else "!other"
        | none => "!none"
      some s!"G{g}:{stChar r.state}:E{r.epoch}:{mls}:SU{su}:N{r.nameLen}:D{r.descLen}:A{r.admins}:R{natList relays}:L{if r.lastId.isSome then "y" else "-"}:X{nmsgs}:I{r.nid}{routed}"
  let ws := sortBy (fun (a b : Store.Welcome) => a.id < b.id) c.store.welcomes
  let wparts := ws.map fun w => s!"W{w.id}:{wStChar w.state}:{wrapperName w.wrapper}:g{w.gid}:m{w.memberCount}:i{w.nid}"
  let used := (alookup j s.used).getD []
  let pparts := used.filterMap fun (w, salt) =>
    match findPw c.store (wrapperOf w salt) with
    | none => none
    | some p => some s!"P{w}.{salt}:{if p.state == 0 then "p" else "f"}:{optStr p.welcomeId}"
  let pend := sortBy natLt ((c.store.welcomes.filter (·.state == 0)).map (·.id))
  joinWith " " (gparts ++ wparts ++ pparts ++ [s!"PEND{natList pend}"])

def head (s : St) (g : Nat) : Head := (alookup g s.heads).getD default

/-- registers the welcomes of one commit: key package k belongs to client k / 2; the MLS Welcome of a
    commit is one message for all members it adds, so each of them can decode every rumor of that commit -/
def addWelcomes (s : St) (i g : Nat) (kps ws : List Nat) (h : Head) : St :=
  (kps.zip ws).foldl (fun s (kp, w) =>
    let inv : Invite := { rid := some s.nextRid, shape := 0, gid := g, nid := h.nid, nameLen := h.nameLen, descLen := 3,
                          admins := 1, relays := [1, 2], epoch := h.epoch, tok := h.tok, members := h.members, welcomer := i }
    let _ := kp
    { s with welcomes := ainsert w { recipients := kps.map (· / 2), inv := inv } s.welcomes, nextRid := s.nextRid + 1 }) s

/-- the invitation as client `j` meets it in the given variant; allocates the variant's rumor number -/
def inviteFor (s : St) (j w : Nat) (variant : String) : St × Option Invite :=
  match alookup w s.welcomes with
  | none => (s, none)
  | some wi =>
    let mine := wi.recipients.contains j
    match variant with
    | "ok" => (s, some { wi.inv with shape := if mine then 0 else 2 })
    | "noid" => (s, some { wi.inv with rid := none, shape := if mine then 0 else 2 })
    | v =>
      let shape := if v == "badkind" || v == "fewtags" || v == "noenc" then 1 else 2
      match s.variants.find? (fun p => p.1 == (w, v)) with
      | some p => (s, some { wi.inv with rid := some p.2, shape := shape })
      | none =>
        let n := s.nextRid
        ({ s with variants := s.variants ++ [((w, v), n)], nextRid := n + 1 }, some { wi.inv with rid := some n, shape := shape })

def markUsed (s : St) (j w salt : Nat) : St :=
  let l := (alookup j s.used).getD []
  if l.contains (w, salt) then s else { s with used := ainsert j (l ++ [(w, salt)]) s.used }

def showRes : Res → String
  | .welcome w => showWelcomeRes w
  | .done => "ok"
  | .err k => errName k

def toks (line : String) : List String :=
  (line.trimAscii.toString.splitOn " ").filter (· ≠ "")

def n (x : String) : Nat := x.toNat?.getD 0

def exec (s : St) (t : List String) : St × String :=
  match t with
  | ["group", i, nameLen, kps, g, ws, epoch, tok, members, nid] =>
    let h : Head := { tok := n tok, epoch := n epoch, members := n members, nameLen := n nameLen, nid := n nid }
    let s := { s with heads := ainsert (n g) h s.heads, ngroups := max s.ngroups (n g + 1) }
    (addWelcomes s (n i) (n g) (natsOf kps) (natsOf ws) h, "ok | -")
  | ["forge", i, g, kp, tmpl, w, epoch, tok, members, nid] =>
    -- a new MLS group with the id of g and the group data of the forger's own group tmpl
    let inv : Invite := { rid := some s.nextRid, shape := 0, gid := n g, nid := n nid, nameLen := (head s (n tmpl)).nameLen,
                          descLen := 3, admins := 1, relays := [1, 2], epoch := n epoch, tok := n tok, members := n members, welcomer := n i }
    ({ s with welcomes := ainsert (n w) { recipients := [n kp / 2], inv := inv } s.welcomes, nextRid := s.nextRid + 1 }, "ok | -")
  | [op, i, g, arg, ev, ws, epoch, tok, members, nid] =>
    -- invite / commit / rename / remove / rotate / rotonto by a member that is up to date; the wrapper event carries
    -- the nostr group id in force BEFORE the commit
    let old := head s (n g)
    let h : Head := { tok := n tok, epoch := n epoch, members := n members, nameLen := if op == "rename" then n arg else old.nameLen, nid := n nid }
    let k : Commit := { gid := n g, nid := old.nid, toNid := h.nid, fromTok := old.tok, toTok := h.tok, toEpoch := h.epoch, members := h.members,
                        nameLen := h.nameLen, removesMe := false }
    let removed := if op == "remove" then natsOf arg else []
    let s := { s with heads := ainsert (n g) h s.heads, events := ainsert (n ev) { commit := k, removed := removed } s.events }
    let s := if op == "invite" then addWelcomes s (n i) (n g) (natsOf arg) (natsOf ws) h else s
    (s, "ok | -")
  | ["process", j, w, salt, variant] =>
    let (s, mi) := inviteFor s (n j) (n w) variant
    let s := markUsed s (n j) (n w) (n salt)
    match mi with
    | none => (s, "bad-op | -")
    | some m =>
      let (c, r) := process (client s (n j)) (wrapperOf (n w) (n salt)) m
      let s := setClient s (n j) c
      (s, s!"{showRes r} | {view s (n j)}")
  | [op, j, w] =>
    if op == "accept" || op == "decline" then
      match (inviteFor s (n j) (n w) "ok").2 with
      | none => (s, "bad-op | -")
      | some m =>
        let (c, r) := if op == "accept" then accept (client s (n j)) m else decline (client s (n j)) m
        let s := setClient s (n j) c
        (s, s!"{showRes r} | {view s (n j)}")
    else if op == "deliver" then
      match alookup (n w) s.events with
      | none => (s, s!"nocommit | {view s (n j)}")
      | some e =>
        let (c, r) := deliverCommit (client s (n j)) { e.commit with removesMe := e.removed.contains (n j) }
        let s := setClient s (n j) c
        (s, s!"{if r == .applied then "commit" else "nocommit"} | {view s (n j)}")
    else (s, "bad-op | -")
  | ["probe", j, g, _i] =>
    let s := { s with seq := s.seq + 1 }
    let (c, ok) := deliverApp (client s (n j)) (n g) (head s (n g)).nid (head s (n g)).tok s.seq
    let s := setClient s (n j) c
    (s, s!"{if ok then "app" else "noapp"} | {view s (n j)}")
  | ["view", j] => (s, s!"ok | {view s (n j)}")
  | _ => (s, "bad-op | -")

partial def loop (h : IO.FS.Stream) (s : St) : IO Unit := do
  let line ← h.getLine
  if line.isEmpty then return ()
  match toks line with
  | [] => loop h s
  | ["setup", b] => IO.println "ok | -"; loop h (St.init (if b == "sql" then .sql else .mem))
  | t =>
    -- `accept j w held` / `decline j w held`: the caller passes the Welcome value it kept from
    -- process_welcome; the code decides on the STORED welcome, so the model op is the same
    let t := if t.getLast? == some "held" then t.dropLast else t
    let (s', out) := exec s t
    IO.println out
    loop h s'

def main : IO Unit := do
  let h ← IO.getStdin
  loop h (St.init .mem)

end Driver.InviteDrv
