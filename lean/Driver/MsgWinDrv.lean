import MdkVerif.Generated
import MdkVerif.Model.Basic
import MdkVerif.Model.Ratchet
/- line protocol of the `msgwin` engine (property C02, window part): the commands executed by `vh msgwin` on real
   MDK instances created with small `MdkConfig` windows are replayed on `Model.Ratchet`; one predicted observation
   `<result> | <view of the acting client>` per line.  Everything is predicted: the sender-ratchet generation of
   every message (never visible to the harness), OpenMLS's verdict on every offer, the rows and records mdk keeps.
   `L` = `Generated.epochLookback` (DEFAULT_EPOCH_LOOKBACK, regenerated from the source on every run). -/
namespace Driver.MsgWinDrv
open MdkVerif MdkVerif.Ratchet

inductive Evt where
  | msg (m : Msg)
  | commit (by_ : Nat) (epoch : Nat)
  deriving Inhabited

structure St where
  clients : List Cl
  events : List Evt
  nextMid : Nat
  deriving Inhabited

def St.init : St := ⟨[], [], 0⟩

def stateStr (n : Nat) : String :=
  match n with
  | 0 => "c" | 1 => "p" | 2 => "k" | 3 => "f" | _ => "?"

def rowStr (r : Row) : String :=
  s!"{r.mid}:{r.author}:{stateStr r.state}:{r.epoch}:{r.tok}:{9 + r.tok % 3}:{100 + r.tok}:{r.tok % 4}:1"

def recStr (p : Nat × Rec) : String :=
  s!"{p.1}:{stateStr p.2.state}:{optStr p.2.epoch}:{optStr p.2.mid}"

def view (c : Cl) : String :=
  let rows := sortBy (fun (a b : Row) => decide (a.mid < b.mid)) c.rows
  let recs := sortBy (fun (a b : Nat × Rec) => decide (a.1 < b.1)) c.recs
  s!"E{c.st.epoch} X[" ++ joinWith "," (rows.map rowStr) ++ "] K[" ++ joinWith "," (recs.map recStr) ++ "]"

def resStr : Res → String
  | .app mid => s!"app:{mid}"
  | .unprocessable => "unprocessable"
  | .errMessage => "err:Message"
  | .sent m => s!"ev={m.n} mid={m.mid}"

def verdictStr : Verdict → String
  | .accepted => "accepted" | .tooFarAhead => "tooFarAhead" | .tooOld => "tooOld" | .reused => "reused"
  | .epochGone => "epochGone" | .ratchetTooLong => "ratchetTooLong" | .indexOutOfBounds => "indexOutOfBounds"

/-- the branch of the model a delivery takes (printed after `#`; for the evidence histogram only, never compared) -/
def reason (c : Cl) (m : Msg) : String :=
  let blocked := match tlookup m.n c.recs with
    | some r => decide (r.state = 3)
    | none => false
  if blocked then "blocked"
  else if !outerOpens c m.epoch then (if m.epoch > c.st.epoch then "epochAhead" else "outerGone")
  else
    match treeFor c.st m.epoch with
    | none => "epochGone"
    | some t =>
      if m.sender = c.id then "own"
      else verdictStr (recv c.cfg.T c.cfg.F ((tlookup m.sender t).getD Ratchet.new) m.gen).2

def setCl (st : St) (j : Nat) (c : Cl) : St := { st with clients := st.clients.set j c }

def exec (st : St) (toks : List String) : St × String :=
  match toks with
  | ["msgwin"] => (St.init, "ok | -")
  | ["world"] => (St.init, "ok | -")
  | ["client", _, _, t, f, p] =>
    match t.toNat?, f.toNat?, p.toNat? with
    | some t, some f, some p =>
      let c := initCl st.clients.length ⟨t, f, p, Generated.epochLookback⟩ 1
      ({ st with clients := st.clients ++ [c] }, "ok | -")
    | _, _, _ => (st, "error parse")
  | ["group"] =>
    match st.clients[0]? with
    | some c => (st, "ok | " ++ view c)
    | none => (st, "error group")
  | ["send", i, tok] =>
    match i.toNat?, tok.toNat? with
    | some i, some tok =>
      match st.clients[i]? with
      | some c =>
        let n := st.events.length
        let (c1, m) := send c n st.nextMid tok
        let st1 := setCl { st with events := st.events ++ [.msg m], nextMid := st.nextMid + 1 } i c1
        (st1, resStr (.sent m) ++ " | " ++ view c1)
      | none => (st, "error client")
    | _, _ => (st, "error parse")
  | ["commit", i] =>
    match i.toNat?.bind (fun i => (st.clients[i]?).map (fun c => (i, c))) with
    | some (i, c) =>
      let n := st.events.length
      let c1 := applyCommit c
      let st1 := setCl { st with events := st.events ++ [.commit i c.st.epoch] } i c1
      (st1, s!"ev={n} | " ++ view c1)
    | none => (st, "error client")
  | ["deliver", j, n] =>
    match j.toNat?, n.toNat? with
    | some j, some n =>
      match st.clients[j]?, st.events[n]? with
      | some c, some (.msg m) =>
        let (c1, r) := deliver c m
        (setCl st j c1, resStr r ++ " #" ++ reason c m ++ " | " ++ view c1)
      | some c, some (.commit who e) =>
        -- only the case the generator produces: a commit of another member for the receiver's current epoch
        if who ≠ j ∧ e = c.st.epoch then
          let c1 := applyCommit c
          (setCl st j c1, "commit | " ++ view c1)
        else (st, "unsupported | " ++ view c)
      | _, _ => (st, "bad-op | -")
    | _, _ => (st, "error parse")
  | ["view", j] =>
    match j.toNat?.bind (st.clients[·]?) with
    | some c => (st, "view | " ++ view c)
    | none => (st, "error view")
  | _ => (st, "error bad-line")

partial def loop (h : IO.FS.Stream) (st : St) : IO Unit := do
  let line ← h.getLine
  if line.isEmpty then return
  let toks := (line.trimAscii.toString.splitOn " ").filter (· ≠ "")
  if toks.isEmpty || (toks.head!).startsWith "#" then loop h st
  else
    let (st', out) := exec st toks
    IO.println out
    loop h st'

def main : IO Unit := do loop (← IO.getStdin) St.init

end Driver.MsgWinDrv
