import MdkVerif.Model.Client
import MdkVerif.Model.Proposal
import MdkVerif.Model.Handled
/- line protocol for the `world` engine: replays a harness trace (with the observed event ids and
   timestamps) on Model.Client + Model.Proposal (every delivery and every commit-building operation goes through the
   proposal-store-aware functions `deliverP`, `stageCommitP`, … of Model.Proposal) and prints `result | fingerprint` per line -/
namespace Driver.WorldDrv
open MdkVerif MdkVerif.Client MdkVerif.Proposal

structure W where
  clients : List Cl
  events : List PEv
  tokens : List Path
  welcomes : List (Nat × GState) := []     -- add-commit event number ↦ the state its welcome carries
  deriving Inhabited

def toks (line : String) : List String := (line.trimAscii.toString.splitOn " ").filter (· ≠ "")
def csv (s : String) : List Nat := if s == "-" then [] else (s.splitOn ",").filterMap (·.toNat?)

def getCl (w : W) (i : Nat) : Option Cl := w.clients.find? (·.id == i)
def setCl (w : W) (c : Cl) : W := { w with clients := w.clients.map (fun x => if x.id == c.id then c else x) }
def getEv (w : W) (n : Nat) : Option PEv := w.events.find? (·.e.n == n)

def intern (w : W) (p : Path) : W × Nat :=
  match w.tokens.findIdx? (· == p) with
  | some i => (w, i)
  | none => ({ w with tokens := w.tokens ++ [p] }, w.tokens.length)

def stLetter (n : Nat) : String := match n with | 0 => "c" | 1 => "p" | 3 => "x" | _ => "?"
def recLetter (n : Nat) : String := match n with | 0 => "c" | 1 => "p" | 2 => "k" | 3 => "f" | 4 => "x" | 5 => "r" | _ => "?"

def rowBefore (a b : MsgRow) : Bool := a.msgTs > b.msgTs || (a.msgTs == b.msgTs && a.mid > b.mid)
def recLt (a b : Nat × Rec) : Bool := a.1 < b.1

def fp (w : W) (c : Cl) : W × String :=
  if !c.hasGroup then (w, "nogroup") else
  -- an evicted member's MLS group has merged the commit but derives no new epoch secrets: the harness' state token (the
  -- epoch authenticator) is still the parent state's
  let (w, t) := intern w (if c.g.active then c.g.path else c.g.path.dropLast)
  let commaNat (l : List Nat) := joinWith "," ((sortBy (fun a b => decide (a < b)) l).map toString)
  let last := match c.g.last with | none => "-" | some (m, ts) => s!"{m}@{ts}"
  let msgs := joinWith "," ((sortBy rowBefore c.msgs).map (fun m => s!"{m.mid}:{m.author}:{stLetter m.state}:{m.epoch}:{m.wrapper}:{m.tok}"))
  let recs := joinWith "," ((sortBy recLt c.recs).map (fun p => s!"{p.1}:{recLetter p.2.state}:{optStr p.2.epoch}"))
  -- `I` is the model's number of the nostr group id (0 = the id chosen at creation, v+1 = `data nid v`); the
  -- harness numbers ids by first occurrence, the comparison renumbers both sides by first occurrence
  (w, s!"E{c.g.recEpoch} T{t} M[{commaNat c.g.members}] A[{commaNat c.g.recAdmins}] N{c.g.recName} D{c.g.recDesc} I{c.g.recNid} R[{commaNat c.g.recRelays}] S{if c.g.active then "a" else "i"} PA[{commaNat (pendingAdded c.g)}] PR[{commaNat (pendingRemoved c.g)}] L{last} X[{msgs}] K[{recs}] Z{c.mgr.length} Q{c.g.props.length + c.g.xq.length} C{if c.g.pending.isSome then 1 else 0}")

/-- `field value` pairs of a `data` line: name / desc tokens, `relays k` = relays 1..k, `admins` a csv of
    client numbers, `nid v` = the id the harness derives from v (model number v+1) -/
def parseUpd : List String → DataUpd → Option DataUpd
  | [], u => some u
  | "name" :: v :: r, u => parseUpd r { u with name := v.toNat? }
  | "desc" :: v :: r, u => parseUpd r { u with desc := v.toNat? }
  | "relays" :: v :: r, u => parseUpd r { u with relays := some ((List.range (v.toNat?.getD 0)).map (· + 1)) }
  | "admins" :: v :: r, u => parseUpd r { u with admins := some (csv v) }
  | "nid" :: v :: r, u => parseUpd r { u with nid := some (v.toNat?.getD 0 + 1) }
  | _, _ => none

def resStr (r : Res) : String :=
  match r with
  | .app m => s!"app:{m}" | .commit => "commit" | .proposalCommitted _ => "proposal-committed" | .pending => "pending"
  | .ignored => "ignored" | .unprocessable => "unprocessable" | .previouslyFailed => "previously_failed"
  | .err k => s!"err:{k}" | .ev e => s!"ev={e.n}" | .ok => "ok" | .skip => "skip"

def withRes (w : W) (c : Cl) (r : Res) : W :=
  let w := setCl w c
  match r with
  | .ev e => { w with events := w.events ++ [{ e := e }] }
  | .proposalCommitted e => { w with events := w.events ++ [{ e := e }] }
  | _ => w

def exec (w : W) (t : List String) : W × String × Option Nat :=
  let n (s : String) := s.toNat?.getD 0
  match t with
  | ["setup", k, ret, pers, admins, name] =>
    let members := List.range (n k)
    let cls := members.map (fun i => initCl i ((csv pers).contains i) (n ret) members (csv admins) (n name))
    ({ w with clients := cls, events := [], tokens := [], welcomes := [] }, "ok", none)
  | ["setup", k, ret, pers, admins, name, mem] =>
    -- k clients, of which `mem` are in the group from the start; the others hold no group until they `join`
    let members := csv mem
    let cls := (List.range (n k)).map (fun i =>
      let c := initCl i ((csv pers).contains i) (n ret) members (csv admins) (n name)
      if members.contains i then c else { c with hasGroup := false })
    ({ w with clients := cls, events := [], tokens := [], welcomes := [] }, "ok", none)
  | ["add", c, who, ev, ts, idnum] =>
    match getCl w (n c) with
    | none => (w, "bad-client", none)
    | some cl =>
      let (cl', r) := addMembersP cl (n ev) (n ts) (n idnum) (csv who)
      let w := match r with
        | .ev e => { w with welcomes := w.welcomes ++ [(e.n, welcomeStateP cl.maxPast (ensureSecret cl.g) e)] }
        | _ => w
      (withRes w cl' r, resStr r, some (n c))
  | ["join", j, ev] =>
    match getCl w (n j), w.welcomes.find? (·.1 == n ev) with
    | some cl, some (_, g) => (setCl w (join cl g), "ok", some (n j))
    | _, _ => (w, "bad-ref", none)
  | ["send", c, ev, ts, idnum, mid, msgTs, tok] =>
    match getCl w (n c) with
    | none => (w, "bad-client", none)
    | some cl => let (cl', r) := sendP cl (n ev) (n ts) (n idnum) (n mid) (n msgTs) (n tok); (withRes w cl' r, resStr r, some (n c))
  | ["selfupdate", c, ev, ts, idnum] =>
    match getCl w (n c) with
    | none => (w, "bad-client", none)
    | some cl => let (cl', r) := stageCommitP cl (n ev) (n ts) (n idnum) .selfUpdate false; (withRes w cl' r, resStr r, some (n c))
  | "data" :: c :: ev :: ts :: idnum :: fields =>
    -- data <c> <ev> <ts> <idnum> (<field> <value>)*   — `update_group_data` with the named fields set
    match getCl w (n c) with
    | none => (w, "bad-client", none)
    | some cl =>
      match parseUpd fields {} with
      | none => (w, "bad-op", none)
      | some u => let (cl', r) := updateDataP cl (n ev) (n ts) (n idnum) u; (withRes w cl' r, resStr r, some (n c))
  | ["remove", c, j, ev, ts, idnum] =>
    match getCl w (n c) with
    | none => (w, "bad-client", none)
    | some cl => let (cl', r) := removeMembersP cl (n ev) (n ts) (n idnum) (csv j); (withRes w cl' r, resStr r, some (n c))
  | ["leave", c, ev, ts, idnum] =>
    match getCl w (n c) with
    | none => (w, "bad-client", none)
    | some cl => let (cl', r) := leave cl (n ev) (n ts) (n idnum); (withRes w cl' r, resStr r, some (n c))
  | ["merge", c] =>
    match getCl w (n c) with
    | none => (w, "bad-client", none)
    | some cl => let (cl', r) := mergeP cl; (setCl w cl', resStr r, some (n c))
  | ["clear", c] =>
    match getCl w (n c) with
    | none => (w, "bad-client", none)
    | some cl => let (cl', r) := clear cl; (setCl w cl', resStr r, some (n c))
  | ["restart", c] =>
    match getCl w (n c) with
    | none => (w, "bad-client", none)
    | some cl => let (cl', r) := restart cl; (setCl w cl', resStr r, some (n c))
  | "deliver" :: c :: ev :: rest =>
    match getCl w (n c), getEv w (n ev) with
    | some cl, some e =>
      let nextEv := match rest with | [x, _, _] => n x | _ => 0
      let (cl', r) := deliverP cl e nextEv
      -- the auto-committed event's id and timestamp are observed on the implementation
      let r := match r, rest with
        | .proposalCommitted ne, [_, idn, ts] => Res.proposalCommitted { ne with idnum := n idn, ts := n ts }
        | r, _ => r
      let cl' := match r with
        | .proposalCommitted ne => { cl' with g := { cl'.g with pending := some ne } }
        | _ => cl'
      (withRes w cl' r, resStr r, some (n c))
    | _, _ => (w, "bad-ref", none)
  | ["rewrap", ev, nn, ts, idnum] =>
    match getEv w (n ev) with
    | some x => ({ w with events := w.events ++ [{ x with e := { x.e with n := n nn, ts := n ts, idnum := n idnum } }] }, s!"ev={n nn}", none)
    | none => (w, "bad-ref", none)
  | ["retag", ev, j, nn, ts, idnum] =>
    -- the same ciphertext under the nostr group id client j holds now (the `h` tag is not authenticated)
    match getEv w (n ev), getCl w (n j) with
    | some x, some cl =>
      if !cl.hasGroup then (w, "err:9", none) else
      ({ w with events := w.events ++ [{ x with e := { x.e with n := n nn, ts := n ts, idnum := n idnum, tag := cl.g.recNid } }] }, s!"ev={n nn}", none)
    | _, _ => (w, "bad-ref", none)
  | ["advremove", c, j, nn, ts, idnum] =>
    -- a member's Remove commit built with OpenMLS directly: published, not recorded or staged at the sender
    match getCl w (n c) with
    | some cl =>
      if !cl.hasGroup then (w, "err:9", some (n c)) else
      -- (OpenMLS' `remove_members` consumes the crafter's proposal store like every commit builder)
      ({ w with events := w.events ++ [{ e := { n := n nn, ts := n ts, idnum := n idnum, cipher := n nn, sender := n c, path := cl.g.path, kind := .commit (.removeLeavers [n j]) cl.g.props, tag := cl.g.recNid, sweptX := cl.g.xq } }] }, s!"ev={n nn}", some (n c))
    | none => (w, "bad-client", none)
  | ["advgce", c, nn, ts, idnum] =>
    -- a member's GroupContextExtensions commit built with OpenMLS directly (it names itself among the admins):
    -- published, not recorded or staged at the sender; only generated for NON-admins, whose commit every
    -- receiver must refuse whatever it carries
    match getCl w (n c) with
    | some cl =>
      if !cl.hasGroup then (w, "err:9", some (n c)) else
      ({ w with events := w.events ++ [{ e := { n := n nn, ts := n ts, idnum := n idnum, cipher := n nn, sender := n c, path := cl.g.path, kind := .commit (.setData { (dataOf cl.g) with admins := [n c] }) cl.g.props, tag := cl.g.recNid, sweptX := cl.g.xq } }] }, s!"ev={n nn}", some (n c))
    | none => (w, "bad-client", none)
  | ["advprop", c, what, arg, nn, ts, idnum] =>
    -- a member's stand-alone proposal built with OpenMLS directly (Remove of `arg`, Add of client `arg`'s key package,
    -- GroupContextExtensions, PSK, Update): published, not kept in the crafter's store, no record at the crafter
    match getCl w (n c) with
    | some cl =>
      if !cl.hasGroup then (w, "err:9", some (n c)) else
      let pk : Option PK := match what with
        | "remove" => some (.remove (n arg)) | "add" => some (.add (n arg)) | "gce" => some .gce
        | "psk" => some .other | "update" => some .update | _ => none
      match pk with
      | some p => ({ w with events := w.events ++ [craftProp cl (n nn) (n ts) (n idnum) p] }, s!"ev={n nn}", some (n c))
      | none => (w, "bad-op", none)
    | none => (w, "bad-client", none)
  | ["fp", c] => (w, "fp", some (n c))
  | ["handledq", c, ev] =>
    -- query (no effect): is the event `handled` / `known` at the client NOW — the hypotheses of C07's history theorems,
    -- evaluated on the model for the insertion pairs of vlib/c07hist.py
    match getCl w (n c), getEv w (n ev) with
    | some cl, some e => (w, s!"handled={if handled cl e.e then 1 else 0} known={if known cl e.e then 1 else 0}", none)
    | _, _ => (w, "bad-ref", none)
  | _ => (w, "bad-op", none)

partial def loop (h : IO.FS.Stream) (w : W) : IO Unit := do
  let line ← h.getLine
  if line.isEmpty then return ()
  match toks line with
  | [] => loop h w
  | t =>
    let (w1, res, who) := exec w t
    match who.bind (getCl w1) with
    | some c =>
      let (w2, f) := fp w1 c
      IO.println s!"{res} | {f}"
      loop h w2
    | none =>
      IO.println s!"{res} | -"
      loop h w1

def main : IO Unit := do loop (← IO.getStdin) { clients := [], events := [], tokens := [] }

end Driver.WorldDrv
