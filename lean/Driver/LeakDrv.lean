import MdkVerif.Model.Leak
import MdkVerif.GeneratedLeak
/- line protocol for the `leak` engine: `site <id>` ↦ the verdict of the generated Lean tables for that
   site (`clean` | `sensitive` | `absent`) — the python side compares it with the canary scan of the
   records the real code emitted at that site. -/
namespace Driver.LeakDrv
open MdkVerif.Leak MdkVerif.GeneratedLeak

def allTables : List Site := logSites ++ errorFormats ++ errorCtors ++ fmtImpls ++ derivedResultDebug ++ derivedRecordDebug

def answer (line : String) : String :=
  match line.splitOn " " with
  | ["site", n] =>
    match n.toNat? with
    | some id => s!"site {id} {siteVerdict allTables id}"
    | none => "error bad-id"
  | ["summary"] =>
    s!"summary log={logSites.length} logclean={(logSites.filter Site.clean).length} errfmt={errorFormats.length} errctor={errorCtors.length} impl={fmtImpls.length} derived={derivedResultDebug.length + derivedRecordDebug.length}"
  | _ => "error bad-line"

partial def loop (h : IO.FS.Stream) : IO Unit := do
  let line ← h.getLine
  if line.isEmpty then return
  let l := line.trimRight
  if !l.isEmpty then IO.println (answer l)
  loop h

def main : IO Unit := do loop (← IO.getStdin)

end Driver.LeakDrv
