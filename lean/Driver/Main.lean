import Driver.StoreDrv
import Driver.CodecDrv

def main (args : List String) : IO UInt32 := do
  match args with
  | ["store"] => Driver.StoreDrv.main; return 0
  | ["codec"] => Driver.CodecDrv.main; return 0
  | _ => IO.eprintln "usage: mdkdrv store < ops"; return 2
