import Driver.StoreDrv
import Driver.WorldDrv
import Driver.MgrDrv
import Driver.LeakDrv
import Driver.AtrestDrv
import Driver.CodecDrv
import Driver.InviteDrv
import Driver.KnowDrv
import Driver.AppMsgDrv
import Driver.MediaDrv
import Driver.CrashCoreDrv
import Driver.WrapDrv
import Driver.MsgWinDrv
import Driver.FfiDrv
import Driver.MemLruDrv
import Driver.StoreLimDrv
import Driver.IdentDrv

def main (args : List String) : IO UInt32 := do
  match args with
  | ["store"] => Driver.StoreDrv.main; return 0
  | ["world"] => Driver.WorldDrv.main; return 0
  | ["mgr"] => Driver.MgrDrv.main; return 0
  | ["leak"] => Driver.LeakDrv.main; return 0
  | ["atrest"] => Driver.AtrestDrv.main; return 0
  | ["codec"] => Driver.CodecDrv.main; return 0
  | ["invite"] => Driver.InviteDrv.main; return 0
  | ["know"] => Driver.KnowDrv.main; return 0
  | ["appmsg"] => Driver.AppMsgDrv.main; return 0
  | ["mediaw"] => Driver.MediaDrv.main; return 0
  | ["crashcore"] => Driver.CrashCoreDrv.main; return 0
  | ["wrap"] => Driver.WrapDrv.main; return 0
  | ["msgwin"] => Driver.MsgWinDrv.main; return 0
  | ["ffi"] => Driver.FfiDrv.main; return 0
  | ["memlru"] => Driver.MemLruDrv.main; return 0
  | ["storel"] => Driver.StoreLimDrv.main; return 0
  | ["ident"] => Driver.IdentDrv.main; return 0
  | _ => IO.eprintln "usage: mdkdrv store < ops"; return 2
