import MdkVerif.Model.Snapshots
/- line protocol for the `mgr` engine (EpochSnapshotManager over a real storage backend) -/
namespace Driver.MgrDrv
open MdkVerif MdkVerif.Snapshots

def toks (line : String) : List String :=
  (line.trimAscii.toString.splitOn " ").filter (· ≠ "")

def parseOp (t : List String) : Option Op :=
  match t with
  | cmd :: rest =>
    match rest.mapM (·.toNat?) with
    | none => none
    | some a =>
      match cmd, a with
      | "create", [g, e, c, ts, k] => some (.create g e c ts k)
      | "better", [g, e, ts, c] => some (.better g e ts c)
      | "rollback", [g, e] => some (.rollback g e)
      | "restart", [now, ttl] => some (.restart now ttl)
      | "list", [g] => some (.list g)
      | "save_group", [g, n] => some (.saveGroup g n)
      | _, _ => none
  | [] => none

partial def loop (h : IO.FS.Stream) (m : Mgr) : IO Unit := do
  let line ← h.getLine
  if line.isEmpty then return ()
  match toks line with
  | [] => loop h m
  | ["new", b, r] =>
    IO.println "ok"
    loop h (init (if b == "sql" then .sql else .mem) (r.toNat?.getD 0))
  | ts =>
    match parseOp ts with
    | none => IO.println "bad-op"; loop h m
    | some op =>
      let (m', out) := step m op
      IO.println out
      loop h m'

def main : IO Unit := do loop (← IO.getStdin) (init .mem 5)

end Driver.MgrDrv
