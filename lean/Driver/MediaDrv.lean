import MdkVerif.Model.MediaEpoch
/- line protocol for the `mediaw` engine (C17): the lines are built by vlib/mediaeng.py from the harness
   observations (environment: hint, stored secrets, current secret, the file's secret). -/
namespace Driver.MediaDrv
open MdkVerif MdkVerif.Codec MdkVerif.MediaEpoch

def field (toks : List String) (key : String) : Option String :=
  toks.findSome? (fun t => match t.splitOn "=" with
    | [k, v] => if k == key then some v else none
    | _ => none)

def optNat (s : String) : Option (Option Nat) := if s == "-" then some none else s.toNat?.map some

def parseTable (s : String) : Option (List (Nat × Nat)) :=
  if s == "-" then some []
  else (s.splitOn ",").mapM (fun p => match p.splitOn ":" with
    | [e, k] => do pure ((← e.toNat?), (← k.toNat?))
    | _ => none)

def r0 : Reference :=
  { hash := List.replicate 32 1, mime := [116, 101, 120, 116, 47, 112, 108, 97, 105, 110], filename := [97],
    version := Generated.defaultSchemeVersion, nonce := 5 }

/-- the tampered (blob, reference) pair for a tamper kind -/
def applyTamper (kind : String) (b : Blob) : Blob × Reference :=
  if kind == "-" then (b, r0)
  else if kind.startsWith "ct" || kind == "trunc" || kind == "extend" then ({ b with intact := false }, r0)
  else if kind.startsWith "nonce" then (b, { r0 with nonce := 6 })
  else if kind.startsWith "hash" then (b, { r0 with hash := List.replicate 32 2 })
  else if kind == "name" then (b, { r0 with filename := [97, 120] })
  else if kind == "mime" then (b, { r0 with mime := [97, 112, 112, 108, 105, 99, 97, 116, 105, 111, 110, 47, 112, 100, 102] })
  else if kind == "version" then (b, { r0 with version := [109, 105, 112, 48, 52, 45, 118, 49] })
  else (b, { r0 with hash := List.replicate 32 3, filename := [98], nonce := 9 })   -- other<g>: another file's reference

def showRes (plain : Nat) : MRes → String
  | .ok p => if p = plain then "ok:same" else "ok:DIFFERENT"
  | .err .decryptionFailed => "err:DecryptionFailed"
  | .err .noSecretForEpoch => "err:NoExporterSecretForEpoch"
  | .err .hashFailed => "err:HashVerificationFailed"
  | .err .groupNotFound => "err:GroupNotFound"
  | .err .unknownVersion => "err:UnknownSchemeVersion"

def decryptOp (toks : List String) : Option String := do
  let hint ← optNat (← field toks "hint")
  let secrets ← parseTable (← field toks "K")
  let cur ← optNat (← field toks "cur")
  let enc ← (← field toks "enc").toNat?
  let kind ← field toks "tamper"
  let (b, r) := applyTamper kind (sealBlob enc r0 77)
  let c : MClient := { cur := cur, epoch := 0, secrets := secrets,
                       tags := match hint with | some e => [(r.hash, e)] | none => [] }
  pure (showRes 77 (decryptFromDownload c b r))

def announceOp (toks : List String) : Option String := do
  let ep ← (← field toks "epoch").toNat?
  let prior ← optNat (← field toks "prior")
  let c : MClient := { cur := some 0, epoch := ep, secrets := [],
                       tags := match prior with | some e => [(r0.hash, e)] | none => [] }
  match hintOf (step c (.announce r0.hash)) r0.hash with
  | some e => pure ("tag=" ++ toString e)
  | none => pure "tag=-"

def showI : IRes → String
  | .ok p => if p = 3 then "ok:same" else "ok:DIFFERENT"
  | .err .hashFailed => "err:HashVerificationFailed"
  | .err .decryptionFailed => "err:DecryptionFailed"

def gimageOp (version : String) (kind : String) : Option String := do
  let key : IKey := if version == "2" then .derived 1 else .raw 1
  let b : ImgBlob := { key := key, nonce := 2, plain := 3, hash := 4, intact := true }
  let res :=
    if kind == "-" then imageDecrypt b (some 4) 1 2
    else if kind.startsWith "ctnohash" then imageDecrypt { b with intact := false, hash := 5 } none 1 2
    else if kind.startsWith "ct" then imageDecrypt { b with intact := false, hash := 5 } (some 4) 1 2
    else if kind == "nonce" then imageDecrypt b (some 4) 1 9
    else if kind == "key" then imageDecrypt b (some 4) 8 2
    else if kind == "hash" then imageDecrypt b (some 6) 1 2
    else imageDecrypt b none 1 2      -- nohash
  pure (showI res)

def exec (toks : List String) : String :=
  let r := match toks with
    | "decrypt" :: _ => decryptOp toks
    | "announce" :: _ => announceOp toks
    | ["gimage", v, k] => gimageOp v k
    | _ => none
  r.getD "bad-op"

def toks (line : String) : List String :=
  (line.trimAscii.toString.splitOn " ").filter (· ≠ "")

partial def loop (h : IO.FS.Stream) : IO Unit := do
  let line ← h.getLine
  if line.isEmpty then return ()
  match toks line with
  | [] => loop h
  | ts => IO.println (exec ts); loop h

def main : IO Unit := do loop (← IO.getStdin)

end Driver.MediaDrv
