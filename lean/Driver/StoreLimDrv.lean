import MdkVerif.Model.StoreLimits
import Driver.StoreDrv
/- line protocol of the limit-aware store model (`mdkdrv storel`): the op lines of the `store` engine, a saving op
   may carry `z=<tags>,<event>,<admins>,<relays>` (serialized sizes measured by the harness on the real values) and
   `e=<n>` (harness-only: the embedded event's own content length; the model has no use for it) -/
namespace Driver.StoreLimDrv
open MdkVerif MdkVerif.Store MdkVerif.StoreLimits

def sizesOf (toks : List String) : Option Sizes :=
  match toks.find? (·.startsWith "z=") with
  | none => some Sizes.zero
  | some t =>
    match ((t.drop 2).toString.splitOn ",").mapM (·.toNat?) with
    | some [a, b, c, d] => some { tagsJson := a, eventJson := b, adminsJson := c, relaysJson := d }
    | _ => none

partial def loop (h : IO.FS.Stream) (s : Store) : IO Unit := do
  let line ← h.getLine
  if line.isEmpty then return ()
  match Driver.StoreDrv.toks line with
  | [] => loop h s
  | ["backend", "mem"] => IO.println "ok"; loop h (Store.empty .mem)
  | ["backend", "sql"] => IO.println "ok"; loop h (Store.empty .sql)
  | ts =>
    let plain := ts.filter (fun t => !(t.startsWith "z=" || t.startsWith "e="))
    match Driver.StoreDrv.parseOp plain, sizesOf ts with
    | some op, some z =>
      let (s', out) := stepL s op z
      IO.println out
      loop h s'
    | _, _ => IO.println "bad-op"; loop h s

def main : IO Unit := do loop (← IO.getStdin) (Store.empty .mem)

end Driver.StoreLimDrv
