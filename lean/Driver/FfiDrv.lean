import MdkVerif.Model.Ffi
/- line protocol of the `ffi` engine (C06, binding layer): the op lines of harness/src/ffi.rs; for every call
   the model's prediction of the PARSE-LEVEL outcome is printed: the `/`-separated alternatives
   `past` (every parse step accepts, the call reaches mdk-core) and `refuse:<step>[:<hex error class>]`
   (`MdkUniffiError::InvalidInput` raised by that step).  More than one alternative appears only when a step is
   not decided by the model (JSON with hint `!unk`, relay URLs outside the modelled family). -/
namespace Driver.FfiDrv
open MdkVerif MdkVerif.Ffi MdkVerif.Codec

def strBytes (s : String) : Bytes := s.toUTF8.toList.map (·.toNat)

def unhex (s : String) : Option Bytes := hexDec (strBytes s)

def field (toks : List String) (key : String) : Option String :=
  toks.findSome? (fun t =>
    if t.startsWith (key ++ "=") then some ((t.drop (key.length + 1)).toString) else none)

/-! fixtures for the symbolic tokens: only their SHAPE matters to the parse helpers -/
def fix64 : Bytes := strBytes (String.join (List.replicate 32 "a5"))
def fix32 : Bytes := strBytes (String.join (List.replicate 16 "c3"))
def fixRelay : Bytes := strBytes "wss://relay.example.com"

def tokenValue (name : String) : Option Bytes :=
  if name.startsWith "NG" || name.startsWith "EW" || name.startsWith "EMSG" || name.startsWith "PK" then some fix64
  else if name.startsWith "G" then some fix32
  else if name == "RELAY" then some fixRelay
  else if name == "MEM" then some (strBytes ":memory:")
  else if name == "TMP" || name == "DIR" then some (strBytes "/dev/shm/x")
  else if name.startsWith "RUMOR" || name.startsWith "KPJ" || name.startsWith "MSGJ" || name.startsWith "WJ" then some (strBytes "{}")
  else none

def isNameChar (c : Char) : Bool := c.isUpper || c.isDigit || c == '_'

/-- modifiers after a token: `^` upper-case, `/N` first N bytes, `+HEX` append (fuel = number of characters) -/
def applyModsF : Nat → Bytes → List Char → Option Bytes
  | _, v, [] => some v
  | 0, _, _ => none
  | f + 1, v, '^' :: r => applyModsF f (v.map upperC) r
  | f + 1, v, '/' :: r =>
    let ds := r.takeWhile Char.isDigit
    match (String.ofList ds).toNat? with
    | some n => applyModsF f (v.take n) (r.dropWhile Char.isDigit)
    | none => none
  | f + 1, v, '+' :: r =>
    let hs := r.takeWhile (fun c => c != '^' && c != '/' && c != '+')
    match unhex (String.ofList hs) with
    | some b => applyModsF f (v ++ b) (r.drop hs.length)
    | none => none
  | _, _, _ => none
def applyMods (v : Bytes) (m : List Char) : Option Bytes := applyModsF (m.length + 1) v m

/-- a string value and its JSON class hint (`!ok` / `!bad` / `!unk`, default unk) -/
def sval (raw : String) : Option (Bytes × V3) :=
  let (s, hint) := match raw.splitOn "!" with
    | [a, "ok"] => (a, V3.acc)
    | [a, "bad"] => (a, V3.rej)
    | [a, _] => (a, V3.unk)
    | _ => (raw, V3.unk)
  let v : Option Bytes :=
    if s.startsWith "h:" then unhex ((s.drop 2).toString)
    else if s.startsWith "r:" then
      match ((s.drop 2).toString).splitOn ":" with
      | [p, n] => do
        let pb ← unhex p
        let k ← n.toNat?
        pure ((List.replicate k pb).flatten)
      | _ => none
    else if s.startsWith "$" then
      let cs := (s.drop 1).toString.toList
      let name := String.ofList (cs.takeWhile isNameChar)
      match tokenValue name with
      | some b => applyMods b (cs.dropWhile isNameChar)
      | none => none
    else none
  v.map (fun b => (b, hint))

def slist (raw : String) : Option (List (Bytes × V3)) :=
  if raw == "[]" then some [] else (raw.splitOn ",").mapM sval

def tagsVal (raw : String) : Option (Option (List (List Bytes))) :=
  if raw == "-" then some none
  else if raw == "[]" then some (some [])
  else do
    let ts ← (raw.splitOn ";").mapM (fun t => if t == "()" then some [] else (slist t).map (·.map (·.1)))
    pure (some ts)

/-- the LENGTH of a byte-vector argument -/
def bytesLen (raw : String) : Option Nat :=
  if raw.startsWith "z" then ((raw.drop 1).toString).toNat?
  else if raw.startsWith "h:" then (unhex ((raw.drop 2).toString)).map List.length
  else if raw == "$IMGKEY" || raw == "$IMGHASH" then some 32
  else if raw == "$IMGNONCE" then some 12
  else if raw == "$PNG" then some 70
  else if raw == "$ENCIMG" then some 89
  else none

def strVal (toks : List String) (key : String) (dflt : Bytes) : Option Val :=
  match field toks key with
  | none => some (.str dflt)
  | some raw => (sval raw).map (fun p => .str p.1)
def strsVal (toks : List String) (key : String) (dflt : List Bytes) : Option Val :=
  match field toks key with
  | none => some (.strs dflt)
  | some raw => (slist raw).map (fun l => .strs (l.map (·.1)))
def jsonVal (toks : List String) (key : String) : Option Val :=
  match field toks key with
  | none => some (.json .acc)
  | some raw => (sval raw).map (fun p => .json p.2)
/-- `Option<Vec<u8>>` of a welcome record: `-` = None -/
def optLenVal (toks : List String) (key : String) : Option Val :=
  match field toks key with
  | none => some (.len none)
  | some "-" => some (.len none)
  | some raw => (bytesLen raw).map (fun n => .len (some n))
/-- `Option<Option<Vec<u8>>>` of an update: missing / `-` = leave alone (step skipped), `null` = clear -/
def optOptLenVal (toks : List String) (key : String) : Option Val :=
  match field toks key with
  | none => some .absent
  | some "-" => some .absent
  | some "null" => some (.len none)
  | some raw => (bytesLen raw).map (fun n => .len (some n))
def optStrsVal (toks : List String) (key : String) : Option Val :=
  match field toks key with
  | none => some .absent
  | some "-" => some .absent
  | some raw => (slist raw).map (fun l => .strs (l.map (·.1)))

def pendingBytes : Bytes := strBytes "pending"

/-- the value of one argument of the call on this line (`none` = malformed line) -/
def argVal (toks : List String) : Key → Option Val
  | .none_ => some .absent
  | .g => do let p ← sval (← field toks "g"); pure (.str p.1)
  | .e => do let p ← sval (← field toks "e"); pure (.str p.1)
  | .pk => do let p ← sval (← field toks "pk"); pure (.str p.1)
  | .relays => do let l ← slist (← field toks "relays"); pure (.strs (l.map (·.1)))
  | .admins => do let l ← slist (← field toks "admins"); pure (.strs (l.map (·.1)))
  | .pks => do let l ← slist (← field toks "pks"); pure (.strs (l.map (·.1)))
  | .sort => do
    let raw ← field toks "sort"
    if raw == "-" then pure (.ostr none) else do let p ← sval raw; pure (.ostr (some p.1))
  | .j => do let p ← sval (← field toks "j"); pure (.json p.2)
  | .kps => do let l ← slist (← field toks "kps"); pure (.jsons (l.map (·.2)))
  | .tags => do let t ← tagsVal (← field toks "tags"); pure (.tagsV t)
  | .key => do let n ← bytesLen (← field toks "key"); pure (.len (some n))
  | .nonce => do let n ← bytesLen (← field toks "nonce"); pure (.len (some n))
  | .hash => do
    let raw ← field toks "hash"
    if raw == "-" then pure (.len none) else do let n ← bytesLen raw; pure (.len (some n))
  | .wId => strVal toks "w.id" fix64
  | .wEvent => jsonVal toks "w.event"
  | .wGid => strVal toks "w.gid" fix32
  | .wNgid => strVal toks "w.ngid" fix64
  | .wHash => optLenVal toks "w.hash"
  | .wKey => optLenVal toks "w.key"
  | .wNonce => optLenVal toks "w.nonce"
  | .wAdmins => strsVal toks "w.admins" [fix64]
  | .wRelays => strsVal toks "w.relays" [fixRelay]
  | .wWelcomer => strVal toks "w.welcomer" fix64
  | .wWrapper => strVal toks "w.wrapper" fix64
  | .wState => strVal toks "w.state" pendingBytes
  | .uHash => optOptLenVal toks "u.hash"
  | .uKey => optOptLenVal toks "u.key"
  | .uNonce => optOptLenVal toks "u.nonce"
  | .uRelays => optStrsVal toks "u.relays"
  | .uAdmins => optStrsVal toks "u.admins"

def methodOf (name : String) : Option Method :=
  Method.all.find? (fun m => m.name == strBytes name)

def stageName : Stage → String
  | .gid => "gid" | .eid => "eid" | .pk => "pk" | .relay => "relay" | .sort => "sort" | .tag => "tag"
  | .ngidHex => "ngidhex" | .ngidLen => "ngidlen" | .vec32 => "vec" | .vec12 => "vec" | .wstate => "wstate"
  | .encKey => "enckey" | .imgHash => "imghash" | .imgKey => "imgkey" | .imgNonce => "imgnonce"
  | .welcome => "welcome" | .lock => "lock"
  | .jsonEvent => "json20" | .jsonRumor => "json21" | .jsonWelcome => "json22" | .jsonWelcomeEvent => "json23" | .jsonKp => "json24"

def hexErrName : HexErr → String
  | .oddLength => "odd"
  | .invalidStringLength => "len"
  | .invalidChar _ i => "char@" ++ toString i

def exec (toks : List String) : String :=
  match toks with
  | "reset" :: _ => "reset"
  | name :: _ =>
    match methodOf name with
    | none => "bad-op"
    | some m =>
      let steps := fullPlan m
      match steps.mapM (fun s => (argVal toks s.2).map (fun v => (s.1, v))) with
      | none => "bad-op"
      | some svs =>
        let outs := alts (svs.map (fun sv => (sv.1, stepVerdict sv.1 sv.2)))
        let showOut (o : Out) : String :=
          match o with
          | .past => "past"
          | .refuse st =>
            let sub := match svs.find? (fun sv => sv.1 == st ∧ stepVerdict sv.1 sv.2 ≠ .acc) with
              | some sv => (match hexErrOf sv.1 sv.2 with | some e => ":" ++ hexErrName e | none => "")
              | none => ""
            "refuse:" ++ stageName st ++ sub
        String.intercalate "/" (outs.map showOut)
  | [] => "bad-op"

def toks (line : String) : List String :=
  (line.trimAscii.toString.splitOn " ").filter (· ≠ "")

partial def loop (h : IO.FS.Stream) : IO Unit := do
  let line ← h.getLine
  if line.isEmpty then return ()
  match toks line with
  | [] => loop h
  | ts =>
    if (ts.head?.getD "").startsWith "#" then loop h
    else
      IO.println (exec ts)
      loop h

def main : IO Unit := do loop (← IO.getStdin)

end Driver.FfiDrv
