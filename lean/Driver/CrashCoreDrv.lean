import MdkVerif.Model.CrashCore
import MdkVerif.Model.CrashSeq
/- `mdkdrv crashcore`: prints, per call kind, the sequence of crash classes the model assigns along the
   storage effects of the call; `vlib/crashweng.py` compares it with the sequence observed on the real code.
   Lines:  `<callkind> <class,class,…>`            the four calls of Model.CrashCore (proved for every store)
           `seq <callkind> <case> <path> <classes>` every classified case / path of the regenerated table (Model.CrashSeq)
           `open <mechanism>:<callkind>`            the open mechanisms (Props/C12.lean `unrecoverable_signatures`) -/
namespace Driver.CrashCoreDrv
open MdkVerif MdkVerif.CrashCore

def main : IO Unit := do
  for (name, k) in [("process_application", Kind.application), ("process_commit", Kind.commit),
                    ("process_welcome", Kind.welcome), ("merge_pending_commit", Kind.merge)] do
    IO.println s!"{name} {",".intercalate (classes k)}"
  for (case, paths) in Generated.writeSeq do
    if CrashSeq.modelled case then
      let mut pi := 0
      for p in paths do
        IO.println s!"seq {CrashSeq.callKindName (CrashSeq.callKind case)} {case} {pi} {",".intercalate (CrashSeq.classesOf case p)}"
        pi := pi + 1
  for (c, k) in CrashSeq.openSignatures do
    IO.println s!"open {c.name}:{CrashSeq.callKindName k}"

end Driver.CrashCoreDrv
