import MdkVerif.Model.CrashCore
/- `mdkdrv crashcore`: prints, per call kind, the sequence of crash classes the model assigns along the
   storage effects of the call; `vlib/crashweng.py` compares it with the sequence observed on the real code. -/
namespace Driver.CrashCoreDrv
open MdkVerif.CrashCore

def main : IO Unit := do
  for (name, k) in [("process_application", Kind.application), ("process_commit", Kind.commit),
                    ("process_welcome", Kind.welcome), ("merge_pending_commit", Kind.merge)] do
    IO.println s!"{name} {",".intercalate (classes k)}"

end Driver.CrashCoreDrv
