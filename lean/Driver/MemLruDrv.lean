import MdkVerif.Model.MemLru
import Driver.StoreDrv
/-
  line protocol of the `memlru` engine (the store engine's op lines, memory backend built with a small
  `cache_size` / `max_messages_per_group`):

    backend lru <cache_size> <max_messages_per_group>        → ok
    <op line of the store engine> ## <what the implementation answered>

  The model is nondeterministic in one place (map iteration order of a restore, see Model/MemLru.lean); the driver keeps
  every state the model allows that is consistent with the implementation's answers so far.  For every line
  it prints `<answer>\t<candidates> <evictions>`: the implementation's answer if some candidate gives it
  (the candidates that do not are dropped), otherwise the first candidate's answer (a correspondence failure).
  `<evictions>` = what the chosen candidate pushed out in this step, `cache:key,…` (codes in Model/MemLru.lean).
  A `save_message` that pushed a message out of its group's map answers `ok ev:<id>` on both sides.
-/
namespace Driver.MemLruDrv
open MdkVerif MdkVerif.Store MdkVerif.MemLru

def sameState (a b : MemStore) : Bool :=
  decide (a.qGroups = b.qGroups) && decide (a.qByNid = b.qByNid) && decide (a.qRelays = b.qRelays) &&
  decide (a.qSecrets = b.qSecrets) && decide (a.qWelcomes = b.qWelcomes) && decide (a.qPws = b.qPws) &&
  decide (a.qById = b.qById) && decide (a.qMsgGroups = b.qMsgGroups) && decide (a.qPms = b.qPms) &&
  decide (a.byId = b.byId) && decide (a.u.groups = b.u.groups) && decide (a.u.byNid = b.u.byNid) &&
  decide (a.u.relays = b.u.relays) && decide (a.u.secrets = b.u.secrets) && decide (a.u.msgs = b.u.msgs) &&
  decide (a.u.pms = b.u.pms) && decide (a.u.welcomes = b.u.welcomes) && decide (a.u.pws = b.u.pws) &&
  decide (a.u.mls = b.u.mls) && decide (a.u.snaps = b.u.snaps)

def dedupe (l : List (MemStore × String × String)) : List (MemStore × String × String) :=
  l.foldl (fun acc x => if acc.any (fun y => sameState y.1 x.1 && y.2.1 == x.2.1) then acc else acc ++ [x]) []

def evText (old new : List (Nat × Nat)) : String :=
  let fresh := (new.take (new.length - old.length)).reverse
  joinWith "," (fresh.map (fun e => s!"{e.1}:{e.2}"))

/-- all outcomes of one operation from one state: (state, answer text, eviction text) -/
def outcomes (s : MemStore) (op : Op) : List (MemStore × String × String) :=
  (choices s op).map (fun ch =>
    let r := step s op ch
    let fresh := r.1.evlog.take (r.1.evlog.length - s.evlog.length)
    let out := match op, fresh.find? (·.1 == 9) with
      | .saveMessage _, some e => r.2 ++ s!" ev:{e.2}"
      | _, _ => r.2
    (r.1, out, evText s.evlog r.1.evlog))

def splitImpl (line : String) : String × Option String :=
  match line.splitOn " ## " with
  | [a] => (a, none)
  | a :: rest => (a, some (joinWith " ## " rest).trimAscii.toString)
  | [] => ("", none)

def sameAnswer (impl model : String) : Bool :=
  if model.startsWith "oneof:" then impl.startsWith "some:" && ((model.drop 6).toString.splitOn ",").contains (impl.drop 5).toString
  else impl == model

partial def loop (h : IO.FS.Stream) (cands : List MemStore) : IO Unit := do
  let line ← h.getLine
  if line.isEmpty then return ()
  let (opText, impl) := splitImpl line
  match StoreDrv.toks opText with
  | [] => loop h cands
  | ["backend", "lru", c, m] =>
    IO.println "ok\t1 "
    loop h [MemStore.empty (c.toNat?.getD 1) (m.toNat?.getD 1)]
  | ts =>
    match StoreDrv.parseOp ts with
    | none => IO.println "bad-op\t0 "; loop h cands
    | some op =>
      let all := dedupe (cands.flatMap (fun s => outcomes s op))
      let matching := match impl with
        | none => all
        | some i => all.filter (fun x => sameAnswer i x.2.1)
      let keep := if matching.isEmpty then all else matching
      let keep := keep.take 256
      match keep with
      | [] => IO.println "no-candidate\t0 "; loop h cands
      | first :: _ =>
        IO.println s!"{first.2.1}\t{keep.length} {first.2.2}"
        loop h (keep.map (·.1))

def main : IO Unit := do loop (← IO.getStdin) [MemStore.empty 1000 10000]

end Driver.MemLruDrv
