import MdkVerif.Generated
import MdkVerif.Model.Basic
import MdkVerif.Model.Store
import MdkVerif.Model.Codec
import MdkVerif.Model.Tags
