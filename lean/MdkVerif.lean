import MdkVerif.Generated
import MdkVerif.Model.Basic
import MdkVerif.Model.Store
import MdkVerif.Model.Leak
import MdkVerif.GeneratedLeak
import MdkVerif.Model.Codec
import MdkVerif.Model.Tags
import MdkVerif.Model.Media
