import MdkVerif.Generated
import MdkVerif.Model.Basic
import MdkVerif.Model.Store
