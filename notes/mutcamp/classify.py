#!/usr/bin/env python3
"""survivor classification (hand analysis) -> notes/mutcamp/classification.json"""
import json, os
C = {}
def c(prefix, cls, why, after=""):
    C[prefix] = {"class": cls, "why": why, "after": after}

LOG = "the mutated condition / arm only decides whether a tracing record is emitted (log macro arguments are not mutated, the guard around them is)"
OVER = "the initial value of a buffer that the next statement overwrites completely (rng.fill / hk.expand / read_exact); on the error path the buffer is not used"
WHOLE = "inside MdkMemoryStorage::restore_snapshot, the WHOLE-store snapshot of the memory backend: used by the backend's own tests only, not by mdk-core and not part of the storage traits; C09 is about group-scoped rollback through the trait"
SELFUPD = "only the `self_update_state` bookkeeping of the group record changes (Required / CompletedAt); no property statement mentions it except C16 for the moment of accepting, and the world fingerprint does not carry it"
IOFAULT = "only reached when the file system / keyring / storage backend reports an unexpected error; no engine injects such faults (C12 injects process death, not I/O errors)"
BUILDER = "precondition assert of a configuration builder; the quick streams never ask for the boundary value"

c("M0008", "E", OVER); c("M0038", "E", OVER); c("M0093", "E", OVER); c("M0137", "E", OVER); c("M0160", "E", OVER)
c("M0018", "E", WHOLE + "; moreover the two statements are independent and inside one write-lock section")
c("M0232", "E", WHOLE + "; moreover the two statements are independent and inside one write-lock section")
c("M0049", "O", WHOLE)
c("M0019", "E", "NIP44_MIN_PAYLOAD_LEN 99 -> 98: a 98-byte payload is refused by nip44 itself (no panic: the unchecked read needs < 67 bytes); the regenerated fact mdkMinPayloadLen moves with the constant and `wrap_no_panic_of_guard` holds for every guard >= 67; result kind and record are the same")
c("M0198", "O", "NIP44_MIN_PAYLOAD_LEN 99 -> 100: a 99-byte payload (1..32 bytes of plaintext) is refused one step earlier; no MLS message is that short, the refusal kind is the same; the fact mdkMinPayloadLen follows the constant")
c("M0015", "E", "order of replace_group_relays / save_group inside sync_group_metadata_from_mls: both orders are non-atomic, a crash between them leaves a torn record in either (C12 ran and classifies both as the known torn-merge point); without a crash the final state is the same")
c("M0027", "E", LOG); c("M0042", "E", LOG); c("M0209", "E", LOG); c("M0233", "E", LOG); c("M0243", "E", LOG); c("M0244", "E", LOG)
c("M0041", "O", IOFAULT + " (precreate_secure_database_file: an error other than AlreadyExists)")
c("M0066", "O", IOFAULT + " (is_database_encrypted: read error other than UnexpectedEof)")
c("M0112", "O", IOFAULT + " (try_decrypt_with_past_epochs: storage error while looking up an exporter secret)")
c("M0061", "O", IOFAULT + " (delete_db_key with no keyring store: Ok instead of KeyringNotInitialized)")
c("M0054", "O", "SQLite save_welcome no longer checks the size of the relay JSON: only reachable beyond the documented limits (C10 quantifies over values within them; the hostile store stream of C06 uses long relay URLs on save_group / replace_relays, not 1 MiB of welcome relays)")
c("M0085", "O", "SQLite save_message no longer checks the size of the tags JSON: beyond the documented limits only")
c("M0057", "O", BUILDER + " (with_max_relay_url_length(1))")
c("M0172", "O", BUILDER + " (with_cache_size(0) now panics later, in LruCache::new)")
c("M0063", "O", "apply_secure_permissions: special SQLite paths that start with ':' other than ':memory:' are no longer skipped; no engine opens such a path")
c("M0208", "O", "apply_secure_permissions: the empty path is no longer skipped; no engine opens the empty path")
c("M0065", "H", "update_last_message_if_newer, fallback arm (Some, Some, None) `>` -> `>=`: a pointer whose three fields were not written together (rows backfilled by an older schema; the neighbouring arm (Some, None, _) is the documented backfill case).  C18's pointer sentence is about exactly this function; Model.Store.dominates HAS all four arms, but the store generator wrote the three fields together or not at all, so no history reached the two fallback arms",
  "the store generator now writes partially filled pointer triples in 10 % of the save_group ops that carry a pointer (vlib/storeeng.py Gen.group); re-run: C18 and C10 report a broken correspondence (`upd_last 2 100 102 6`: impl=true model=false), unchanged library passes C09 / C10 / C18")
c("M0095", "E", "PRAGMA cipher_compatibility = 4 before PRAGMA key: with SQLCipher 4.x the value is the default, the database is encrypted with the same parameters (C13's canary scan, wrong-key and reopen matrix all pass because nothing changed at rest)")
c("M0158", "E", "two independent PRAGMAs (temp_store, cipher_compatibility) swapped, both before the first database operation")
c("M0143", "E", "restore_group_from_snapshot re-inserts the OTHER snapshots' rows after the cascade deleted them: no row with the same key can exist at that point, so OR IGNORE and OR REPLACE do the same")
c("M0210", "E", "two removals from two different maps under one write lock swapped")
c("M0109", "E", "update_last_message_if_newer is a pure update of the local Group value; the order of the three storage writes (message, record, group) is unchanged")
c("M0110", "O", "EXIF sanitising / image metadata: image processing is outside every property and not modelled (DESIGN 13.6)")
c("M0245", "O", "EXIF sanitising / image metadata: image processing is outside every property and not modelled (DESIGN 13.6)")
c("M0091", "O", SELFUPD + " (OwnCommitPending branch of dispatch_by_content_type)")
c("M0116", "O", SELFUPD + " (merge_pending_commit)")
c("M0196", "O", SELFUPD + " (merge_pending_commit)")
c("M0193", "O", "create_message: the dedup record is written before the message row; differs only when the process dies between the two writes — both orders leave a half-written own message that was never published; C12's crash model covers process_message / process_welcome / merge_pending_commit, create_message's ticks are enumerated but both leftovers are classified the same")
c("M0206", "O", "delete_key_package_from_storage becomes a no-op: key-package deletion after joining is in no property (C09 only demands that rollback destroys none)")
c("M0226", "O", "parse_snapshot_name accepts names with a wrong part count or prefix: only foreign snapshot names written through the storage trait reach it; the library writes only `snap_<gid>_<epoch>_<id>`")
c("M0139", "O", "memory backend DEFAULT_MAX_RELAYS_PER_WELCOME 100 -> 99: the limits are PARAMETERS of C10 (`within both backends' documented limits`); the constant is a regenerated fact (Generated.memMaxRelaysPerWelcome), Model.Store.saveWelcome refuses above it, so model, theorems and the hostile store stream (100 / 101 relays) follow the new value. No property fixes the number")
c("M0162", "O", "memory backend DEFAULT_MAX_RELAY_URL_LENGTH 512 -> 513: as M0139 — the limit is a parameter of C10 and a regenerated fact the model follows; no property fixes the number")
c("M0108", "O", "validate_proposal_identity no longer refuses an Update PROPOSAL that changes the identity: process_proposal ignores every Update proposal anyway (IgnoredProposal, nothing stored), so no identity changes (C05 holds) and the refusal has no effect (C06 holds); what changes is the result kind (ignored instead of err) and the dedup record (Processed instead of Failed). The harness crafts stand-alone Update proposals with the sender's own identity only, so the correspondence never sees the difference. Commits are covered by validate_commit_identities' own comparison (line 261, not mutated here)")
c("M0079", "O", "own application message whose dedup record is Retryable (failed once, then a rollback): the record is no longer rewritten to Processed after the cached copy is returned.  Model.Client.ownMessage models this branch (state 5 -> 1), so the correspondence WOULD see it; no history reaches the branch, and it is close to dead: an own event must first fail at the outer layer WITH its group found (its epoch outside the 5-epoch look-back), a rollback must then mark the record Retryable, and the event must open afterwards — but a rollback re-applies the winning commit at the same epoch number, so the look-back window does not move.  What would differ is the dedup table only (no MDK call returns it)")

IMG = "group-image / media preparation for upload (size, dimensions, EXIF): image processing is outside every property and not modelled (DESIGN 13.6)"
c("M0279", "O", IMG); c("M0291", "O", IMG)
c("M0293", "E", LOG)
c("M0286", "O", SELFUPD + " (OwnCommitPending branch)")
c("M0292", "O", IOFAULT + " (handle_local_member_eviction fails while the own pending commit that removes the client itself is merged)")
c("M0301", "O", BUILDER + " (with_max_admins_per_welcome(1))"); c("M0310", "O", BUILDER + " (with_max_relays_per_group(0))")
c("M0261", "E", "OwnCommitPending branch no longer stores the new epoch's exporter secret eagerly: every later call that can leave the epoch or needs the secret (process_message, create_message, every commit-building call wraps its event) calls exporter_secret() first, which stores it as a side effect (Model.Client `withSecret`), so the stored secrets are the same whenever they are read")

c("M0312", "E", LOG); c("M0321", "E", LOG); c("M0326", "E", OVER)

c("M0323", "O", WHOLE)
c("M0365", "E", WHOLE + "; moreover the two statements are independent and inside one write-lock section")
c("M0349", "O", "SQLite save_welcome no longer checks the length of the group description: beyond the documented limits only")
c("M0351", "O", "memory backend DEFAULT_MAX_GROUP_DESCRIPTION_LENGTH 4096 -> 4095: as M0139 — a limit is a parameter of C10 (regenerated fact, the model follows it); SQLite's own limit is 2000, so the value is outside `both backends' limits` anyway")
c("M0350", "E", "apply_secure_permissions skips the sidecar files that exist: SQLite creates -journal / -wal / -shm with the mode of the main database file (0600 by then), C13's scan sees every sidecar incl. hot journals with 600; the call only matters for a sidecar that something else created with wider bits")
c("M0363", "E", "create_mls_message_payload no longer calls ensure_id before serialising the rumor: the sender's stored copy gets its id from `rumor.id()` two lines later, receivers drop the transmitted id and recompute it (repair 9fd9ca0), so every stored message is the same; only the transmitted JSON lacks the redundant id field")
c("M0367", "E", LOG); c("M0397", "E", LOG)
c("M0357", "H", "validate_commit_identities no longer refuses a commit whose update path carries ANOTHER identity for the committer's leaf: every receiver accepts it, the member list then names a key that belongs to nobody (C05, last sentence).  A commit without proposals is a pure self-update for mdk's authorisation, so ANY member can send it.  The client model has no changing credential (Props/C05.lean says the sentence is `exercised by the harness's adversarial commits, not re-modelled`) — but no harness op built such a commit, and the library's own suite only unit-tests validate_identity_unchanged",
  "harness op `advident` (a commit built with OpenMLS' self_update_with_new_signer: fresh credential + signature key) and the implementation-only probe vlib/c05ident.py as second engine of ./check C05 (8 worlds quick: an admin and a non-admin each send one, every receiver must refuse without effect, honest traffic goes on; obligation tie:c05-identity-probe-ran).  Re-run: C05 `identity-change-accepted`, `foreign-identity-in-member-list` with replay (`./check C05 --replay` works on it); unchanged library: 16 crafted, 43 deliveries, all refused without effect")

c("M0413", "E", OVER)
c("M0410", "O", IOFAULT + " (EpochSnapshotManager::ensure_hydrated: listing the snapshots fails)")
c("M0408", "O", "memory backend DEFAULT_CACHE_SIZE 1000 -> 1001: a capacity parameter; the small key pools never reach the default capacity and the memlru run sets its capacities explicitly (1..4)")
c("M0415", "E", "`PRAGMA foreign_keys = ON` after opening a file database: the bundled SQLite / SQLCipher of libsqlite3-sys is compiled with -DSQLITE_DEFAULT_FOREIGN_KEYS=1, so foreign keys are on without the pragma (every FK refusal and cascade of the store histories still happens); with a system SQLite the mutant would matter")
c("M0414", "E", LOG)
c("M0430", "O", BUILDER + " (with_max_relays_per_welcome(0))")
c("M0434", "O", "SQLite save_message no longer checks the size of the event JSON: beyond the documented limits only")
c("M0438", "E", "column index inside the FromSqlConversionFailure error value: error detail, the error kind is the same")
c("M0446", "E", "two removals from two different maps inside one write-lock section of restore_group_scoped_snapshot swapped")

c("M0449", "O", BUILDER + " (with_max_group_name_length(1))")
c("M0454", "O", "memory backend DEFAULT_MAX_MESSAGES_PER_GROUP 10000 -> 10001: a capacity parameter; no history stores 10000 messages in one group, the memlru run sets the cap explicitly (1..3)")
c("M0461", "O", "SQLite save_welcome no longer checks the size of the admin-pubkeys JSON: beyond the documented limits only")

c("M0284", "O", "encrypt_for_upload no longer validates the caller's own file name (length, path separators, control characters): input hygiene on the SENDING side; C17 / C15 speak about what a receiver accepts (parse_imeta_tag validates the name again, not mutated here) and about tampering, not about which names a sender may choose")
c("M0387", "E", WHOLE + "; moreover the two statements are independent and inside one write-lock section")
c("M0407", "O", "delete_key_package_from_storage_by_hash_ref becomes a no-op: key-package deletion is in no property (as M0206)")
c("M0406", "E", OVER + " (copy_from_slice)")

if __name__ == "__main__":
    out = "" + os.path.dirname(os.path.abspath(__file__)) + "/classification.json"
    ids = [json.loads(l)["id"] for l in open("" + os.path.dirname(os.path.abspath(__file__)) + "/mutants.jsonl")]
    full = {}
    for k, v in C.items():
        m = [i for i in ids if i.startswith(k + "-")]
        assert len(m) == 1, k
        full[m[0]] = v
    json.dump(full, open(out, "w"), indent=1)
    print(len(full), "classified")
