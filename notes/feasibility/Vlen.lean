-- feasibility probe: QUIC/TLS variable-length integer as in tls_codec 0.4 (mls feature: <= 30 bit, minimal)
namespace Vlen
abbrev Bytes := List Nat   -- each < 256 (well-formedness predicate separately)

def encLen (n : Nat) : Option Bytes :=
  if n < 64 then some [n]
  else if n < 16384 then some [64 + n / 256, n % 256]
  else if n < 1073741824 then some [128 + n / 16777216, (n / 65536) % 256, (n / 256) % 256, n % 256]
  else none

def minLenLen (n : Nat) : Nat := if n < 64 then 1 else if n < 16384 then 2 else 4

def decLen : Bytes → Option (Nat × Bytes)
  | [] => none
  | b0 :: rest =>
    let tag := b0 / 64
    let v0 := b0 % 64
    if tag = 0 then (if minLenLen v0 = 1 then some (v0, rest) else none)
    else if tag = 1 then
      match rest with
      | b1 :: r => let n := v0 * 256 + b1; if minLenLen n = 2 then some (n, r) else none
      | _ => none
    else if tag = 2 then
      match rest with
      | b1 :: b2 :: b3 :: r =>
        let n := ((v0 * 256 + b1) * 256 + b2) * 256 + b3
        if minLenLen n = 4 then some (n, r) else none
      | _ => none
    else none

theorem dec_enc (n : Nat) (tl : Bytes) (bs : Bytes) (h : encLen n = some bs) :
    decLen (bs ++ tl) = some (n, tl) := by
  unfold encLen at h
  by_cases c1 : n < 64
  · rw [if_pos c1] at h; cases h
    have h1 : n / 64 = 0 := by omega
    have h2 : n % 64 = n := by omega
    simp [decLen, minLenLen, h1, h2, c1]
  · rw [if_neg c1] at h
    by_cases c2 : n < 16384
    · rw [if_pos c2] at h; cases h
      have h1 : (64 + n / 256) / 64 = 1 := by omega
      have h2 : (64 + n / 256) % 64 = n / 256 := by omega
      have h3 : n / 256 * 256 + n % 256 = n := by omega
      simp [decLen, minLenLen, h1, h2, h3, c1, c2]
    · rw [if_neg c2] at h
      by_cases c3 : n < 1073741824
      · rw [if_pos c3] at h; cases h
        have h1 : (128 + n / 16777216) / 64 = 2 := by omega
        have h2 : (128 + n / 16777216) % 64 = n / 16777216 := by omega
        have h3 : ((n / 16777216 * 256 + n / 65536 % 256) * 256 + n / 256 % 256) * 256 + n % 256 = n := by omega
        simp [decLen, minLenLen, h1, h2, h3, c1, c2]
      · rw [if_neg c3] at h; cases h
end Vlen
#print axioms Vlen.dec_enc
