-- feasibility probe: get_or_create_db_key double-checked locking, any number of threads, any schedule
namespace KR
inductive Pc where
  | start | wantLock | locked | gen (k : Nat) | done (k : Nat)
  deriving DecidableEq, Repr

structure St where
  ring : Option Nat          -- key stored in the keyring
  lock : Option Nat          -- thread holding KEY_GENERATION_LOCK
  fresh : Nat                -- next fresh key (EncryptionConfig::generate)
  pc : Nat → Pc
  stores : Nat               -- number of set_secret calls so far

def init : St := { ring := none, lock := none, fresh := 0, pc := fun _ => .start, stores := 0 }

def setPc (s : St) (t : Nat) (p : Pc) : St := { s with pc := fun u => if u = t then p else s.pc u }

def step (s : St) (t : Nat) : St :=
  match s.pc t with
  | .start => match s.ring with            -- fast path read, no lock
      | some k => setPc s t (.done k)
      | none => setPc s t .wantLock
  | .wantLock => match s.lock with          -- lock acquisition (blocks if held)
      | none => setPc { s with lock := some t } t .locked
      | some _ => s
  | .locked => match s.ring with            -- re-check under lock
      | some k => setPc { s with lock := none } t (.done k)
      | none => setPc { s with fresh := s.fresh + 1 } t (.gen s.fresh)
  | .gen k => setPc { s with ring := some k, stores := s.stores + 1, lock := none } t (.done k)  -- set_secret; guard dropped on return
  | .done _ => s

def run (s : St) : List Nat → St
  | [] => s
  | t :: ts => run (step s t) ts

structure Inv (s : St) : Prop where
  lockOwner : ∀ t, (s.pc t = .locked ∨ ∃ k, s.pc t = .gen k) → s.lock = some t
  genEmpty : ∀ t k, s.pc t = .gen k → s.ring = none
  doneKey : ∀ t k, s.pc t = .done k → s.ring = some k
  storesLe : s.stores = (if s.ring.isSome then 1 else 0)

theorem inv_init : Inv init := by
  constructor <;> simp [init]

theorem inv_step (s : St) (t : Nat) (h : Inv s) : Inv (step s t) := by
  obtain ⟨h1, h2, h3, h4⟩ := h
  unfold step
  split
  · split
    · rename_i hp k hr
      constructor <;> simp only [setPc] <;> intros <;> split at * <;> simp_all <;> grind
    · constructor <;> simp only [setPc] <;> intros <;> split at * <;> simp_all <;> grind
  · split
    · constructor <;> simp only [setPc] <;> intros <;> split at * <;> simp_all <;> grind
    · exact ⟨h1, h2, h3, h4⟩
  · split
    · constructor <;> simp only [setPc] <;> intros <;> split at * <;> simp_all <;> grind
    · constructor <;> simp only [setPc] <;> intros <;> split at * <;> simp_all <;> grind
  · rename_i k hk
    have hl : s.lock = some t := h1 t (Or.inr ⟨k, hk⟩)
    have huniq : ∀ u, (s.pc u = .locked ∨ ∃ k, s.pc u = .gen k) → u = t := by
      intro u hu; have := h1 u hu; rw [hl] at this; exact (Option.some.inj this).symm
    refine ⟨?_, ?_, ?_, ?_⟩
    · intro u hu
      simp only [setPc] at hu
      by_cases e : u = t
      · subst e; simp at hu
      · simp [e] at hu; exact absurd (huniq u hu) e
    · intro u k' hu
      simp only [setPc] at hu
      by_cases e : u = t
      · subst e; simp at hu
      · simp [e] at hu; exact absurd (huniq u (Or.inr ⟨k', hu⟩)) e
    · intro u k' hu
      simp only [setPc] at hu ⊢
      by_cases e : u = t
      · subst e; simp at hu; simp [hu]
      · simp [e] at hu; have := h3 u k' hu; have := h2 t k hk; simp_all
    · have := h2 t k hk; simp [setPc, this] at h4 ⊢; omega
  · exact ⟨h1, h2, h3, h4⟩

theorem inv_run (s : St) (sched : List Nat) (h : Inv s) : Inv (run s sched) := by
  induction sched generalizing s with
  | nil => exact h
  | cons t ts ih => exact ih _ (inv_step s t h)

/-- for every schedule: at most one key is ever stored, and all finished callers agree on it -/
theorem keyring_once (sched : List Nat) :
    (run init sched).stores ≤ 1 ∧
    ∀ t u k k', (run init sched).pc t = .done k → (run init sched).pc u = .done k' → k = k' := by
  have h := inv_run init sched inv_init
  refine ⟨?_, ?_⟩
  · have := h.storesLe; split at this <;> omega
  · intro t u k k' ht hu
    have a := h.doneKey t k ht; have b := h.doneKey u k' hu
    rw [a] at b; exact Option.some.inj b
end KR
#print axioms KR.keyring_once
