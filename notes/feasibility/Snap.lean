-- feasibility probe: EpochSnapshotManager queue + stored snapshot names stay in step and bounded (C20)
namespace SnapP
structure Snap where
  epoch : Nat
  name : Nat            -- snapshot name (abstract, unique per (epoch, commit))
  deriving DecidableEq, Repr

structure St where
  queue : List Snap     -- manager queue, oldest first
  stored : List Nat     -- names present in storage for this group
  deriving Repr

inductive Op where
  | create (s : Snap)
  | rollback (epoch : Nat)

def release (stored : List Nat) (names : List Nat) : List Nat := stored.filter (fun n => !names.contains n)

def step (r : Nat) (st : St) : Op → St
  | .create s =>
    let q := st.queue ++ [s]
    let k := q.length - r
    { queue := q.drop k, stored := release (st.stored.filter (· != s.name) ++ [s.name]) ((q.take k).map (·.name)) }
  | .rollback e =>
    match st.queue.findIdx? (·.epoch == e) with
    | none => st
    | some i =>
      let removed := st.queue.drop i
      { queue := st.queue.take i, stored := release st.stored (removed.map (·.name)) }

def run (r : Nat) (st : St) (ops : List Op) : St := ops.foldl (step r) st

theorem step_len (r : Nat) (st : St) (op : Op) (h : st.queue.length ≤ r) : (step r st op).queue.length ≤ r := by
  cases op with
  | create s => simp [step]; omega
  | rollback e =>
    simp only [step]
    split
    · exact h
    · simp; omega

theorem run_len (r : Nat) (ops : List Op) (st : St) (h : st.queue.length ≤ r) : (run r st ops).queue.length ≤ r := by
  induction ops generalizing st with
  | nil => simpa [run]
  | cons o os ih => exact ih _ (step_len r st o h)

/-- every retention value, every op sequence: the queue never exceeds the configured retention -/
theorem bound (r : Nat) (ops : List Op) : (run r ⟨[], []⟩ ops).queue.length ≤ r :=
  run_len r ops _ (by simp)
end SnapP
#print axioms SnapP.bound
