-- feasibility probe: MIP-03 resolution of one fork by a bystander, any delivery order, any repetition (core of C01)
namespace ForkP
structure Stamp where
  ts : Nat
  id : Nat
  deriving DecidableEq, Repr

def Stamp.lt (a b : Stamp) : Bool := a.ts < b.ts || (a.ts == b.ts && a.id < b.id)

theorem lt_irrefl (a : Stamp) : a.lt a = false := by simp [Stamp.lt]
theorem lt_trans {a b c : Stamp} (h1 : a.lt b = true) (h2 : b.lt c = true) : a.lt c = true := by
  simp [Stamp.lt] at *; omega
theorem lt_total {a b : Stamp} (h : a ≠ b) : a.lt b = true ∨ b.lt a = true := by
  cases a; cases b; simp [Stamp.lt] at *; omega
theorem lt_asymm {a b : Stamp} (h : a.lt b = true) : b.lt a = false := by
  simp [Stamp.lt] at *; omega

/-- the part of the client that matters at one fork epoch -/
structure Client where
  applied : Option Stamp     -- sibling currently applied on top of the parent state (snapshot retained)
  blocked : List Stamp       -- wrappers whose record is Failed / EpochInvalidated (step-0 dedup blocks them)
  deriving Repr

def deliver (c : Client) (s : Stamp) : Client :=
  if s ∈ c.blocked then c else
  match c.applied with
  | none => { c with applied := some s }                                   -- process_commit: snapshot, merge
  | some a =>
    if a = s then c                                                        -- WrongEpoch, not better than itself, own ProcessedCommit record
    else if s.lt a then { applied := some s, blocked := a :: c.blocked }   -- better: rollback, invalidate a's record, re-process s
    else { c with blocked := s :: c.blocked }                              -- worse: fail_unprocessable

theorem deliver_blocked {c : Client} {s : Stamp} (h : s ∈ c.blocked) : deliver c s = c := by
  simp [deliver, h]
theorem deliver_none {c : Client} {s : Stamp} (h : ¬ s ∈ c.blocked) (ha : c.applied = none) :
    deliver c s = { c with applied := some s } := by
  simp [deliver, h, ha]
theorem deliver_same {c : Client} {s : Stamp} (h : ¬ s ∈ c.blocked) (ha : c.applied = some s) :
    deliver c s = c := by
  simp [deliver, h, ha]
theorem deliver_better {c : Client} {s a : Stamp} (h : ¬ s ∈ c.blocked) (ha : c.applied = some a)
    (e : a ≠ s) (hl : s.lt a = true) : deliver c s = { applied := some s, blocked := a :: c.blocked } := by
  simp [deliver, h, ha, e, hl]
theorem deliver_worse {c : Client} {s a : Stamp} (h : ¬ s ∈ c.blocked) (ha : c.applied = some a)
    (e : a ≠ s) (hl : ¬ s.lt a = true) : deliver c s = { c with blocked := s :: c.blocked } := by
  simp [deliver, h, ha, e, hl]

def run (c : Client) (l : List Stamp) : Client := l.foldl deliver c

/-- invariant: the applied commit is not blocked and beats everything blocked -/
def Inv (c : Client) : Prop :=
  match c.applied with
  | none => c.blocked = []
  | some a => ¬ a ∈ c.blocked ∧ ∀ b ∈ c.blocked, a.lt b = true

theorem inv_deliver (c : Client) (s : Stamp) (h : Inv c) : Inv (deliver c s) := by
  unfold deliver
  by_cases hb : s ∈ c.blocked
  · simp only [hb, if_true]; exact h
  · simp only [hb, if_false]
    cases ha : c.applied with
    | none => simp [Inv, ha] at h ⊢; simp [h]
    | some a =>
      simp only [Inv, ha] at h
      obtain ⟨h1, h2⟩ := h
      by_cases e : a = s
      · simp [e, Inv, ha]; subst e; exact ⟨h1, h2⟩
      · by_cases hl : s.lt a = true
        · simp only [e, hl, if_true, if_false, Inv]
          refine ⟨?_, ?_⟩
          · intro hm; simp at hm; rcases hm with hm | hm
            · exact e hm.symm
            · exact hb hm
          · intro b hbm; simp at hbm; rcases hbm with hbm | hbm
            · subst hbm; exact hl
            · exact lt_trans hl (h2 b hbm)
        · simp only [e, hl, if_false, Inv, ha]
          have hl' : a.lt s = true := by
            rcases lt_total e with h | h
            · exact h
            · exact absurd h hl
          refine ⟨?_, ?_⟩
          · intro hm; simp at hm; rcases hm with hm | hm
            · exact e hm
            · exact h1 hm
          · intro b hbm; simp at hbm; rcases hbm with hbm | hbm
            · subst hbm; exact hl'
            · exact h2 b hbm

theorem inv_run (c : Client) (l : List Stamp) (h : Inv c) : Inv (run c l) := by
  induction l generalizing c with
  | nil => exact h
  | cons s l ih => exact ih _ (inv_deliver c s h)

/-- MIP-03 at one fork: whatever the order and repetition of the deliveries, the applied sibling beats or equals
    every sibling that was delivered -/
theorem single_fork (l : List Stamp) (s : Stamp) (hs : s ∈ l) :
    ∃ a, (run ⟨none, []⟩ l).applied = some a ∧ (a = s ∨ a.lt s = true) := by
  -- strengthen: after running l from any Inv state, every delivered s is applied or blocked
  have key : ∀ (l : List Stamp) (c : Client), Inv c → ∀ s ∈ l,
      (run c l).applied = some s ∨ s ∈ (run c l).blocked := by
    intro l
    induction l with
    | nil => intro c _ s hs; cases hs
    | cons x l ih =>
      intro c hc s hs
      have hc' := inv_deliver c x hc
      simp only [run, List.foldl_cons]
      rcases List.mem_cons.mp hs with rfl | hs'
      · -- s delivered now: applied or blocked right after, and stays so
        have stepKeep : ∀ (c : Client) (y : Stamp), (c.applied = some s ∨ s ∈ c.blocked) →
            ((deliver c y).applied = some s ∨ s ∈ (deliver c y).blocked) := by
          intro c y h
          by_cases hb : y ∈ c.blocked
          · rw [deliver_blocked hb]; exact h
          · cases ha : c.applied with
            | none =>
              rw [deliver_none hb ha]
              rcases h with h | h
              · rw [ha] at h; cases h
              · right; exact h
            | some a =>
              by_cases e : a = y
              · subst e; rw [deliver_same hb ha]; exact h
              · by_cases hl : y.lt a = true
                · rw [deliver_better hb ha e hl]
                  rcases h with h | h
                  · right; rw [ha] at h; have := Option.some.inj h; subst this; exact List.mem_cons_self
                  · right; exact List.mem_cons_of_mem _ h
                · rw [deliver_worse hb ha e hl]
                  rcases h with h | h
                  · left; exact h
                  · right; exact List.mem_cons_of_mem _ h
        have now : (deliver c s).applied = some s ∨ s ∈ (deliver c s).blocked := by
          by_cases hb : s ∈ c.blocked
          · rw [deliver_blocked hb]; right; exact hb
          · cases ha : c.applied with
            | none => rw [deliver_none hb ha]; left; rfl
            | some a =>
              by_cases e : a = s
              · subst e; rw [deliver_same hb ha]; left; exact ha
              · by_cases hl : s.lt a = true
                · rw [deliver_better hb ha e hl]; left; rfl
                · rw [deliver_worse hb ha e hl]; right; exact List.mem_cons_self
        have pers : ∀ (l : List Stamp) (c : Client), (c.applied = some s ∨ s ∈ c.blocked) →
            ((l.foldl deliver c).applied = some s ∨ s ∈ (l.foldl deliver c).blocked) := by
          intro l
          induction l with
          | nil => intro c h; exact h
          | cons y l ih2 => intro c h; exact ih2 _ (stepKeep c y h)
        exact pers l _ now
      · exact ih _ hc' s hs'
  have hinv : Inv (run ⟨none, []⟩ l) := inv_run _ l (by simp [Inv])
  rcases key l ⟨none, []⟩ (by simp [Inv]) s hs with h | h
  · exact ⟨s, h, Or.inl rfl⟩
  · cases ha : (run ⟨none, []⟩ l).applied with
    | none => simp [Inv, ha] at hinv; rw [hinv] at h; cases h
    | some a => simp only [Inv, ha] at hinv; exact ⟨a, rfl, Or.inr (hinv.2 s h)⟩
end ForkP
#print axioms ForkP.single_fork
