#!/bin/bash
# tools/seedsweep.sh [tier]: every seeded change under seeded/ against the check(s) of the propert(y/ies) in its directory name,
# in 4 parallel slots (tools/slot.sh: private patched copies of the library; /repo untouched).  Output: /tmp/q/sweep_<k>.txt
tier=${1:-quick}
mkdir -p /tmp/q
i=0
for k in 1 2 3 4; do : > /tmp/q/sweep_$k.list; done
for d in /verif/seeded/*/; do
  n=$(basename $d)
  checks=$(echo $n | grep -o '^\(C[0-9][0-9]-\)\+' | tr '-' ' ')
  k=$(( i % 4 + 1 )); i=$(( i + 1 ))
  echo "$d/patch.diff $checks" >> /tmp/q/sweep_$k.list
done
for k in 1 2 3 4; do
  ( while read p checks; do /verif/tools/slot.sh $k $p $tier $checks; done < /tmp/q/sweep_$k.list > /tmp/q/sweep_$k.txt 2>&1 ) &
done
wait
cat /tmp/q/sweep_?.txt | sed 's#/tmp/slot[0-9]/verif/replays/##g'
