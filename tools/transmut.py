#!/usr/bin/env python3
"""tools/transmut.py — do the restated facts still BITE?  Small semantic mutations of the library (each one the kind of
change a fact is there to detect), on the unpatched source and on top of harmless rewrites of seeded-harmless/ (where the
mutated code sits in a helper, behind a constant, in an or-pattern …).  Every mutation must change at least one fact of the
translators of this checkout.  python + one scratch worktree of the library; no cargo (the mutants are not compiled).
Usage: tools/transmut.py [--lib /repo] [--work DIR]     exit 1 if a mutation goes unnoticed or no longer applies."""
import argparse, os, shutil, subprocess, sys, tempfile
HERE = os.path.dirname(os.path.abspath(__file__))
sys.path.insert(0, HERE)
import transcheck as TC

muts_plain = [
 ("a created_at: skew field swapped", "crates/mdk-core/src/messages/validation.rs", ".saturating_add(self.config.max_future_skew_secs)", ".saturating_add(self.config.max_event_age_secs)"),
 ("a2 created_at: unsaturated add", "crates/mdk-core/src/messages/validation.rs", ".saturating_add(self.config.max_future_skew_secs)", ".wrapping_add(self.config.max_future_skew_secs)"),
 ("b h tags: several means > 2", "crates/mdk-core/src/messages/validation.rs", "if h_tags.len() > 1 {", "if h_tags.len() > 2 {"),
 ("b2 h tag length 32", "crates/mdk-core/src/messages/validation.rs", "if group_id_hex.len() != 64 {", "if group_id_hex.len() != 32 {"),
 ("c record_failure: epoch not kept", "crates/mdk-core/src/messages/error_handling.rs", "let epoch = epoch.or_else(|| existing_record.as_ref().and_then(|r| r.epoch));", "let epoch = epoch;"),
 ("d decrypt failure recorded without group", "crates/mdk-core/src/messages/process.rs", "self.record_failure(event.id, &e, mls_group_id.as_ref(), None)", "self.record_failure(event.id, &e, None, None)"),
 ("e aad: separator dropped", "crates/mdk-core/src/encrypted_media/crypto.rs", "    aad.extend_from_slice(file_hash);\n    aad.push(0x00);", "    aad.extend_from_slice(file_hash);"),
 ("f lookback literal 3", "crates/mdk-core/src/messages/decryption.rs", "                    DEFAULT_EPOCH_LOOKBACK,\n", "                    3,\n"),
 ("g fallback also on hash failure", "crates/mdk-core/src/encrypted_media/manager.rs", "            | Err(EncryptedMediaError::DecryptionFailed { .. }) => {", "            | Err(EncryptedMediaError::HashVerificationFailed)\n            | Err(EncryptedMediaError::DecryptionFailed { .. }) => {"),
 ("i app message filed under message epoch", "crates/mdk-core/src/messages/process.rs", "                                group,\n                                mls_group.epoch().as_u64(),", "                                group,\n                                msg_epoch,"),
 ("j retryable blocks too", "crates/mdk-core/src/messages/process.rs", "if is_failed || is_epoch_invalidated {", "if is_failed || is_epoch_invalidated || processed.state == message_types::ProcessedMessageState::Retryable {"),
 ("k dedup lookup by wrapper id only", "crates/mdk-core/src/welcomes.rs", ".find_welcome_by_event_id(&rumor_event_id)", ".find_welcome_by_event_id(wrapper_event_id)"),
 ("l group image: v1 key first", "crates/mdk-core/src/extension/group_image.rs", "ChaCha20Poly1305::new_from_slice(&derived_key)", "ChaCha20Poly1305::new_from_slice(image_key.as_ref())"),
 ("m ORDER BY swapped", "crates/mdk-sqlite-storage/src/groups.rs", "                     ORDER BY created_at DESC, processed_at DESC, id DESC \\\n                     LIMIT ? OFFSET ?", "                     ORDER BY processed_at DESC, created_at DESC, id DESC \\\n                     LIMIT ? OFFSET ?"),
 ("n protocol version 2.0", "crates/mdk-core/src/key_packages.rs", 'if *version_value != "1.0" {', 'if *version_value != "2.0" {'),
 ("o leak: reason built from the group id", "crates/mdk-core/src/messages/proposal.rs", 'reason: "Unsupported proposal type".to_string(),', 'reason: format!("Unsupported proposal type in {}", hex::encode(group_id.as_slice())),'),
 ("p window: past epochs constant", "crates/mdk-core/src/groups.rs", ".max_past_epochs(self.config.max_past_epochs)", ".max_past_epochs(5)"),
 ("q unchecked page add", "crates/mdk-memory-storage/src/groups.rs", "let end = offset.saturating_add(limit).min(messages.len());", "let end = (offset + limit).min(messages.len());"),
]

muts_on = [
 ("H1-p1 + retryable blocks (arm moved)", "H1-p1", "crates/mdk-core/src/messages/process.rs",
  "            message_types::ProcessedMessageState::Failed\n            | message_types::ProcessedMessageState::EpochInvalidated => {",
  "            message_types::ProcessedMessageState::Failed\n            | message_types::ProcessedMessageState::Retryable\n            | message_types::ProcessedMessageState::EpochInvalidated => {"),
 ("H1-p1 + helper drops the group", "H1-p1", "crates/mdk-core/src/messages/process.rs",
  "self.record_failure(event.id, error, mls_group_id, None)", "self.record_failure(event.id, error, None, None)"),
 ("H1-p6 + a call passes the group id as reason", "H1-p6", "crates/mdk-core/src/messages/proposal.rs",
  "                                    IGNORED_UNSUPPORTED_REASON,\n", "                                    &hex::encode(group_id.as_slice()),\n"),
 ("H2-p4 + helper renders a snapshot name", "H2-p4", "crates/mdk-sqlite-storage/src/lib.rs",
  "    Error::Database(e.to_string())\n}", "    Error::Database(format!(\"{} {}\", e, snapshot_name))\n}"),
 ("H4-p1 + join drops the hash", "H4-p1", "crates/mdk-core/src/encrypted_media/crypto.rs",
  "        scheme_label,\n        file_hash,\n        mime_type.as_bytes(),", "        scheme_label,\n        mime_type.as_bytes(),"),
 ("H4-p1 + other scheme version accepted", "H4-p1", "crates/mdk-core/src/encrypted_media/crypto.rs",
  "matches!(version, SCHEME_VERSION_V2)", "matches!(version, SCHEME_VERSION_V2 | \"mip04-v1\")"),
 ("H2-p2 + order consts swapped", "H2-p2", "crates/mdk-sqlite-storage/src/groups.rs",
  "MessageSortOrder::CreatedAtFirst => ORDER_CREATED_AT_FIRST,", "MessageSortOrder::CreatedAtFirst => ORDER_PROCESSED_AT_FIRST,"),
 ("H3-p3 + helper logs the wrapper's group id", "H3-p3", "crates/mdk-core/src/welcomes.rs",
  "            \"Error processing welcome: {}\",\n            error_string\n        );\n\n        Ok(Error::Welcome(error_string))", "            \"Error processing welcome: {} {:?}\",\n            error_string, welcome_event.tags\n        );\n\n        Ok(Error::Welcome(error_string))"),
 ("H4-p3 + helper order swapped (v1 first)", "H4-p3", "crates/mdk-core/src/extension/group_image.rs",
  "let v2_cipher = decryption_cipher(&derived_key)?;", "let v2_cipher = decryption_cipher(image_key.as_ref())?;"),
 ("H1-p5 + several means > 1 extra", "H1-p5", "crates/mdk-core/src/messages/validation.rs",
  "if extra_h_tags > 0 {", "if extra_h_tags > 1 {"),
 ("H1-p2 + window one too long", "H1-p2", "crates/mdk-core/src/messages/decryption.rs",
  "let oldest_epoch: u64 = newest_epoch.saturating_sub(max_epoch_lookback.saturating_sub(1));", "let oldest_epoch: u64 = newest_epoch.saturating_sub(max_epoch_lookback);"),
]


def main():
    ap = argparse.ArgumentParser()
    ap.add_argument("--lib", default=os.environ.get("VERIF_REPO_SRC", "/repo"))
    ap.add_argument("--work", default=os.path.join(tempfile.gettempdir(), "transmut"))
    a = ap.parse_args()
    R, T = os.path.join(a.work, "repo"), os.path.join(a.work, "v")
    os.makedirs(a.work, exist_ok=True)
    def sh(*c): return subprocess.run(c, capture_output=True, text=True)
    if not os.path.isdir(R):
        r = sh("git", "-C", a.lib, "worktree", "add", "-q", "--detach", R, "HEAD")
        if r.returncode: print(r.stderr, file=sys.stderr); return 2
    shutil.rmtree(T, ignore_errors=True); os.makedirs(T + "/lean/MdkVerif"); shutil.copytree(HERE, T + "/tools", ignore=shutil.ignore_patterns("__pycache__"))
    def reset(): sh("git", "-C", R, "checkout", "-q", "--", "."); sh("git", "-C", R, "clean", "-fdq")
    def facts(): return TC.run_translators(T + "/tools", R)
    reset(); base = facts()
    H = os.path.join(HERE, "..", "seeded-harmless")
    bad = 0
    for name, h, f, old, new in [(n, None, f, o, w) for n, f, o, w in muts_plain] + muts_on:
        reset()
        if h and sh("git", "-C", R, "apply", os.path.join(H, h, "patch.diff")).returncode:
            print("!! harmless patch does not apply:", h); bad += 1; continue
        p = os.path.join(R, f); s = open(p).read()
        if old not in s:
            print("!! mutation does not apply:", name); bad += 1; continue
        open(p, "w").write(s.replace(old, new, 1))
        ch, _ = TC.diff_facts(base, facts())
        print(f"{name:50} -> {', '.join(c.replace('crates/', '') for c in sorted(ch)) or 'NOTHING CHANGED'}")
        bad += 0 if ch else 1
    reset()
    sh("git", "-C", a.lib, "worktree", "remove", "--force", R)
    print(f"{'OK' if not bad else 'FAIL'}: {bad} mutation(s) unnoticed")
    return 1 if bad else 0

if __name__ == "__main__":
    sys.exit(main())
