#!/usr/bin/env python3
"""C14 translator part (DESIGN §2.2b / §6 C14): re-extracts from the CURRENT /repo source

  (a) every `tracing::{trace,debug,info,warn,error}!` call site in non-test code of the five crates
      (file, line, level, target, format string, and a CLASS for every field / format argument),
  (b) every `#[error("…")]` variant (class of every interpolated field, by declared field type) and every
      non-test construction site of an error variant / failure reason whose payload is free text
      (`format!`, `.to_string()`, literals), with the class of every interpolated argument,
  (c) every manual `Debug`/`Display` impl and every `#[derive(Debug)]` type holding a sensitive field,
      with whether the sensitive fields are redacted,

and writes them as Lean tables to lean/MdkVerif/GeneratedLeak.lean.  Classification is by
expression / type / field-name patterns and is CONSERVATIVE: an expression no rule recognises gets the
class `unknown`, which the Lean model treats as possibly-sensitive, so `sites_clean` fails until the
site is inspected and given a rule (the rule set below is the trusted part of this extractor).
"""
import os, re, sys, json

REPO = os.environ.get("VERIF_REPO", "/repo")
HERE = os.path.dirname(os.path.abspath(__file__))
OUT = os.path.normpath(os.path.join(HERE, "..", "lean", "MdkVerif", "GeneratedLeak.lean"))
CRATES = ["mdk-core", "mdk-memory-storage", "mdk-sqlite-storage", "mdk-storage-traits", "mdk-uniffi"]
LEVELS = ["trace", "debug", "info", "warn", "error"]

# the class lattice; order = constructor order of `Cls` in Model/Leak.lean
CLASSES = ["const", "count", "number", "errOpaque", "errMdk", "text", "eventId", "pubkey", "publicMeta",
           "redacted", "groupId", "nostrGroupId", "secret", "snapshotName", "unknown"]
SENSITIVE = {"groupId", "nostrGroupId", "secret", "snapshotName", "unknown"}


class Missing(Exception):
    pass


# ------------------------------------------------------------------------------------------------
# lexical helpers (positions are kept: comments / test modules are blanked, never removed, so that
# line numbers stay those of the file on disk)

def blank_comments(src):
    out, i, n = list(src), 0, len(src)
    def blank(a, b):
        for k in range(a, b):
            if out[k] != "\n":
                out[k] = " "
    while i < n:
        c = src[i]
        if c == '"':
            j = i + 1
            while j < n and src[j] != '"':
                j += 2 if src[j] == "\\" else 1
            i = j + 1
        elif c == "r" and re.match(r'r#*"', src[i:i + 6]) and (i == 0 or not (src[i - 1].isalnum() or src[i - 1] == "_")):
            m = re.match(r'r(#*)"', src[i:i + 6])
            end = src.find('"' + m.group(1), i + len(m.group(0)))
            i = n if end < 0 else end + 1 + len(m.group(1))
        elif c == "'":
            # char literal or lifetime
            m = re.match(r"'(\\.|[^\\'])'", src[i:i + 4])
            i += len(m.group(0)) if m else 1
        elif src.startswith("//", i):
            j = src.find("\n", i)
            j = n if j < 0 else j
            blank(i, j); i = j
        elif src.startswith("/*", i):
            depth, j = 1, i + 2
            while j < n and depth:
                if src.startswith("/*", j): depth += 1; j += 2
                elif src.startswith("*/", j): depth -= 1; j += 2
                else: j += 1
            blank(i, j); i = j
        else:
            i += 1
    return "".join(out)


def match_close(src, i, open_c="(", close_c=")"):
    """index of the bracket closing the one at src[i]; strings / chars skipped"""
    assert src[i] == open_c
    depth, j, n = 0, i, len(src)
    while j < n:
        c = src[j]
        if c == '"':
            j += 1
            while j < n and src[j] != '"':
                j += 2 if src[j] == "\\" else 1
        elif c == "'":
            m = re.match(r"'(\\.|[^\\'])'", src[j:j + 4])
            if m:
                j += len(m.group(0)) - 1
        elif c == open_c:
            depth += 1
        elif c == close_c:
            depth -= 1
            if depth == 0:
                return j
        j += 1
    raise Missing("unbalanced bracket")


def blank_tests(src):
    """blank `#[cfg(test)]` items (mod … { } or fn … { }), keeping line structure"""
    out = src
    pos = 0
    while True:
        m = re.compile(r"#\[cfg\((?:all\()?test\b[^\]]*\]").search(out, pos)
        if not m:
            break
        b = out.find("{", m.end())
        semi = out.find(";", m.end())
        if b < 0 or (0 <= semi < b):
            # `#[cfg(test)] mod tests;` or a use item: blank up to the semicolon
            e = semi if semi >= 0 else m.end()
        else:
            e = match_close(out, b, "{", "}")
        seg = re.sub(r"[^\n]", " ", out[m.start():e + 1])
        out = out[:m.start()] + seg + out[e + 1:]
        pos = e + 1
    return out


def split_top(s, sep=","):
    """split at top-level separators (outside brackets, strings, closures' bodies included as nested)"""
    parts, depth, i, n, cur = [], 0, 0, len(s), []
    while i < n:
        c = s[i]
        if c == '"':
            j = i + 1
            while j < n and s[j] != '"':
                j += 2 if s[j] == "\\" else 1
            cur.append(s[i:j + 1]); i = j + 1; continue
        if c == "'":
            m = re.match(r"'(\\.|[^\\'])'", s[i:i + 4])
            if m:
                cur.append(m.group(0)); i += len(m.group(0)); continue
        if c in "([{":
            depth += 1
        elif c in ")]}":
            depth -= 1
        elif c == "<" or c == ">":
            pass
        if c == sep and depth == 0:
            parts.append("".join(cur)); cur = []
        else:
            cur.append(c)
        i += 1
    if "".join(cur).strip():
        parts.append("".join(cur))
    return [p.strip() for p in parts]


def str_lit(tok):
    """value of a Rust string literal token (or None)"""
    tok = tok.strip()
    m = re.fullmatch(r'"((?:[^"\\]|\\.)*)"', tok, re.S)
    if not m:
        return None
    s = m.group(1)
    s = re.sub(r"\\\n\s*", "", s)
    return s


def placeholders(fmt):
    """[(name_or_index_or_'', spec)] of a format string, `{{`/`}}` skipped"""
    res, i, n, auto = [], 0, len(fmt), 0
    while i < n:
        if fmt.startswith("{{", i) or fmt.startswith("}}", i):
            i += 2; continue
        if fmt[i] == "{":
            j = fmt.find("}", i)
            if j < 0:
                break
            inner = fmt[i + 1:j]
            name, _, spec = inner.partition(":")
            name = name.strip()
            if name == "":
                name = str(auto); auto += 1
            res.append((name, spec.strip()))
            i = j + 1
        else:
            i += 1
    return res


def line_of(src, pos):
    return src.count("\n", 0, pos) + 1


def enclosing_fn(src, pos):
    """(start, header, body_start, name) of the innermost `fn` item containing pos (by brace matching)"""
    best = None
    for m in re.finditer(r"\bfn\s+(\w+)", src[:pos]):
        j, depth, b = m.end(), 0, -1
        n = len(src)
        while j < n:
            c = src[j]
            if c in "([": depth += 1
            elif c in ")]": depth -= 1
            elif c == "{" and depth == 0:
                b = j; break
            elif c == ";" and depth == 0:
                break
            j += 1
        if b < 0:
            continue
        try:
            e = match_close(src, b, "{", "}")
        except Missing:
            continue
        if b < pos < e:
            best = (m.start(), src[m.start():b], b, m.group(1))
    return best


# ------------------------------------------------------------------------------------------------
# source walk

_SRC_CACHE = {}

def sources(repo):
    """[(crate, rel_to_repo, rel_to_src, blanked_source)] of all non-test source files"""
    if repo in _SRC_CACHE:
        return _SRC_CACHE[repo]
    res = []
    for crate in CRATES:
        root = os.path.join(repo, "crates", crate, "src")
        if not os.path.isdir(root):
            raise Missing(f"crate:{crate}")
        for d, _, files in sorted(os.walk(root)):
            for f in sorted(files):
                if not f.endswith(".rs"):
                    continue
                path = os.path.join(d, f)
                rel_src = os.path.relpath(path, root)
                if re.search(r"(^|/)(tests?|test_util|benches)(/|\.rs$)", rel_src):
                    continue
                raw = open(path, encoding="utf-8").read()
                res.append((crate, os.path.relpath(path, repo), rel_src, blank_tests(blank_comments(raw))))
    _SRC_CACHE[repo] = res
    return res


_RET_CACHE = {}

def fn_return_types(repo, name):
    """set of declared return types of every non-test `fn name` in the five crates"""
    key = (repo, name)
    if key not in _RET_CACHE:
        tys = set()
        for _, _, _, src in sources(repo):
            for m in re.finditer(r"\bfn\s+" + re.escape(name) + r"\s*(<[^>]*>)?\s*\(", src):
                try:
                    cl = match_close(src, m.end() - 1)
                except Missing:
                    continue
                tail = src[cl + 1:cl + 300]
                r = re.match(r"\s*->\s*([^{;]+?)\s*(where\b|\{|;)", tail, re.S)
                tys.add(re.sub(r"\s+", " ", r.group(1)) if r else "()")
        _RET_CACHE[key] = tys
    return _RET_CACHE[key]


# ------------------------------------------------------------------------------------------------
# classification rules (TRUSTED; the rule list is copied into evidence/C14.json)

NUM_T = r"(usize|u8|u16|u32|u64|u128|i8|i16|i32|i64|isize|f32|f64|bool)"
TYPE_CLASS = [
    # declared type pattern → class of a value of that type rendered with {} or {:?}
    (r"^&?(mut )?(Option<)?&?" + NUM_T + r">?$", "number", "integer / bool type"),
    (r"^&?(mut )?(Option<)?&?(mdk_storage_traits::)?GroupId>?$", "groupId", "GroupId derives Debug and prints its bytes"),
    (r"^&?(mut )?(Option<)?&?(nostr::)?EventId>?$", "eventId", "Nostr event id"),
    (r"^&?(mut )?(Option<)?&?(nostr::)?PublicKey>?$", "pubkey", "Nostr public key"),
    (r"^&?(mut )?(Option<)?&?(nostr::)?(Kind|Timestamp)>?$", "number", "event kind / timestamp"),
    (r"^&?(mut )?(Option<)?&?(LeafNodeIndex|Epoch|GroupEpoch)>?$", "number", "MLS leaf index / epoch number"),
    (r"^&?(mut )?(Option<)?&?Secret<.*>$", "redacted", "Secret<T> has a redacting Debug and no Display"),
    (r"^&?(mut )?&'static str$", "const", "&'static str"),
    (r"^&?(mut )?(crate::)?(error::)?Error$", "errMdk", "mdk Error enum (see errorFormats)"),
]
SECRET_NAMES = r"(exporter_secret|secret|seed|image_key|image_nonce|image_seed|image_upload_seed|upload_key|private_key|secret_key|db_key|nsec|key_bytes|raw_key)"
NAME_RULES = [
    # regex searched in the whole (wrapper-stripped) expression — conservative: first match wins
    (r"\b" + SECRET_NAMES + r"\b", "secret", "name mentions key material"),
    (r"\bnostr_group_id\b", "nostrGroupId", "name mentions nostr_group_id"),
    (r"\b(mls_group_id|group_id|gid)\b", "groupId", "name mentions a group id"),
    (r"\bsnapshot_name\b", "snapshotName", "snapshot names embed the group id hex (epoch_snapshots.rs create_snapshot)"),
]
PUBLIC_NAME_RULES = [
    (r"(^|\.|\b)(\w*_hash|hash|expected|actual)$", "publicMeta", "SHA-256 of an encrypted blob (its public Blossom address)"),
    (r"(^|\.|\b)(path|file_path|db_path|dir|directory)$", "publicMeta", "filesystem path"),
    (r"(^|\.|\b)(name|description|group_name|group_description)$", "publicMeta", "group name / description: user content, not one of the five protected kinds"),
    (r"(^|\.|\b)failure_reason$", "text", "stored failure reason (free text built at an errorCtors site)"),
    (r"(^|\.|\b)(event_id|message_event_id|wrapper_event_id|welcome_event_id|commit_event_id|applied_commit_id|commit_id|msg_id|rumor_id)$", "eventId", "event id field"),
    (r"^(\w+\.)*(event|rumor|message|msg|evolution_event|welcome_event)\.id$", "eventId", "id of an event"),
    (r"(^|\.|\b)(pubkey|public_key|author|signer|sender_pubkey|rumor_pubkey|mls_sender_pubkey|credential_identity|event_signer|current_identity|original_identity|new_identity)$", "pubkey", "public key / credential identity"),
    (r"(^|\.|\b)(idx|max_\w+|min_\w+|mode|kind|created_at|processed_at|timestamp|version|mime_type|media_type|content_type|proposal_type|state|width|height|size|max_size|actual_size|index|leaf_index|count|attempt|retention_count|limit|offset|epoch|msg_epoch|current_epoch|applied_commit_ts|expected|received|length|max_length|total_pixels|max_pixels|estimated_mb|max_mb|max_dimension|claimed|detected|field_name)$", "number", "public metadata field (number / enum / mime label)"),
]
# residual sites inspected by hand: (file suffix, enclosing fn, expression, guard regex that must still
# occur in the function, class, justification)
SITE_RULES = [
    ("mdk-core/src/key_packages.rs", "parse_serialized_key_package", "format", r"let \(\w+, format\)\s*=\s*decode_content\(", "const",
     "second component of util::decode_content: a &'static str format label"),
    ("mdk-core/src/welcomes.rs", None, "format", r"match decode_content\([^)]*\)\s*\{\s*Ok\(\(\w+, format\)\)", "const",
     "second component of util::decode_content: a &'static str format label"),
    ("mdk-core/src/lib.rs", None, "pruned_count", r"Ok\(pruned_count\)\s*=\s*self\.storage\.prune_expired_snapshots|prune_expired_snapshots\([^()]*\)\s*\{\s*Ok\(pruned_count\)", "count",
     "number of pruned snapshots (usize)"),
    ("mdk-core/src/lib.rs", None, "self.config.snapshot_ttl_seconds", r"snapshot_ttl_seconds", "number", "u64 configuration value"),
    ("mdk-sqlite-storage/src/migrations.rs", "run_migrations", "migration.name()", r"report\.applied_migrations\(\)", "const",
     "name of an embedded refinery migration file"),
    ("mdk-core/src/messages/validation.rs", "validate_proposal_identity", "sender_leaf_index", r"member_at\(sender_leaf_index\)", "number",
     "openmls LeafNodeIndex"),
]
SITE_RULES += [
    ("mdk-sqlite-storage/src/migrations.rs", "run_migrations", "migration.version()", r"report\.applied_migrations\(\)", "number",
     "version number of an embedded refinery migration"),
    ("mdk-sqlite-storage/src/permissions.rs", "verify_permissions", "mode & 0o777", r"permissions\(\)\.mode\(\)", "number", "unix mode bits"),
    ("mdk-uniffi/src/lib.rs", "vec_to_array", "N", r"const N: usize", "const", "const generic length"),
    ("mdk-core/src/groups.rs", "validate_admin_update", "admin", r"for admin in new_admins", "pubkey", "PublicKey of a proposed admin"),
    ("mdk-core/src/messages/validation.rs", "validate_created_at", "now.as_secs().saturating_sub(self.config.max_event_age_secs)", r"max_event_age_secs", "number", "timestamp bound"),
    ("mdk-core/src/key_packages.rs", None, "DEFAULT_CIPHERSUITE.to_nostr_tag()", r"DEFAULT_CIPHERSUITE", "const", "tag spelling of the fixed ciphersuite"),
    ("mdk-core/src/key_packages.rs", "validate_extensions_tag", "required_ext.to_nostr_tag()", r"REQUIRED_EXTENSIONS|required_ext", "const", "tag spelling of a required extension constant"),
]
# function-scope rules: (file suffix, fn regex, expression regex, class, justification).  They cover strings that echo
# peer-/caller-supplied PUBLIC input back in an error text (tag values of public key-package events, imeta fields of
# the message being parsed, MIME labels, enum labels); none of them is one of the protected values by construction.
FN_RULES = [
    ("mdk-core/src/key_packages.rs", r"^(validate_\w+|parse_serialized_key_package)$", r"^((values|tag(\.as_slice\(\))?)(\s*\.get\(1\))?|ext_value|relay_url_str|name|label)$", "publicMeta",
     "tag name / tag value of a public key-package event (kind 443), echoed in the validation error"),
    ("mdk-core/src/key_packages.rs", r"^validate_extensions_tag$", r"^match u16::from\(\*required_ext\) \{.*$", "const", "literal extension names"),
    ("mdk-core/src/encrypted_media/manager.rs", r"^parse_imeta_tag$", r"^parts\[1\]$", "publicMeta",
     "MIME / filename field of the imeta tag being parsed (only the `m` and `filename` arms echo it)"),
    ("mdk-core/src/encrypted_media/manager.rs", r"^parse_imeta_tag$", r"^imeta_tag$", "publicMeta",
     "the imeta tag being parsed (a part of it is echoed only by the `m` and `filename` arms)"),
    ("mdk-core/src/encrypted_media/manager.rs", r"^parse_imeta_tag$", r"^version$", "publicMeta", "imeta version label"),
    ("mdk-core/src/media_processing/validation.rs", r".*", r"^(normalized\.split\(';'\)\.next\(\)|img_reader \.format\(\)|validate_(group_image_)?mime_type\(claimed_mime_type\)\?|detect_mime_type_from_data\(data\)\?)$", "publicMeta",
     "MIME type label (claimed or detected)"),
    ("mdk-storage-traits/src/", r"^from_str$", r"^s$", "publicMeta", "unrecognised state label passed to FromStr"),
    ("mdk-core/src/util.rs", r"^decode_content$", r"^label$", "const", "caller-side literal naming the decoded object"),
    ("mdk-uniffi/src/lib.rs", r"^parse_json$", r"^context$", "const", "caller-side literal naming the JSON argument"),
    ("mdk-uniffi/src/lib.rs", r"^parse_message_sort_order$", r"^other$", "publicMeta", "unrecognised sort-order label"),
    ("mdk-sqlite-storage/src/lib.rs", r"^new$", r"^(service_id|db_key_id)$", "publicMeta", "keyring entry labels chosen by the host application"),
    ("mdk-sqlite-storage/src/keyring.rs", r".*", r"^(service_id|db_key_id)$", "publicMeta", "keyring entry labels chosen by the host application"),
]
WRAPPER_METHODS = r"(to_string|to_owned|clone|cloned|as_str|as_ref|as_slice|as_bytes|to_vec|into|to_hex|to_lowercase|to_uppercase|trim|display|to_bech32|unwrap_or_default|as_deref|copied|iter|as_u64|as_secs|to_string_lossy|display)"
WRAPPER_FUNCS = r"(hex::encode|hex::encode_upper|String::from|String::from_utf8_lossy|Some|Ok|Box::new|BASE64\.encode|format_args!|std::str::from_utf8|str::from_utf8)"
RULES_USED = {}


def used(rule):
    RULES_USED[rule] = RULES_USED.get(rule, 0) + 1


def strip_expr(e):
    e = e.strip()
    while True:
        m = re.match(r"^(&\s*(mut\s+)?|\*)\s*(.*)$", e, re.S)
        if m and m.group(3) != e:
            e = m.group(3).strip(); continue
        if e.startswith("(") and e.endswith(")"):
            try:
                if match_close(e, 0) == len(e) - 1:
                    e = e[1:-1].strip(); continue
            except Missing:
                pass
        break
    return re.sub(r"\s+", " ", e)


def chain_start(src, end):
    """start of the postfix expression (`a.b(c)?.d[e]`, `&x.y`, `Path::f(a).g()`) that ends just before src[end]"""
    j = end - 1
    while j >= 0:
        c = src[j]
        if c.isspace():
            # whitespace inside a method chain (`foo\n    .bar()`) continues it; otherwise the expression starts here
            k = j
            while k >= 0 and src[k].isspace():
                k -= 1
            nxt = src[j + 1:end + 1].lstrip()[:1]
            if k >= 0 and (nxt == "." or src[k] == "."):
                j = k; continue
            break
        if c in ")]":
            depth = 0
            while j >= 0:
                if src[j] in ")]": depth += 1
                elif src[j] in "([":
                    depth -= 1
                    if depth == 0: break
                elif src[j] == '"':
                    j -= 1
                    while j > 0 and not (src[j] == '"' and src[j - 1] != "\\"):
                        j -= 1
                j -= 1
            j -= 1; continue
        if c.isalnum() or c in "_.?:":
            j -= 1; continue
        if c in "&*" :
            j -= 1; continue
        break
    return j + 1


def enclosing_match_scrutinee(head, pos):
    """the scrutinee of the innermost `match … {` whose block contains position pos of head (or None)"""
    depth, j = 0, pos - 1
    while j >= 0:
        c = head[j]
        if c == "}": depth += 1
        elif c == "{":
            if depth == 0:
                m = re.search(r"\bmatch\s+((?:[^{};]|\{[^{}]*\})+?)\s*$", head[:j])
                if m:
                    return m.group(1).strip()
                # a block that is not a match block (an arm body, an if): keep looking outwards
            else:
                depth -= 1
        elif c == '"':
            j -= 1
            while j > 0 and not (head[j] == '"' and head[j - 1] != "\\"):
                j -= 1
        j -= 1
    return None


ELEMENT_ADAPTORS = r"(map|for_each|find|find_map|filter|filter_map|all|any|and_then|is_none_or|is_some_and|inspect|flat_map|position|take_while|skip_while|max_by_key|min_by_key)"
ERR_ADAPTORS = r"(map_err|unwrap_or_else|or_else|inspect_err)"


def pattern_bindings(fn_src, head, ident):
    """[(position, 'from', expression)] for every pattern in `head` that binds `ident` to a PART of the value of an
    expression: `let PAT = E [else]`, `if let PAT = E`, `while let PAT = E`, `for PAT in E`, a match arm `PAT =>` (E = the
    scrutinee), a closure parameter of an element adaptor (`E.map(|PAT| …)`: E = the receiver).  `Err(ident)` patterns and
    closures of error adaptors are left to the `err` rule."""
    I = re.escape(ident)
    res = []
    in_pat = r"(?:[^=;{}|]*[(\[{,&\s])?(?:ref\s+|mut\s+)*" + I + r"(?![\w])(?:\s*@[^,)]*)?(?:[\s,)\]}][^=;{|]*)?"
    # let / if let / while let with a destructuring pattern (a plain `let ident =` is handled by the `let` rule)
    for m in re.finditer(r"\b(?:let|if\s+let|while\s+let)\s+(" + in_pat + r")=(?!=)\s*", head):
        pat = m.group(1).strip()
        if re.fullmatch(r"(mut\s+)?" + I + r"(\s*:[^=]*)?", pat) or re.search(r"\bErr\s*\(\s*(ref\s+)?" + I + r"\s*\)", pat):
            continue
        if not re.search(r"[(\[{]", pat):
            continue
        j, depth = m.end(), 0
        while j < len(fn_src):
            c = fn_src[j]
            if c == '"':
                j += 1
                while j < len(fn_src) and fn_src[j] != '"':
                    j += 2 if fn_src[j] == "\\" else 1
            elif c in "([": depth += 1
            elif c in ")]": depth -= 1
            elif depth == 0 and (c in ";{" or fn_src.startswith("else", j) and fn_src[j - 1].isspace()): break
            j += 1
        res.append((m.start(), "from", re.sub(r"\s+", " ", fn_src[m.end():j].strip())))
    for m in re.finditer(r"\bfor\s+(" + in_pat + r")\s+in\s+", head):
        j, depth = m.end(), 0
        while j < len(fn_src):
            c = fn_src[j]
            if c in "([": depth += 1
            elif c in ")]": depth -= 1
            elif c == "{" and depth == 0: break
            j += 1
        res.append((m.start(), "from", re.sub(r"\s+", " ", fn_src[m.end():j].strip())))
    # match arms: `ident =>` (the whole scrutinee) or `Some(ident) =>`, `(a, ident) =>`, `Variant { ident, .. } =>` (a part of it)
    use_ = r"(?<![\w.])" + I + r"(?![\w])"
    arm_pat = (r"(?:[A-Za-z_][\w:]*\s*)?(?:\((?:[^=;{}]|\{[^{}]*\})*?" + use_ + r"(?:[^=;{}]|\{[^{}]*\})*?\)"
               r"|\{[^=;{}()]*?" + use_ + r"[^=;{}()]*?\}|\[[^=;{}]*?" + use_ + r"[^=;{}]*?\])")
    for m in re.finditer(r"(?:(?<=[{},(|\s])|^)(" + arm_pat + r"|" + I + r")\s*(?:if\b[^=>]*(?:=[^>][^=>]*)*)?=>", head):
        pat = m.group(1)
        if re.search(r"\bErr\s*\(\s*(ref\s+)?" + I + r"\s*\)", pat):
            continue
        if pat != ident and re.search(r"(^|_)(e|err|error|other)$", ident) and re.match(r"[A-Z]\w*(::[A-Z]\w*)+\s*\(", pat):
            continue                                  # `Error::Variant(e) =>`: the `err` rule
        scrut = enclosing_match_scrutinee(head, m.start())
        if scrut:
            res.append((m.start(), "from", re.sub(r"\s+", " ", scrut)))
    # closure parameters of element adaptors
    for m in re.finditer(r"\.\s*" + ELEMENT_ADAPTORS + r"\s*(?:::\s*<[^>]*>\s*)?\(\s*(?:move\s+)?\|([^|]*)\|", head):
        if not re.search(r"(?<![\w.])" + I + r"(?![\w])", re.sub(r":[^,|]*", "", m.group(2))):
            continue
        st = chain_start(head, m.start())
        recv = head[st:m.start()].strip()
        if recv:
            res.append((m.start(), "from", re.sub(r"\s+", " ", recv)))
    return res


def local_binding(fn_src, ident, before):
    """how a local identifier was introduced, from the text of the enclosing function before the use
    → (kind, payload, position of the binding in fn_src)"""
    head = fn_src[:before]
    I = re.escape(ident)
    cands = []
    for pos_, kind_, expr_ in pattern_bindings(fn_src, head, ident):
        if expr_ and not re.fullmatch(r"(?:&\s*)?(?:mut\s+)?" + I, expr_):
            cands.append((pos_, "let", expr_))
    for m in re.finditer(r"(?<![\w\.])" + I + r"\s*:\s*([^,=;)\n{|]+)", head):
        t = m.group(1).strip()
        if t and re.match(r"^[&A-Za-z_\[(]", t) and not head[:m.start()].rstrip().endswith("{"):
            cands.append((m.start(), "type", re.sub(r"\s+", " ", t)))
        elif t and re.match(r"^[&A-Za-z_\[(]", t):
            # struct-literal field `name: expr` or typed binding – only accept when it looks like a type
            if re.match(r"^&?(mut )?([A-Z]\w*(<.*>)?|" + NUM_T + r"|&?'static str|str|\[u8.*\])$", t):
                cands.append((m.start(), "type", re.sub(r"\s+", " ", t)))
    if re.search(r"(^|_)(e|err|error|other)$", ident):
        for m in re.finditer(r"\b[A-Z]\w*(?:::[A-Z]\w*)+\s*\(\s*" + I + r"\s*\)[\s)]*(=>|\|)", head):
            cands.append((m.start(), "err", None))
        for m in re.finditer(r"(?<![\w\.])" + I + r"\s*=>", head):
            if not enclosing_match_scrutinee(head, m.start()):
                cands.append((m.start(), "err", None))
    for m in re.finditer(r"\bErr\(\s*(ref\s+)?" + I + r"\s*\)", head):
        cands.append((m.start(), "err", None))
    for m in re.finditer(r"\|\s*" + I + r"\s*(:\s*([^|]+))?\|", head):
        if m.group(2):
            cands.append((m.start(), "type", re.sub(r"\s+", " ", m.group(2).strip())))
        else:
            pre = head[:m.start()].rstrip()
            if re.search(r"(map_err|unwrap_or_else|or_else|inspect_err)\($", pre):
                cands.append((m.start(), "err", None))
            elif not any(c_[0] == m.start() or abs(c_[0] - m.start()) < 40 and c_[1] == "let" for c_ in cands):
                cands.append((m.start(), "closure", None))
    for m in re.finditer(r"\blet\s+(mut\s+)?" + I + r"\s*(:\s*[^=;]+)?=\s*", head):
        # initialiser up to the terminating `;` at nesting depth 0
        j, depth = m.end(), 0
        while j < len(fn_src):
            c = fn_src[j]
            if c == '"':
                j += 1
                while j < len(fn_src) and fn_src[j] != '"':
                    j += 2 if fn_src[j] == "\\" else 1
            elif c in "([{": depth += 1
            elif c in ")]}": depth -= 1
            elif c == ";" and depth == 0: break
            j += 1
        if m.group(2) and m.group(2).strip(": ").strip():
            cands.append((m.start(), "type", re.sub(r"\s+", " ", m.group(2).strip(": ").strip())))
        else:
            cands.append((m.start(), "let", re.sub(r"\s+", " ", fn_src[m.end():j].strip())))
    if not cands:
        return None
    cands.sort(key=lambda c_: (c_[0], 0 if c_[1] == "closure" else 1))
    return cands[-1][1:] + (cands[-1][0],)


def type_class(t, ctx):
    t = re.sub(r"\s+", " ", t.strip())
    m = re.match(r"^&?(mut )?(Option|Vec|BTreeSet|HashSet|Box|Arc)<(.*)>$", t)
    if m and not re.match(r"^&?(mut )?(Option<)?&?Secret<", t):
        cls, why = type_class(m.group(3), ctx)
        if cls in ("number", "eventId", "pubkey", "publicMeta", "const", "redacted", "groupId"):
            return cls, f"container of {m.group(3)}: {why}"
    m = re.match(r"^&?(mut )?\[\s*([^;\]]+?)\s*(;[^\]]*)?\]$", t)
    if m:
        # a slice / array has the class of its elements — except byte (integer) arrays, which are ids / keys, not numbers
        cls, why = type_class(m.group(2), ctx)
        if cls in ("eventId", "pubkey", "publicMeta", "const", "redacted", "groupId"):
            return cls, f"slice of {m.group(2)}: {why}"
    if re.match(r"^&?(mut )?(nostr::)?RelayUrl$", t):
        used("type RelayUrl → publicMeta (relay URLs are not one of the protected kinds)")
        return "publicMeta", "relay URL"
    for pat, cls, why in TYPE_CLASS:
        if re.match(pat, t):
            used(f"type {pat} → {cls}: {why}")
            return cls, f"declared type {t}"
    base = re.sub(r"^&?(mut )?", "", t)
    base_last = re.sub(r"<.*$", "", base).split("::")[-1]
    enums = ctx.get("enums", {})
    if base_last in enums and base != "Error":
        if enums[base_last]["fieldless"]:
            used("type: field-less enum of the mdk crates → const")
            return "const", f"field-less enum {base_last}"
        used("type: error / rendered enum of the mdk crates → errMdk")
        return "errMdk", f"mdk enum {base_last} (in errorFormats)"
    if re.search(r"Error\b", base_last) or re.fullmatch(r"(String)?", base) and False:
        used("type: third-party *Error → errOpaque (TRUSTED clean)")
        return "errOpaque", f"third-party error type {t}"
    if re.fullmatch(r"[A-Z]", base) or re.match(r"^(impl|dyn) .*(Display|Error)", base) or base.startswith("Box<dyn"):
        used("type: generic parameter / dyn Error bound to a foreign error → errOpaque (TRUSTED clean)")
        return "errOpaque", f"generic error parameter {t}"
    if re.match(r"^(std::path::)?(Path|PathBuf)$", base) or base.startswith("impl AsRef<Path>") or base == "P":
        used("type: filesystem path → publicMeta")
        return "publicMeta", "filesystem path"
    if base in ("String", "&str", "str", "Cow<'_, str>", "Cow<'static, str>", "Box<str>"):
        return "text?", f"string type {t}"
    return "unknown", f"type {t} has no rule"


def fn_header_end(fn_src):
    """index of the `{` that opens the body of the function whose text starts fn_src"""
    depth = 0
    for j, c in enumerate(fn_src):
        if c in "([": depth += 1
        elif c in ")]": depth -= 1
        elif c == "{" and depth == 0: return j
    return len(fn_src)


def callable_only_in_crate(src, fn_start):
    """true for a fn that is not `pub` (private, pub(crate), pub(super), pub(in …)) and not a method of a trait impl /
    trait declaration: every caller is in this crate's source"""
    line_start = src.rfind("\n", 0, fn_start) + 1
    prefix = src[max(line_start - 200, 0):fn_start]
    vis = re.search(r"\bpub(\s*\([^)]*\))?\s+(?:(?:const|async|unsafe|extern\s+\"[^\"]*\")\s+)*$", prefix)
    if vis and not vis.group(1):
        return False
    # the innermost enclosing `impl … {` / `trait … {`
    depth, j = 0, fn_start - 1
    while j >= 0:
        c = src[j]
        if c == "}": depth += 1
        elif c == "{":
            if depth == 0:
                head = src[max(0, src.rfind("}", 0, j), src.rfind(";", 0, j)) + 1:j]
                if re.search(r"\btrait\s+\w+", head):
                    return False
                if re.search(r"\bimpl\b", head):
                    return not re.search(r"\bfor\s+[\w:<]", re.sub(r"<[^<>]*>", "", head))
                return True
            depth -= 1
        j -= 1
    return True


def through_call_sites(ident, lb, ctx, depth):
    """leaves for a PARAMETER `ident` of the enclosing function, from the arguments at its call sites in the crate
    (direct calls `f(..)`, `self.f(..)`, `Self::f(..)`, `path::f(..)` and point-free uses `.map_err(f)`); None when
    `ident` is not a parameter, the function can be called from outside the crate, or no call site is found."""
    src, fn_start, fn_name, fn_src = ctx.get("src"), ctx.get("fn_start"), ctx.get("fn"), ctx.get("fn_src")
    if src is None or fn_start is None or not fn_name or not fn_src or depth > 4:
        return None
    hdr_end = fn_header_end(fn_src)
    if len(lb) < 3 or lb[2] >= hdr_end:
        return None
    if not callable_only_in_crate(src, fn_start):
        return None
    if fn_name in ctx.get("visiting", ()):
        return None
    po = fn_src.find("(", fn_src.find(fn_name))
    pc = match_close(fn_src, po)
    params = [re.sub(r"#\[[^\]]*\]\s*", "", p_).strip() for p_ in split_generic_aware(fn_src[po + 1:pc])]
    has_self = bool(params and re.fullmatch(r"&?\s*('\w+\s+)?(mut\s+)?self(\s*:.*)?", params[0], re.S))
    names = [re.match(r"(?:mut\s+)?(\w+)\s*:", p_).group(1) if re.match(r"(?:mut\s+)?(\w+)\s*:", p_) else None for p_ in params[1 if has_self else 0:]]
    if ident not in names:
        return None
    idx = names.index(ident)
    crate_prefix = "/".join(ctx["file"].split("/")[:2]) + "/"
    leaves, found = [], 0
    for crate, rel, rel_src, other in sources(ctx["repo"]):
        if not rel.startswith(crate_prefix):
            continue
        for m in re.finditer(r"(?<![\w])(?:(self\s*\.\s*)|(?:[A-Za-z_]\w*\s*::\s*)*)" + re.escape(fn_name) + r"\s*(?:::\s*<[^<>()]*>\s*)?\(", other):
            if re.search(r"\bfn\s+$", other[max(0, m.start() - 6):m.start()]) or (m.start() and other[m.start() - 1] == "."):
                continue
            if bool(m.group(1)) != has_self and not re.match(r"Self\s*::", other[m.start():m.end()]):
                continue
            cl = match_close(other, m.end() - 1)
            args = split_top(other[m.end():cl])
            if len(args) != len(names):
                continue
            fn = enclosing_fn(other, m.start())
            if fn is None:
                continue
            try:
                body_end = match_close(other, fn[2], "{", "}")
            except Missing:
                continue
            cctx = dict(repo=ctx["repo"], file=rel, enums=ctx.get("enums", {}), fn=fn[3], fn_src=other[fn[0]:body_end + 1],
                        pos=m.start() - fn[0], src=other, fn_start=fn[0], visiting=tuple(ctx.get("visiting", ())) + (fn_name,))
            found += 1
            leaves += classify(args[idx], cctx, depth + 1)
        # point-free: `.map_err(f)` hands the error of the receiver, `.map(f)` an element of it
        if len(names) == 1:
            for m in re.finditer(r"\.\s*(\w+)\s*\(\s*(?:Self\s*::\s*|self\s*\.\s*|(?:[a-z_]\w*\s*::\s*)*)" + re.escape(fn_name) + r"\s*\)", other):
                found += 1
                if re.fullmatch(ERR_ADAPTORS, m.group(1)):
                    used("identifier bound by Err(_) / map_err closure → errAny (emitted as errMdk)")
                    leaves.append(dict(expr=f".{m.group(1)}({fn_name})", cls="errAny", why="error of the receiver, handed point-free"))
                else:
                    fn = enclosing_fn(other, m.start())
                    st = chain_start(other, m.start())
                    if fn is None or not other[st:m.start()].strip():
                        leaves.append(dict(expr=f".{m.group(1)}({fn_name})", cls="unknown", why="point-free use could not be traced"))
                        continue
                    body_end = match_close(other, fn[2], "{", "}")
                    cctx = dict(repo=ctx["repo"], file=rel, enums=ctx.get("enums", {}), fn=fn[3], fn_src=other[fn[0]:body_end + 1],
                                pos=m.start() - fn[0], src=other, fn_start=fn[0], visiting=tuple(ctx.get("visiting", ())) + (fn_name,))
                    leaves += classify(other[st:m.start()], cctx, depth + 1)
    if not found:
        return None
    # every textual use of the name in the crate must have been analysed above; a use of another shape (a call on a
    # receiver other than self, the function handed on as a value, a different number of arguments) keeps `unknown`
    uses = 0
    for crate, rel, rel_src, other in sources(ctx["repo"]):
        if rel.startswith(crate_prefix):
            other = re.sub(r"\buse\s[^;]*;", lambda mm: " " * len(mm.group(0)), other)
            uses += len([1 for m in re.finditer(r"(?<![\w])" + re.escape(fn_name) + r"(?![\w])", other)
                         if not re.search(r"\bfn\s+$", other[max(0, m.start() - 6):m.start()])])
    if uses > found:
        leaves.append(dict(expr=fn_name, cls="unknown", why=f"{uses - found} use(s) of {fn_name} in the crate could not be analysed as call sites"))
    used("parameter of a crate-private fn → the classes of the arguments at its call sites")
    res, seen = [], set()
    for l in leaves:
        c = {"errAny": "errMdk"}.get(l["cls"], l["cls"])
        if c not in seen:
            seen.add(c)
            res.append(dict(l, expr=f"{ident} ← {l['expr']}"[:90], why=f"argument of a call of {fn_name}: " + l["why"]))
    return res


def classify(expr, ctx, depth=0):
    """→ list of leaves dict(expr, cls, why); a compound expression (format!, wrappers, resolved let) is
       expanded into the leaves it renders"""
    e = strip_expr(expr)
    leaf = lambda cls, why: [dict(expr=e[:90], cls=cls, why=why)]
    if depth > 16:
        return leaf("unknown", "resolution too deep")
    # ---- literals and constants
    if str_lit(e) is not None or re.fullmatch(r"-?[0-9][0-9_]*(\.[0-9]+)?(usize|u\d+|i\d+|f\d+)?", e) or e in ("true", "false"):
        return leaf("const", "literal")
    if re.fullmatch(r"(\w+::)*[A-Z][A-Z0-9_]+", e):
        used("SCREAMING_CASE path → const")
        return leaf("const", "named constant")
    # ---- format!-like: expand
    m = re.match(r"^(format|format_args|write|writeln|print|println|eprintln|panic)\s*!\s*([\(\[{])", e)
    if m:
        op = m.end() - 1
        cl = match_close(e, op, e[op], {"(": ")", "[": "]", "{": "}"}[e[op]])
        parts = split_top(e[op + 1:cl])
        if m.group(1) in ("write", "writeln") and parts:
            parts = parts[1:]
        if not parts or str_lit(parts[0]) is None:
            return leaf("unknown", "format! without literal format string")
        fa = []
        for p in parts[1:]:
            mm = re.match(r"^([A-Za-z_]\w*)\s*=\s*(?!=)(.*)$", p, re.S)
            fa.append((mm.group(1), mm.group(2)) if mm else (None, p))
        res = []
        for ex, spec in resolve_fmt(str_lit(parts[0]), fa):
            res += classify(ex, ctx, depth + 1)
        rest = e[cl + 1:].strip()
        return res or leaf("const", "format! without arguments")
    # ---- site rules (hand-inspected residue)
    for suffix, fn, ex, guard, cls, why in SITE_RULES:
        if ctx.get("file", "").endswith(suffix) and (fn is None or ctx.get("fn") == fn) and e == ex:
            if re.search(guard, ctx.get("fn_src", "")):
                used(f"site rule {suffix}::{fn or '*'} `{ex}` → {cls}: {why}")
                return leaf(cls, "site rule: " + why)
            # the guard no longer matches: the rule is void; the generic rules below decide (else `unknown`)
    # ---- counts / boolean tests / integer accessors (even of sensitive containers)
    if re.search(r"\.(len|count)\(\)(\s+as\s+\w+)?$", e):
        used(".len() / .count() → count")
        return leaf("count", "len()/count()")
    if re.search(r"\.map\(\|\s*(\w+)\s*\|\s*\1\.len\(\)\)$", e):
        used(".map(|x| x.len()) → count")
        return leaf("count", "optional len()")
    if re.search(r"\.(is_some|is_none|is_empty|is_ok|is_err|is_persistent)\(\)$", e):
        used(".is_*() → number")
        return leaf("number", "boolean test")
    # ---- calls whose declared return type decides
    m = re.match(r"^(?:.*\.|(?:\w+::)*)?([a-z_][a-z0-9_]*)\((.*)\)$", e, re.S)
    if m and ctx.get("repo") and not re.fullmatch(WRAPPER_METHODS, m.group(1)):
        rets = fn_return_types(ctx["repo"], m.group(1))
        if rets:
            cs = {type_class(r, ctx)[0] for r in rets}
            if len(cs) == 1 and cs <= {"const", "number"}:
                used("call of an mdk fn whose every definition returns &'static str / integer → const / number")
                return leaf(cs.pop(), f"fn {m.group(1)} returns {sorted(rets)}")
    # ---- function-scope rules
    for suffix, fnre, exre, cls, why in FN_RULES:
        if suffix in ctx.get("file", "") and re.match(fnre, ctx.get("fn") or "") and re.match(exre, e, re.S):
            used(f"fn rule {suffix}::{fnre} /{exre[:40]}/ → {cls}: {why}")
            return leaf(cls, "fn rule: " + why)
    # ---- sensitive names anywhere in the expression (string literals blanked: words inside a literal are not values)
    e_nolit = re.sub(r'"((?:[^"\\]|\\.)*)"', '""', e)
    for pat, cls, why in NAME_RULES:
        if re.search(pat, e_nolit):
            used(f"name /{pat}/ → {cls}: {why}")
            return leaf(cls, why)
    if re.search(r"(\.epoch\(\)(\.as_u64\(\))?|\.as_u64\(\)|\.as_secs\(\)|\.as_millis\(\)|\.elapsed\(\)|\.as_u16\(\)|\.as_usize\(\)|\.u32\(\))$", e):
        used("integer accessor (.epoch() .as_u64() .as_secs() …) → number")
        return leaf("number", "epoch / duration / integer accessor")
    # ---- wrappers: classify what is inside
    m = re.match(r"^(.*)\.\s*" + WRAPPER_METHODS + r"\(\)$", e, re.S)
    if m and m.group(1).strip():
        return classify(m.group(1), ctx, depth + 1)
    m = re.match(r"^" + WRAPPER_FUNCS + r"\s*\((.*)\)$", e, re.S)
    if m:
        try:
            if match_close(e, e.index("(")) == len(e) - 1:
                return classify(m.group(2), ctx, depth + 1)
        except Missing:
            pass
    m = re.match(r"^(.*?)\.\s*(ok_or_else|ok_or)\((.*)\)\??$", e, re.S)
    if m and m.group(1).strip():
        return classify(m.group(1), ctx, depth + 1)
    m = re.match(r"^(.*)\.\s*(unwrap_or|unwrap_or_else|map|expect|unwrap|as_deref|join)\((.*)\)$", e, re.S)
    if m and m.group(1).strip() and not re.search(r"\|\s*\w+\s*\|", m.group(3)):
        return classify(m.group(1), ctx, depth + 1)
    # a part / an element / a sub-slice of a value has the class of the value: adaptors that keep the elements
    # (closures allowed: they select, they do not transform), indexing, splitting a string, `?`
    m = re.match(r"^(.*)\.\s*(find|filter|skip_while|take_while|next|first|last|get|get_mut|peek|peekable|rev|skip|take|step_by|cloned|copied|"
                 r"into_iter|iter_mut|values|keys|min|max|collect|split|splitn|rsplit|split_once|rsplit_once|split_whitespace|lines|chars|trim_start|trim_end|"
                 r"trim_matches|strip_prefix|strip_suffix|ok|flatten|as_mut|borrow|deref|to_vec|ok_or|ok_or_else)\s*(?:::\s*<[^()]*>\s*)?\((.*)\)\??$", e, re.S)
    if m and m.group(1).strip():
        try:
            op = e.rindex("(", 0, len(e)) if False else None
        except ValueError:
            op = None
        # the argument list must be the LAST bracket group of the expression
        k = len(e) - (2 if e.endswith("?") else 1)
        if e[k] == ")":
            depth_, j = 0, k
            while j >= 0:
                if e[j] == ")": depth_ += 1
                elif e[j] == "(":
                    depth_ -= 1
                    if depth_ == 0: break
                j -= 1
            head_ = e[:j].rstrip()
            mm = re.match(r"^(.*)\.\s*\w+\s*(?:::\s*<[^()]*>\s*)?$", head_, re.S)
            if mm and mm.group(1).strip():
                return classify(mm.group(1), ctx, depth + 1)
    m = re.match(r"^(.*\S)\s*\[[^\[\]]*\]$", e, re.S)
    if m and not re.match(r"^[\[\s]", m.group(1)[-1:]):
        return classify(m.group(1), ctx, depth + 1)
    if e.endswith("?") and len(e) > 1:
        return classify(e[:-1], ctx, depth + 1)
    # ---- public field names
    for pat, cls, why in PUBLIC_NAME_RULES:
        if re.search(pat, e) and not re.search(r"[(\[]", e):
            used(f"field /{pat[:40]}…/ → {cls}: {why}")
            return leaf(cls, why)
    # ---- local identifiers
    if re.fullmatch(r"[a-z_][a-z0-9_]*", e) and ctx.get("fn_src"):
        # pattern-bound in a Display/Debug arm of a rendered enum
        if ctx.get("arm_fields") is not None and e in ctx["arm_fields"]:
            return leaf(ctx["arm_fields"][e][0], ctx["arm_fields"][e][1])
        lb = local_binding(ctx["fn_src"], e, ctx["pos"])
        if lb:
            if lb[0] == "type":
                cls, why = type_class(lb[1], ctx)
                if cls in ("text?", "unknown") or (cls == "errOpaque" and why.startswith("generic error parameter")):
                    # a parameter of a function that only this crate can call: what do the call sites pass?
                    via = through_call_sites(e, lb, ctx, depth)
                    if via is not None:
                        return via
                if cls == "text?":
                    return leaf("unknown", f"string parameter `{e}` ({lb[1]}) without a rule")
                return leaf(cls, why)
            if lb[0] == "err":
                used("identifier bound by Err(_) / map_err closure → errAny (emitted as errMdk)")
                return leaf("errAny", "bound by Err(_) / map_err closure")
            if lb[0] == "let":
                return classify(lb[1], dict(ctx, pos=ctx["pos"]), depth + 1)
    if re.fullmatch(r"self\.0|self", e) and ctx.get("self_cls"):
        used("`self` of a field-less enum in its own Display/Debug → const")
        return leaf(*ctx["self_cls"])
    m = re.fullmatch(r"self\.(\w+)", e)
    if m and ctx.get("self_type") and ctx["self_type"]["kind"] == "struct":
        for fname, ftype, attrs in ctx["self_type"]["fields"]:
            if fname == m.group(1):
                cls, why = field_class(fname, ftype, attrs, ctx)
                if cls in ("text", "unknown"):
                    for pat, c2, w2 in PUBLIC_NAME_RULES:
                        if re.search(pat, fname) and c2 != "text":
                            used(f"field /{pat[:40]}…/ → {c2}: {w2}")
                            return leaf(c2, w2)
                if cls == "unknown":
                    inner = ctx.get("types", {}).get(ftype.split("::")[-1])
                    if inner and inner["kind"] == "struct" and inner["fields"] and \
                            all(type_class(ft, ctx)[0] == "number" for _, ft, _ in inner["fields"]):
                        used("struct whose every field is an integer → number")
                        return leaf("number", f"struct {ftype} of integers only")
                return leaf(cls if cls != "text?" else "unknown", why)
    return leaf("unknown", "no rule")


# ------------------------------------------------------------------------------------------------
# (a) tracing call sites

def parse_tracing_args(argsrc):
    """→ dict(target, fields [(name, sigil, expr)], fmt, fmt_args [(name|None, expr)])"""
    parts = split_top(argsrc)
    target, fields, fmt, fmt_args = None, [], None, []
    for p in parts:
        m = re.match(r"^(target|parent|name)\s*:\s*(.*)$", p, re.S)
        if m and fmt is None and not fields:
            if m.group(1) == "target":
                target = str_lit(m.group(2))
                if target is None:
                    target = "<dynamic>:" + m.group(2).strip()
            continue
        if fmt is None:
            s = str_lit(p)
            if s is not None:
                fmt = s; continue
            m = re.match(r"^([A-Za-z_][\w\.]*)\s*=\s*(?!=)([%?]?)\s*(.*)$", p, re.S)
            if m:
                fields.append((m.group(1), m.group(2), m.group(3))); continue
            m = re.match(r"^([%?])\s*(.*)$", p, re.S)
            if m:
                fields.append((None, m.group(1), m.group(2))); continue
            if re.match(r"^[A-Za-z_][\w\.]*$", p):
                fields.append((p, "", p)); continue
            raise Missing(f"tracing-arg:{p[:40]}")
        else:
            m = re.match(r"^([A-Za-z_]\w*)\s*=\s*(?!=)(.*)$", p, re.S)
            fmt_args.append((m.group(1), m.group(2)) if m else (None, p))
    return dict(target=target, fields=fields, fmt=fmt, fmt_args=fmt_args)


def resolve_fmt(fmt, fmt_args):
    """[(expr, spec)] for every placeholder of fmt (inline captures become identifier expressions)"""
    res = []
    pos = [e for n, e in fmt_args if n is None]
    named = {n: e for n, e in fmt_args if n is not None}
    for name, spec in placeholders(fmt or ""):
        if name.isdigit():
            k = int(name)
            if k >= len(pos):
                raise Missing(f"format-arity:{fmt[:40]}")
            res.append((pos[k], spec))
        elif name in named:
            res.append((named[name], spec))
        else:
            res.append((name, spec))       # inline capture
    return res


def module_target(crate, rel_src):
    c = crate.replace("-", "_")
    p = rel_src[:-3].split("/")
    if p[-1] in ("mod", "lib", "main"):
        p = p[:-1]
    return "::".join([c] + p)


_CONSTS = {}

def const_string(repo, crate, rel, expr):
    """value of the string const / static named by `expr` (`X`, `Self::X`, `module::X`): same file first, then the crate;
    aliases followed (tools/rsnorm.py); None when it is not one"""
    m = re.fullmatch(r"(?:\w+\s*::\s*)*([A-Z][A-Z0-9_]*)", expr.strip())
    if not m:
        return None
    sys.path.insert(0, HERE)
    import rsnorm
    key = (repo, crate)
    if key not in _CONSTS:
        per_file, wide = {}, {}
        for c, r, _, src in sources(repo):
            if c == crate:
                per_file[r] = rsnorm.const_defs(src)
                for k, v in per_file[r].items():
                    wide.setdefault(k, []).append(v)
        _CONSTS[key] = (per_file, wide)
    per_file, wide = _CONSTS[key]
    lit, _ = rsnorm.resolve_consts(per_file.get(rel, {}), wide)
    return str_lit(lit[m.group(1)]) if m.group(1) in lit else None


def extract_log_sites(repo, enums):
    sites = []
    for crate, rel, rel_src, src in sources(repo):
        bare = re.findall(r"use\s+tracing::\{?([^;]*)\}?;", src)
        bare_levels = {l for b in bare for l in LEVELS if re.search(r"\b" + l + r"\b", b)}
        for m in re.finditer(r"\b(tracing\s*::\s*)?(trace|debug|info|warn|error)\s*!\s*\(", src):
            if not m.group(1) and m.group(2) not in bare_levels:
                continue
            if not m.group(1) and src[max(0, m.start() - 2):m.start()] == "::":
                continue
            op = m.end() - 1
            cl = match_close(src, op)
            args = parse_tracing_args(src[op + 1:cl])
            fn = enclosing_fn(src, m.start())
            ctx = dict(repo=repo, file=rel, enums=enums, fn=fn[3] if fn else None,
                       fn_src=src[fn[0]:cl] if fn else "", pos=(m.start() - fn[0]) if fn else 0, src=src, fn_start=fn[0] if fn else None)
            rendered = []
            for name, sigil, expr in args["fields"]:
                for lf in classify(expr, ctx):
                    rendered.append(dict(lf, how=(sigil or "value"), field=name))
            for expr, spec in resolve_fmt(args["fmt"], args["fmt_args"]):
                for lf in classify(expr, ctx):
                    rendered.append(dict(lf, how="{" + (":" + spec if spec else "") + "}", field=None))
            if (args["target"] or "").startswith("<dynamic>:"):
                # a target given by a string constant (of this file, else of the crate) is that string
                args["target"] = const_string(repo, crate, rel, args["target"][len("<dynamic>:"):]) or "<dynamic>"
            sites.append(dict(kind="log", file=rel, line=line_of(src, m.start()), end_line=line_of(src, cl), level=m.group(2),
                              target=args["target"] or module_target(crate, rel_src),
                              fmt=args["fmt"] or "", args=rendered, fn=fn[3] if fn else None))
    return sites


# ------------------------------------------------------------------------------------------------
# (b) error / rendered enums, their formats and the construction sites of their free-text payloads

def parse_fields(body, tuple_like):
    """[(name|index, type, attrs)]"""
    res = []
    for k, p in enumerate(split_top(body)):
        attrs = re.findall(r"#\[([^\]]*)\]", p)
        p2 = re.sub(r"#\[[^\]]*\]", "", p).strip()
        p2 = re.sub(r"^pub(\([^)]*\))?\s+", "", p2)
        if not p2:
            continue
        if tuple_like:
            res.append((str(k), re.sub(r"\s+", " ", p2), attrs))
        else:
            mm = re.match(r"^(\w+)\s*:\s*(.*)$", p2, re.S)
            if mm:
                res.append((mm.group(1), re.sub(r"\s+", " ", mm.group(2).strip()), attrs))
    return res


def split_generic_aware(s):
    """split_top that also respects <…> nesting (types)"""
    parts, depth, cur = [], 0, []
    i, n = 0, len(s)
    while i < n:
        c = s[i]
        if c == '"':
            j = i + 1
            while j < n and s[j] != '"':
                j += 2 if s[j] == "\\" else 1
            cur.append(s[i:j + 1]); i = j + 1; continue
        if c in "([{<": depth += 1
        elif c in ")]}": depth -= 1
        elif c == ">" and (i == 0 or s[i - 1] not in "-="): depth -= 1
        if c == "," and depth == 0:
            parts.append("".join(cur)); cur = []
        else:
            cur.append(c)
        i += 1
    if "".join(cur).strip():
        parts.append("".join(cur))
    return [p.strip() for p in parts]


def extract_types(repo):
    """all struct / enum definitions of the non-test source: name → dict(kind, file, line, derives, variants|fields)"""
    types = {}
    for crate, rel, rel_src, src in sources(repo):
        for m in re.finditer(r"((?:#\[[^\]]*\]\s*)*)(?:pub(?:\([^)]*\))?\s+)?(struct|enum)\s+(\w+)\s*(<[^>{(]*>)?\s*([\({;])", src):
            attrs, kind, name, opener = m.group(1), m.group(2), m.group(3), m.group(5)
            derives = set()
            for d in re.findall(r"derive\(([^)]*)\)", attrs):
                derives |= {x.strip().split("::")[-1] for x in d.split(",") if x.strip()}
            line = line_of(src, m.start(2))
            entry = dict(kind=kind, name=name, crate=crate, file=rel, line=line, derives=derives, variants=[], fields=[])
            if opener == ";":
                pass
            elif kind == "struct":
                op = m.end() - 1
                cl = match_close(src, op, opener, ")" if opener == "(" else "}")
                old = split_top
                entry["fields"] = [(n_, t_, a_) for n_, t_, a_ in _fields(src[op + 1:cl], opener == "(")]
            else:
                op = m.end() - 1
                if opener != "{":
                    continue
                cl = match_close(src, op, "{", "}")
                body = src[op + 1:cl]
                off = op + 1
                pos = 0
                for item in split_generic_aware(body):
                    ipos = body.find(item, pos)
                    pos = ipos + len(item)
                    attrs_v = re.findall(r"#\[((?:[^\[\]]|\[[^\]]*\])*)\]", item, re.S)
                    head = re.sub(r"#\[((?:[^\[\]]|\[[^\]]*\])*)\]", "", item, flags=re.S).strip()
                    mv = re.match(r"^(\w+)\s*([\({])?", head)
                    if not mv:
                        continue
                    vname = mv.group(1)
                    vfields = []
                    if mv.group(2):
                        vo = head.index(mv.group(2))
                        vc = match_close(head, vo, mv.group(2), ")" if mv.group(2) == "(" else "}")
                        vfields = _fields(head[vo + 1:vc], mv.group(2) == "(")
                    fmt, transparent, extra = None, False, []
                    for a in attrs_v:
                        ma = re.match(r"^error\s*\((.*)\)$", a.strip(), re.S)
                        if ma:
                            inner = split_top(ma.group(1))
                            if inner and inner[0].strip() == "transparent":
                                transparent = True
                            elif inner:
                                fmt = str_lit(inner[0])
                                extra = inner[1:]
                    vline = line_of(src, off + ipos + item.find(vname))
                    entry["variants"].append(dict(name=vname, fields=vfields, fmt=fmt, transparent=transparent, extra=extra, line=vline))
            prev = types.get(name)
            if prev is None:
                types[name] = entry
            else:
                # same name in two crates (e.g. `Error`): keep both under a qualified key
                types[f"{crate}::{name}"] = entry
                types.setdefault(f"{prev['crate']}::{name}", prev)
    return types


def _fields(body, tuple_like):
    res = []
    for k, p in enumerate(split_generic_aware(body)):
        attrs = re.findall(r"#\[([^\]]*)\]", p)
        p2 = re.sub(r"#\[[^\]]*\]", "", p).strip()
        p2 = re.sub(r"^pub(\([^)]*\))?\s+", "", p2)
        if not p2:
            continue
        if tuple_like:
            res.append((str(k), re.sub(r"\s+", " ", p2), attrs))
        else:
            mm = re.match(r"^(\w+)\s*:\s*(.*)$", p2, re.S)
            if mm:
                res.append((mm.group(1), re.sub(r"\s+", " ", mm.group(2).strip()), attrs))
    return res


def manual_impls(repo):
    """[(crate, file, src, trait, type_name, impl_start, body_open, body_close)]"""
    res = []
    for crate, rel, rel_src, src in sources(repo):
        for m in re.finditer(r"\bimpl\s*(<[^>]*>)?\s*(?:std::|core::)?(?:fmt::)?(Debug|Display)\s+for\s+(\w+)", src):
            b = src.find("{", m.end())
            e = match_close(src, b, "{", "}")
            res.append((crate, rel, src, m.group(2), m.group(3), m.start(), b, e))
    return res


def is_error_enum(t, impls):
    if t["kind"] != "enum":
        return False
    if "Error" in t["derives"] or t["name"].endswith("Error") or any(v["fmt"] or v["transparent"] for v in t["variants"]):
        return True
    return False


def field_class(fname, ftype, attrs, ctx):
    """class of one declared field of a rendered enum variant / struct, by type first, then name"""
    t = ftype.strip()
    cls, why = type_class(t, ctx)
    if cls == "text?":
        # a String field: sensitive names win, otherwise free text whose content is decided by its constructors
        for pat, c2, w2 in NAME_RULES:
            if re.search(pat, fname):
                return c2, w2
        return "text", "String payload (content decided at its construction sites, see errorCtors)"
    if cls == "unknown":
        for pat, c2, w2 in NAME_RULES:
            if re.search(pat, fname):
                return c2, w2
        for pat, c2, w2 in PUBLIC_NAME_RULES:
            if re.search(pat, fname):
                return c2, w2
    if cls in ("number", "const") :
        # byte arrays are not numbers; handled by `unknown` + names above
        pass
    return cls, why


def extract_error_tables(repo, types):
    impls = manual_impls(repo)
    rendered = {}                      # enum key → entry
    for key, t in types.items():
        if "::" in key and key.split("::")[-1] in types and types[key.split("::")[-1]] is t:
            continue
        if t["kind"] == "enum" and (is_error_enum(t, impls) or any(i[4] == t["name"] and i[1] == t["file"] for i in impls)):
            rendered[key] = t
    enums = {}
    for key, t in rendered.items():
        enums[t["name"]] = dict(fieldless=all(not v["fields"] for v in t["variants"]))
    # field-less enums of any kind count as constants when rendered
    for key, t in types.items():
        if t["kind"] == "enum" and t["name"] not in enums and t["variants"] and all(not v["fields"] for v in t["variants"]):
            enums[t["name"]] = dict(fieldless=True)
    fmts, text_variants = [], {}
    seen = set()
    for key, t in sorted(rendered.items(), key=lambda kv: (kv[1]["file"], kv[1]["line"])):
        if id(t) in seen:
            continue
        seen.add(id(t))
        ctx = dict(repo=repo, file=t["file"], enums=enums)
        for v in t["variants"]:
            args = []
            for fname, ftype, attrs in v["fields"]:
                cls, why = field_class(fname, ftype, attrs, ctx)
                args.append(dict(expr=f"{fname}: {ftype}", cls=cls, why=why, how="field", field=fname))
                if cls == "text":
                    text_variants.setdefault(v["name"], []).append((t["name"], t["file"], fname, len(v["fields"]), [f[0] for f in v["fields"]]))
            for x in v["extra"]:
                args.append(dict(expr=x, cls="unknown", why="extra thiserror format argument", how="extra", field=None))
            if v["fmt"]:
                known = {f[0] for f in v["fields"]}
                for name, spec in placeholders(v["fmt"]):
                    if name not in known and not v["extra"]:
                        args.append(dict(expr=name, cls="unknown", why="placeholder is not a field", how="{}", field=None))
            if not is_error_enum(t, None):
                continue
            fmts.append(dict(kind="errfmt", file=t["file"], line=v["line"], end_line=v["line"], enum=t["name"], variant=v["name"],
                             fmt=v["fmt"] or ("<transparent>" if v["transparent"] else "<manual Display>"), args=args))
    return fmts, text_variants, enums, rendered


def extract_ctor_sites(repo, text_variants, enums, rendered):
    names = {t["name"] for t in rendered.values()}
    aliases = set()
    alias_of = {}
    for _, _, _, src in sources(repo):
        for m in re.finditer(r"\b(\w+)\s+as\s+(\w+)\s*[,;}]", src):
            if m.group(1) in names:
                aliases.add(m.group(2)); alias_of[m.group(2)] = m.group(1)
    prefixes = names | aliases | {"Self"}
    vre = "|".join(sorted(map(re.escape, text_variants), key=len, reverse=True))
    sites = []
    if not vre:
        return sites
    for crate, rel, rel_src, src in sources(repo):
        for m in re.finditer(r"\b((?:\w+::)*)(\w+)::(" + vre + r")\b\s*([\({]?)", src):
            if m.group(2) not in prefixes:
                continue
            variant, opener = m.group(3), m.group(4)
            pfx = alias_of.get(m.group(2), m.group(2))
            if pfx == "Self":
                im = None
                for im in re.finditer(r"\bimpl\b[^{;]*?\b(?:for\s+)?(\w+)\s*(?:<[^{]*>)?\s*(?:where[^{]*)?\{", src[:m.start()]):
                    pass
                pfx = im.group(1) if im else "Self"
            cands = [d for d in text_variants[variant] if d[0] == pfx]
            same_crate = [d for d in cands if d[1].startswith(f"crates/{crate}/")]
            if pfx == "Error":
                # `Error` exists in mdk-core and mdk-sqlite-storage: the one of this crate, else the imported core one
                cands = same_crate or ([d for d in cands if "mdk-core" in d[1]] if crate not in ("mdk-sqlite-storage",) else cands)
            if pfx != "Self" and not cands:
                continue
            decl = cands or text_variants[variant]
            fn = enclosing_fn(src, m.start())
            ctx = dict(repo=repo, file=rel, enums=enums, fn=fn[3] if fn else None,
                       fn_src=src[fn[0]:fn[0] + len(src)] if fn else "", pos=(m.start() - fn[0]) if fn else 0, src=src, fn_start=fn[0] if fn else None)
            if fn:
                try:
                    ctx["fn_src"] = src[fn[0]:match_close(src, fn[2], "{", "}") + 1]
                except Missing:
                    pass
            line = line_of(src, m.start())
            if not opener:
                # point-free use, e.g. `.map_err(Error::KeyPackage)`: the payload is the Err(String) of the callee
                pre = src[max(0, m.start() - 400):m.start()]
                mm = re.search(r"([a-z_][a-z0-9_]*)\s*\(((?:[^()]|\([^()]*\))*)\)\s*\.\s*map_err\(\s*$", pre, re.S)
                leaves = None
                if mm:
                    leaves = callee_string_errors(repo, mm.group(1), enums)
                if leaves is None:
                    leaves = [dict(expr="<point-free payload>", cls="unknown", why="payload of a point-free constructor could not be traced")]
                sites.append(dict(kind="errctor", file=rel, line=line, end_line=line, variant=variant, args=[dict(l, how="payload", field=None) for l in leaves]))
                continue
            op = m.end() - 1
            cl = match_close(src, op, opener, ")" if opener == "(" else "}")
            after = src[cl + 1:cl + 40].lstrip()
            inner = src[op + 1:cl]
            is_pat = after.startswith("=>") or after.startswith("|") or re.match(r"^=[^=>]", after) or re.match(r"^if\b", after) or \
                re.fullmatch(r"\s*(_|\.\.|ref\s+\w+|[a-z_]\w*)\s*", inner) and (after.startswith(")") and re.search(r"matches!\s*\([^;]*$", src[max(0, m.start() - 200):m.start()]))
            if not is_pat and re.fullmatch(r"\s*(_|\.\.)\s*", inner):
                is_pat = True
            if not is_pat and opener == "{" and re.search(r"(^|,)\s*\.\.\s*$", inner):
                is_pat = True
            if not is_pat and re.search(r"\b(if|while)\s+let\s+[^=]*$", src[max(0, m.start() - 120):m.start()]):
                is_pat = True
            if not is_pat:
                # match arm with bindings:  `Variant(a) | Variant(b) =>` handled above; or-patterns before
                pass
            if is_pat:
                continue
            leaves = []
            if opener == "(":
                parts = split_top(inner)
                for (ename, efile, fname, nf, fnames) in decl[:1]:
                    pass
                idxs = sorted({int(f) for d in decl for f in [d[2]] if f.isdigit()})
                for k, p in enumerate(parts):
                    if k in idxs or not idxs:
                        leaves += classify(p, ctx)
            else:
                tf = {d[2] for d in decl}
                for p in split_top(inner):
                    mm = re.match(r"^(\w+)\s*:\s*(.*)$", p, re.S)
                    if mm and mm.group(1) in tf:
                        leaves += classify(mm.group(2), ctx)
                    elif re.fullmatch(r"\w+", p) and p in tf:
                        leaves += classify(p, ctx)
            sites.append(dict(kind="errctor", file=rel, line=line, end_line=line_of(src, cl), variant=variant, fn=ctx["fn"],
                              args=[dict(l, how="payload", field=None) for l in leaves]))
    return sites


def callee_string_errors(repo, fname, enums):
    """leaves rendered into the Err(String) of every non-test `fn fname` returning Result<_, String>"""
    rets = fn_return_types(repo, fname)
    if not rets or not all(re.search(r"Result<.*,\s*String\s*>$", r) for r in rets):
        return None
    leaves = []
    for crate, rel, rel_src, src in sources(repo):
        for m in re.finditer(r"\bfn\s+" + re.escape(fname) + r"\s*(<[^>]*>)?\s*\(", src):
            b = src.find("{", m.end())
            e = match_close(src, b, "{", "}")
            body = src[m.start():e + 1]
            ctx = dict(repo=repo, file=rel, enums=enums, fn=fname, fn_src=body, pos=len(body))
            for f in re.finditer(r"\bformat\s*!\s*\(", body):
                cl = match_close(body, f.end() - 1)
                leaves += classify(body[f.start():cl + 1], dict(ctx, pos=f.start()))
    return leaves or [dict(expr=f"{fname}()", cls="const", why="literal error strings only")]


# ------------------------------------------------------------------------------------------------
# (c) manual Debug / Display impls and derived Debug on types that hold sensitive fields

def sensitive_fields(t, types, ctx, seen=None):
    """[(field, cls)] of the fields of struct/enum t that are sensitive when printed by a derived Debug"""
    seen = seen or set()
    if t["name"] in seen:
        return []
    seen = seen | {t["name"]}
    res = []
    groups = [t["fields"]] if t["kind"] == "struct" else [v["fields"] for v in t["variants"]]
    for fields in groups:
        for fname, ftype, attrs in fields:
            cls, why = field_class(fname, ftype, attrs, ctx)
            base = re.sub(r"^&?(mut )?(Option<|Vec<|Box<|Arc<)*", "", ftype).rstrip(">").split("::")[-1]
            base = re.sub(r"<.*$", "", base)
            if cls in SENSITIVE and cls != "unknown":
                res.append((fname, cls))
            elif cls == "unknown" and base in types and types[base]["kind"] in ("struct", "enum"):
                inner = types[base]
                if "Debug" in inner["derives"]:
                    res += [(f"{fname}.{f}", c) for f, c in sensitive_fields(inner, types, ctx, seen)]
    return res


def extract_impls(repo, types, enums, rendered):
    out = []
    for crate, rel, src, trait, tname, start, b, e in manual_impls(repo):
        body = src[b:e + 1]
        t = None
        for key, cand in types.items():
            if cand["name"] == tname and cand["file"] == rel:
                t = cand
        if t is None:
            t = types.get(tname)
        ctx = dict(repo=repo, file=rel, enums=enums, fn="fmt", fn_src=body, pos=len(body))
        # fields bound in match-arm patterns of a rendered enum get the class of the variant's field
        arm = {}
        if t and t["kind"] == "enum":
            for v in t["variants"]:
                for k, (fname, ftype, attrs) in enumerate(v["fields"]):
                    cls, why = field_class(fname, ftype, attrs, ctx)
                    for pm in re.finditer(r"\b(?:Self|" + re.escape(tname) + r")::" + re.escape(v["name"]) + r"\s*([\({])", body):
                        try:
                            pc = match_close(body, pm.end() - 1, pm.group(1), ")" if pm.group(1) == "(" else "}")
                        except Missing:
                            continue
                        binds = split_top(body[pm.end():pc])
                        if pm.group(1) == "(" and k < len(binds) and re.fullmatch(r"(ref\s+)?\w+", binds[k]):
                            nm = binds[k].split()[-1]
                            arm[nm] = (cls, why) if nm not in arm or arm[nm][0] == cls else ("unknown", "pattern variable bound at two classes")
                        elif pm.group(1) == "{":
                            for bnd in binds:
                                mm = re.match(r"^(\w+)(\s*:\s*(\w+))?$", bnd)
                                if mm and mm.group(1) == fname:
                                    arm[mm.group(3) or fname] = (cls, why)
        ctx["arm_fields"] = arm
        if t and t["kind"] == "enum" and t["variants"] and all(not v["fields"] for v in t["variants"]):
            ctx["self_cls"] = ("const", f"field-less enum {tname}: one of its literal labels")
        ctx["self_type"] = t
        ctx["types"] = types
        args = []
        for m in re.finditer(r"\b(write|writeln)\s*!\s*\(", body):
            cl = match_close(body, m.end() - 1)
            for lf in classify(body[m.start():cl + 1], dict(ctx, pos=m.start())):
                args.append(dict(lf, how="write!", field=None))
        for m in re.finditer(r"\b\w+\s*\.\s*(?:write_str|pad)\s*\(", body):
            cl = match_close(body, m.end() - 1)
            for lf in classify(body[m.end():cl], dict(ctx, pos=m.start())):
                args.append(dict(lf, how="write!", field=None))
        for m in re.finditer(r"\.\s*field\s*\(", body):
            cl = match_close(body, m.end() - 1)
            parts = split_top(body[m.end():cl])
            if len(parts) == 2:
                for lf in classify(parts[1], dict(ctx, pos=m.start())):
                    args.append(dict(lf, how=".field", field=str_lit(parts[0])))
        for m in re.finditer(r"\.\s*(entry|entries|key|value)\s*\(", body):
            cl = match_close(body, m.end() - 1)
            for lf in classify(body[m.end():cl], dict(ctx, pos=m.start())):
                args.append(dict(lf, how="." + m.group(1), field=None))
        for m in re.finditer(r"\b(?:fmt::)?(?:Display|Debug|LowerHex)::fmt\s*\(", body):
            cl = match_close(body, m.end() - 1)
            parts = split_top(body[m.end():cl])
            if parts:
                for lf in classify(parts[0], dict(ctx, pos=m.start())):
                    args.append(dict(lf, how="delegate", field=None))
        holds = sensitive_fields(t, types, ctx) if t else []
        out.append(dict(kind="impl", file=rel, line=line_of(src, start), end_line=line_of(src, e), trait=trait, type=tname,
                        holds=[dict(field=f, cls=c) for f, c in holds], args=args))
    derived = []
    seen = set()
    for key, t in sorted(types.items(), key=lambda kv: (kv[1]["file"], kv[1]["line"])):
        if id(t) in seen or "Debug" not in t["derives"]:
            continue
        seen.add(id(t))
        ctx = dict(repo=repo, file=t["file"], enums=enums)
        holds = sensitive_fields(t, types, ctx)
        if holds:
            role = "result" if t["name"].endswith("Result") else "config" if t["name"].endswith("Config") else "record"
            derived.append(dict(kind="derived", file=t["file"], line=t["line"], end_line=t["line"], type=t["name"], role=role,
                                holds=[dict(field=f, cls=c) for f, c in holds],
                                args=[dict(expr=f, cls=c, why="derive(Debug) prints the field", how="derive", field=f) for f, c in holds]))
    return out, derived


def other_channels(repo):
    """emission channels other than the tracing level macros in non-test code (none are expected; each one found is
       reported by ./check as a broken tie, because the tables would not cover it)"""
    res = []
    pat = re.compile(r"\b(tracing\s*::\s*(event|span)\s*!|(trace|debug|info|warn|error)_span\s*!|log\s*::\s*(trace|debug|info|warn|error)\s*!|"
                     r"(println|eprintln|print|eprint|dbg)\s*!\s*\(|#\[\s*(tracing\s*::\s*)?instrument)")
    for crate, rel, rel_src, src in sources(repo):
        for m in pat.finditer(src):
            res.append(f"{rel}:{line_of(src, m.start())} {m.group(0)[:30]}")
    return res


# ------------------------------------------------------------------------------------------------
# emit

def lean_cls(c):
    return "." + {"errAny": "errMdk", "text?": "unknown"}.get(c, c)


def generate(repo=REPO, write=True):
    RULES_USED.clear()
    types = extract_types(repo)
    fmts, text_variants, enums, rendered = extract_error_tables(repo, types)
    logs = extract_log_sites(repo, enums)
    ctors = extract_ctor_sites(repo, text_variants, enums, rendered)
    impls, derived = extract_impls(repo, types, enums, rendered)
    if len(logs) < 1:
        raise Missing("leak:no-tracing-sites")
    if not fmts:
        raise Missing("leak:no-error-formats")
    for name in ("EpochSnapshot", "EncryptionConfig", "Secret", "MessageProcessingResult"):
        if not any(i["type"] == name and i["trait"] == "Debug" for i in impls):
            raise Missing(f"leak:manual-debug:{name}")
    derived_res = [d for d in derived if d["role"] in ("result", "config")]
    derived_rec = [d for d in derived if d["role"] == "record"]
    tables = [("logSites", logs), ("errorFormats", fmts), ("errorCtors", ctors), ("fmtImpls", impls),
              ("derivedResultDebug", derived_res), ("derivedRecordDebug", derived_rec)]
    sid = 0
    for _, tbl in tables:
        tbl.sort(key=lambda s: (s["file"], s["line"], s.get("variant", ""), s.get("type", "")))
        for s in tbl:
            s["id"] = sid; sid += 1
            s["classes"] = [lean_cls(a["cls"])[1:] for a in s["args"]]
            s["clean"] = not any(c in SENSITIVE for c in s["classes"])
    L = ["/- GENERATED by tools/gen_leak.py from the current /repo source — do not edit.",
         "   One entry per tracing call site / error format / free-text error constructor / manual Debug-Display impl /",
         "   derived Debug of a type holding a sensitive field.  `⟨id, [classes of the rendered arguments]⟩`;",
         "   provenance (file:line, expression, rule) is in the comment after each entry. -/",
         "import MdkVerif.Model.Leak", "namespace MdkVerif.GeneratedLeak", "open MdkVerif.Leak", ""]
    kinds = {"logSites": ".log", "errorFormats": ".errFmt", "errorCtors": ".errCtor", "fmtImpls": ".fmtImpl",
             "derivedResultDebug": ".derived", "derivedRecordDebug": ".derived"}
    for name, tbl in tables:
        L.append(f"def {name} : List Site := [")
        for k, s in enumerate(tbl):
            what = s.get("level") or s.get("variant") or s.get("type") or ""
            if s["kind"] == "errfmt":
                what = f"{s['enum']}::{s['variant']}"
            if s["kind"] == "impl":
                what = f"{s['trait']} for {s['type']}"
            exprs = "; ".join(f"{a['expr']} ↦ {a['cls']}" for a in s["args"]).replace("-/", "- /").replace("/-", "/ -")
            L.append(f"  ⟨{s['id']}, {kinds[name]}, [{', '.join(lean_cls(a['cls']) for a in s['args'])}]⟩{',' if k + 1 < len(tbl) else ''}"
                     f"  -- {s['file']}:{s['line']} {what} {('| ' + exprs) if exprs else ''}")
        L.append("]")
        L.append("")
    L.append("/-- the tables a modelled execution is interpreted against -/")
    L.append("def tables : Tables := { logSites := logSites, errorFormats := errorFormats, errorCtors := errorCtors, fmtImpls := fmtImpls }")
    L.append("")
    L.append("end MdkVerif.GeneratedLeak")
    text = "\n".join(L) + "\n"
    if write:
        old = None
        try:
            old = open(OUT).read()
        except OSError:
            pass
        if old != text:
            with open(OUT, "w") as f:
                f.write(text)
    return dict(logSites=logs, errorFormats=fmts, errorCtors=ctors, fmtImpls=impls, derivedDebug=derived,
                derivedResultDebug=derived_res, derivedRecordDebug=derived_rec,
                other_channels=other_channels(repo), rules=sorted(RULES_USED.items()), site_rules=[dict(file=a, fn=b, expr=c, cls=e, why=f) for a, b, c, d, e, f in SITE_RULES])


def summary(t):
    def cnt(tbl):
        return dict(total=len(tbl), unclean=sum(1 for s in tbl if not s["clean"]))
    return {k: cnt(t[k]) for k in ("logSites", "errorFormats", "errorCtors", "fmtImpls", "derivedDebug")}


if __name__ == "__main__":
    try:
        t = generate()
    except Missing as e:
        print(f"tie:gen:{e}", file=sys.stderr)
        sys.exit(2)
    if "-v" in sys.argv:
        for name in ("logSites", "errorFormats", "errorCtors", "fmtImpls", "derivedDebug"):
            print(f"== {name}")
            for s in t[name]:
                tag = s.get("level") or s.get("variant") or s.get("type")
                print(f"{'  ' if s['clean'] else '!!'} #{s['id']} {s['file']}:{s['line']} {tag} {s.get('fmt', '')!r}")
                for a in s["args"]:
                    print(f"        {a['cls']:12} {a['how']:8} {a['expr'][:70]}   <{a['why']}>")
    json.dump(summary(t), sys.stdout); print()
