#!/usr/bin/env python3
"""tools/offline_oracle.py <replay.trace>: rebuild a world-engine history from the RECORDED answers of a replay file (no execution: histories with
timestamp ties are not reproducible, the random event ids decide them) and run the world oracle on it — to see how a recorded failure is classified."""
import sys; sys.path.insert(0,'/verif')
from vlib import worldeng as W
path=sys.argv[1]
lines=open(path).read().split('\n')
rec=[]  # (cmd, out)
i=0
while i<len(lines):
    l=lines[i]
    if l and not l.startswith('#'):
        out=''
        if i+1<len(lines) and lines[i+1].startswith('#   -> '):
            out=lines[i+1][len('#   -> '):]
        rec.append((l.strip(),out))
    i+=1
class Fake:
    def __init__(self): self.k=0
    def cmd(self,line):
        c,o=rec[self.k]; self.k+=1
        assert c==line,(c,line)
        return o
    def close(self): pass
W.Harness=Fake
fake=Fake()
class H2:
    def __new__(cls): return fake
W.Harness=H2
w=W.replay_cmds([c for c,_ in rec if c!='world'], 'offline')
w.quiesced=True
f,facts=W.oracle_world(w)
for x in f:
    if 'C01' in x.get('props',[x.get('prop')]): print(x['signature'], x['what'][:200])
print(facts.get('divergence'))
cm={n:e for n,e in w.events.items() if e['kind']=='commit'}
for n,e in sorted(cm.items()): print(n, e['sender'], e['ts'], e['idnum'], e.get('parent_token'), e.get('rewrap_of'), e.get('line'))
