#!/bin/bash
# tools/slot.sh <slot> <patch.diff|-> <tier> <check ids...>
# Runs checks of the CURRENT /verif working tree against a PRIVATE copy of the library with <patch> applied, without touching
# /repo: slot k = /tmp/slot<k>/{verif (copy of /verif incl. build caches), repo (git worktree of /repo HEAD)}.  Several
# slots can run at the same time.  The registered checks (MANIFEST) always run in /verif against /repo; this is only the
# laboratory for seeded changes and harmless rewrites.  Prints one line per check.
k=$1; p=$2; tier=$3; shift 3
S=/tmp/slot$k
mkdir -p $S
if [ ! -d $S/repo ]; then git -C /repo worktree add -q --detach $S/repo HEAD || exit 2; fi
git -C $S/repo checkout -q --detach $(git -C /repo rev-parse HEAD) 2>/dev/null
git -C $S/repo checkout -q -- . ; git -C $S/repo clean -fdq
first=0; [ -d $S/verif ] || first=1
mkdir -p $S/verif
if [ $first = 1 ]; then
  rsync -a --exclude .git /verif/ $S/verif/
else
  rsync -a --delete --exclude .git --exclude .cache --exclude lean/.lake --exclude evidence --exclude replays --exclude harness/Cargo.toml /verif/ $S/verif/
fi
cp /verif/harness/Cargo.toml $S/verif/harness/Cargo.toml
sed -i "s#\"/repo/crates#\"$S/repo/crates#" $S/verif/harness/Cargo.toml
if [ "$p" != "-" ]; then git -C $S/repo apply "$p" || { echo "patch does not apply"; exit 2; }; fi
cd $S/verif
export VERIF_REPO=$S/repo VERIF_TARGET=$S/verif/.cache/target CARGO_NET_OFFLINE=true
mkdir -p $S/logs
for c in "$@"; do
  s=$(date +%s)
  ./check $c --tier $tier > $S/logs/$c.log 2>&1; rc=$?
  e=$(date +%s)
  echo "slot$k $(basename $(dirname $p))/$(basename $p) $c rc=$rc t=$((e-s))s :: $(grep VIOLATION $S/logs/$c.log | head -3 | tr '\n' ';')"
  # harvest: the first replay with a concrete failing input, for the regression corpus (HARVEST=<dir>)
  if [ -n "$HARVEST" ] && [ "$p" != "-" ]; then
    r=$(grep VIOLATION $S/logs/$c.log | grep -v no-failing-input-found | head -1 | sed 's/.*replay=\([^ ;]*\).*/\1/')
    [ -n "$r" ] && [ -f "$r" ] && mkdir -p $HARVEST && cp "$r" "$HARVEST/$(basename $(dirname $p))__$c.trace"
  fi
done
git -C $S/repo checkout -q -- . ; git -C $S/repo clean -fdq
