#!/bin/sh
# tools/seedtest.sh <patch.diff> <tier> <check ids...>: apply a seeded change to /repo's working tree, run the
# named checks, ALWAYS revert.  Nothing else may build against /repo meanwhile.
p="$1"; tier="$2"; shift 2
cd /verif
[ -z "$(git -C /repo status --porcelain)" ] || { echo "/repo not clean"; exit 2; }
git -C /repo apply "$p" || { echo "patch does not apply"; exit 2; }
# evidence files are rewritten by every run: keep the clean tree's ones
rm -rf /tmp/q/evidence_keep; mkdir -p /tmp/q; cp -r evidence /tmp/q/evidence_keep
mkdir -p /tmp/q
for c in "$@"; do
  s=$(date +%s)
  ./check $c --tier $tier > /tmp/q/seed_$c.log 2>&1; rc=$?
  e=$(date +%s)
  echo "$c rc=$rc t=$((e-s))s :: $(grep VIOLATION /tmp/q/seed_$c.log | head -3 | tr '\n' ';')"
done
git -C /repo checkout -- .
cp /tmp/q/evidence_keep/*.json evidence/
[ -z "$(git -C /repo status --porcelain)" ] && echo reverted
