#!/bin/bash
# tools/harmsweep.sh [tier]: every behaviour-preserving rewrite under seeded-harmless/ against the checks that look at the files it
# touches (4 parallel slots, tools/slot.sh).  A VIOLATION here is a FALSE ALARM of /verif (or a rewrite that is not harmless after all).
tier=${1:-quick}
mkdir -p /tmp/q
checks_for() {   # files touched -> checks
  local f="$1" c=""
  case "$f" in
    *mdk-core/src/messages/*) c="C01 C02 C05 C06 C07 C08 C11 C04 C12 C14";;
    *mdk-core/src/epoch_snapshots.rs) c="C20 C01 C11 C07 C14";;
    *mdk-core/src/groups.rs) c="C05 C08 C01 C12 C14 C15";;
    *mdk-core/src/welcomes.rs) c="C16 C03 C08 C12 C14";;
    *mdk-core/src/key_packages.rs) c="C15 C06 C14";;
    *mdk-core/src/extension/*) c="C15 C17 C08 C14";;
    *mdk-core/src/encrypted_media/*) c="C17 C15 C14";;
    *mdk-core/src/util.rs|*mdk-core/src/lib.rs|*mdk-core/src/error.rs) c="C15 C06 C14 C20 C11";;
    *mdk-memory-storage/*) c="C09 C10 C18 C19 C08 C14";;
    *mdk-sqlite-storage/src/keyring.rs|*mdk-sqlite-storage/src/encryption.rs|*mdk-sqlite-storage/src/permissions.rs) c="C13 C14";;
    *mdk-sqlite-storage/*) c="C09 C10 C18 C19 C12 C20 C14";;
    *mdk-storage-traits/*) c="C10 C18 C15 C14 C16";;
    *mdk-uniffi/*) c="C06 C15 C14";;
  esac
  echo $c
}
i=0
for k in 1 2 3 4; do : > /tmp/q/harm_$k.list; done
for d in /verif/seeded-harmless/*/; do
  p=$d/patch.diff
  cs=""
  for f in $(grep '^+++ b/' $p | sed 's#^+++ b/##'); do cs="$cs $(checks_for $f)"; done
  cs=$(echo $cs | tr ' ' '\n' | sort -u | tr '\n' ' ')
  k=$(( i % 4 + 1 )); i=$(( i + 1 ))
  echo "$p $cs" >> /tmp/q/harm_$k.list
done
for k in 1 2 3 4; do
  ( while read p checks; do /verif/tools/slot.sh $k $p $tier $checks; done < /tmp/q/harm_$k.list > /tmp/q/harm_$k.txt 2>&1 ) &
done
wait
cat /tmp/q/harm_?.txt | sed 's#/tmp/slot[0-9]/verif/replays/##g'
