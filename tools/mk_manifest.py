#!/usr/bin/env python3
"""Regenerates MANIFEST.json from the table below (keeps it valid at all times)."""
import json, os
V = os.path.join(os.path.dirname(os.path.abspath(__file__)), "..")
NOTE = "Lean kernel + propext/Classical.choice/Quot.sound (audited per theorem); tools/gen_model.py fact extraction; the hand-written model is validated by correspondence on the histories of each run only; harness canonicalisation and oracles are trusted"
CLAIMS = {
 "C18": ("store", "Lean 4 theorems over the executable store model for all message sets, limits, offsets and arrival orders: both comparators are strict total orders, the listing is a sorted permutation determined by the set of messages, messages() returns exactly the requested slice for EVERY offset on both backends (empty beyond the end), out-of-range limits are refused, last_message is the head, and the cached pointer after any arrival order designates the head of the default order (partial: pointer across rollback/overwrite is the world engine's part). Tied to the code by regenerated facts (ORDER BY key lists, limits, overflow/clamp flags) and a correspondence + oracle run on both backends.",
         "Lean 4 proof + model/implementation correspondence", "DESIGN §6 C18"),
 "C09": ("store", "Lean 4 theorems for every store, both backends, every reachable history (induction over all operation sequences): a successful rollback restores the group's record, relays, per-epoch secrets and MLS rows exactly as captured, changes nothing of any other group, destroys no message / processed-message / welcome record and no other snapshot, consumes exactly the named snapshot; a refused rollback has no effect; create/release/prune/list change no live state; re-taking a name succeeds and replaces. SQLite facts (cascade edges, restore SQL, retake) are re-extracted each run; correspondence + before/after full-dump oracle on both backends.",
         "Lean 4 proof + model/implementation correspondence", "DESIGN §6 C09"),
 "C10": ("store", "Lean 4 theorems about the contract on either backend (last-write-wins lookups for groups, messages, dedup records; exact selection of invalidation / retry / pending-welcome queries; backend independence of listing, tag search and prune count from regenerated facts), the full equality statement kept as a Prop with closed counter-witnesses for the two open differences, and a three-way differential run (model/memory, model/SQLite, memory/SQLite) on identical seeded histories. Partial: the all-operations refinement theorem is not yet proved; equality of the backends is established per run by the differential oracle.",
         "Lean 4 proof + three-way differential correspondence", "DESIGN §6 C10"),
 "C20": ("mgr", "Lean 4 theorems over the EpochSnapshotManager model for every retention value (0 included), both backends and every sequence of commits, MIP-03 comparisons, rollbacks, restarts with any TTL: every group's rollback queue holds at most `retention` entries after every step (induction over the op list), nothing older than the TTL is stored after a restart, a rollback leaves no queue entry at or after the rolled-back epoch, a commit is never better than itself and hydrated entries are never compared. Correspondence against the real manager over both storage backends (hydration order, retention trimming, release on rollback) and an oracle with a spec-level log (stored count <= retention, kept = most recent commits, TTL).",
         "Lean 4 proof + model/implementation correspondence", "DESIGN §6 C20"),
 "C14": ("leak", "PARTIAL. Lean 4 theorems over a rendering semantics (values are arbitrarily nested texts built at extracted sites): a record whose argument classes are all clean contains no secret atom (render_clean, all tables/sites/values); every error-enum variant, every non-test construction of a free-text error payload, every manual Debug/Display impl and every tracing call site of the five crates - re-extracted from the current source on every run into GeneratedLeak.lean - has only clean argument classes (decide over the finite regenerated tables); hence no modelled execution emits a protected value. The tie to the code is the translator (classification rules trusted, conservative: no rule => unknown => sensitive) plus a run-time correspondence: every captured mdk_* record must come from an extracted site and a canary may occur only where the Lean table says sensitive; an independent canary oracle scans every captured record and every rendered Err/result value.",
         "Lean 4 proof over regenerated tables + run-time canary capture", "DESIGN §6 C14"),
 "C13": ("atrest", "PARTIAL. Lean 4 theorems: the get_or_create_db_key protocol stores at most one key and every finished caller returns it, for every number of threads and every schedule (invariant by induction; mutual exclusion and a stores <= deletes+1 bound also with delete_db_key); the model's step list equals the call sequence extracted from keyring.rs on every run; the constructor x file-state x keyring-state decision logic: an encrypted file opens iff the presented key is its key, never via new_unencrypted, reopening returns the same data, `new` on an existing file never generates a key, at most one key is stored over every history of constructor calls, modes 0600/0700; concurrent `new` on one path is safe for every schedule (one key, openers agree, never WrongEncryptionKey) but callers can be refused (witness). Assumed, exercised by the harness only: SQLCipher page/journal/WAL encryption and the validation read, temp_store=MEMORY, O_EXCL/chmod, std Mutex, atomic keyring calls.",
         "Lean 4 proof + model/implementation correspondence + canary scan", "DESIGN §6 C13"),
}
NOTES = {"C13": "Lean kernel + propext/Quot.sound(/Classical.choice); tools/gen_model.py (keyringShape, guard lifetime, new()'s branches, PRAGMA order, mode constants); hand-written models validated by correspondence on this run's cells/histories/event traces only; confidentiality of file contents is an assumption on SQLCipher checked by a canary scan with a positive control",
         "C14": "partial: call sites that did not fire in a run are covered by the static theorem only; the classification of expressions and 'third-party Display/Debug is clean' are trusted and listed in evidence; panic messages are not captured"}
PENDING = "not yet claimed: machinery under construction in this session (planned per DESIGN §12)"
def main():
    engines = [{"name": "lean-model", "path": "lean/", "serves_properties": sorted(CLAIMS), "kind_free_text": "Lean 4 executable model, helper lemmas, property theorems (MdkVerif.Props.*), compiled driver mdkdrv"},
               {"name": "store", "path": "harness/src/store.rs + vlib/storeeng.py", "serves_properties": [p for p, v in CLAIMS.items() if v[0] == "store"], "kind_free_text": "correspondence + oracle engine over the storage traits on both backends"},
               {"name": "mgr", "path": "harness/src/mgr.rs + vlib/mgreng.py", "serves_properties": [p for p, v in CLAIMS.items() if v[0] == "mgr"], "kind_free_text": "drives the real EpochSnapshotManager over both backends"},
               {"name": "leak", "path": "harness/src/leak.rs + vlib/leakeng.py + tools/gen_leak.py", "serves_properties": [p for p, v in CLAIMS.items() if v[0] == "leak"], "kind_free_text": "tracing capture + Display/Debug rendering of returned values under canary scenarios, mapped onto regenerated Lean tables"},
               {"name": "atrest", "path": "harness/src/atrest.rs + vlib/atresteng.py + lean/Driver/AtrestDrv.lean", "serves_properties": [p for p, v in CLAIMS.items() if v[0] == "atrest"], "kind_free_text": "constructor x file-state x keyring-state matrix against a mock keyring-core store, concurrent first opens, canary byte scan, mode bits"},
               {"name": "translator", "path": "tools/gen_model.py", "serves_properties": sorted(CLAIMS), "kind_free_text": "regenerates lean/MdkVerif/Generated.lean from /repo on every run"}]
    m = {"version": 1, "setup_cmd": "./setup.sh",
         "hooks": {"guard": "cargo feature verif-hooks (mdk-core, mdk-memory-storage, mdk-sqlite-storage)",
                   "enable": "the harness crate /verif/harness depends on /repo/crates/* by path with features = [\"verif-hooks\"]",
                   "baseline_off_cmd": "cd /repo && cargo nextest run --workspace --no-fail-fast --test-threads 8 --offline || cargo test --workspace --no-fail-fast --offline",
                   "source_commits": ["c47a3be", "2aeb439"], "add_only": True},
         "engines": engines, "checks": [],
         "notes": "see DESIGN.md; known_findings.jsonl lists fixed and open findings; fix: commits in /repo are listed there",
         "not_applicable": []}
    for pid in sorted(CLAIMS):
        eng, text, tech, ref = CLAIMS[pid]
        m["checks"].append({"property_id": pid, "quick_cmd": f"./check {pid} --tier quick", "thorough_cmd": f"./check {pid} --tier thorough",
                            "evidence_file": f"evidence/{pid}.json", "replay_cmd_template": f"./check {pid} --replay {{path}}",
                            "engine": f"lean-model+{eng}", "level_claimed": {"category": "proof", "text": text, "design_ref": ref},
                            "level_note": NOTES.get(pid, NOTE), "technique": tech})
    for i in range(1, 21):
        pid = f"C{i:02d}"
        if pid not in CLAIMS:
            m["not_applicable"].append({"property_id": pid, "reason": PENDING})
    json.dump(m, open(os.path.join(V, "MANIFEST.json"), "w"), indent=1)
if __name__ == "__main__":
    main()
