#!/usr/bin/env python3
"""Regenerates MANIFEST.json from tools/claims.json (keeps it valid at all times)."""
import json, os
V = os.path.join(os.path.dirname(os.path.abspath(__file__)), "..")
HOLD = {}
PENDING = "not yet claimed: machinery under construction in this session (planned per DESIGN §12)"
ENGINES = {
 "store": ("harness/src/store.rs + vlib/storeeng.py", "correspondence + oracle engine over the storage traits on both backends"),
 "memlru": ("harness/src/store.rs (backend lru <cache_size> <max_messages_per_group>) + vlib/lrueng.py + lean/Driver/MemLruDrv.lean + lean/MdkVerif/Model/MemLru.lean", "second engine of C10 and C18: the memory backend built with small LRU capacities, op histories over key pools larger than the capacities, replayed on Model.MemLru with candidate states for HashMap-order choices; capacity / LRU-exactness / cap-victim / index oracles and within-capacity equality with SQLite"),
 "limits": ("harness/src/store.rs (ops measure / z= / e=) + vlib/limitseng.py + lean/Driver/StoreLimDrv.lean + lean/MdkVerif/Model/StoreLimits.lean", "second engine of C06 (hostile store stream) and third run of C10 (boundary stream): store ops with values at and beyond both backends' documented limits, serialized sizes measured by the harness, replayed on the limit-aware model (validation tables regenerated from both backends); no-effect-on-refusal and per-backend documented-limit oracles"),
 "mgr": ("harness/src/mgr.rs + vlib/mgreng.py", "drives the real EpochSnapshotManager over both backends"),
 "leak": ("harness/src/leak.rs + vlib/leakeng.py + tools/gen_leak.py", "tracing capture + Display/Debug rendering of returned values under canary scenarios, mapped onto regenerated Lean tables"),
 "atrest": ("harness/src/atrest.rs + vlib/atresteng.py + lean/Driver/AtrestDrv.lean", "constructor x file-state x keyring-state matrix against a mock keyring-core store, concurrent first opens, canary byte scan, mode bits"),
 "conc": ("harness/src/conc.rs + vlib/conceng.py", "N threads on one shared backend instance; linearizability search certified on the Lean model; stress oracles"),
 "crash": ("harness/src/crash.rs + vlib/crasheng.py + harness/src/crashw.rs + vlib/crashweng.py + vlib/c12core.py + lean/Driver/CrashCoreDrv.lean", "simulated process death at every storage tick of every storage call AND of every mdk-core call (process_message, merge_pending_commit, welcomes, local operations) on a file-backed sqlite store, reopen, loadability + recovery oracle; crash-class sequences compared with Model.CrashCore"),
 "codec": ("harness/src/codec.rs + vlib/codeceng.py + lean/Driver/CodecDrv.lean", "correspondence + oracle engine over the real (de)serialisers of mdk-core; generated values and every single-field mutation"),
 "invite": ("harness/src/invite.rs (on harness/src/world.rs) + vlib/inviteeng.py + vlib/check_C16.py + lean/Driver/InviteDrv.lean", "invitation histories on real MDK instances replayed on Model.Welcome; oracle on the implementation's own views"),
 "world": ("harness/src/world.rs + vlib/worldeng.py + vlib/check_world.py + lean/Driver/WorldDrv.lean", "2..6 real MDK instances (memory/SQLite), pool of wrapper events, scheduled deliveries with duplication/reordering/restarts, replayed step by step on Model.Client; convergence / frame / sync / duplicate oracles"),
 "know": ("harness/src/invite.rs + vlib/knoweng.py + vlib/check_C03.py + lean/Driver/KnowDrv.lean", "observers fed every event ever published; knowledge model replay"),
 "appmsg": ("harness/src/appmsg.rs (on harness/src/world.rs) + vlib/appmsgeng.py + vlib/check_C04.py + lean/Driver/AppMsgDrv.lean", "adversarial application messages crafted with OpenMLS directly (chosen pubkey/id/timestamp/kind/tags, cross-group wraps, replays, stale ex-member) delivered to a real MDK receiver on memory and SQLite; replayed on Model.AppMsg; oracle over the stored rows"),
 "mediaw": ("harness/src/codec.rs (media ops) + harness/src/mediaw.rs (on harness/src/world.rs) + vlib/mediaeng.py + vlib/check_C17.py + lean/Driver/MediaDrv.lean", "HKDF context / AAD correspondence over the real key derivation, and media histories on real MDK instances (encrypt, announce, commits, decrypt at members/non-members, tampers, group images) replayed on Model.MediaEpoch"),
 "wrap": ("harness/src/wrap.rs (on harness/src/world.rs) + vlib/wrapeng.py + vlib/check_wrap.py + lean/Driver/WrapDrv.lean", "second engine of C06 and C08: the outermost layer of process_message under hostile / malformed kind-445 wrapper events — three real MDK instances (memory, SQLite, custom window) holding 2-3 groups each, every single-field mutation (kind, created_at incl. boundary±1 against the observed clock, h tags, content, NIP-44 payloads sealed with a valid MAC around malformed buffers, re-signed or not), id rotations incl. onto another group's id and a rollback across a rotation; replayed on Model.Wrap; frame / routing / panic oracles"),
 "ffi": ("harness/src/ffi.rs + vlib/ffieng.py + vlib/check_C06.py + lean/Driver/FfiDrv.lean + lean/MdkVerif/Model/Ffi.lean", "every #[uniffi::export] function of crates/mdk-uniffi called on real binding objects (sessions set up through the binding API) with every hostile class of every string / list / number / byte-vector argument under catch_unwind; parse-level outcome diffed against Model.Ffi; independent hex judge; no-panic / no-poisoned-mutex oracle"),
 "media": ("harness/src/codec.rs (media ops) + harness/src/world.rs + vlib/mediaeng.py", "HKDF context / AAD correspondence and epoch-hint histories"),
 "msgwin": ("harness/src/msgwin.rs (on harness/src/world.rs) + vlib/msgwineng.py + vlib/c02win.py + lean/Driver/MsgWinDrv.lean", "2-3 real MDK instances created with small out_of_order_tolerance / maximum_forward_distance / max_past_epochs, message bursts over several epochs offered in generated orders (inside, exactly at and just beyond each window, duplicates), replayed on Model.Ratchet (which predicts generations, OpenMLS verdicts, rows, records); oracle computed from the schedule and the three window sizes alone"),
}
def main():
    claims = json.load(open(os.path.join(V, "tools", "claims.json")))
    engines = [{"name": "lean-model", "path": "lean/", "serves_properties": sorted(claims), "kind_free_text": "Lean 4 executable model, helper lemmas, property theorems (MdkVerif.Props.*), compiled driver mdkdrv"}]
    for name, (path, text) in ENGINES.items():
        served = sorted(p for p, c in claims.items() if (name in c["engine"].split("+") or name in (c.get("more_engines", []) + c.get("extra_engines", []))) and p not in HOLD)
        if served:
            engines.append({"name": name, "path": path, "serves_properties": served, "kind_free_text": text})
    engines.append({"name": "translator", "path": "tools/gen_model.py", "serves_properties": sorted(claims), "kind_free_text": "regenerates lean/MdkVerif/Generated*.lean from /repo on every run"})
    m = {"version": 1, "setup_cmd": "./setup.sh",
         "hooks": {"guard": "cargo feature verif-hooks (mdk-core, mdk-memory-storage, mdk-sqlite-storage)",
                   "enable": "the harness crate /verif/harness depends on /repo/crates/* by path with features = [\"verif-hooks\"]",
                   "baseline_off_cmd": "cd /repo && cargo nextest run --workspace --no-fail-fast --test-threads 8 --offline || cargo test --workspace --no-fail-fast --offline",
                   "source_commits": ["c47a3be", "2aeb439", "6d04b7a"], "add_only": True},
         "engines": engines, "checks": [],
         "notes": "see DESIGN.md; known_findings.jsonl lists fixed and open findings; fix: commits in /repo are listed there; seeded/ holds confirmed breaking changes and which checks catch them",
         "not_applicable": []}
    for pid in sorted(claims):
        if pid in HOLD:
            continue
        c = claims[pid]
        m["checks"].append({"property_id": pid, "quick_cmd": f"./check {pid} --tier quick", "thorough_cmd": f"./check {pid} --tier thorough",
                            "evidence_file": f"evidence/{pid}.json", "replay_cmd_template": f"./check {pid} --replay {{path}}",
                            "engine": f"lean-model+{c['engine']}" + "".join("+" + x for x in (c.get("more_engines", []) + c.get("extra_engines", []))), "level_claimed": {"category": "proof", "text": c["text"], "design_ref": c["design_ref"]},
                            "level_note": c["note"], "technique": c["technique"]})
    for i in range(1, 21):
        pid = f"C{i:02d}"
        if pid in HOLD:
            m["not_applicable"].append({"property_id": pid, "reason": HOLD[pid]})
        elif pid not in claims:
            m["not_applicable"].append({"property_id": pid, "reason": PENDING})
    json.dump(m, open(os.path.join(V, "MANIFEST.json"), "w"), indent=1)
if __name__ == "__main__":
    main()
