"""Source normalisation shared by the translators (gen_model.py, gen_leak.py) — DESIGN §13 `translator robustness`.

The extractors read facts from Rust source TEXT.  To make a fact depend on what the code does and not on how it is
spelled, the text is brought into a normal form first (all functions work on comment-stripped text):

  inline_consts     string / byte-string / integer `const` and `static` items are substituted at their use sites
                    (`X`, `Self::X`, `module::X`), transitively; inside the definition of another const the value of
                    an integer expression is substituted too, so `const A: usize = B;` and `const A: usize = 2 * B;`
                    can be evaluated by a reader of A's definition.  Definitions themselves stay in place.
  inline_helpers    the body of a callee that the extractors do not know by name (a private helper) is inserted after
                    its call (`self.f(a)`, `Self::f(a)`, `f(a)`, `module::f(a)`), parameters replaced by the argument
                    texts; depth <= 3, no recursion.  "A happens before B inside F" survives moving A into a helper.
  expand_matches    `matches!(x, P | Q)` becomes `match x { P => true, Q => true, _ => false }` and every or-pattern
                    arm `P | Q => e` becomes `P => e, Q => e`.
  inline_lets       immutable simple `let x = <expr>;` bindings are substituted at their uses (the `let` stays), so a
                    pattern can be written over expressions instead of over the names of locals.
  positional_fmt    `format!("{a:04x}")` becomes `format!("{:04x}", a)` (all format-like macros).
  unify_strings     `.to_owned()`, `.into()` on a string literal, `String::from(x)` become `.to_string()`;
                    `f.write_str(x)` becomes `write!(f, "{}", x)`.
  byte_pieces       a small evaluator for functions that build a byte string (Vec::new + extend_from_slice / push,
                    `[a, b].join(&SEP)`, `.concat()`, a call of another such function): the sequence of pieces.

Nothing here knows a fact; what stays syntactic is listed in DESIGN §13.
"""
import os, re

# ---------------------------------------------------------------------------------------------------
# lexical helpers

def skip_literal(src, i):
    """if a string / byte-string / raw-string / char literal starts at i: index after it, else i"""
    n = len(src)
    c = src[i]
    if c == '"':
        j = i + 1
        while j < n and src[j] != '"':
            j += 2 if src[j] == "\\" else 1
        return min(j + 1, n)
    if c in "br" and (i == 0 or not (src[i - 1].isalnum() or src[i - 1] == "_")):
        m = re.match(r'b?r(#*)"', src[i:i + 8])
        if m:
            end = src.find('"' + m.group(1), i + len(m.group(0)))
            return n if end < 0 else end + 1 + len(m.group(1))
        if src.startswith('b"', i):
            return skip_literal(src, i + 1)
        if src.startswith("b'", i):
            return skip_literal(src, i + 1)
    if c == "'":
        m = re.match(r"'(\\.[^']*|[^\\'])'", src[i:i + 12])
        if m:
            return i + len(m.group(0))
    return i


def match_close(src, i, open_c=None, close_c=None):
    """index of the bracket closing the one at src[i] (literals skipped); -1 when unbalanced"""
    open_c = open_c or src[i]
    close_c = close_c or {"(": ")", "[": "]", "{": "}", "<": ">"}[open_c]
    depth, j, n = 0, i, len(src)
    while j < n:
        k = skip_literal(src, j)
        if k != j:
            j = k; continue
        c = src[j]
        if c == open_c:
            depth += 1
        elif c == close_c:
            depth -= 1
            if depth == 0:
                return j
        j += 1
    return -1


def split_top(s, sep=",", angle=False):
    """split at separators outside brackets and literals (`angle`: also respect <…>)"""
    parts, depth, cur, i, n = [], 0, [], 0, len(s)
    while i < n:
        k = skip_literal(s, i)
        if k != i:
            cur.append(s[i:k]); i = k; continue
        c = s[i]
        if c in "([{" or (angle and c == "<"):
            depth += 1
        elif c in ")]}" or (angle and c == ">" and (i == 0 or s[i - 1] not in "-=")):
            depth -= 1
        if c == sep and depth == 0 and not (sep == "|" and (s[i + 1:i + 2] == "|" or s[i - 1:i] == "|")):
            parts.append("".join(cur)); cur = []
        else:
            cur.append(c)
        i += 1
    if "".join(cur).strip():
        parts.append("".join(cur))
    return [p.strip() for p in parts]


def strip_comments(src):
    """remove // and /* */ comments (literals kept)"""
    out, i, n = [], 0, len(src)
    while i < n:
        k = skip_literal(src, i)
        if k != i:
            out.append(src[i:k]); i = k
        elif src.startswith("//", i):
            j = src.find("\n", i)
            i = n if j < 0 else j
        elif src.startswith("/*", i):
            depth, j = 1, i + 2
            while j < n and depth:
                if src.startswith("/*", j): depth += 1; j += 2
                elif src.startswith("*/", j): depth -= 1; j += 2
                else: j += 1
            i = j
        else:
            out.append(src[i]); i += 1
    return "".join(out)


def drop_tests(src):
    """remove every `#[cfg(test)]` item (mod … { }, fn … { }, `mod tests;`)"""
    pos = 0
    while True:
        m = re.compile(r"#\[cfg\((?:all\()?test\b[^\]]*\]").search(src, pos)
        if not m:
            return src
        b, semi = src.find("{", m.end()), src.find(";", m.end())
        if b < 0 or (0 <= semi < b):
            e = semi if semi >= 0 else m.end()
        else:
            e = match_close(src, b, "{", "}")
            if e < 0:
                return src[:m.start()]
        src = src[:m.start()] + src[e + 1:]
        pos = m.start()


# ---------------------------------------------------------------------------------------------------
# items: consts and functions

INT_LIT = r"(?:0x[0-9A-Fa-f_]+|0o[0-7_]+|0b[01_]+|[0-9][0-9_]*)(?:usize|isize|u8|u16|u32|u64|u128|i8|i16|i32|i64|i128)?"
STR_LIT = r'b?"(?:[^"\\]|\\.)*"'
CONST_DEF = re.compile(r"\b(?:const|static)\s+([A-Z][A-Z0-9_]*)\s*:\s*([^=;]+?)\s*=\s*((?:" + STR_LIT + r"|[^;\"])+?)\s*;", re.S)
CONST_PATH = r"(?:(?:[a-z_][a-z0-9_]*|Self|crate|super)\s*::\s*)*"


def const_defs(src):
    """{name: value text} of the const / static items of a (comment-stripped, test-free) source text"""
    res, clash = {}, set()
    for m in CONST_DEF.finditer(src):
        v = re.sub(r"\\\n\s*", "", m.group(3).strip())
        if res.setdefault(m.group(1), v) != v:
            clash.add(m.group(1))                 # two items of one name with different values (two impls / modules): not inlined
    for k in clash:
        res[k] = "<ambiguous>"
    return res


def _is_literal(v):
    return bool(re.fullmatch(STR_LIT, v, re.S) or re.fullmatch(INT_LIT, v))


def _int_expr(v):
    return bool(re.fullmatch(r"[0-9A-Fa-fxob_\s\*\+\-/\(\)<>]+", v)) and bool(re.search(r"[0-9]", v))


def resolve_consts(local, crate_wide=None):
    """→ (literal {name: literal text}, ints {name: integer expression text}) after following aliases.
    `local` wins over `crate_wide` ({name: [value, …]}: a name with two different values in the crate is ambiguous)."""
    table = {}
    for k, vs in (crate_wide or {}).items():
        if len(set(vs)) == 1:
            table[k] = vs[0]
    table.update(local)
    lit, ints = {}, {}
    def value(name, seen=()):
        if name in lit: return lit[name]
        if name in ints: return ints[name]
        if name not in table or name in seen:
            return None
        v = table[name]
        if _is_literal(v):
            lit[name] = v; return v
        m = re.fullmatch(CONST_PATH + r"([A-Z][A-Z0-9_]*)", v)
        if m:
            r = value(m.group(1), seen + (name,))
            if r is not None:
                (lit if _is_literal(r) else ints)[name] = r
            return r
        # an integer expression over literals and other integer consts
        def sub(mm):
            r = value(mm.group(1), seen + (name,))
            return "(" + r + ")" if r is not None and not re.fullmatch(STR_LIT, r, re.S) else mm.group(0)
        e = re.sub(CONST_PATH + r"\b([A-Z][A-Z0-9_]*)\b", sub, v)
        if _int_expr(e):
            ints[name] = e; return e
        return None
    for k in list(table):
        value(k)
    return lit, ints


def inline_consts(src, lit, ints=None):
    """substitute literal consts at their use sites; inside a `const … = …;` definition also integer expressions"""
    ints = ints or {}
    if not lit and not ints:
        return src
    out, i, n = [], 0, len(src)
    in_def_until = -1                      # end of the const definition we are inside of (its right-hand side)
    tok = re.compile(r"(" + CONST_PATH + r")\b([A-Z][A-Z0-9_]*)\b")
    while i < n:
        k = skip_literal(src, i)
        if k != i:
            out.append(src[i:k]); i = k; continue
        c = src[i]
        if c.isalpha() or c == "_":
            if i and (src[i - 1].isalnum() or src[i - 1] == "_"):
                out.append(c); i += 1; continue
            m = re.match(r"(?:const|static)\s+(?:mut\s+)?[A-Z][A-Z0-9_]*\s*:", src[i:i + 200])
            if m:
                e = src.find("=", i + len(m.group(0)))
                semi = src.find(";", i)
                out.append(src[i:i + len(m.group(0))]); i += len(m.group(0))
                in_def_until = semi if e >= 0 else -1
                continue
            m = re.match(r"use\s[^;]*;", src[i:i + 2000], re.S)
            if m and (i == 0 or src[i - 1] in " \n\t;}"):
                out.append(m.group(0)); i += len(m.group(0)); continue
            m = tok.match(src, i)
            if m:
                name = m.group(2)
                after = src[m.end():m.end() + 2]
                if after.startswith("::") or re.match(r"\s*!", src[m.end():m.end() + 3]) and not src[m.end():m.end() + 3].lstrip().startswith("!="):
                    out.append(m.group(0)); i = m.end(); continue
                if name in lit:
                    out.append(lit[name]); i = m.end(); continue
                if name in ints and i < in_def_until:
                    out.append("(" + ints[name] + ")"); i = m.end(); continue
                out.append(m.group(0)); i = m.end(); continue
            m = re.match(r"[A-Za-z_][A-Za-z0-9_]*", src[i:])
            out.append(m.group(0)); i += len(m.group(0)); continue
        out.append(c); i += 1
    return "".join(out)


FN_HEAD = re.compile(r"\bfn\s+([A-Za-z_]\w*)\s*(?:<[^(){};]*?>)?\s*\(")


def fn_items(src):
    """[dict(name, start, params [(name, type)], has_self, ret, body (with braces), body_start, body_end, pub)]"""
    res = []
    for m in FN_HEAD.finditer(src):
        p = m.end() - 1
        q = match_close(src, p, "(", ")")
        if q < 0:
            continue
        b = q + 1
        depth = 0
        while b < len(src) and not (src[b] in "{;" and depth == 0):
            if src[b] in "(<[" and not src.startswith("->", b - 1): depth += 1
            elif src[b] in ")]" or (src[b] == ">" and src[b - 1] != "-"): depth -= 1
            b += 1
        if b >= len(src) or src[b] == ";":
            continue
        e = match_close(src, b, "{", "}")
        if e < 0:
            continue
        params, has_self = [], False
        for part in split_top(src[p + 1:q], ",", angle=True):
            part = re.sub(r"#\[[^\]]*\]\s*", "", part).strip()
            if re.fullmatch(r"&?\s*('\w+\s+)?(mut\s+)?self(\s*:.*)?", part, re.S):
                has_self = True; continue
            pm = re.fullmatch(r"(?:mut\s+)?([a-z_]\w*)\s*:\s*(.*)", part, re.S)
            params.append((pm.group(1), re.sub(r"\s+", " ", pm.group(2))) if pm else (None, part))
        head = src[max(0, m.start() - 80):m.start()]
        vis = re.search(r"\b(pub(?:\s*\([^)]*\))?)\s+(?:(?:const|async|unsafe|extern\s+\"[^\"]*\")\s+)*$", head)
        ret = re.sub(r"\s+", " ", src[q + 1:b]).strip()
        res.append(dict(name=m.group(1), start=m.start(), params=params, has_self=has_self, ret=ret,
                        body=src[b:e + 1], body_start=b, body_end=e, pub=(vis.group(1).replace(" ", "") if vis else "")))
    return res


# ---------------------------------------------------------------------------------------------------
# format strings / string idioms

FMT_MACROS = r"(?:format|write|writeln|print|println|eprint|eprintln|panic|format_args|trace|debug|info|warn|error|anyhow|bail)"


def positional_fmt(src):
    """inline captures `{name}` / `{name:spec}` of format-like macros become positional arguments"""
    out, pos = [], 0
    for m in re.finditer(r"\b" + FMT_MACROS + r"\s*!\s*\(", src):
        if m.start() < pos:
            continue
        cl = match_close(src, m.end() - 1, "(", ")")
        if cl < 0:
            continue
        inner = src[m.end():cl]
        parts = split_top(inner)
        k = next((idx for idx, p in enumerate(parts) if re.fullmatch(STR_LIT, p, re.S) and not p.startswith("b")), None)
        if k is None:
            continue
        fmt = parts[k]
        caps = []
        def repl(mm):
            if mm.group(0) in ("{{", "}}"):
                return mm.group(0)
            name = mm.group(1)
            if name and not name.isdigit() and not any(re.match(r"^" + re.escape(name) + r"\s*=(?!=)", p) for p in parts[k + 1:]):
                caps.append(name)
                return "{" + (mm.group(2) or "") + "}"
            return mm.group(0)
        new_fmt = re.sub(r"\{\{|\}\}|\{([A-Za-z_]\w*)?(:[^{}]*)?\}", repl, fmt)
        if not caps:
            continue
        # positional arguments must precede named ones; captured names are appended in order of appearance, which
        # is only right when the string has no explicit positional placeholder after a capture — good enough for
        # the canonical text the extractors match on
        new_parts = parts[:k] + [new_fmt] + parts[k + 1:] + caps
        out.append(src[pos:m.end()] + ", ".join(new_parts))
        pos = cl
    out.append(src[pos:])
    return "".join(out)


def unify_strings(src):
    src = re.sub(r"\.\s*to_owned\s*\(\s*\)", ".to_string()", src)
    src = re.sub(r"(" + STR_LIT + r")\s*\.\s*into\s*\(\s*\)", r"\1.to_string()", src)
    def sfrom(m):
        return m.group(1) + ".to_string()"
    src = re.sub(r"\bString\s*::\s*from\s*\(\s*(" + STR_LIT + r"|[a-z_][\w\.]*)\s*\)", sfrom, src)
    src = re.sub(r"\b(\w+)\s*\.\s*write_str\s*\(\s*((?:[^()]|\([^()]*\))*)\)", r'write!(\1, "{}", \2)', src)
    return src


# ---------------------------------------------------------------------------------------------------
# match arms

def _find_matches(src):
    """[(kw_start, scrutinee, brace_open, brace_close)] of the `match` expressions in src, outermost first"""
    res = []
    for m in re.finditer(r"\bmatch\b", src):
        if m.start() and (src[m.start() - 1].isalnum() or src[m.start() - 1] in "_."):
            continue
        j, depth, n = m.end(), 0, len(src)
        while j < n:
            k = skip_literal(src, j)
            if k != j:
                j = k; continue
            c = src[j]
            if c in "([": depth += 1
            elif c in ")]": depth -= 1
            elif c == "{" and depth == 0: break
            elif c == ";" and depth == 0: j = n; break
            j += 1
        if j >= n:
            continue
        e = match_close(src, j, "{", "}")
        if e < 0:
            continue
        res.append((m.start(), src[m.end():j].strip(), j, e))
    return res


def split_arms(inner, offsets=False):
    """[(pattern (with guard), body, had_block)] of the text between the braces of a match
    (`offsets`: [(pattern, body, had_block, body_start, body_end)] with positions in `inner`)"""
    res = _split_arms(inner)
    return res if offsets else [a[:3] for a in res]


def _split_arms(inner):
    arms, i, n = [], 0, len(inner)
    while i < n:
        # pattern up to `=>` at depth 0
        j, depth = i, 0
        while j < n:
            k = skip_literal(inner, j)
            if k != j:
                j = k; continue
            c = inner[j]
            if c in "([{": depth += 1
            elif c in ")]}": depth -= 1
            elif c == "=" and inner[j + 1:j + 2] == ">" and depth == 0: break
            j += 1
        if j >= n:
            break
        pat = inner[i:j].strip()
        j += 2
        while j < n and inner[j].isspace():
            j += 1
        if j < n and inner[j] == "{":
            e = match_close(inner, j, "{", "}")
            if e < 0:
                break
            body, k = inner[j:e + 1], e + 1
            # a block may be followed by a method call (`{ … }.foo()`): take up to the comma then
            rest = re.match(r"\s*(,|$)", inner[k:])
            if rest or not re.match(r"\s*(\.|\?|as\b)", inner[k:]):
                k += len(rest.group(0)) if rest else 0
                arms.append((pat, body, True, j, e + 1)); i = k; continue
        e, depth = j, 0
        while e < n:
            k = skip_literal(inner, e)
            if k != e:
                e = k; continue
            c = inner[e]
            if c in "([{": depth += 1
            elif c in ")]}": depth -= 1
            elif c == "," and depth == 0: break
            e += 1
        arms.append((pat, inner[j:e].strip(), False, j, e))
        i = e + 1
    return arms


def expand_matches(src):
    """`matches!` → match; every or-pattern arm → one arm per alternative (inner matches first)"""
    # matches!(x, P) / matches!(x, P if g)
    while True:
        m = re.search(r"\bmatches\s*!\s*\(", src)
        if not m:
            break
        cl = match_close(src, m.end() - 1, "(", ")")
        if cl < 0:
            break
        parts = split_top(src[m.end():cl])
        if len(parts) < 2:
            src = src[:m.start()] + "matches_!(" + src[m.end():]; continue
        src = src[:m.start()] + "match " + parts[0] + " { " + ", ".join(parts[1:]) + " => true, _ => false }" + src[cl + 1:]
    src = src.replace("matches_!(", "matches!(")
    def rec(text):
        ms = _find_matches(text)
        if not ms:
            return text
        out, pos = [], 0
        for (s, scrut, b, e) in ms:
            if b < pos:
                continue                          # nested in one already handled (its arms are recursed below)
            arms = split_arms(text[b + 1:e])
            new = []
            for pat, body, blk in arms:
                body = rec(body)
                g = re.search(r"\sif\s", pat)
                # guard: the last top-level ` if `
                guard = ""
                depth, gi = 0, -1
                for mm in re.finditer(r"[(\[{]|[)\]}]|\bif\b", pat):
                    t = mm.group(0)
                    if t in "([{": depth += 1
                    elif t in ")]}": depth -= 1
                    elif depth == 0: gi = mm.start()
                if gi > 0:
                    pat, guard = pat[:gi].strip(), " " + pat[gi:].strip()
                alts = [a for a in split_top(pat.lstrip("|").strip(), "|") if a]
                for a in (alts or [pat]):
                    new.append(f"{a}{guard} => {body}")
            out.append(text[pos:s] + "match " + rec(scrut) + " { " + ", ".join(new) + " }")
            pos = e + 1
        out.append(text[pos:])
        return "".join(out)
    return rec(src)


def match_tables(src):
    """[(scrutinee, [(pattern, body)])] of every match in src (after expand_matches), outermost first, nested included"""
    res = []
    def rec(text):
        for (s, scrut, b, e) in _find_matches(text):
            arms = split_arms(text[b + 1:e])
            res.append((scrut, [(p, bd) for p, bd, _ in arms]))
    rec(expand_matches(src))
    return res


# ---------------------------------------------------------------------------------------------------
# let inlining

_BINOP = re.compile(r"\s(\+|-|\*|/|%|==|!=|<=|>=|<|>|&&|\|\||\.\.=?|as|&|\||\^|<<|>>)\s")


def _needs_parens(expr):
    depth, i, n = 0, 0, len(expr)
    flat = []
    while i < n:
        k = skip_literal(expr, i)
        if k != i:
            flat.append('""'); i = k; continue
        c = expr[i]
        if c in "([{": depth += 1
        elif c in ")]}": depth -= 1
        flat.append(c if depth == 0 or c in "([{" else " " if c.isspace() else "_")
        i += 1
    f = "".join(flat)
    return bool(_BINOP.search(" " + f + " ")) or f.lstrip().startswith(("-", "!"))


def inline_lets(body, max_len=200):
    """substitute immutable `let x[: T] = <simple expr>;` at the uses of x in the rest of its block.
    Simple = no block, no closure, no `?`-less restriction (a `?` is kept), at most max_len characters.
    The `let` statements stay where they are (so the order of calls is unchanged); a use that is the
    left side of a struct-literal field (`x: …`) or a field access (`.x`) is not touched."""
    pat = re.compile(r"\blet\s+([a-z_]\w*)\s*(?::\s*[^=;]+?)?\s*=\s*")
    pos = 0
    while True:
        m = pat.search(body, pos)
        if not m:
            return body
        # initialiser up to `;` at depth 0
        j, depth, n = m.end(), 0, len(body)
        ok = True
        while j < n:
            k = skip_literal(body, j)
            if k != j:
                j = k; continue
            c = body[j]
            if c in "([": depth += 1
            elif c in ")]": depth -= 1
            elif c in "{|" and not (c == "|" and body[j + 1:j + 2] == "|" ) and not (c == "|" and body[j - 1:j] == "|"): ok = False
            elif c == "}" : ok = False
            elif c == ";" and depth == 0: break
            j += 1
        expr = re.sub(r"\s+", " ", body[m.end():j].strip())
        name = m.group(1)
        pos = j + 1 if ok else m.end()
        if not ok or j >= n or not expr or len(expr) > max_len or name == "_" or re.search(r"\belse\b", expr):
            continue
        # scope: to the end of the enclosing block
        depth, e = 0, j
        while e < n:
            k = skip_literal(body, e)
            if k != e:
                e = k; continue
            c = body[e]
            if c == "{": depth += 1
            elif c == "}":
                depth -= 1
                if depth < 0: break
            e += 1
        scope = body[j + 1:e]
        shadow = re.search(r"\blet\s+(?:mut\s+)?" + re.escape(name) + r"\b", scope)
        if shadow:
            scope_end = j + 1 + shadow.start()
            scope = body[j + 1:scope_end]
        else:
            scope_end = e
        rep = "(" + expr + ")" if _needs_parens(expr) else expr
        out, i2, n2 = [], 0, len(scope)
        use = re.compile(r"(?<![\w.])" + re.escape(name) + r"\b(?!\s*:(?!:))(?!\s*=(?!=))")
        while i2 < n2:
            k = skip_literal(scope, i2)
            if k != i2:
                out.append(scope[i2:k]); i2 = k; continue
            mm = use.match(scope, i2)
            if mm:
                out.append(rep); i2 = mm.end(); continue
            mw = re.match(r"\w+", scope[i2:])
            if mw:
                out.append(mw.group(0)); i2 += len(mw.group(0)); continue
            out.append(scope[i2]); i2 += 1
        body = body[:j + 1] + "".join(out) + body[scope_end:]


# ---------------------------------------------------------------------------------------------------
# helper inlining

CALL = re.compile(r"(?<![\w.!])((?:self\s*\.\s*)|(?:(?:Self|crate|super|self|[a-z_][a-z0-9_]*)\s*::\s*)+)?([a-z_][a-z0-9_]*)\s*(?:::\s*<[^<>()]*>)?\s*\(")
_SIMPLE_ARG = re.compile(r"^[&*]*\s*(?:mut\s+)?(?:[\w:]+(?:\s*\([^()|{}]*\))?|" + STR_LIT + r")(?:\s*\.\s*\w+(?:\s*\([^()|{}]*\))?|\s*\[[^\]|{}]*\]|\?)*$", re.S)


def substitute_params(body, params, args):
    """replace the parameter names of an inlined callee by the argument texts of the call (simple arguments only)"""
    sub = {}
    for (pname, _), arg in zip(params, args):
        arg = re.sub(r"\s+", " ", arg.strip())
        if pname and arg != pname and len(arg) <= 100 and _SIMPLE_ARG.match(arg):
            sub[pname] = arg
    if not sub:
        return body
    use = re.compile(r"(?<![\w.])(" + "|".join(map(re.escape, sorted(sub, key=len, reverse=True))) + r")\b(?!\s*:(?!:))")
    out, i, n = [], 0, len(body)
    while i < n:
        k = skip_literal(body, i)
        if k != i:
            out.append(body[i:k]); i = k; continue
        m = use.match(body, i)
        if m:
            a = sub[m.group(1)]
            # `&x` used as a receiver keeps Rust's auto-ref meaning when the `&` is dropped
            if re.match(r"\s*\.", body[m.end():m.end() + 3]) and a.startswith("&"):
                a = a.lstrip("&").strip()
                a = re.sub(r"^mut\s+", "", a)
            out.append(a); i = m.end(); continue
        mw = re.match(r"\w+", body[i:])
        if mw:
            out.append(mw.group(0)); i += len(mw.group(0)); continue
        out.append(body[i]); i += 1
    return "".join(out)


def _header_start(body, call_start, call_end):
    """when the call at [call_start, call_end] sits in the header of an if / while / match / for (between the keyword and
    the block it opens): the start of that statement, else -1"""
    j, depth = call_start - 1, 0
    while j >= 0:
        c = body[j]
        if c in ")]": depth += 1
        elif c in "([":
            depth -= 1
            if depth < 0:
                return -1                                  # inside the argument list of something else
        elif c == '"':
            j -= 1
            while j > 0 and not (body[j] == '"' and body[j - 1] != "\\"):
                j -= 1
        elif c in ";{}" and depth == 0:
            break
        j -= 1
    start = j + 1
    kw = re.search(r"\b(if|while|match|for)\b", body[start:call_start])
    if not kw or re.match(r"\s*else\b", body[start:call_start]):
        return -1
    k, depth, n = call_end + 1, 0, len(body)
    while k < n:
        q = skip_literal(body, k)
        if q != k:
            k = q; continue
        c = body[k]
        if c in "([": depth += 1
        elif c in ")]":
            depth -= 1
            if depth < 0: return -1
        elif depth == 0 and c == "{":
            return start
        elif depth == 0 and c in ";},":
            return -1
        k += 1
    return -1


def inline_helpers(body, lookup, boundary, stack=(), depth=3):
    """insert `{ callee body }` after every call of a function that `lookup(name, prefix)` resolves to exactly one
    definition and whose name is not in `boundary` (the functions the extractors know by name) nor in `stack`.
    A call in the header of an if / while / match / for gets the callee body in front of that statement instead
    (`{ body } if helper(x)? { … }`), so that the block structure of the statement stays readable."""
    if depth <= 0:
        return body
    ins = []                                   # (position, text) insertions
    pos = 0
    for m in CALL.finditer(body):
        if m.start() < pos:
            continue
        name = m.group(2)
        if name in boundary or name in stack or re.search(r"\bfn\s*$", body[max(0, m.start() - 4):m.start()]):
            continue
        prefix = (m.group(1) or "").replace(" ", "")
        if prefix and re.search(r"(^|::)[A-Z]\w*::$", prefix) and not prefix.startswith("Self::"):
            continue
        callee = lookup(name, prefix)
        if callee is None:
            continue
        cl = match_close(body, m.end() - 1, "(", ")")
        if cl < 0:
            continue
        args = split_top(body[m.end():cl])
        cbody = positional_fmt(callee["body"])
        if len(args) == len(callee["params"]):
            cbody = substitute_params(cbody, callee["params"], args)
        cbody = inline_helpers(cbody, lookup, boundary, stack + (name,), depth - 1)
        hs = _header_start(body, m.start(), cl)
        ins.append((hs, " " + cbody + " ") if hs >= 0 else (cl + 1, cbody))
        pos = m.end()
    if not ins:
        return body
    out, last = [], 0
    for p_, t in sorted(ins, key=lambda x: x[0]):
        out.append(body[last:p_]); out.append(t); last = p_
    out.append(body[last:])
    return "".join(out)


# ---------------------------------------------------------------------------------------------------
# byte-string builders

def byte_pieces(fn_name, fns, args=None, depth=3):
    """the sequence of pieces a byte-string building function returns, as argument / expression texts
    (`.as_bytes()`, `&` and `.as_ref()` dropped; a separator byte 0 is the piece `nul`), or None when the
    body is not understood.  `fns`: {name: fn item}.  Understood: `let mut v = Vec::new() | Vec::with_capacity(..) |
    <builder call>;`, `v.extend_from_slice(x); v.extend(x); v.push(b);`, a trailing `v`, `[a, b, …].join(&S)`,
    `[a, b].concat()`, `let name: T = [..];` followed by `name.join(..)`."""
    f = fns.get(fn_name)
    if f is None or depth < 0:
        return None
    body = f["body"]
    if args is not None and len(args) == len(f["params"]):
        body = substitute_params(body, f["params"], args)
    def norm(x):
        x = re.sub(r"\s+", " ", x.strip())
        x = re.sub(r"^&\s*(mut\s+)?", "", x)
        x = re.sub(r"\.\s*(as_bytes|as_ref|as_slice)\s*\(\s*\)$", "", x)
        if re.fullmatch(r"(0x00|0|0u8|0x00u8|b'\\0')", x):
            return "nul"
        return x
    vars_ = {}
    def value(expr):
        expr = re.sub(r"\s+", " ", expr.strip())
        if re.fullmatch(r"Vec\s*::\s*(new\s*\(\s*\)|with_capacity\s*\(.*\))", expr):
            return []
        m = re.fullmatch(r"\[(.*)\]\s*\.\s*(join|concat)\s*\((.*)\)", expr, re.S)
        if m:
            items = [norm(x) for x in split_top(m.group(1))]
            if m.group(2) == "concat":
                return items
            sep = norm(m.group(3))
            res = []
            for k, it in enumerate(items):
                if k: res.append(sep)
                res.append(it)
            return res
        m = re.fullmatch(r"([a-z_]\w*)\s*\.\s*(join|concat)\s*\((.*)\)", expr, re.S)
        if m and m.group(1) in vars_ and isinstance(vars_[m.group(1)], tuple):
            items = vars_[m.group(1)][1]
            if m.group(2) == "concat":
                return list(items)
            sep = norm(m.group(3))
            res = []
            for k, it in enumerate(items):
                if k: res.append(sep)
                res.append(it)
            return res
        m = re.fullmatch(r"(?:Self\s*::\s*|self\s*\.\s*)?([a-z_]\w*)\s*\((.*)\)", expr, re.S)
        if m and m.group(1) in fns and m.group(1) != fn_name:
            return byte_pieces(m.group(1), fns, split_top(m.group(2)), depth - 1)
        if re.fullmatch(r"[a-z_]\w*", expr) and expr in vars_ and isinstance(vars_[expr], list):
            return list(vars_[expr])
        return None
    inner = body.strip()[1:-1]
    stmts = split_top(inner, ";")
    last = None
    for k, st in enumerate(stmts):
        st = st.strip()
        m = re.fullmatch(r"let\s+(?:mut\s+)?([a-z_]\w*)\s*(?::\s*[^=]+?)?\s*=\s*(.*)", st, re.S)
        if m:
            rhs = m.group(2).strip()
            am = re.fullmatch(r"\[(.*)\]", rhs, re.S)
            if am:
                vars_[m.group(1)] = ("array", [norm(x) for x in split_top(am.group(1))])
            else:
                v = value(rhs)
                if v is None:
                    return None
                vars_[m.group(1)] = v
            continue
        m = re.fullmatch(r"([a-z_]\w*)\s*\.\s*(extend_from_slice|extend|push)\s*\((.*)\)", st, re.S)
        if m and isinstance(vars_.get(m.group(1)), list):
            vars_[m.group(1)].append(norm(m.group(3)))
            continue
        if k == len(stmts) - 1 and not inner.rstrip().endswith(";"):
            last = value(re.sub(r"^return\s+", "", st))
            return last
        m = re.fullmatch(r"return\s+(.*)", st, re.S)
        if m:
            return value(m.group(1))
        return None
    return last


# ---------------------------------------------------------------------------------------------------
# path conditions: under which guards is a position of a function body reached?

def guards_of(text, pos):
    """the guards on the way from the start of `text` (a function body) to `pos`, outermost first:
    ('if', cond) | ('else', cond of the if it belongs to, or None) | ('iflet', pattern, expr) | ('arm', scrutinee, pattern)
    Blocks without a condition (closures, loops, plain blocks) contribute nothing."""
    guards = []
    def descend(lo, hi):
        j = lo
        stop = lo                                   # end of the previous statement / block at this level
        last_if = None
        while j < hi:
            k = skip_literal(text, j)
            if k != j:
                j = k; continue
            c = text[j]
            if c == ";":
                stop = j + 1; last_if = None
            if c in "([":
                e = match_close(text, j)
                if e < 0: return
                if j < pos < e:
                    descend(j + 1, e); return
                j = e + 1; continue
            if c == "{":
                e = match_close(text, j, "{", "}")
                if e < 0: return
                header = text[stop:j]
                mm = re.search(r"\bmatch\b((?:(?!\bmatch\b).)*)$", header, re.S)
                mi = re.search(r"\bif\s+let\b(.*?)(?<![=!<>])=(?!=)(.*)$", header, re.S)
                mc = re.search(r"\bif\b((?:(?!\bif\b).)*)$", header, re.S)
                is_else = bool(re.search(r"\belse\s*$", header))
                if j < pos < e:
                    if mm and not (mc and mc.start() > mm.start()):
                        inner_off = j + 1
                        for pat, body, blk, bs, be in _split_arms(text[j + 1:e]):
                            if inner_off + bs <= pos <= inner_off + be:
                                guards.append(("arm", re.sub(r"\s+", " ", mm.group(1).strip()), re.sub(r"\s+", " ", pat)))
                                descend(inner_off + bs + (1 if blk else 0), inner_off + be - (1 if blk else 0))
                                return
                        return
                    if mi:
                        guards.append(("iflet", re.sub(r"\s+", " ", mi.group(1).strip()), re.sub(r"\s+", " ", mi.group(2).strip())))
                    elif mc:
                        guards.append(("if", re.sub(r"\s+", " ", mc.group(1).strip())))
                    elif is_else:
                        guards.append(("else", last_if))
                    descend(j + 1, e)
                    return
                if mc and not mi:
                    last_if = re.sub(r"\s+", " ", mc.group(1).strip())
                elif not is_else:
                    last_if = None
                j = e + 1
                # a block ends a statement unless an `else`, a method call or an operator follows
                if not re.match(r"\s*(else\b|\.|\?|,|\)|=>)", text[j:j + 12]):
                    stop = j
                continue
            j += 1
    descend(0, len(text))
    return guards


def eval_variant_cond(cond, variant, text, before, enum_re, depth=0):
    """three-valued value (True / False / None = unknown) of a boolean Rust expression under the assumption that
    every expression compared with / matched against `<enum_re>::X` holds the variant `variant`.
    Understood: `e == P::X`, `e != P::X`, `||`, `&&`, `!`, parentheses, `matches!(e, P::X | P::Y)`,
    `match e { P::X | P::Y => true, _ => false }`, a local whose `let` (in text[:before]) is one of these, true, false."""
    c = cond.strip()
    if depth > 8:
        return None
    while c.startswith("(") and match_close(c, 0, "(", ")") == len(c) - 1:
        c = c[1:-1].strip()
    for op in ("||", "&&"):
        parts, d, cur, i = [], 0, [], 0
        while i < len(c):
            k = skip_literal(c, i)
            if k != i:
                cur.append(c[i:k]); i = k; continue
            if c[i] in "([{": d += 1
            elif c[i] in ")]}": d -= 1
            if d == 0 and c.startswith(op, i):
                parts.append("".join(cur)); cur = []; i += 2; continue
            cur.append(c[i]); i += 1
        parts.append("".join(cur))
        if len(parts) > 1:
            vals = [eval_variant_cond(p, variant, text, before, enum_re, depth + 1) for p in parts]
            if op == "||":
                return True if any(v is True for v in vals) else (False if all(v is False for v in vals) else None)
            return False if any(v is False for v in vals) else (True if all(v is True for v in vals) else None)
    if c.startswith("!") and not c.startswith("!="):
        v = eval_variant_cond(c[1:], variant, text, before, enum_re, depth + 1)
        return None if v is None else (not v)
    if c in ("true", "false"):
        return c == "true"
    var = r"(?:[\w]+\s*::\s*)*" + enum_re + r"\s*::\s*(\w+)"
    m = re.fullmatch(r"(.+?)\s*(==|!=)\s*" + var, c, re.S) or re.fullmatch(var + r"\s*(==|!=)\s*(.+)", c, re.S)
    if m:
        g = m.groups()
        v, op = (g[2], g[1]) if g[1] in ("==", "!=") else (g[0], g[1])
        return (v == variant) == (op == "==")
    m = re.fullmatch(r"matches\s*!\s*\((.*)\)", c, re.S)
    if m:
        parts = split_top(m.group(1))
        if len(parts) >= 2:
            c = "match " + parts[0] + " { " + ", ".join(parts[1:]) + " => true, _ => false }"
    m = re.fullmatch(r"match\b(.*?)\{(.*)\}", c, re.S)
    if m:
        for pat, body, _ in split_arms(m.group(2)):
            pat = re.sub(r"\sif\s.*$", "", pat, flags=re.S)
            alts = split_top(pat.lstrip("|"), "|")
            hit = any(re.fullmatch(var + r"(\s*[\({].*)?", a.strip(), re.S) and re.fullmatch(var + r"(\s*[\({].*)?", a.strip(), re.S).group(1) == variant for a in alts) \
                or any(re.fullmatch(r"_|[a-z_]\w*", a.strip()) for a in alts)
            if hit:
                b = body.strip()
                if b.startswith("{") and b.endswith("}"):
                    b = b[1:-1].strip()
                return eval_variant_cond(b, variant, text, before, enum_re, depth + 1)
        return None
    if re.fullmatch(r"[a-z_]\w*", c):
        last = None
        for m in re.finditer(r"\blet\s+" + re.escape(c) + r"\s*(?::\s*bool\s*)?=\s*", text[:before]):
            last = m
        if last:
            j, d = last.end(), 0
            while j < len(text):
                k = skip_literal(text, j)
                if k != j:
                    j = k; continue
                if text[j] in "([{": d += 1
                elif text[j] in ")]}": d -= 1
                elif text[j] == ";" and d == 0: break
                j += 1
            return eval_variant_cond(text[last.end():j], variant, text, last.start(), enum_re, depth + 1)
    return None


def variants_reaching(text, pos, variants, enum_re):
    """the variants V of the enum for which position `pos` of the function body `text` may be reached, judged by the
    guards on the way that test a value against the enum (`None` when no guard on the way does)"""
    gs = guards_of(text, pos)
    res, tested = [], False
    var = r"(?:[\w]+\s*::\s*)*" + enum_re + r"\s*::\s*(\w+)"
    for v in variants:
        ok = True
        for g in gs:
            if g[0] == "if":
                r = eval_variant_cond(g[1], v, text, pos, enum_re)
            elif g[0] == "else":
                r = eval_variant_cond(g[1], v, text, pos, enum_re) if g[1] else None
                r = None if r is None else (not r)
            elif g[0] == "arm":
                pat = re.sub(r"\sif\s.*$", "", g[2], flags=re.S)
                alts = [a.strip() for a in split_top(pat.lstrip("|"), "|")]
                named = [re.fullmatch(var + r"(\s*[\({].*)?", a, re.S) for a in alts]
                if any(named):
                    r = any(m and m.group(1) == v for m in named)
                else:
                    r = None
            else:
                r = None
            if r is not None:
                tested = True
            if r is False:
                ok = False
        if ok:
            res.append(v)
    return res if tested else None
