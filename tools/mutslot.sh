#!/bin/bash
# tools/mutslot.sh <slot> <patch.diff|-|setup> [<tier> <check ids...>]
# Copy of tools/slot.sh for the mutation campaign (tools/mutcamp.py): the slot's verif copy is synced from THIS clone (the
# directory this script lives in), not from /verif, and only slots 5..8 are allowed (1..4 belong to tools/slot.sh users).
# `setup` prepares / resets the slot and stops (mutcamp.py then applies mutants and runs suite + checks itself); with a patch
# and check ids it behaves like slot.sh (one line per check) — used to re-run a single mutant by hand.
k=$1; p=$2; tier=$3; shift 3 2>/dev/null
case "$k" in 5|6|7|8) ;; *) echo "mutslot: slots 5..8 only"; exit 2;; esac
SRC=$(cd "$(dirname "$0")/.." && pwd)
LIB=${MUTCAMP_LIB:-/repo}
REV=${MUTCAMP_REV:-0339cde}
S=/tmp/slot$k
mkdir -p $S
if [ ! -d $S/repo ]; then git -C $LIB worktree add -q --detach $S/repo $REV || exit 2; fi
git -C $S/repo checkout -q --detach $(git -C $LIB rev-parse $REV) 2>/dev/null
git -C $S/repo checkout -q -- . ; git -C $S/repo clean -fdq
first=0; [ -d $S/verif ] || first=1
mkdir -p $S/verif
if [ $first = 1 ]; then
  # warm start: third-party crates and Lean objects of /verif's caches (read only), then this clone's sources on top
  rsync -a --exclude .git /verif/.cache $S/verif/ 2>/dev/null
  mkdir -p $S/verif/lean; rsync -a /verif/lean/.lake $S/verif/lean/ 2>/dev/null
fi
rsync -a --delete --exclude .git --exclude .cache --exclude lean/.lake --exclude evidence --exclude replays --exclude harness/Cargo.toml --exclude notes/mutcamp --exclude __pycache__ $SRC/ $S/verif/
mkdir -p $S/verif/evidence $S/verif/replays
cp $SRC/harness/Cargo.toml $S/verif/harness/Cargo.toml
sed -i "s#\"/repo/crates#\"$S/repo/crates#" $S/verif/harness/Cargo.toml
cp $S/repo/Cargo.lock $S/verif/harness/Cargo.lock
[ "$p" = "setup" ] && { echo "slot$k ready: $S (verif from $SRC, library $REV)"; exit 0; }
if [ "$p" != "-" ]; then git -C $S/repo apply "$p" || { echo "patch does not apply"; exit 2; }; fi
cd $S/verif
export VERIF_REPO=$S/repo VERIF_TARGET=$S/verif/.cache/target CARGO_NET_OFFLINE=true CARGO_BUILD_JOBS=4
unset CARGO_TARGET_DIR
mkdir -p $S/logs
for c in "$@"; do
  s=$(date +%s)
  ./check $c --tier $tier > $S/logs/$c.log 2>&1; rc=$?
  e=$(date +%s)
  echo "slot$k $(basename $p) $c rc=$rc t=$((e-s))s :: $(grep VIOLATION $S/logs/$c.log | head -3 | tr '\n' ';')"
done
git -C $S/repo checkout -q -- . ; git -C $S/repo clean -fdq
