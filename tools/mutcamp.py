#!/usr/bin/env python3
"""tools/mutcamp.py — automated mutation campaign against /verif's checks (laboratory equipment, like tools/slot.sh;
not registered in MANIFEST.json).  DESIGN §13.15.

  gen    [--seed S] [--target N]     candidate mutants of the non-test library source at the pinned revision, one unified diff
                                     each (notes/mutcamp/mutants/<id>.diff) + notes/mutcamp/mutants.jsonl (in RUN ORDER:
                                     stratified by file x operator, seeded)
  run    --jobs N --budget-min M     per mutant, in private slots 5..8 (tools/mutslot.sh): apply, cargo build, the library's
                                     own tests, then the RELEVANT quick checks; appends notes/mutcamp/results.jsonl (resumable)
  report                             notes/mutcamp/REPORT.md + notes/mutcamp/survivors/*.diff

Mutation operators (one site each): ror (< <= > >= == !=), lor (&& ||), neg (if-condition negated / negation removed),
lit (integer literal +1 / -1), satsub (saturating_sub(1) -> (2) / (0)), const (numeric const +1 / -1), aor (+ <-> - between
spaces), del (statement deletion: a call whose result is unused or `?`-propagated unit), swap (two adjacent independent
storage-write statements), errarm (result of an `Err(..)` match arm replaced by the neighbouring arm's), sql-order
(ORDER BY direction / key order), sql-insert (INSERT OR REPLACE <-> INSERT OR IGNORE), sql-set (one column dropped from an
UPDATE ... SET / DO UPDATE SET list), sql-rel (> <-> >=, < <-> <= inside SQL), sql-limit (LIMIT ? OFFSET ? -> LIMIT ?, ?).
Never mutated: code under #[cfg(test)] / #[test], tracing / log / debug_assert / print macro arguments, Debug / Display
impls, comments, attributes, anything behind the `verif-hooks` feature, string literals other than SQL.
"""
import argparse, collections, difflib, fnmatch, hashlib, json, os, random, re, shutil, signal, subprocess, sys, threading, time

HERE = os.path.dirname(os.path.abspath(__file__))
VERIF = os.path.dirname(HERE)
sys.path.insert(0, HERE)
from rsnorm import skip_literal  # noqa: E402

LIB = os.environ.get("MUTCAMP_LIB", "/repo")
OUT = os.path.join(VERIF, "notes", "mutcamp")
PIN = "0339cde"

FILE_PATTERNS = [
    "crates/mdk-core/src/messages/*.rs", "crates/mdk-core/src/groups.rs", "crates/mdk-core/src/welcomes.rs",
    "crates/mdk-core/src/key_packages.rs", "crates/mdk-core/src/epoch_snapshots.rs", "crates/mdk-core/src/util.rs",
    "crates/mdk-core/src/extension/*.rs", "crates/mdk-core/src/encrypted_media/*.rs",
    "crates/mdk-memory-storage/src/*.rs",
    "crates/mdk-sqlite-storage/src/lib.rs", "crates/mdk-sqlite-storage/src/groups.rs", "crates/mdk-sqlite-storage/src/messages.rs",
    "crates/mdk-sqlite-storage/src/welcomes.rs", "crates/mdk-sqlite-storage/src/db.rs", "crates/mdk-sqlite-storage/src/keyring.rs",
    "crates/mdk-sqlite-storage/src/encryption.rs", "crates/mdk-sqlite-storage/src/permissions.rs",
    "crates/mdk-storage-traits/src/*/types.rs", "crates/mdk-storage-traits/src/*/*/types.rs",
]
EXCLUDE_FILES = ("verif_hooks.rs", "test_utils.rs")

# file -> quick checks that are RELEVANT (the brief's table)
def checks_for(path):
    p = path
    if "/mdk-core/src/messages/" in p:
        return ["C01", "C02", "C05", "C06", "C07", "C08", "C11", "C04", "C12", "C03"]   # C12: crash points inside process_message; C03: who obtains plaintext
    if p.endswith("mdk-core/src/epoch_snapshots.rs"):
        return ["C20", "C01", "C11", "C07", "C12"]
    if p.endswith("mdk-core/src/groups.rs"):
        return ["C01", "C05", "C08", "C06", "C02", "C11", "C16", "C15", "C12", "C03"]
    if p.endswith("mdk-core/src/welcomes.rs"):
        return ["C16", "C03", "C08", "C12", "C15", "C06"]                                # C15: welcome rumor grammar; C06: refusal without effect
    if p.endswith("mdk-core/src/key_packages.rs") or "/mdk-core/src/extension/" in p:
        return ["C15", "C06"] + (["C17"] if p.endswith("group_image.rs") else [])
    if "/mdk-core/src/encrypted_media/" in p:
        return ["C17", "C15"]
    if p.endswith("mdk-core/src/util.rs"):
        return ["C15", "C06"]
    if "/mdk-storage-traits/" in p:
        return ["C10", "C18", "C15"]
    if "/mdk-memory-storage/" in p or "/mdk-sqlite-storage/" in p:
        base = ["C09", "C10", "C18", "C19", "C12"]
        f = os.path.basename(p)
        if f in ("keyring.rs", "encryption.rs", "permissions.rs"):
            return ["C13", "C10", "C12"]
        if f in ("welcomes.rs",):
            return base + ["C16"]
        if f in ("snapshot.rs", "lib.rs"):
            return base + ["C20"] + (["C13"] if "/mdk-sqlite-storage/" in p else [])
        return base
    return []

def crate_of(path):
    return path.split("/")[1]

# --------------------------------------------------------------------------------------------------------------
# lexing: a same-length copy of the text in which comments and the interior of literals are blanked, plus spans

def git_show(rev, path):
    return subprocess.run(["git", "-C", LIB, "show", f"{rev}:{path}"], capture_output=True, text=True, check=True).stdout

def glob_match(f, pat):
    """`*` does not cross a directory separator"""
    a, b = f.split("/"), pat.split("/")
    return len(a) == len(b) and all(fnmatch.fnmatchcase(x, y) for x, y in zip(a, b))

def git_files(rev):
    out = subprocess.run(["git", "-C", LIB, "ls-tree", "-r", "--name-only", rev, "--", "crates"], capture_output=True, text=True, check=True).stdout.split("\n")
    res = []
    for f in out:
        if any(glob_match(f, p) for p in FILE_PATTERNS) and os.path.basename(f) not in EXCLUDE_FILES:
            if "/tests/" in f or f.endswith("/tests.rs"):
                continue
            res.append(f)
    return sorted(set(res))

def lex(src):
    """(code, strings): code = src with comments / literal interiors replaced by blanks (newlines kept);
    strings = [(start, end)] spans of "..." literals (quotes included)"""
    out, strings = list(src), []
    i, n = 0, len(src)
    def blank(a, b):
        for k in range(a, b):
            if out[k] != "\n":
                out[k] = " "
    while i < n:
        if src.startswith("//", i):
            j = src.find("\n", i); j = n if j < 0 else j
            blank(i, j); i = j; continue
        if src.startswith("/*", i):
            depth, j = 1, i + 2
            while j < n and depth:
                if src.startswith("/*", j): depth += 1; j += 2
                elif src.startswith("*/", j): depth -= 1; j += 2
                else: j += 1
            blank(i, j); i = j; continue
        k = skip_literal(src, i)
        if k != i:
            q = src.find('"', i, k)
            if q >= 0 and src[i] != "'":
                strings.append((i, k))
                blank(q + 1, k - 1)
                # raw string hashes / prefix stay; interior blanked
            else:
                blank(i + 1, k - 1)
            i = k; continue
        i += 1
    return "".join(out), strings

OPEN, CLOSE = "([{", ")]}"

def match_fwd(code, i):
    """index of the bracket closing code[i] (code is blanked, so no literals to skip)"""
    depth = 0
    pair = {"(": ")", "[": "]", "{": "}"}
    o, c = code[i], pair[code[i]]
    for j in range(i, len(code)):
        ch = code[j]
        if ch == o: depth += 1
        elif ch == c:
            depth -= 1
            if depth == 0:
                return j
    return -1

def item_end(code, i):
    """end (exclusive) of the item / statement that starts at i: first `;` at depth 0, or the `}` closing a block at depth 0
    that is not followed by a continuation"""
    depth, j, n = 0, i, len(code)
    while j < n:
        ch = code[j]
        if ch in OPEN: depth += 1
        elif ch in CLOSE:
            depth -= 1
            if depth < 0:
                return j
            if depth == 0 and ch == "}":
                m = re.match(r"\s*([.;,)?]|else\b|as\b)", code[j + 1:j + 40])
                if not m:
                    return j + 1
                if m.group(1) == ";":
                    return j + 1 + m.end()
        elif ch == ";" and depth == 0:
            return j + 1
        j += 1
    return n

LOGMAC = re.compile(r"\b(?:tracing\s*::\s*|log\s*::\s*)?(?:trace|debug|info|warn|error|event|span|debug_assert(?:_eq|_ne)?|println|eprintln|print|eprint|dbg|unreachable|todo|unimplemented|trace_span|debug_span|info_span)!\s*[(\[{]")
FMTIMPL = re.compile(r"\bimpl\b(?:\s*<[^>{;]*>)?\s+(?:(?:std|core)\s*::\s*)?(?:fmt\s*::\s*)?(?:Debug|Display)\s+for\b[^{;]*\{")
ATTR = re.compile(r"#!?\[")

def skip_mask(src, code):
    """bool list: True where nothing may be mutated (beyond comments / literals, which `code` already blanks)"""
    n = len(src)
    mask = [False] * n
    def mark(a, b):
        for k in range(max(a, 0), min(b, n)):
            mask[k] = True
    # attributes; cfg(test) / #[test] / verif-hooks attributes swallow the following item
    for m in ATTR.finditer(code):
        if mask[m.start()]:
            continue
        b = m.end() - 1
        e = match_fwd(code, b)
        if e < 0:
            continue
        text = src[m.start():e + 1]
        mark(m.start(), e + 1)
        swallow = False
        if re.search(r"cfg\s*\(\s*(?:all\s*\(\s*)?test\b", text) or re.match(r"#\[(?:tokio::)?test\b", text):
            swallow = True
        if "verif-hooks" in text and not re.search(r"not\s*\(\s*feature\s*=\s*\"verif-hooks\"", text):
            swallow = True
        if swallow:
            # skip further attributes, then the item
            j = e + 1
            while True:
                mm = re.match(r"\s*#\[", code[j:])
                if not mm:
                    break
                b2 = j + mm.end() - 1
                j = match_fwd(code, b2) + 1
            mark(e + 1, item_end(code, j))
    for m in LOGMAC.finditer(code):
        b = m.end() - 1
        e = match_fwd(code, b)
        if e > 0:
            mark(m.start(), e + 1)
    for m in FMTIMPL.finditer(code):
        b = m.end() - 1
        e = match_fwd(code, b)
        if e > 0:
            mark(m.start(), e + 1)
    for m in re.finditer(r"\bmacro_rules!\s*\w+\s*\{", code):
        e = match_fwd(code, m.end() - 1)
        if e > 0:
            mark(m.start(), e + 1)
    return mask

FN = re.compile(r"\bfn\s+([A-Za-z_][A-Za-z0-9_]*)")

def fn_spans(code):
    """[(name, body_open, body_close)]"""
    res = []
    for m in FN.finditer(code):
        j, depth = m.end(), 0
        n = len(code)
        body = -1
        while j < n:
            ch = code[j]
            if ch in "([": depth += 1
            elif ch in ")]": depth -= 1
            elif ch == "{" and depth == 0:
                body = j; break
            elif ch == ";" and depth == 0:
                break
            j += 1
        if body >= 0:
            e = match_fwd(code, body)
            if e > 0:
                res.append((m.group(1), body, e))
    return res

def enclosing_fn(fns, pos):
    best = None
    for name, a, b in fns:
        if a < pos < b and (best is None or a > best[1]):
            best = (name, a, b)
    return best

# --------------------------------------------------------------------------------------------------------------
# operators.  Each yields (start, end, replacement, operator, note)

def prev_nonspace(code, i):
    j = i - 1
    while j >= 0 and code[j] in " \t\n":
        j -= 1
    return j

def op_ror(code):
    for m in re.finditer(r"(?<=[ \n])(<=|>=|==|!=|<|>)(?=[ \n])", code):
        op = m.group(1)
        p = prev_nonspace(code, m.start())
        if p < 0 or not (code[p].isalnum() or code[p] in "_)]?}\"'"):
            continue
        # `->` / `=>` cannot match (they are not surrounded like this); `<` `>` with blanks around are comparisons in rustfmt'd code
        rep = {"<": "<=", "<=": "<", ">": ">=", ">=": ">", "==": "!=", "!=": "=="}[op]
        yield m.start(1), m.end(1), rep, "ror", f"{op} -> {rep}"

def op_lor(code):
    for m in re.finditer(r"(?<=[ \n])(&&|\|\|)(?=[ \n])", code):
        p = prev_nonspace(code, m.start())
        if p < 0 or not (code[p].isalnum() or code[p] in "_)]?}\"'"):
            continue
        w = re.search(r"(\w+)$", code[:p + 1])
        if w and w.group(1) in ("move", "return", "in", "else", "match", "if", "while"):
            continue
        rep = "||" if m.group(1) == "&&" else "&&"
        yield m.start(1), m.end(1), rep, "lor", f"{m.group(1)} -> {rep}"

def op_neg(code):
    for m in re.finditer(r"\bif\s+", code):
        a = m.end()
        if re.match(r"let\b", code[a:]):
            continue
        depth, j, n = 0, a, len(code)
        end, guard = -1, False
        while j < n:
            ch = code[j]
            if ch in "([": depth += 1
            elif ch in ")]":
                depth -= 1
                if depth < 0: break
            elif depth == 0 and ch == "{":
                end = j; break
            elif depth == 0 and code.startswith("=>", j):
                end = j; guard = True; break
            elif depth == 0 and ch in ";}":
                break
            j += 1
        if end < 0:
            continue
        cond = code[a:end]
        if re.search(r"\blet\b", cond) or not cond.strip():
            continue   # let chains
        e = a + len(cond.rstrip())
        yield a, e, "!(" + "X" + ")", "neg", "condition negated"      # placeholder, fixed up by the caller (needs src text)
        if cond.startswith("!") and not cond.startswith("!="):
            yield a, a + 1, "", "neg", "negation removed"

INT = re.compile(r"(?<![\w])(\d[\d_]*)((?:usize|isize|u8|u16|u32|u64|u128|i8|i16|i32|i64|i128)?)(?![\w])")

def const_spans(code):
    res = []
    for m in re.finditer(r"\b(?:const|static)\s+[A-Z_][A-Z0-9_]*\s*:[^=;]*=", code):
        e = code.find(";", m.end())
        if e > 0:
            res.append((m.end(), e))
    return res

def op_lit(code, consts):
    for m in INT.finditer(code):
        s = m.start(1)
        if s >= 1 and code[s - 1] == "." and not (s >= 2 and code[s - 2] == "."):
            continue        # tuple index / float fraction
        if code[m.end():m.end() + 1] == "." and code[m.end() + 1:m.end() + 2].isdigit():
            continue        # float
        if s >= 1 and code[s - 1] == "'":
            continue
        p = prev_nonspace(code, s)
        nx = re.match(r"\s*(\S)", code[m.end():])
        if p >= 0 and code[p] == ";" and nx and nx.group(1) == "]":
            continue        # array length
        try:
            v = int(m.group(1).replace("_", ""))
        except ValueError:
            continue
        inconst = any(a <= s < b for a, b in consts)
        sat = bool(re.search(r"saturating_sub\s*\(\s*$", code[:s])) and v == 1
        op = "const" if inconst else ("satsub" if sat else "lit")
        for d in ((1, -1) if v > 0 else (1,)):
            nv = v + d
            yield m.start(1), m.end(1), str(nv), op, f"{v} -> {nv}"

def op_aor(code):
    for m in re.finditer(r"(?<=[ \n])(\+|-|\+=|-=)(?=[ \n])", code):
        p = prev_nonspace(code, m.start())
        if p < 0 or not (code[p].isalnum() or code[p] in "_)]?"):
            continue
        # trait-bound sums (`T: A + B`, `dyn A + Send`, `impl A + B`) are stillborn anyway; skip the obvious ones
        line_start = code.rfind("\n", 0, m.start()) + 1
        line = code[line_start:code.find("\n", m.start())]
        if re.search(r"\b(?:dyn|impl|where)\b|:\s*[A-Z]\w*(?:<[^>]*>)?\s*\+", line):
            continue
        rep = {"+": "-", "-": "+", "+=": "-=", "-=": "+="}[m.group(1)]
        yield m.start(1), m.end(1), rep, "aor", f"{m.group(1)} -> {rep}"

KEYWORDS = {"let", "return", "break", "continue", "if", "match", "for", "while", "loop", "use", "const", "static", "type", "pub",
            "fn", "impl", "struct", "enum", "mod", "unsafe", "else", "drop", "extern", "trait", "where", "as", "in", "move", "async", "await"}
WRITE = re.compile(r"\b(?:save_\w*|delete_\w*|remove\w*|insert\w*|put\w*|execute\w*|replace_\w*|update_\w*|store_\w*|write_\w*|create_\w*|"
                   r"release_\w*|set_\w*|push\w*|clear\w*|commit|rollback\w*|prune\w*|invalidate\w*|mark_\w*|append\w*|extend\w*|retain|pop\w*|"
                   r"truncate|restore\w*|merge_\w*|apply_\w*|sync_\w*|queue\w*|record_\w*)\s*(?:::<[^>]*>)?\s*\(")

def statements(code, fns):
    """call statements `expr;` / `expr?;` inside function bodies: [(start, end_exclusive)] (start = first char of the statement)"""
    res = []
    for m in re.finditer(r";", code):
        p = m.start()
        # walk backwards to the statement start
        depth, j = 0, p - 1
        ok = True
        while j >= 0:
            ch = code[j]
            if ch in CLOSE:
                if ch == "}" and depth == 0:
                    break
                depth += 1
            elif ch in OPEN:
                if depth == 0:
                    if ch != "{":
                        ok = False
                    break
                depth -= 1
            elif ch == ";" and depth == 0:
                break
            j -= 1
        if not ok or j < 0:
            continue
        s = j + 1
        while s < p and code[s] in " \t\n":
            s += 1
        text = code[s:p]
        if not text or "(" not in text:
            continue
        w = re.match(r"[A-Za-z_][A-Za-z0-9_]*", text)
        if not w or w.group(0) in KEYWORDS:
            continue
        # depth-0 skeleton of the statement
        sk, d = [], 0
        for ch in text:
            if ch in OPEN: d += 1
            elif ch in CLOSE: d -= 1
            elif d == 0: sk.append(ch)
        sk = "".join(sk)
        if "=" in sk or "!" in sk or "{" in sk:
            continue
        if not re.search(r"[)?]\s*$", text):
            continue
        if not re.match(r"^[\w\s.:?<>,&]*$", sk):
            continue
        if enclosing_fn(fns, p) is None:
            continue
        res.append((s, p + 1))
    return res

def op_del(src, code, stmts):
    for s, e in stmts:
        a, b = s, e
        ls = src.rfind("\n", 0, s) + 1
        le = src.find("\n", e)
        le = len(src) if le < 0 else le
        if not src[ls:s].strip() and not code[e:le].strip():
            a, b = ls, le + 1          # whole lines (a trailing comment goes with its statement)
        yield a, b, "", "del", "statement deleted"

def op_swap(src, code, stmts):
    for (s1, e1), (s2, e2) in zip(stmts, stmts[1:]):
        if code[e1:s2].strip():
            continue
        t1, t2 = src[s1:e1], src[s2:e2]
        if t1 == t2 or not WRITE.search(code[s1:e1]) or not WRITE.search(code[s2:e2]):
            continue
        yield s1, e2, t2 + src[e1:s2] + t1, "swap", "adjacent storage writes swapped"

def split_arms(code, a, b):
    """arms of a match body code[a+1:b]: [(pat_start, pat_end, expr_start, expr_end)]"""
    arms, i = [], a + 1
    while i < b:
        while i < b and code[i] in " \t\n,":
            i += 1
        if i >= b:
            break
        ps, depth, j = i, 0, i
        while j < b:
            ch = code[j]
            if ch in OPEN: depth += 1
            elif ch in CLOSE: depth -= 1
            elif depth == 0 and code.startswith("=>", j):
                break
            j += 1
        if j >= b:
            break
        pe = j
        k = j + 2
        while k < b and code[k] in " \t\n":
            k += 1
        es = k
        if code[k] == "{":
            ee = match_fwd(code, k) + 1
            # `{ .. }.foo()` continuations are rare in arms; accept the block
        else:
            depth = 0
            while k < b:
                ch = code[k]
                if ch in OPEN: depth += 1
                elif ch in CLOSE: depth -= 1
                elif ch == "," and depth == 0:
                    break
                k += 1
            ee = k
            while ee > es and code[ee - 1] in " \t\n":
                ee -= 1
        arms.append((ps, pe, es, ee))
        i = ee
    return arms

def op_errarm(src, code):
    for m in re.finditer(r"\bmatch\b", code):
        depth, j, n = 0, m.end(), len(code)
        body = -1
        while j < n:
            ch = code[j]
            if ch in "([": depth += 1
            elif ch in ")]":
                depth -= 1
                if depth < 0: break
            elif ch == "{" and depth == 0:
                body = j; break
            elif ch == ";" and depth == 0:
                break
            j += 1
        if body < 0:
            continue
        e = match_fwd(code, body)
        if e < 0:
            continue
        arms = split_arms(code, body, e)
        for i, (ps, pe, es, ee) in enumerate(arms):
            pat = code[ps:pe].strip()
            if not re.match(r"Err\s*\(", pat):
                continue
            for jn in (i - 1, i + 1):
                if not (0 <= jn < len(arms)):
                    continue
                qs, qe, fs, fe = arms[jn]
                npat, nexpr = code[qs:qe], src[fs:fe]
                bound = set(re.findall(r"\b[a-z_][a-z0-9_]*\b", npat)) - {"_", "ref", "mut", "if"}
                used = set(re.findall(r"\b[a-z_][a-z0-9_]*\b", code[fs:fe]))
                if bound & used:
                    continue
                if nexpr.strip() == src[es:ee].strip() or not nexpr.strip():
                    continue
                yield es, ee, nexpr, "errarm", f"Err arm result replaced by the result of arm `{' '.join(npat.split())[:40]}`"
                break

SQLWORD = re.compile(r"\b(SELECT|INSERT|UPDATE|DELETE|ORDER BY|CREATE TABLE|ON CONFLICT)\b")

def op_sql(src, strings, mask):
    for a, b in strings:
        if mask[a]:
            continue
        lit = src[a:b]
        if not SQLWORD.search(lit):
            continue
        for m in re.finditer(r"\bORDER BY\b(.*?)(?=\bLIMIT\b|\)|\"|$)", lit, re.S):
            keys = m.group(1)
            for d in re.finditer(r"\b(ASC|DESC)\b", keys):
                rep = "ASC" if d.group(1) == "DESC" else "DESC"
                yield a + m.start(1) + d.start(), a + m.start(1) + d.end(), rep, "sql-order", f"{d.group(1)} -> {rep}"
            parts = keys.split(",")
            if len(parts) >= 2:
                p0, p1 = parts[0], parts[1]
                lead0, lead1 = re.match(r"\s*", p0).group(0), re.match(r"\s*", p1).group(0)
                trail0 = p0[len(p0.rstrip()):]; trail1 = p1[len(p1.rstrip()):]
                new = lead0 + p1.strip() + trail0 + "," + lead1 + p0.strip() + trail1
                old = p0 + "," + p1
                s = a + m.start(1)
                yield s, s + len(old), new, "sql-order", "first two ORDER BY keys swapped"
            elif not re.search(r"\b(ASC|DESC)\b", keys) and keys.strip():
                k = keys.rstrip()
                s = a + m.start(1) + len(k)
                yield s, s, " DESC", "sql-order", "ASC (default) -> DESC"
        for m in re.finditer(r"\bINSERT OR (REPLACE|IGNORE)\b", lit):
            rep = "IGNORE" if m.group(1) == "REPLACE" else "REPLACE"
            yield a + m.start(1), a + m.end(1), rep, "sql-insert", f"INSERT OR {m.group(1)} -> INSERT OR {rep}"
        for m in re.finditer(r"\bSET\b(.*?)(?=\bWHERE\b|\"\s*$|$)", lit, re.S):
            body = m.group(1)
            cols = body.split(",")
            if len(cols) < 2 or any(c.count("(") != c.count(")") for c in cols):
                continue
            off = a + m.start(1)
            pos = 0
            for i, c in enumerate(cols):
                cs, ce = pos, pos + len(c)
                if i < len(cols) - 1:
                    yield off + cs, off + ce + 1, "", "sql-set", f"SET column dropped: {c.strip()[:40]}"
                else:
                    # last column: drop it together with the comma in front of it, keep trailing blanks
                    keep = c[len(c.rstrip()):]
                    yield off + cs - 1, off + ce, keep, "sql-set", f"SET column dropped: {c.strip()[:40]}"
                pos = ce + 1
        for m in re.finditer(r"(?<=[ \n])(<=|>=|<|>)(?=[ \n])", lit):
            rep = {"<": "<=", "<=": "<", ">": ">=", ">=": ">"}[m.group(1)]
            yield a + m.start(1), a + m.end(1), rep, "sql-rel", f"SQL {m.group(1)} -> {rep}"
        for m in re.finditer(r"\bLIMIT \? OFFSET \?", lit):
            yield a + m.start(), a + m.end(), "LIMIT ?, ?", "sql-limit", "LIMIT ? OFFSET ? -> LIMIT ?, ? (first parameter becomes the offset)"

# --------------------------------------------------------------------------------------------------------------

def mutants_of_file(path, src):
    code, strings = lex(src)
    mask = skip_mask(src, code)
    fns = fn_spans(code)
    consts = const_spans(code)
    stmts = [(s, e) for s, e in statements(code, fns) if not any(mask[s:e])]
    res = []
    def emit(gen, need_fn=True):
        for s, e, rep, op, note in gen:
            if any(mask[s:max(e, s + 1)]):
                continue
            f = enclosing_fn(fns, s)
            inconst = any(a <= s < b for a, b in consts)
            if need_fn and f is None and not inconst:
                continue
            if op == "neg" and rep == "!(X)":
                rep = "!(" + src[s:e] + ")"
            res.append({"file": path, "start": s, "end": e, "rep": rep, "operator": op, "note": note,
                        "function": f[0] if f else "<item>"})
    emit(op_ror(code)); emit(op_lor(code)); emit(op_neg(code)); emit(op_lit(code, consts)); emit(op_aor(code))
    emit(op_del(src, code, stmts)); emit(op_swap(src, code, stmts)); emit(op_errarm(src, code))
    emit(op_sql(src, strings, mask), need_fn=True)
    return res

def make_diff(path, src, s, e, rep):
    new = src[:s] + rep + src[e:]
    d = difflib.unified_diff(src.splitlines(True), new.splitlines(True), "a/" + path, "b/" + path, n=3)
    return "".join(d), new

def line_of(src, pos):
    return src.count("\n", 0, pos) + 1

def cmd_gen(args):
    rev = subprocess.run(["git", "-C", LIB, "rev-parse", "--short", args.rev], capture_output=True, text=True, check=True).stdout.strip()
    files = git_files(rev)
    pool = []
    srcs = {}
    for f in files:
        srcs[f] = git_show(rev, f)
        pool += mutants_of_file(f, srcs[f])
    # deterministic identity
    pool.sort(key=lambda m: (m["file"], m["start"], m["operator"], m["rep"]))
    seen = set()
    uniq = []
    for m in pool:
        k = (m["file"], m["start"], m["end"], m["rep"])
        if k in seen:
            continue
        seen.add(k); uniq.append(m)
    pool = uniq
    # stratified, seeded order: strata = (file, operator); round-robin over strata in seeded order, seeded order inside
    rng = random.Random(args.seed)
    strata = collections.OrderedDict()
    for m in pool:
        strata.setdefault((m["file"], m["operator"]), []).append(m)
    for k in strata:
        rng.shuffle(strata[k])
    # first stage: bring the pool down to ~target by proportional allocation with a floor of min(3, size) per stratum
    total = len(pool)
    target = min(args.target, total)
    alloc = {}
    for k, v in strata.items():
        alloc[k] = min(len(v), max(min(3, len(v)), round(len(v) * target / total)))
    cand = []
    keys = list(strata.keys())
    rng.shuffle(keys)
    # round-robin order so that any prefix of the list is itself stratified
    depth = 0
    while True:
        row = [strata[k][depth] for k in keys if depth < alloc[k]]
        if not row:
            break
        rng.shuffle(row)
        cand += row
        depth += 1
    os.makedirs(os.path.join(OUT, "mutants"), exist_ok=True)
    for f in os.listdir(os.path.join(OUT, "mutants")):
        os.remove(os.path.join(OUT, "mutants", f))
    with open(os.path.join(OUT, "mutants.jsonl"), "w") as h:
        for i, m in enumerate(cand):
            src = srcs[m["file"]]
            diff, _ = make_diff(m["file"], src, m["start"], m["end"], m["rep"])
            hid = hashlib.sha1((m["file"] + str(m["start"]) + m["rep"] + m["operator"]).encode()).hexdigest()[:6]
            mid = f"M{i:04d}-{hid}"
            before = src[m["start"]:m["end"]]
            rec = {"id": mid, "order": i, "file": m["file"], "line": line_of(src, m["start"]), "function": m["function"],
                   "operator": m["operator"], "before": before[:200], "after": m["rep"][:200], "note": m["note"], "rev": rev}
            with open(os.path.join(OUT, "mutants", mid + ".diff"), "w") as d:
                d.write(diff)
            h.write(json.dumps(rec) + "\n")
    byop = collections.Counter(m["operator"] for m in pool)
    byop_c = collections.Counter(m["operator"] for m in cand)
    print(f"rev {rev}: {len(files)} files, pool {len(pool)} sites, candidates {len(cand)} (seed {args.seed})")
    for op in sorted(byop):
        print(f"  {op:10s} pool {byop[op]:5d}  candidates {byop_c[op]:4d}")
    with open(os.path.join(OUT, "pool_stats.json"), "w") as h:
        byfile = collections.Counter(m["file"] for m in pool)
        json.dump({"rev": rev, "seed": args.seed, "files": len(files), "pool": len(pool), "candidates": len(cand),
                   "pool_by_operator": dict(byop), "candidates_by_operator": dict(byop_c), "pool_by_file": dict(byfile)}, h, indent=1)

# --------------------------------------------------------------------------------------------------------------
# run

def load_mutants():
    return [json.loads(l) for l in open(os.path.join(OUT, "mutants.jsonl"))]

def load_results():
    p = os.path.join(OUT, "results.jsonl")
    res = collections.OrderedDict()
    if os.path.exists(p):
        for l in open(p):
            l = l.strip()
            if l:
                r = json.loads(l)
                res[r["id"] + ("#" + r["tag"] if r.get("tag") else "")] = r
    return res

RESLOCK = threading.Lock()

def append_result(r):
    with RESLOCK:
        with open(os.path.join(OUT, "results.jsonl"), "a") as h:
            h.write(json.dumps(r) + "\n")

CHILDREN = set()

def kill_children(*_):
    for pid in list(CHILDREN):
        try:
            os.killpg(pid, signal.SIGKILL)
        except (ProcessLookupError, PermissionError):
            pass
    os._exit(143)

def run_cmd(cmd, cwd, env, timeout, log):
    """run in its own process group; kill the group on timeout.  returns (rc | 'timeout', seconds)"""
    t0 = time.time()
    with open(log, "ab") as lf:
        lf.write(("\n$ " + " ".join(cmd) + "\n").encode())
        lf.flush()
        p = subprocess.Popen(cmd, cwd=cwd, env=env, stdout=lf, stderr=subprocess.STDOUT, start_new_session=True)
        CHILDREN.add(p.pid)
        try:
            rc = p.wait(timeout=timeout)
        except subprocess.TimeoutExpired:
            try:
                os.killpg(p.pid, signal.SIGKILL)
            except ProcessLookupError:
                pass
            p.wait()
            rc = "timeout"
        CHILDREN.discard(p.pid)
    return rc, round(time.time() - t0, 1)

def slot_env(k):
    S = f"/tmp/slot{k}"
    env = dict(os.environ)
    env.update({"VERIF_REPO": f"{S}/repo", "VERIF_TARGET": f"{S}/verif/.cache/target", "CARGO_NET_OFFLINE": "true",
                "CARGO_BUILD_JOBS": "4", "CARGO_TERM_COLOR": "never", "NEXTEST_HIDE_PROGRESS_BAR": "1"})
    env.pop("CARGO_TARGET_DIR", None)
    return S, env

def slot_setup(k, log):
    rc, _ = run_cmd([os.path.join(HERE, "mutslot.sh"), str(k), "setup"], VERIF, dict(os.environ), 1800, log)
    return rc == 0

def repo_reset(S):
    subprocess.run(["git", "-C", f"{S}/repo", "checkout", "-q", "--", "."], check=False)
    subprocess.run(["git", "-C", f"{S}/repo", "clean", "-fdq"], check=False)

def suite_cmd(crate):
    pk = ["-p", crate] + (["-p", "mdk-core"] if crate != "mdk-core" else [])
    return ["cargo", "nextest", "run"] + pk + ["--features", "mdk-core/mip04", "--offline", "--test-threads", "6", "--no-fail-fast" if False else "--fail-fast"]

def run_checks(S, env, checks, logdir, keep):
    """the named quick checks in the slot's verif copy; returns per-check records"""
    recs = {}
    for c in checks:
        log = os.path.join(logdir, f"{c}.log")
        open(log, "w").close()
        rc, secs = run_cmd(["./check", c, "--tier", "quick"], f"{S}/verif", env, 1500, log)
        text = open(log, errors="replace").read()
        vio = [l.strip() for l in text.split("\n") if l.startswith("VIOLATION")]
        known = [l.strip()[:160] for l in text.split("\n") if l.startswith("KNOWN-FINDING")]
        rp = []
        for l in vio:
            m = re.search(r"replay=(\S+)", l)
            if m and os.path.exists(m.group(1)) and keep:
                dst = os.path.join(logdir, os.path.basename(m.group(1)))
                shutil.copy(m.group(1), dst); rp.append(dst)
        tail = ""
        if rc not in (0, 1) or (rc == 1 and not vio):
            tail = text[-600:]
        recs[c] = {"rc": rc, "wall_s": secs, "violations": [re.sub(r"/tmp/slot\d/verif/", "", v) for v in vio],
                   "with_replay": sum(1 for v in vio if "no-failing-input-found" not in v),
                   "obligation_only": sum(1 for v in vio if "no-failing-input-found" in v),
                   "known_findings": len(known), "replays": rp, "tail": tail}
    return recs

def classify(recs):
    if any(r["with_replay"] for r in recs.values()):
        return "detected-with-replay"
    if any(r["obligation_only"] for r in recs.values()):
        return "detected-obligation-only"
    if any(r["rc"] != 0 for r in recs.values()):
        return "detected-check-failed"      # a check crashed / timed out without printing a VIOLATION line: listed separately
    return "survived"

def process_mutant(k, m, rundir, only_checks=None, skip_suite=False, sub=""):
    S, env = slot_env(k)
    logdir = os.path.join(rundir, m["id"] + sub); os.makedirs(logdir, exist_ok=True)
    log = os.path.join(logdir, "build.log"); open(log, "w").close()
    res = {"id": m["id"], "file": m["file"], "line": m["line"], "function": m["function"], "operator": m["operator"],
           "slot": k, "t_start": int(time.time())}
    repo_reset(S)
    diff = os.path.join(OUT, "mutants", m["id"] + ".diff")
    p = subprocess.run(["git", "-C", f"{S}/repo", "apply", diff], capture_output=True, text=True)
    if p.returncode != 0:
        res.update(status="apply-failed", detail=p.stderr[-300:]); return res
    crate = crate_of(m["file"])
    renv = dict(env, CARGO_TARGET_DIR=f"{S}/target-lib")
    try:
        feats = ["--features", "mdk-core/mip04"]
        pk = ["-p", crate] + (["-p", "mdk-core"] if crate != "mdk-core" else [])
        rc, secs = run_cmd(["cargo", "build", "--offline", "--quiet"] + pk + feats, f"{S}/repo", renv, 1200, log)
        res["build_s"] = secs
        if rc != 0:
            res.update(status="stillborn", detail=open(log, errors="replace").read()[-400:]); return res
        if skip_suite:
            rc, secs = 0, 0.0
        else:
            rc, secs = run_cmd(suite_cmd(crate), f"{S}/repo", renv, 360 + 600, log)   # 6 min for the tests + build allowance
        res["suite_s"] = secs
        text = open(log, errors="replace").read()
        if rc != 0:
            failed = re.findall(r"^\s*(?:FAIL|SIGABRT|SIGSEGV|TIMEOUT|ABORT)\s+\[[^\]]*\]\s+(\S+ \S+)", text, re.M)
            res.update(status="killed-by-suite", detail=("timeout" if rc == "timeout" else "; ".join(sorted(set(failed))[:3]) or text[-300:]))
            return res
        msum = re.search(r"Summary \[[^\]]*\]\s*(\d+) tests? run: (\d+) passed", text)
        res["suite_tests"] = int(msum.group(1)) if msum else None
        checks = only_checks or checks_for(m["file"])
        recs = run_checks(S, env, checks, logdir, keep=True)
        res["checks"] = recs
        res["status"] = classify(recs)
        res["detected_by"] = [c for c, r in recs.items() if r["with_replay"] or r["obligation_only"]]
        return res
    finally:
        repo_reset(S)
        res["t_end"] = int(time.time())

def cmd_baseline(args):
    """unchanged library in every slot: suite + all 20 quick checks must pass (also warms the caches)"""
    rundir = args.rundir; os.makedirs(rundir, exist_ok=True)
    slots = list(range(5, 5 + args.jobs))
    out = {}
    def work(k):
        log = os.path.join(rundir, f"baseline_slot{k}.log"); open(log, "w").close()
        if not slot_setup(k, log):
            out[k] = {"setup": "failed"}; return
        S, env = slot_env(k)
        renv = dict(env, CARGO_TARGET_DIR=f"{S}/target-lib")
        r = {}
        rc, secs = run_cmd(["cargo", "build", "--offline", "--quiet", "-p", "mdk-core", "-p", "mdk-memory-storage", "-p", "mdk-sqlite-storage",
                            "-p", "mdk-storage-traits", "--features", "mdk-core/mip04"], f"{S}/repo", renv, 3000, log)
        r["build"] = (rc, secs)
        cmd = ["cargo", "nextest", "run", "-p", "mdk-core", "-p", "mdk-memory-storage", "-p", "mdk-sqlite-storage", "-p", "mdk-storage-traits",
               "--features", "mdk-core/mip04", "--offline", "--test-threads", "6"]
        rc, secs = run_cmd(cmd, f"{S}/repo", renv, 3000, log)
        msum = re.search(r"Summary \[[^\]]*\]\s*(\d+) tests? run: (\d+) passed", open(log, errors="replace").read())
        r["suite"] = (rc, secs, msum.group(0) if msum else None)
        allc = [f"C{i:02d}" for i in range(1, 21)]
        mine = allc if args.all_checks else allc[(k - 5)::args.jobs] + allc[:0]
        logdir = os.path.join(rundir, f"baseline_slot{k}"); os.makedirs(logdir, exist_ok=True)
        # the first check also builds the harness in this slot
        recs = run_checks(S, env, mine, logdir, keep=True)
        r["checks"] = {c: (v["rc"], v["wall_s"], v["violations"]) for c, v in recs.items()}
        out[k] = r
    ths = [threading.Thread(target=work, args=(k,)) for k in slots]
    for t in ths: t.start()
    for t in ths: t.join()
    with open(os.path.join(OUT, "baseline.json"), "w") as h:
        json.dump(out, h, indent=1)
    print(json.dumps(out, indent=1))

def cmd_run(args):
    muts = load_mutants()
    if args.only:
        muts = [m for m in muts if m["id"] in args.only or m["id"].split("-")[0] in args.only]
    done = load_results()
    rundir = args.rundir; os.makedirs(rundir, exist_ok=True)
    todo = [m for m in muts if m["id"] not in done or args.redo or args.tag]
    if args.limit:
        todo = todo[:args.limit]
    deadline = time.time() + args.budget_min * 60
    lock = threading.Lock()
    it = iter(todo)
    slots = list(range(args.first_slot, args.first_slot + args.jobs))
    def work(k):
        log = os.path.join(rundir, f"setup_slot{k}.log"); open(log, "w").close()
        if not args.no_setup and not slot_setup(k, log):
            print(f"slot {k}: setup failed", flush=True); return
        while time.time() < deadline:
            with lock:
                m = next(it, None)
            if m is None:
                return
            r = process_mutant(k, m, rundir, only_checks=args.checks, skip_suite=args.skip_suite, sub=("." + args.tag if args.tag else ""))
            if args.tag:
                r["tag"] = args.tag
            append_result(r)
            det = ",".join(r.get("detected_by", []))
            print(f"[{time.strftime('%H:%M:%S')}] slot{k} {m['id']} {m['operator']:9s} {m['file'].split('/src/')[-1]}:{m['line']} -> {r['status']} {det} "
                  f"({r.get('t_end', 0) - r['t_start']}s)", flush=True)
    ths = [threading.Thread(target=work, args=(k,)) for k in slots]
    for t in ths: t.start()
    for t in ths: t.join()

# --------------------------------------------------------------------------------------------------------------
# report

STATUSES = ["stillborn", "killed-by-suite", "detected-with-replay", "detected-obligation-only", "detected-check-failed", "survived", "apply-failed"]

def cmd_report(args):
    muts = {m["id"]: m for m in load_mutants()}
    res = load_results()
    rows = [r for r in res.values() if r["id"] in muts and not r.get("tag")]
    byid = {r["id"]: r for r in rows}
    for r in res.values():
        # supplementary checks on a suite survivor (checks outside the file -> checks table): merged into its row
        if r.get("tag", "").startswith("extra") and r["id"] in byid and r.get("checks"):
            base = byid[r["id"]]
            if base.get("checks") is None:
                continue
            for c, v in r["checks"].items():
                if c not in base["checks"]:
                    v = dict(v, extra=True); base["checks"][c] = v
            base["status"] = classify(base["checks"])
            base["detected_by"] = [c for c, v in base["checks"].items() if v["with_replay"] or v["obligation_only"]]
    after = [r for r in res.values() if r.get("tag") and not r["tag"].startswith("extra")]
    stats = json.load(open(os.path.join(OUT, "pool_stats.json")))
    cls = {}
    cp = os.path.join(OUT, "classification.json")
    if os.path.exists(cp):
        cls = json.load(open(cp))
    L = []
    w = L.append
    n = collections.Counter(r["status"] for r in rows)
    det = n["detected-with-replay"] + n["detected-obligation-only"] + n["detected-check-failed"]
    passed = det + n["survived"]
    w("# Mutation campaign against /verif's checks\n")
    w(f"Library revision `{stats['rev']}`; generator seed {stats['seed']}; {stats['files']} source files; pool of {stats['pool']} mutation sites, "
      f"{stats['candidates']} candidates (stratified by file x operator), {len(rows)} executed in run order within the time budget.\n")
    w("| status | mutants |\n|---|---|")
    for s in STATUSES:
        if n[s]:
            w(f"| {s} | {n[s]} |")
    w("")
    if passed:
        w(f"Suite survivors (compile, pass the library's own tests): **{passed}**.  Detected by at least one relevant quick check: **{det}** "
          f"({n['detected-with-replay']} with a replayable failing input, {n['detected-obligation-only']} as broken obligation / correspondence only, "
          f"{n['detected-check-failed']} by a check that failed without a VIOLATION line).  Survived every relevant check: **{n['survived']}**.\n")
        w(f"**Mutation score = detected / (detected + survived) = {det} / {passed} = {det / passed:.2f}**  "
          f"(counting only mutants for which a VIOLATION line was printed: {det - n['detected-check-failed']} / {passed} = {(det - n['detected-check-failed']) / passed:.2f})\n")
        fixed = {r["id"] for r in res.values() if r.get("tag", "").startswith("after") and r["status"] in ("detected-with-replay", "detected-obligation-only")}
        newly = [r for r in rows if r["id"] in fixed and r["status"] in ("survived", "detected-check-failed")]
        if newly:
            d2 = det - n["detected-check-failed"] + len(newly)
            w(f"After the strengthening described below ({len(newly)} mutants re-run: {', '.join(sorted(r['id'].split('-')[0] for r in newly))}) every one of them is reported with a VIOLATION line: "
              f"{d2} / {passed} = {d2 / passed:.2f}.\n")
        if cls:
            c = collections.Counter(cls.get(r["id"], {}).get("class", "?") for r in rows if r["status"] == "survived")
            eq = c.get("E", 0)
            w(f"Survivor classes: {dict(c)}.  Score with equivalent mutants (E) removed: {det} / {passed - eq} = {det / max(1, passed - eq):.2f}.\n")
    # operator x status
    ops = sorted({r["operator"] for r in rows})
    w("## By operator\n")
    w("| operator | " + " | ".join(STATUSES[:6]) + " | score |\n|---|" + "---|" * 7)
    for op in ops:
        c = collections.Counter(r["status"] for r in rows if r["operator"] == op)
        d = c["detected-with-replay"] + c["detected-obligation-only"] + c["detected-check-failed"]
        sc = f"{d}/{d + c['survived']}" if d + c["survived"] else "–"
        w(f"| {op} | " + " | ".join(str(c[s]) for s in STATUSES[:6]) + f" | {sc} |")
    w("\n## By file\n")
    w("| file | " + " | ".join(STATUSES[:6]) + " | score |\n|---|" + "---|" * 7)
    for f in sorted({r["file"] for r in rows}):
        c = collections.Counter(r["status"] for r in rows if r["file"] == f)
        d = c["detected-with-replay"] + c["detected-obligation-only"] + c["detected-check-failed"]
        sc = f"{d}/{d + c['survived']}" if d + c["survived"] else "–"
        w(f"| {f.replace('crates/', '')} | " + " | ".join(str(c[s]) for s in STATUSES[:6]) + f" | {sc} |")
    w("\n## File x operator (suite survivors only: detected / survived)\n")
    w("| file | " + " | ".join(ops) + " |\n|---|" + "---|" * len(ops))
    for f in sorted({r["file"] for r in rows}):
        cells = []
        for op in ops:
            rr = [r for r in rows if r["file"] == f and r["operator"] == op and (r["status"].startswith("detected") or r["status"] == "survived")]
            d = sum(1 for r in rr if r["status"].startswith("detected"))
            cells.append(f"{d}/{len(rr) - d}" if rr else "")
        if any(cells):
            w(f"| {f.replace('crates/', '')} | " + " | ".join(cells) + " |")
    # per property
    w("\n## Per property (suite survivors on which the check was run)\n")
    w("| check | runs | with replay | obligation only | failed otherwise | silent | median wall s |\n|---|---|---|---|---|---|---|")
    per = collections.defaultdict(list)
    for r in rows:
        for c, v in (r.get("checks") or {}).items():
            per[c].append(v)
    for c in sorted(per):
        v = per[c]
        ws = sorted(x["wall_s"] for x in v)
        w(f"| {c} | {len(v)} | {sum(1 for x in v if x['with_replay'])} | {sum(1 for x in v if not x['with_replay'] and x['obligation_only'])} | "
          f"{sum(1 for x in v if not x['with_replay'] and not x['obligation_only'] and x['rc'] != 0)} | {sum(1 for x in v if x['rc'] == 0)} | {ws[len(ws) // 2]} |")
    # survivors
    surv = [r for r in rows if r["status"] == "survived"]
    os.makedirs(os.path.join(OUT, "survivors"), exist_ok=True)
    for f in os.listdir(os.path.join(OUT, "survivors")):
        os.remove(os.path.join(OUT, "survivors", f))
    w(f"\n## Survivors ({len(surv)})\n")
    w("Class: E = equivalent / unobservable, O = observable but outside every property statement, H = hole (property-relevant, unnoticed).\n")
    for r in surv:
        m = muts[r["id"]]
        shutil.copy(os.path.join(OUT, "mutants", r["id"] + ".diff"), os.path.join(OUT, "survivors", r["id"] + ".diff"))
        c = cls.get(r["id"], {})
        w(f"### {r['id']} — {m['operator']} in `{m['file'].replace('crates/', '')}:{m['line']}` fn `{m['function']}` — class {c.get('class', '?')}\n")
        w(f"checks run: {', '.join(r.get('checks', {}).keys())}\n")
        if c.get("why"):
            w(c["why"] + "\n")
        if c.get("after"):
            w("After strengthening: " + c["after"] + "\n")
        d = open(os.path.join(OUT, "mutants", r["id"] + ".diff")).read()
        w("```diff\n" + d + "```\n")
    if after:
        w("\n## Re-runs after strengthening\n")
        w("| mutant | tag | status | detected by | violation lines |\n|---|---|---|---|---|")
        for r in after:
            v = "; ".join(x for c in (r.get("checks") or {}).values() for x in c["violations"])[:300]
            w(f"| {r['id']} | {r['tag']} | {r['status']} | {','.join(r.get('detected_by', []))} | {v} |")
    w("\n## Detected mutants\n")
    w("| mutant | operator | site | status | detected by |\n|---|---|---|---|---|")
    for r in rows:
        if r["status"].startswith("detected"):
            w(f"| {r['id']} | {r['operator']} | `{r['file'].replace('crates/', '')}:{r['line']}` `{r['function']}` | {r['status']} | {', '.join(r.get('detected_by', [])) or 'rc!=0: ' + ','.join(c for c, v in r['checks'].items() if v['rc'] != 0)} |")
    ap_ = os.path.join(OUT, "analysis.md")        # hand-written analysis, appended verbatim
    if os.path.exists(ap_):
        L.append(open(ap_).read())
    with open(os.path.join(OUT, "REPORT.md"), "w") as h:
        h.write("\n".join(L) + "\n")
    print(f"{len(rows)} results; statuses {dict(n)}; score {det}/{passed}")

def main():
    ap = argparse.ArgumentParser()
    sub = ap.add_subparsers(dest="cmd", required=True)
    g = sub.add_parser("gen"); g.add_argument("--seed", type=int, default=20260930); g.add_argument("--target", type=int, default=600)
    g.add_argument("--rev", default=PIN)
    b = sub.add_parser("baseline"); b.add_argument("--jobs", type=int, default=4); b.add_argument("--rundir", default="/tmp/build/mutcamp/runs")
    b.add_argument("--all-checks", action="store_true"); b.add_argument("--full-suite", action="store_true")
    r = sub.add_parser("run"); r.add_argument("--jobs", type=int, default=4); r.add_argument("--budget-min", type=float, default=150)
    r.add_argument("--rundir", default="/tmp/build/mutcamp/runs"); r.add_argument("--only", nargs="*"); r.add_argument("--redo", action="store_true")
    r.add_argument("--limit", type=int, default=0); r.add_argument("--first-slot", type=int, default=5); r.add_argument("--no-setup", action="store_true")
    r.add_argument("--tag", default="", help="label of a supplementary run (extra-*: more checks on a survivor, merged by report; after-*: re-run after strengthening)")
    r.add_argument("--checks", nargs="*", help="run these checks instead of the relevant ones"); r.add_argument("--skip-suite", action="store_true")
    sub.add_parser("report")
    args = ap.parse_args()
    signal.signal(signal.SIGTERM, kill_children); signal.signal(signal.SIGINT, kill_children)
    {"gen": cmd_gen, "run": cmd_run, "report": cmd_report, "baseline": cmd_baseline}[args.cmd](args)

if __name__ == "__main__":
    main()
