#!/bin/sh
# tools/transtest.sh <patch.diff>...: apply each patch to a scratch worktree of /repo (never /repo itself), run the
# translators (gen_model.py, gen_leak.py, lockshape.py via gen_model) against it and report which generated facts change
# or can no longer be extracted (tools/transcheck.py does the same over directories of patches, fact by fact, against
# the original translators).  A cheap first test of a rewrite's effect on the static tie; no cargo, no lake.
W=${TRANSTEST_WORK:-${TMPDIR:-/tmp}/transtest}
mkdir -p $W; [ -d $W/repo ] || git -C /repo worktree add -q --detach $W/repo HEAD
rm -rf $W/v; mkdir -p $W/v/lean/MdkVerif; V=$(cd "$(dirname "$0")/.." && pwd); cp -r $V/tools $W/v/tools; cp -r $V/vlib $W/v/vlib 2>/dev/null
git -C $W/repo checkout -q -- . ; git -C $W/repo clean -fdq
VERIF_REPO=$W/repo python3 $W/v/tools/gen_model.py > $W/base.out 2>&1
VERIF_REPO=$W/repo python3 $W/v/tools/gen_leak.py >> $W/base.out 2>&1
mkdir -p $W/base; cp $W/v/lean/MdkVerif/*.lean $W/base/
for p in "$@"; do
  git -C $W/repo checkout -q -- . ; git -C $W/repo clean -fdq
  git -C $W/repo apply "$p" || { echo "$p: does not apply"; continue; }
  rm -f $W/v/lean/MdkVerif/*.lean
  VERIF_REPO=$W/repo python3 $W/v/tools/gen_model.py > $W/p.out 2>&1; r1=$?
  VERIF_REPO=$W/repo python3 $W/v/tools/gen_leak.py >> $W/p.out 2>&1; r2=$?
  echo "== $p gen_model rc=$r1 gen_leak rc=$r2"
  [ $r1 -ne 0 -o $r2 -ne 0 ] && tail -5 $W/p.out
  for f in Generated.lean GeneratedLeak.lean; do
    [ -f $W/v/lean/MdkVerif/$f ] && { sed -e 's/ *-- .*$//' -e '/^\/--.*-\/$/d' $W/base/$f > $W/a.txt; sed -e 's/ *-- .*$//' -e '/^\/--.*-\/$/d' $W/v/lean/MdkVerif/$f > $W/b.txt; diff $W/a.txt $W/b.txt | grep '^[<>]' | cut -c1-200 | head -${TT_LINES:-12}; }
  done
done
git -C $W/repo checkout -q -- . ; git -C $W/repo clean -fdq
