"""Write-sequence translator (property C12, DESIGN §13.15): for each public mdk-core entry point that writes to
storage, the ORDERED list of durable write steps along the success path(s) of each top-level case the model
distinguishes, read from the current source.

Method: a small abstract interpreter over the token tree of the function bodies of `crates/mdk-core/src`
(comments stripped, constants inlined, tests dropped — the normal form of tools/rsnorm.py).  It evaluates a body
statement by statement, in Rust's evaluation order (arguments before the call, receiver before the method), and

  * emits a STEP for every call of a method of the storage traits that writes (name read from
    `crates/mdk-storage-traits`: save_* replace_* delete_* mark_* invalidate_* update_* prune_* create_group_snapshot
    rollback_group_to_snapshot release_group_snapshot), whatever the receiver is called, and for every OpenMLS call that
    is handed the provider / its storage (recognised by that ARGUMENT, named in OPENMLS below; an unknown callee with a
    provider argument is an error, not a guess);
  * looks through every callee defined in mdk-core (same-crate helper inlining, parameters bound to argument VALUES),
    except the STEP FUNCTIONS, which are steps of the model themselves and get a table entry of their own;
  * follows control flow with a coarse value domain (Ok / Err(variants) / Some / None / bool / enum variant / provider):
    every call SUCCEEDS unless the case assumes otherwise (`?` on an unknown value continues, an `Err(..)` arm over an
    unknown Result is not taken); a condition, Option or enum it cannot decide is ENUMERATED (both branches), paths with
    equal step lists are merged; the case keeps the paths whose final value fits (`ok` / `err`);
  * a write inside a loop is emitted as a STARRED step (code + 1000); a write inside a closure, a write in a
    short-circuit operand, recursion it was not told about, an unknown OpenMLS callee, an unmapped storage write method,
    more than MAX_PATHS paths: `tie:gen:writeseq:<case>:<what>` (exit 2 through gen_model.py).

Cases are stated in the model's vocabulary only: results of named callees and enum variants — never names of locals.
"""
import re
import rsnorm

MAX_PATHS = 6
STAR = 1000

# ---- step codes (shared with lean/MdkVerif/Model/CrashCore.lean `Step.ofCode` and vlib/c12seq.py) -----------------
STORAGE_WRITE = {                      # storage-trait method -> code
    "save_group_exporter_secret": 2, "save_message": 3, "save_group": 4, "replace_group_relays": 5,
    "save_welcome": 6, "save_processed_welcome": 7, "create_group_snapshot": 8, "rollback_group_to_snapshot": 9,
    "release_group_snapshot": 10, "prune_expired_snapshots": 11, "invalidate_messages_after_epoch": 12,
    "invalidate_processed_messages_after_epoch": 13, "mark_processed_message_retryable": 14,
    "save_processed_message": 20,      # + state: 21 Processed 22 ProcessedCommit 23 Failed 24 Created 25 Retryable 26 EpochInvalidated
}
PM_STATE = {"Processed": 1, "ProcessedCommit": 2, "Failed": 3, "Created": 4, "Retryable": 5, "EpochInvalidated": 6}
STEP_FN = {"exporter_secret": 1, "create_snapshot": 15, "rollback_to_epoch": 16, "sync_group_metadata_from_mls": 17}
OPENMLS = {                            # callee (method name or Type::fn) handed the provider -> code (0 = reads only)
    "process_message": 40, "merge_staged_commit": 41, "merge_pending_commit": 42, "store_pending_proposal": 43,
    "commit_to_pending_proposals": 44, "create_message": 45, "self_update": 46, "self_update_with_new_signer": 46,
    "add_members": 47, "remove_members": 48, "update_group_context_extensions": 49, "leave_group": 50,
    "MlsGroup::new": 51, "MlsGroup::new_with_group_id": 51, "into_group": 52, "clear_pending_commit": 53,
    "SignatureKeyPair::delete": 54, "store": 55, "StagedWelcome::build_from_welcome": 56,
    "propose_add_member": 57, "propose_remove_member": 57, "propose_self_update": 57, "propose_group_context_extensions": 57,
    "KeyPackage::builder": 58, "build": 58, "delete": 54,
    "MlsGroup::load": 0, "SignatureKeyPair::read": 0, "export_secret": 0, "StagedWelcome::new_from_welcome": 56,
}
REPROCESS = 90
STEP_NAMES = {1: "exporter_secret", 2: "save_group_exporter_secret", 3: "save_message", 4: "save_group", 5: "replace_group_relays",
              6: "save_welcome", 7: "save_processed_welcome", 8: "create_group_snapshot", 9: "rollback_group_to_snapshot",
              10: "release_group_snapshot", 11: "prune_expired_snapshots", 12: "invalidate_messages_after_epoch",
              13: "invalidate_processed_messages_after_epoch", 14: "mark_processed_message_retryable", 15: "create_snapshot",
              16: "rollback_to_epoch", 17: "sync_group_metadata_from_mls", 20: "save_processed_message(?)",
              21: "save_processed_message(Processed)", 22: "save_processed_message(ProcessedCommit)", 23: "save_processed_message(Failed)",
              24: "save_processed_message(Created)", 25: "save_processed_message(Retryable)", 26: "save_processed_message(EpochInvalidated)",
              40: "mls.process_message", 41: "mls.merge_staged_commit", 42: "mls.merge_pending_commit", 43: "mls.store_pending_proposal",
              44: "mls.commit_to_pending_proposals", 45: "mls.create_message", 46: "mls.self_update", 47: "mls.add_members",
              48: "mls.remove_members", 49: "mls.update_group_context_extensions", 50: "mls.leave_group", 51: "MlsGroup::new",
              52: "StagedWelcome::into_group", 53: "mls.clear_pending_commit", 54: "SignatureKeyPair::delete", 55: "SignatureKeyPair::store",
              56: "StagedWelcome::build_from_welcome", 57: "mls.propose_*", 58: "KeyPackage::build", 90: "process_message (again)"}

def step_name(c):
    return (STEP_NAMES.get(c % STAR, str(c % STAR)) + ("*" if c >= STAR else ""))

class Fail(Exception):
    pass

# ---- tokens -------------------------------------------------------------------------------------------------------
TOK = re.compile(r"\s+|(?P<id>[A-Za-z_]\w*)|(?P<num>\d[\w.]*)|(?P<p>::|->|=>|==|!=|<=|>=|&&|\|\||\.\.=|\.\.|[-+*/%^!&|=<>@.,;:#?$~'])|(?P<o>[(\[{])|(?P<c>[)\]}])")

def tokenize(src):
    """token tree: ('id', s) ('num', s) ('lit', s) ('p', s) ('g', open, [tokens])"""
    stack, cur, i, n = [], [], 0, len(src)
    while i < n:
        k = rsnorm.skip_literal(src, i)
        if k != i and not (src[i] == "'" and False):
            cur.append(("lit", src[i:k])); i = k; continue
        m = TOK.match(src, i)
        if not m:
            i += 1; continue
        i = m.end()
        if m.group("id"): cur.append(("id", m.group("id")))
        elif m.group("num"): cur.append(("num", m.group("num")))
        elif m.group("p"): cur.append(("p", m.group("p")))
        elif m.group("o"):
            stack.append((cur, m.group("o"))); cur = []
        elif m.group("c"):
            if not stack:
                continue
            parent, o = stack.pop()
            parent.append(("g", o, cur)); cur = parent
    while stack:
        parent, o = stack.pop(); parent.append(("g", o, cur)); cur = parent
    return strip_turbofish(cur)

def strip_turbofish(toks):
    out, i = [], 0
    while i < len(toks):
        t = toks[i]
        if t == ("p", "::") and i + 1 < len(toks) and toks[i + 1] == ("p", "<"):
            d, j = 0, i + 1
            while j < len(toks):
                if toks[j] == ("p", "<"): d += 1
                elif toks[j] == ("p", ">"):
                    d -= 1
                    if d == 0: break
                elif toks[j] == ("p", "->"): pass
                j += 1
            i = j + 1; continue
        if t[0] == "g":
            t = ("g", t[1], strip_turbofish(t[2]))
        out.append(t); i += 1
    return out

def text(toks):
    out = []
    for t in toks:
        if t[0] == "g":
            out.append(t[1] + text(t[2]) + {"(": ")", "[": "]", "{": "}"}[t[1]])
        else:
            out.append(t[1])
    return " ".join(out)

def is_p(t, s): return t[0] == "p" and t[1] == s
def is_id(t, s=None): return t[0] == "id" and (s is None or t[1] == s)
def is_g(t, o): return t[0] == "g" and t[1] == o

def split(toks, sep):
    parts, cur = [], []
    for t in toks:
        if t[0] == "p" and t[1] == sep:
            parts.append(cur); cur = []
        else:
            cur.append(t)
    parts.append(cur)
    return parts

def assigned_names(toks):
    """names of the variables that are assigned to (`x = ..`, `x.f = ..`, `x += ..`) or mutably borrowed / mutated by a
    method somewhere in a token tree"""
    res = set()
    for i, t in enumerate(toks):
        if t[0] == "g":
            res |= assigned_names(t[2])
        elif is_id(t) and i + 1 < len(toks):
            j = i + 1
            while j + 1 < len(toks) and is_p(toks[j], ".") and is_id(toks[j + 1]):
                j += 2
            if j < len(toks) and toks[j][0] == "p" and toks[j][1] in "+-*/|&^%" and j + 1 < len(toks) and is_p(toks[j + 1], "="):
                res.add(t[1])
            elif j < len(toks) and is_p(toks[j], "=") and not (i > 0 and is_id(toks[i - 1], "let")):
                res.add(t[1])
    return res

# ---- values -------------------------------------------------------------------------------------------------------
UNK = ("unk",)
def V_ok(v=UNK): return ("ok", v)
def V_err(vs=()): return ("err", tuple(vs))
def V_some(v=UNK): return ("some", v)
NONE = ("none",)
def V_bool(b): return ("bool", b)
PROVIDER = ("provider",)
SELF = ("self",)

def parse_assumed(s):
    """'ok:some' 'ok:none' 'none' 'some' 'true' 'false' 'err:A/B' 'variant:X' 'ok'"""
    if s == "true": return V_bool(True)
    if s == "false": return V_bool(False)
    if s == "none": return NONE
    if s == "some": return V_some()
    if s == "ok": return V_ok()
    if s.startswith("ok:"): return V_ok(parse_assumed(s[3:]))
    if s.startswith("some:"): return V_some(parse_assumed(s[5:]))
    if s.startswith("err:"): return V_err(s[4:].split("/"))
    if s.startswith("variant:"): return ("variant", s[8:])
    raise ValueError(s)

def not3(v):
    return V_bool(not v[1]) if v[0] == "bool" else UNK

def chain_of(v):
    """the constructor chain of an error / variant value"""
    if v[0] in ("variant", "errval", "err"):
        return tuple(v[1])
    return ()

# ---- crate index: functions with their impl type ------------------------------------------------------------------
IMPL = re.compile(r"\bimpl\b\s*(?:<[^{};]*?>\s*)?(?:[\w:]+(?:<[^{};]*?>)?\s+for\s+)?([A-Za-z_]\w*)")

def impl_spans(src):
    """[(start, end, Type)] of the impl blocks of a file"""
    res = []
    for m in IMPL.finditer(src):
        b = src.find("{", m.end())
        semi = src.find(";", m.end())
        if b < 0 or (0 <= semi < b):
            continue
        e = rsnorm.match_close(src, b, "{", "}")
        if e > 0:
            res.append((b, e, m.group(1)))
    return res

class Crate:
    def __init__(self, files):
        """files: {rel: normal-form text}"""
        self.fns = {}                   # name -> [dict(name, params, has_self, body, impl, rel)]
        self.fields = {}                # struct MDK field -> type text
        for rel, src in sorted(files.items()):
            spans = impl_spans(src)
            for f in rsnorm.fn_items(src):
                ty = None
                for (b, e, t) in spans:
                    if b < f["start"] < e:
                        ty = t
                f = dict(f); f["impl"] = ty; f["rel"] = rel
                self.fns.setdefault(f["name"], []).append(f)
            m = re.search(r"\bstruct\s+MDK\b[^{;]*\{", src)
            if m:
                e = rsnorm.match_close(src, m.end() - 1, "{", "}")
                for part in rsnorm.split_top(src[m.end():e], ",", angle=True):
                    pm = re.search(r"([a-z_]\w*)\s*:\s*(.+)$", part.strip(), re.S)
                    if pm:
                        self.fields[pm.group(1)] = pm.group(2)
        self._tok = {}
    def body_tokens(self, f):
        key = (f["rel"], f["start"])
        if key not in self._tok:
            self._tok[key] = tokenize(f["body"])[0][2] if f["body"].startswith("{") else tokenize(f["body"])
        return self._tok[key]


COMBINATORS_PASS = {"clone", "cloned", "copied", "as_ref", "as_mut", "into", "to_owned", "borrow", "as_deref", "iter", "into_iter", "by_ref", "unwrap", "expect"}

class Interp:
    def __init__(self, crate, storage_methods, case, assume):
        self.crate, self.storage_methods, self.case = crate, storage_methods, case
        self.assume = {k: parse_assumed(v) for k, v in assume.items()}
        self.stack = []
        self.budget = 0

    def fail(self, what):
        raise Fail(f"{self.case}:{what}")

    # ---- outcome plumbing: an outcome is (writes, env, value, flow) -----------------------------------------------
    @staticmethod
    def dedupe(outs):
        """outcomes with equal steps, value and flow are ONE path: their environments are joined (a variable on which they
        differ becomes unknown)"""
        groups, order = {}, []
        for o in outs:
            key = (o[0], repr(o[2]), o[3])
            if key not in groups:
                groups[key] = [o[0], dict(o[1]), o[2], o[3]]; order.append(key)
            else:
                env = groups[key][1]
                for k in list(env):
                    if k not in o[1]:
                        del env[k]
                    elif env[k] != o[1][k]:
                        env[k] = UNK
        return [tuple(groups[k]) for k in order]

    def bind(self, outs, f):
        res = []
        for (w, env, v, fl) in outs:
            if fl is not None:
                res.append((w, env, v, fl))
            else:
                res += f(w, env, v)
        res = self.dedupe(res)
        if len(res) > 400:
            self.fail("too-many-intermediate-paths")
        return res

    # ---- blocks and statements -----------------------------------------------------------------------------------
    def eval_block(self, toks, w, env):
        """statements of a block; the value is the tail expression's"""
        stmts = self.statements(toks)
        outs = [(w, dict(env), UNK, None)]
        for i, (kind, st) in enumerate(stmts):
            last = i == len(stmts) - 1
            def step(w_, env_, _v, kind=kind, st=st, last=last):
                r = self.eval_stmt(kind, st, w_, env_)
                if not (last and kind == "tail"):
                    r = [(a, b, UNK if fl is None else c, fl) for (a, b, c, fl) in r]
                return r
            outs = self.bind(outs, step)
        return outs

    def statements(self, toks):
        """[(kind, tokens)] kind: let | expr | tail"""
        res, i, n = [], 0, len(toks)
        while i < n:
            # attributes
            while i < n and is_p(toks[i], "#") and i + 1 < n and is_g(toks[i + 1], "["):
                i += 2
            if i >= n:
                break
            if is_p(toks[i], ";"):
                i += 1; continue
            t = toks[i]
            if is_id(t) and t[1] in ("fn", "use", "const", "static", "struct", "enum", "impl", "type", "mod"):
                # a nested item: skip to its end
                j = i
                while j < n and not is_p(toks[j], ";") and not is_g(toks[j], "{"):
                    j += 1
                i = j + 1; continue
            if is_id(t, "let"):
                j = i
                while j < n and not is_p(toks[j], ";"):
                    j += 1
                res.append(("let", toks[i + 1:j])); i = j + 1; continue
            if is_id(t) and t[1] in ("if", "match", "for", "while", "loop", "unsafe") or is_g(t, "{"):
                j = self.construct_end(toks, i)
                # a block-like expression ends the statement unless a postfix / operator continues it
                if j < n and (is_p(toks[j], ".") or is_p(toks[j], "?")):
                    k = j
                    while k < n and not is_p(toks[k], ";"):
                        k += 1
                    res.append(("expr" if k < n else "tail", toks[i:k])); i = k + 1; continue
                semi = j < n and is_p(toks[j], ";")
                res.append(("tail" if (j >= n and not semi) else "expr", toks[i:j])); i = j + (1 if semi else 0); continue
            j = i
            while j < n and not is_p(toks[j], ";"):
                j += 1
            res.append(("expr" if j < n else "tail", toks[i:j])); i = j + 1
        return res

    def construct_end(self, toks, i):
        """index after the block-like construct starting at i (if / match / for / while / loop / unsafe / block)"""
        n = len(toks)
        t = toks[i]
        if is_g(t, "{"):
            return i + 1
        if is_id(t, "if"):
            j = i + 1
            while j < n and not is_g(toks[j], "{"):
                j += 1
            j += 1
            while j < n and is_id(toks[j], "else"):
                if j + 1 < n and is_id(toks[j + 1], "if"):
                    k = j + 2
                    while k < n and not is_g(toks[k], "{"):
                        k += 1
                    j = k + 1
                else:
                    j += 2
            return j
        j = i + 1
        while j < n and not is_g(toks[j], "{"):
            j += 1
        return j + 1

    @staticmethod
    def find_assign(toks):
        """index of the `=` of an assignment statement `place (op)= expr`, else -1"""
        if not toks or (is_id(toks[0]) and toks[0][1] in ("if", "match", "while", "for", "return", "loop", "break", "continue", "let", "unsafe")):
            return -1
        for k, t in enumerate(toks):
            if is_p(t, "="):
                place = toks[:k]
                if place and place[-1][0] == "p" and place[-1][1] in "+-*/|&^%":
                    place = place[:-1]
                ok = bool(place) and all(x[0] in ("id", "num") or is_p(x, ".") or is_p(x, "*") or is_g(x, "[") for x in place)
                return k if ok else -1
            if not (t[0] in ("id", "num") or is_g(t, "[") or (t[0] == "p" and t[1] in ".*+-/|&^%")):
                return -1
        return -1

    def eval_stmt(self, kind, toks, w, env):
        if kind == "let":
            return self.eval_let(toks, w, env)
        k = self.find_assign(toks)
        if k > 0:
            lhs, rhs = toks[:k], toks[k + 1:]
            def assign(w_, env_, v):
                env2 = dict(env_)
                if lhs[-1][0] == "p" and lhs[-1][1] in "+-*/|&^%":
                    return [(w_, env2, UNK, None)]
                place = [x for x in lhs if not is_p(x, "*")]
                if len(place) == 1 and is_id(place[0]):
                    env2[place[0][1]] = v
                elif len(place) == 3 and is_id(place[0]) and is_p(place[1], ".") and is_id(place[2]):
                    base = env2.get(place[0][1], UNK)
                    fields = dict(base[1]) if base[0] == "struct" else {}
                    fields[place[2][1]] = v
                    env2[place[0][1]] = ("struct", tuple(sorted(fields.items())))
                return [(w_, env2, UNK, None)]
            return self.bind(self.eval_expr(rhs, w, env), assign)
        return self.eval_expr(toks, w, env)

    def eval_let(self, toks, w, env):
        # pattern [: type] = expr [else { block }]
        k = None
        for i, t in enumerate(toks):
            if is_p(t, "="):
                k = i; break
        if k is None:
            return [(w, env, UNK, None)]
        pat = toks[:k]
        for i, t in enumerate(pat):
            if is_p(t, ":"):
                pat = pat[:i]; break
        rhs, els = toks[k + 1:], None
        if len(rhs) >= 2 and is_g(rhs[-1], "{") and is_id(rhs[-2], "else") and not any(is_id(x, "if") for x in rhs[:1]):
            els, rhs = rhs[-1][2], rhs[:-2]
        def after(w_, env_, v):
            outs = []
            r, b = self.match_pattern(pat, v)
            if r is not False:
                env2 = dict(env_); env2.update(b)
                outs.append((w_, env2, UNK, None))
            if els is not None and r is not True:
                outs += self.eval_block(els, w_, env_)
            return outs
        return self.bind(self.eval_expr(rhs, w, env), after)

    # ---- patterns ------------------------------------------------------------------------------------------------
    def pat_bindings(self, pat):
        """every binding identifier of a pattern -> UNK"""
        b = {}
        for i, t in enumerate(pat):
            if t[0] == "g":
                b.update(self.pat_bindings(t[2]))
            elif is_id(t) and t[1][0].islower() and t[1] not in ("mut", "ref", "true", "false", "_") \
                    and not (i + 1 < len(pat) and (is_p(pat[i + 1], "::") or is_p(pat[i + 1], ":"))) \
                    and not (i > 0 and is_p(pat[i - 1], "::")):
                b[t[1]] = UNK
        return b

    def match_pattern(self, pat, v):
        """(True | False | None = undecided, bindings)"""
        pat = [t for t in pat if not (is_p(t, "&") or is_id(t, "mut") or is_id(t, "ref"))]
        if not pat:
            return True, {}
        alts = [p for p in split(pat, "|") if p]
        if len(alts) > 1:
            rs = [self.match_pattern(p, v) for p in alts]
            if any(r[0] is True for r in rs):
                return True, next(r[1] for r in rs if r[0] is True)
            if any(r[0] is None for r in rs):
                return None, self.pat_bindings(pat)
            return False, {}
        for i, t in enumerate(pat):
            if is_p(t, "@"):
                r, b = self.match_pattern(pat[i + 1:], v)
                b = dict(b); b[pat[0][1]] = v
                return r, b
        if len(pat) == 1 and pat[0][0] == "g":
            inner = split(pat[0][2], ",")
            if len(inner) == 1:
                return self.match_pattern(inner[0], v)
            return True, self.pat_bindings(pat)
        if len(pat) == 1 and is_id(pat[0]) and (pat[0][1][0].islower() or pat[0][1] == "_") and pat[0][1] not in ("true", "false"):
            return True, ({} if pat[0][1] == "_" else {pat[0][1]: v})
        if pat[0][0] in ("lit", "num") or is_p(pat[0], "-"):
            return None, {}
        segs, i = [], 0
        while i < len(pat) and (is_id(pat[i]) or is_p(pat[i], "::")):
            if is_id(pat[i]):
                segs.append(pat[i][1])
            i += 1
        grp = pat[i] if i < len(pat) and pat[i][0] == "g" else None
        if not segs:
            return None, self.pat_bindings(pat)
        L, E = segs[-1], (segs[-2] if len(segs) > 1 else None)
        inner = [p for p in split(grp[2], ",") if p] if grp is not None and grp[1] == "(" else []
        allb = self.pat_bindings(pat)
        if L in ("true", "false"):
            return (None if v[0] != "bool" else (v[1] == (L == "true"))), {}
        if L in ("Ok", "Err", "Some", "None") and E is None:
            want = {"Ok": "ok", "Err": "err", "Some": "some", "None": "none"}[L]
            if v[0] in ("ok", "err", "some", "none"):
                if v[0] != want:
                    return False, {}
                if L == "None" or not inner:
                    return True, {}
                payload = ("errval", v[1]) if L == "Err" else v[1]
                return self.match_pattern(inner[0], payload)
            return None, allb
        chain = None
        if v[0] in ("errval", "variant"):
            chain = tuple(v[1])
        if chain is not None:
            if not chain:
                return None, allb
            if chain[0] != L:
                return False, {}
            if len(inner) == 1 and any(is_id(x) and x[1][0].isupper() for x in inner[0]):
                return self.match_pattern(inner[0], ("errval", chain[1:]))
            return True, allb
        if v[0] == "unk" and E is not None and ("variant:" + E) in self.assume:
            return (self.assume["variant:" + E][1] == L), allb
        return None, allb

    # ---- expressions ---------------------------------------------------------------------------------------------
    def eval_seq(self, parts, w, env):
        """evaluate expressions left to right; outcome value = tuple of the values"""
        outs = [(w, env, (), None)]
        for p in parts:
            def nxt(w_, env_, vs, p=p):
                return [(a, b, (vs + (c,)) if fl is None else c, fl) for (a, b, c, fl) in self.eval_expr(p, w_, env_)]
            outs = self.bind(outs, nxt)
        return outs

    def eval_expr(self, toks, w, env):
        self.budget += 1
        if self.budget > 400000:
            self.fail("evaluation-budget")
        while toks and is_p(toks[0], "#") and len(toks) > 1 and is_g(toks[1], "["):
            toks = toks[2:]
        if not toks:
            return [(w, env, UNK, None)]
        t0 = toks[0]
        if is_id(t0, "return"):
            return [(a, b, c, fl or "ret") for (a, b, c, fl) in self.eval_expr(toks[1:], w, env)]
        if is_id(t0, "break") or is_id(t0, "continue"):
            return [(w, env, UNK, t0[1])]
        if is_id(t0, "move") and len(toks) > 1 and toks[1][0] == "p" and toks[1][1] in ("|", "||"):
            toks, t0 = toks[1:], toks[1]
        if is_p(t0, "||"):
            return [(w, env, ("closure", (), tuple(toks[1:])), None)]
        if is_p(t0, "|"):
            j = 1
            while j < len(toks) and not is_p(toks[j], "|"):
                j += 1
            params = [p for p in split(toks[1:j], ",") if p]
            return [(w, env, ("closure", tuple(tuple(p) for p in params), tuple(toks[j + 1:])), None)]
        if is_id(t0) and t0[1] in ("if", "match", "for", "while", "loop", "unsafe") or is_g(t0, "{"):
            j = self.construct_end(toks, 0)
            outs = self.eval_construct(toks[:j], w, env)
            if j < len(toks):
                rest = toks[j:]
                return self.bind(outs, lambda w_, env_, v: self.eval_postfix(v, rest, w_, env_))
            return outs
        # binary operators, loosest first
        for op in ("||", "&&"):
            parts = split(toks, op)
            if len(parts) > 1 and all(parts):
                return self.eval_logic(op, parts, w, env)
        for k, t in enumerate(toks):
            if k > 0 and t[0] == "p" and t[1] in ("==", "!="):
                lhs, rhs = toks[:k], toks[k + 1:]
                def cmp(w_, env_, vs, op=t[1]):
                    r = self.eq3(vs[0], vs[1], lhs, rhs)
                    return [(w_, env_, r if op == "==" else not3(r), None)]
                return self.bind(self.eval_seq([lhs, rhs], w, env), cmp)
        for k, t in enumerate(toks):
            if k > 0 and t[0] == "p" and t[1] in ("<", ">", "<=", ">=", "+", "-", "/", "%", "^", "..", "..=") and toks[k - 1][0] != "p":
                return [(a, b, UNK if fl is None else c, fl) for (a, b, c, fl) in self.eval_seq([toks[:k], toks[k + 1:]], w, env)]
            if k > 0 and is_p(t, "*") and toks[k - 1][0] != "p" and k + 1 < len(toks):
                return [(a, b, UNK if fl is None else c, fl) for (a, b, c, fl) in self.eval_seq([toks[:k], toks[k + 1:]], w, env)]
            if k > 0 and is_id(t, "as"):
                return self.eval_expr(toks[:k], w, env)
        if is_p(t0, "!"):
            return [(a, b, not3(c) if fl is None else c, fl) for (a, b, c, fl) in self.eval_expr(toks[1:], w, env)]
        if t0[0] == "p" and t0[1] in ("&", "*", "-", "&&") or is_id(t0, "mut"):
            return self.eval_expr(toks[1:], w, env)
        return self.eval_chain(toks, w, env)

    def eval_logic(self, op, parts, w, env):
        outs = [(w, env, V_bool(op == "&&"), None)]
        for idx, p in enumerate(parts):
            def nxt(w_, env_, acc, p=p, idx=idx):
                if acc[0] == "bool" and acc[1] == (op == "||") and idx > 0:
                    return [(w_, env_, acc, None)]                      # short-circuited
                if is_id(p[0], "let"):
                    rs = self.eval_cond_let(p[1:], w_, env_)
                else:
                    rs = self.eval_expr(p, w_, env_)
                res = []
                for (a, b, c, fl) in rs:
                    if fl is not None:
                        res.append((a, b, c, fl)); continue
                    if idx > 0 and a != w_ and acc[0] != "bool":
                        self.fail("write-in-short-circuit-operand")
                    if op == "&&":
                        r = V_bool(False) if (c == V_bool(False) or acc == V_bool(False)) else (V_bool(True) if c == V_bool(True) and acc == V_bool(True) else UNK)
                    else:
                        r = V_bool(True) if (c == V_bool(True) or acc == V_bool(True)) else (V_bool(False) if c == V_bool(False) and acc == V_bool(False) else UNK)
                    res.append((a, b, r, None))
                return res
            outs = self.bind(outs, nxt)
        return outs

    def eval_cond_let(self, toks, w, env):
        """`let PAT = EXPR` as a condition: bool value, bindings added when it may hold"""
        k = next((i for i, t in enumerate(toks) if is_p(t, "=")), None)
        if k is None:
            return [(w, env, UNK, None)]
        pat, rhs = toks[:k], toks[k + 1:]
        def test(w_, env_, v):
            if v[0] == "unk" and any(is_id(x) and x[1] in ("Ok", "Err") for x in pat[:1]):
                v = V_ok()                                               # every call succeeds unless the case says otherwise
            r, b = self.match_pattern(pat, v)
            env2 = dict(env_)
            if r is not False:
                env2.update(b)
            return [(w_, env2, UNK if r is None else V_bool(r), None)]
        return self.bind(self.eval_expr(rhs, w, env), test)

    def eq3(self, a, b, atoks, btoks):
        def variant_of(v, toks):
            if v[0] == "variant":
                segs = [x[1] for x in toks if is_id(x)]
                return (segs[-2] if len(segs) > 1 else None), v[1][0] if v[1] else None
            return None
        va, vb = variant_of(a, atoks), variant_of(b, btoks)
        if va and vb:
            return V_bool(va[1] == vb[1])
        for (x, other) in ((va, b), (vb, a)):
            if x:
                if other[0] in ("variant", "errval") and other[1]:
                    return V_bool(other[1][0] == x[1])
                if other[0] == "unk" and x[0] and ("variant:" + x[0]) in self.assume:
                    return V_bool(self.assume["variant:" + x[0]][1] == x[1])
                return UNK
        if a[0] == "bool" and b[0] == "bool":
            return V_bool(a[1] == b[1])
        return UNK

    # ---- if / match / loops --------------------------------------------------------------------------------------
    def eval_construct(self, toks, w, env):
        t0 = toks[0]
        if is_g(t0, "{"):
            return self.scoped(self.eval_block(t0[2], w, env), env)
        if is_id(t0, "unsafe"):
            return self.eval_construct(toks[1:], w, env)
        if is_id(t0, "if"):
            j = 1
            while j < len(toks) and not is_g(toks[j], "{"):
                j += 1
            cond, then, rest = toks[1:j], toks[j][2], toks[j + 1:]
            def branch(w_, env_, c):
                outs = []
                if c != V_bool(False):
                    outs += self.scoped(self.eval_block(then, w_, env_), env)
                if c != V_bool(True):
                    if rest and is_id(rest[0], "else"):
                        outs += self.eval_construct(rest[1:], w_, self.unscope(env_, env))
                    else:
                        outs.append((w_, self.unscope(env_, env), UNK, None))
                return outs
            parts = split(cond, "&&")
            if any(p and is_id(p[0], "let") for p in parts):
                couts = self.eval_logic("&&", parts, w, env)
            else:
                couts = self.eval_expr(cond, w, env)
            return self.bind(couts, branch)
        if is_id(t0, "match"):
            j = 1
            while j < len(toks) and not is_g(toks[j], "{"):
                j += 1
            scrut, arms = toks[1:j], self.arms(toks[j][2])
            return self.bind(self.eval_expr(scrut, w, env), lambda w_, env_, v: self.eval_match(arms, v, w_, env_, env))
        if is_id(t0) and t0[1] in ("for", "while", "loop"):
            j = 1
            while j < len(toks) and not is_g(toks[j], "{"):
                j += 1
            head, body = toks[1:j], toks[j][2]
            if is_id(t0, "for"):
                k = next((i for i, t in enumerate(head) if is_id(t, "in")), len(head))
                pat, head = head[:k], head[k + 1:]
            else:
                pat = []
            if head and is_id(head[0], "let"):
                pat2 = head[1:next((i for i, t in enumerate(head) if is_p(t, "=")), len(head))]
                pat, head = pat + pat2, head[head.index(("p", "=")) + 1:] if ("p", "=") in head else head
            def loop(w_, env_, _v):
                env_ = dict(env_)
                for name in assigned_names(body):
                    if name in env_:
                        env_[name] = UNK                                 # assigned somewhere in the loop: unknown before, inside and after
                env2 = dict(env_); env2.update(self.pat_bindings(pat))
                outs = self.eval_block(body, (), env2)
                star, res = [], []
                for (bw, _e, _c, fl) in outs:
                    if fl in (None, "continue", "break"):
                        for c in bw:
                            c = c if c >= STAR else c + STAR
                            if c not in star:
                                star.append(c)
                for (bw, _e, c, fl) in outs:
                    if fl == "ret":
                        res.append((w_ + tuple(star) + bw, env_, c, "ret"))
                res.append((w_ + tuple(star), env_, UNK, None))
                return res
            return self.bind(self.eval_expr(head, w, env), loop)
        self.fail("construct:" + text(toks[:3]))

    @staticmethod
    def unscope(env_inner, env_outer):
        """bindings made inside a nested scope do not leave it; updates of outer variables do"""
        return {k: v for k, v in env_inner.items() if k in env_outer}

    def scoped(self, outs, env_outer):
        return [(a, self.unscope(b, env_outer), c, fl) for (a, b, c, fl) in outs]

    def arms(self, toks):
        """[(pattern tokens, guard tokens, body tokens)]"""
        res, i, n = [], 0, len(toks)
        while i < n:
            j = i
            while j < n and not is_p(toks[j], "=>"):
                j += 1
            if j >= n:
                break
            pat, guard = toks[i:j], []
            for k, t in enumerate(pat):
                if is_id(t, "if"):
                    pat, guard = pat[:k], pat[k + 1:]; break
            j += 1
            if j < n and is_g(toks[j], "{") and (j + 1 >= n or not (is_p(toks[j + 1], ".") or is_p(toks[j + 1], "?"))):
                body, i = [toks[j]], j + 1
                if i < n and is_p(toks[i], ","):
                    i += 1
            else:
                k = j
                while k < n and not is_p(toks[k], ","):
                    k += 1
                body, i = toks[j:k], k + 1
            res.append((pat, guard, body))
        return res

    def eval_match(self, arms, v, w, env, env_outer):
        heads = set()
        for pat, _g, _b in arms:
            p = [t for t in pat if not is_p(t, "&")]
            if p and is_id(p[0]):
                heads.add(p[0][1])
        if v[0] == "unk" and heads & {"Ok", "Err"}:
            v = V_ok()                                                   # every call succeeds unless the case says otherwise
        outs, open_ = [], True
        for pat, guard, body in arms:
            if not open_:
                break
            r, b = self.match_pattern(pat, v)
            if r is False:
                continue
            env2 = dict(env); env2.update(b)
            if guard:
                gouts = self.eval_expr(guard, w, env2)
            else:
                gouts = [(w, env2, V_bool(True), None)]
            definite = False
            for (gw, genv, gv, gfl) in gouts:
                if gfl is not None:
                    outs.append((gw, genv, gv, gfl)); continue
                if gv == V_bool(False):
                    continue
                outs += self.scoped(self.eval_expr(body, gw, genv), env_outer)
                if r is True and gv == V_bool(True):
                    definite = True
            if definite:
                open_ = False
        return self.dedupe(outs)

    # ---- primaries, postfix chains, calls ----------------------------------------------------------------------------
    def eval_chain(self, toks, w, env):
        t0 = toks[0]
        if t0[0] in ("lit", "num"):
            return self.eval_postfix(UNK, toks[1:], w, env)
        if t0[0] == "g":
            if t0[1] == "(":
                parts = [p for p in split(t0[2], ",") if p]
                outs = self.eval_seq(parts, w, env)
                outs = [(a, b, (c[0] if len(c) == 1 else UNK) if fl is None else c, fl) for (a, b, c, fl) in outs]
            elif t0[1] == "[":
                parts = [p for p in split(t0[2], ",") if p]
                if len(parts) == 1:
                    parts = [p for p in split(parts[0], ";") if p]
                outs = [(a, b, UNK if fl is None else c, fl) for (a, b, c, fl) in self.eval_seq(parts, w, env)]
            else:
                outs = self.eval_construct([t0], w, env)
            rest = toks[1:]
            return self.bind(outs, lambda w_, env_, v: self.eval_postfix(v, rest, w_, env_))
        if not is_id(t0):
            # `<T as Trait>::f(..)` and the like: not interpreted; a step inside would be missed, so refuse
            if self.has_step(toks):
                self.fail("unparsed-expression-with-step:" + text(toks)[:60])
            return [(w, env, UNK, None)]
        # a path  a::b::c
        segs, i = [t0[1]], 1
        while i + 1 < len(toks) and is_p(toks[i], "::") and is_id(toks[i + 1]):
            segs.append(toks[i + 1][1]); i += 2
        rest = toks[i:]
        if rest and is_p(rest[0], "!") and len(rest) > 1 and rest[1][0] == "g":
            return self.bind(self.eval_macro(segs, rest[1], w, env), lambda w_, env_, v: self.eval_postfix(v, rest[2:], w_, env_))
        if rest and is_g(rest[0], "("):
            args = [p for p in split(rest[0][2], ",") if p]
            def call(w_, env_, vs):
                return self.path_call(segs, list(vs), args, w_, env_)
            outs = self.bind(self.eval_seq(args, w, env), call)
            return self.bind(outs, lambda w_, env_, v: self.eval_postfix(v, rest[1:], w_, env_))
        if rest and is_g(rest[0], "{") and (segs[-1][0].isupper()):
            fields = [p for p in split(rest[0][2], ",") if p]
            exprs, names = [], []
            for f in fields:
                if is_p(f[0], ".."):
                    exprs.append(f[1:]); names.append(None)
                elif len(f) > 1 and is_p(f[1], ":"):
                    exprs.append(f[2:]); names.append(f[0][1])
                else:
                    exprs.append(f); names.append(f[0][1] if is_id(f[0]) else None)
            def mk(w_, env_, vs):
                if len(segs) > 1 and segs[-2][0].isupper():
                    return [(w_, env_, ("variant", (segs[-1],)), None)]           # Enum::Variant { .. }
                d = {n_: v for n_, v in zip(names, vs) if n_ and v[0] in ("variant", "struct", "bool")}
                return [(w_, env_, ("struct", tuple(sorted(d.items()))), None)]
            outs = self.bind(self.eval_seq(exprs, w, env), mk)
            return self.bind(outs, lambda w_, env_, v: self.eval_postfix(v, rest[1:], w_, env_))
        # a plain path / variable
        if len(segs) == 1:
            name = segs[0]
            if name == "self":
                v = env.get("self", SELF)
            elif name in ("true", "false"):
                v = V_bool(name == "true")
            elif name == "None":
                v = NONE
            else:
                v = env.get(name, UNK)
        else:
            v = ("variant", (segs[-1],)) if segs[-1][0].isupper() else UNK
        return self.eval_postfix(v, rest, w, env)

    def has_step(self, toks):
        s = text(toks)
        return any(re.search(r"\b" + m + r"\b", s) for m in list(STORAGE_WRITE) + list(STEP_FN)) or "provider" in s

    def eval_macro(self, segs, grp, w, env):
        name = segs[-1]
        if name == "matches":
            parts = split(grp[2], ",")
            if len(parts) >= 2:
                pat = parts[1]
                guard = []
                for k, t in enumerate(pat):
                    if is_id(t, "if"):
                        pat, guard = pat[:k], pat[k + 1:]; break
                def test(w_, env_, v):
                    r, _b = self.match_pattern(pat, v)
                    return [(w_, env_, UNK if (r is None or guard) and r is not False else V_bool(bool(r)), None)]
                return self.bind(self.eval_expr(parts[0], w, env), test)
        if self.has_step(grp[2]) and name not in ("debug", "info", "warn", "error", "trace", "format", "println"):
            self.fail("step-inside-macro:" + name)
        return [(w, env, UNK, None)]

    def eval_postfix(self, v, rest, w, env):
        if not rest:
            return [(w, env, v, None)]
        t = rest[0]
        if is_p(t, "?"):
            if v[0] == "err":
                return [(w, env, v, "ret")]
            if v[0] == "none":
                return [(w, env, v, "ret")]
            nv = v[1] if v[0] in ("ok", "some") else UNK
            return self.eval_postfix(nv, rest[1:], w, env)
        if is_p(t, ".") and len(rest) > 1:
            n1 = rest[1]
            if n1[0] == "num" or is_id(n1, "await"):
                return self.eval_postfix(UNK, rest[2:], w, env)
            if is_id(n1):
                if len(rest) > 2 and is_g(rest[2], "("):
                    args = [p for p in split(rest[2][2], ",") if p]
                    def call(w_, env_, vs):
                        return self.method_call(v, n1[1], list(vs), args, w_, env_)
                    outs = self.bind(self.eval_seq(args, w, env), call)
                    return self.bind(outs, lambda w_, env_, v2: self.eval_postfix(v2, rest[3:], w_, env_))
                # field
                if v == SELF and n1[1] == "provider":
                    nv = PROVIDER
                elif v == SELF:
                    nv = ("field", n1[1])
                elif v[0] == "struct":
                    nv = dict(v[1]).get(n1[1], UNK)
                elif v[0] == "field" and v[1] == "provider" and n1[1] == "storage":
                    nv = PROVIDER
                else:
                    nv = UNK
                return self.eval_postfix(nv, rest[2:], w, env)
        if is_g(t, "[") or is_g(t, "("):
            outs = self.eval_seq([p for p in split(t[2], ",") if p], w, env)
            return self.bind([(a, b, UNK if fl is None else c, fl) for (a, b, c, fl) in outs], lambda w_, env_, _v: self.eval_postfix(UNK, rest[1:], w_, env_))
        if is_id(t, "as"):
            return [(w, env, v, None)]
        if is_id(t, "else") or is_p(t, ";"):
            return [(w, env, v, None)]
        # an operator the splitter did not see (e.g. after a block): evaluate what follows for its steps
        return [(a, b, UNK if fl is None else c, fl) for (a, b, c, fl) in self.eval_expr(rest[1:], w, env)]

    # ---- calls ---------------------------------------------------------------------------------------------------
    def assumed(self, name):
        return self.assume.get("call:" + name)

    def emit(self, w, code):
        return w + (code,)

    def storage_call(self, name, vals, w, env):
        """a method of the storage traits (any receiver)"""
        a = self.assumed(name)
        if name in STORAGE_WRITE or re.match(r"(save|replace|delete|mark|invalidate|update|prune)_|(create|rollback|release)_group_", name) and not name.startswith("update_last_message"):
            if name not in STORAGE_WRITE:
                self.fail("unmapped-storage-write:" + name)
            if a is not None and a[0] == "err":
                return [(w, env, a, None)]
            code = STORAGE_WRITE[name]
            if name == "save_processed_message":
                st = dict(vals[0][1]).get("state") if vals and vals[0][0] == "struct" else None
                code = 20 + (PM_STATE.get(st[1][0], 0) if st and st[0] == "variant" and st[1] else 0)
            return [(self.emit(w, code), env, a if a is not None else UNK, None)]
        return [(w, env, a if a is not None else UNK, None)]

    def openmls_call(self, key, w, env):
        a = self.assumed(key.split("::")[-1])
        if key not in OPENMLS:
            self.fail("unknown-callee-with-provider:" + key)
        if a is not None and a[0] == "err":
            return [(w, env, a, None)]
        code = OPENMLS[key]
        return [((self.emit(w, code) if code else w), env, a if a is not None else UNK, None)]

    def candidates(self, name, impl=None, want_self=None):
        c = self.crate.fns.get(name, [])
        if impl is not None:
            c = [f for f in c if f["impl"] == impl]
        if want_self is not None:
            c = [f for f in c if f["has_self"] == want_self]
        return c

    def path_call(self, segs, vals, args, w, env):
        name = segs[-1]
        if len(segs) == 1 and name in ("Ok", "Err", "Some"):
            v = vals[0] if vals else UNK
            if name == "Ok": return [(w, env, V_ok(v), None)]
            if name == "Some": return [(w, env, V_some(v), None)]
            return [(w, env, V_err(chain_of(v)), None)]
        if name[0].isupper():
            inner = chain_of(vals[0]) if len(vals) == 1 and vals[0][0] in ("variant", "errval") else ()
            return [(w, env, ("variant", (name,) + tuple(inner)), None)]
        key = (segs[-2] + "::" + name) if len(segs) > 1 and segs[-2][0].isupper() and segs[-2] != "Self" else name
        if any(v == PROVIDER for v in vals):
            if key not in OPENMLS and name in OPENMLS and len(segs) > 1 and segs[-2][0].isupper():
                key = name
            if len(segs) > 1 and segs[-2][0].isupper() and segs[-2] != "Self" or not self.candidates(name):
                return self.openmls_call(key, w, env)
        a = self.assumed(name)
        if len(segs) > 1 and segs[-2] == "Self":
            cands = self.candidates(name, impl=self.stack[-1]["impl"] if self.stack else None)
        elif len(segs) > 1 and segs[-2][0].isupper():
            cands = self.candidates(name, impl=segs[-2])
        else:
            cands = self.candidates(name, impl=None) if not (len(segs) > 1) else [f for f in self.candidates(name) if f["impl"] is None]
            cands = [f for f in cands if not f["has_self"]]
        if a is not None and not cands:
            return [(w, env, a, None)]
        return self.inline(name, cands, None, vals, args, w, env, a)

    def method_call(self, recv, name, vals, args, w, env):
        a = self.assumed(name)
        # a closure-taking combinator / accessor on a value we track
        if recv == PROVIDER and name in ("storage",):
            return [(w, env, PROVIDER, None)]
        if recv == PROVIDER and name in ("crypto", "rand"):
            return [(w, env, UNK, None)]
        if recv == SELF or recv[0] == "obj":
            impl = self.cur_impl() if recv == SELF else recv[1]
            cands = self.candidates(name, impl=impl, want_self=True)
            if cands:
                return self.inline(name, cands, recv, vals, args, w, env, a)
        if recv[0] == "field":
            ty = self.crate.fields.get(recv[1], "")
            cands = [f for f in self.candidates(name, want_self=True) if f["impl"] and re.search(r"\b" + f["impl"] + r"\b", ty)]
            if cands:
                return self.inline(name, cands, ("obj", cands[0]["impl"]), vals, args, w, env, a)
        if any(v == PROVIDER for v in vals) and recv != PROVIDER:
            return self.openmls_call(name, w, env)
        if name in self.storage_methods:
            return self.storage_call(name, vals, w, env)
        if a is not None:
            return [(w, env, a, None)]
        return self.combinator(recv, name, vals, w, env)

    def cur_impl(self):
        return self.stack[-1]["impl"] if self.stack else "MDK"

    def combinator(self, v, name, vals, w, env):
        clo = vals[0] if vals and vals[0][0] == "closure" else None
        def run_closure(payload):
            """the closure applied to `payload`: outcomes (writes, value)"""
            params, body = clo[1], list(clo[2])
            env2 = dict(env)
            if params:
                p = list(params[0])
                for i, t in enumerate(p):
                    if is_p(t, ":"):
                        p = p[:i]; break
                r, b = self.match_pattern(p, payload)
                env2.update(b)
            outs = self.eval_expr(body, w, env2)
            res = []
            for (a, _b, c, fl) in outs:
                if fl == "ret" and a != w:
                    self.fail("return-inside-closure")
                res.append((a, env, c, None))
            return res
        if name in COMBINATORS_PASS:
            return [(w, env, v, None)]
        if clo is not None and name in ("for_each", "try_for_each"):
            # an iterator loop: the closure body runs zero or more times — its steps are starred, like those of a `for` body
            star = []
            for (a, _b, _c, _f) in run_closure(UNK):
                for c in a[len(w):]:
                    c = c if c >= STAR else c + STAR
                    if c not in star:
                        star.append(c)
            return [(w + tuple(star), env, UNK, None)]
        if clo is not None and self.closure_has_step(clo) and name not in ("map_err", "ok_or_else", "unwrap_or_else", "or_else", "and_then", "map",
                                                                          "is_some_and", "is_ok_and"):
            self.fail("step-inside-closure:" + name)
        if name in ("or_else", "unwrap_or_else") and clo is not None:
            # the closure runs on the failure side only; every call succeeds unless the case says otherwise
            if v[0] in ("err", "none"):
                outs = run_closure(("errval", v[1]) if v[0] == "err" else UNK)
                return outs if name == "or_else" else [(a, b, UNK, None) for (a, b, _c, _f) in outs]
            return [(w, env, v if name == "or_else" else (v[1] if v[0] in ("ok", "some") else UNK), None)]
        if name == "map_err":
            if v[0] == "err" and clo is not None:
                outs = run_closure(("errval", v[1]))
                return [(a, b, V_err(chain_of(c)), None) for (a, b, c, _f) in outs]
            return [(w, env, v, None)]
        if name in ("ok_or", "ok_or_else"):
            if v[0] == "some": return [(w, env, V_ok(v[1]), None)]
            if v[0] == "none":
                if name == "ok_or":
                    return [(w, env, V_err(chain_of(vals[0])) if vals else V_err(), None)]
                outs = run_closure(UNK) if clo is not None else [(w, env, UNK, None)]
                return [(a, b, V_err(chain_of(c)), None) for (a, b, c, _f) in outs]
            return [(w, env, UNK, None)]
        if name == "ok":
            return [(w, env, V_some(v[1]) if v[0] == "ok" else (NONE if v[0] == "err" else UNK), None)]
        if name == "err":
            return [(w, env, NONE if v[0] == "ok" else UNK, None)]
        if name == "flatten":
            return [(w, env, (v[1] if v[0] in ("some", "ok") else v), None)]
        if name == "transpose":
            return [(w, env, UNK, None)]
        if name in ("is_ok", "is_err"):
            if v[0] in ("ok", "err"): return [(w, env, V_bool((v[0] == "ok") == (name == "is_ok")), None)]
            return [(w, env, V_bool(name == "is_ok"), None)]                    # every call succeeds unless the case says otherwise
        if name in ("is_some", "is_none"):
            if v[0] in ("some", "none"): return [(w, env, V_bool((v[0] == "some") == (name == "is_some")), None)]
            return [(w, env, UNK, None)]
        if name in ("unwrap_or_default", "unwrap_or", "unwrap_or_else"):
            return [(w, env, v[1] if v[0] in ("ok", "some") else UNK, None)]
        if name in ("and_then", "map", "is_some_and", "is_ok_and") and clo is not None:
            if v[0] in ("err", "none"):
                return [(w, env, V_bool(False) if name.startswith("is_") else v, None)]
            outs = run_closure(v[1] if v[0] in ("ok", "some") else UNK)
            if name == "map":
                return [(a, b, (v[0], c) if v[0] in ("ok", "some") else UNK, None) for (a, b, c, _f) in outs]
            if name.startswith("is_") and v[0] == "unk":
                return [(a, b, UNK if c != V_bool(False) else c, None) for (a, b, c, _f) in outs]
            return outs
        return [(w, env, UNK, None)]

    def closure_has_step(self, clo):
        return self.has_step(list(clo[2]))

    def inline(self, name, cands, recv, vals, args, w, env, assumed):
        """look through a callee defined in mdk-core"""
        if name in STEP_FN and self.stack:
            if assumed is not None and assumed[0] == "err":
                return [(w, env, assumed, None)]
            return [(self.emit(w, STEP_FN[name]), env, assumed if assumed is not None else V_ok(), None)]
        if not cands:
            return [(w, env, assumed if assumed is not None else UNK, None)]
        if len(cands) > 1:
            # several definitions (cfg alternatives): the same only if none of them can reach a step
            if any(self.may_step(f) for f in cands):
                if len({f["body"] for f in cands}) > 1:
                    self.fail("ambiguous-callee:" + name)
            else:
                return [(w, env, assumed if assumed is not None else UNK, None)]
        f = cands[0]
        if assumed is not None and not self.may_step(f):
            return [(w, env, assumed, None)]
        if any(fr["name"] == name and fr["impl"] == f["impl"] for fr in self.stack):
            if name == "process_message":
                return [(self.emit(w, REPROCESS), env, UNK, None)]
            self.fail("recursion:" + name)
        if len(self.stack) > 12:
            self.fail("call-depth:" + name)
        env2 = {}
        if f["has_self"]:
            env2["self"] = SELF if recv in (None, SELF) else recv
        for (pn, _ty), v in zip(f["params"], vals):
            if pn:
                env2[pn] = v
        self.stack.append({"name": name, "impl": f["impl"]})
        try:
            outs = self.eval_block(self.crate.body_tokens(f), w, env2)
        finally:
            self.stack.pop()
        res = []
        for (a, _e, c, fl) in outs:
            if fl in ("break", "continue"):
                continue
            res.append((a, env, c, None))
        res = self.dedupe(res)
        if assumed is not None:
            res = [(a, b, assumed, fl) for (a, b, c, fl) in res if self.fits(c, assumed)] or [(w, env, assumed, None)]
        return res

    @staticmethod
    def fits(v, assumed):
        if assumed[0] == "err":
            return v[0] == "err" and (not assumed[1] or not v[1] or v[1][0] == assumed[1][0])
        if assumed[0] in ("ok", "some", "none", "bool"):
            return v[0] in (assumed[0], "unk")
        return True

    def may_step(self, f, seen=None):
        key = (f["rel"], f["start"])
        cache = self.crate.__dict__.setdefault("_may", {})
        if key in cache:
            return cache[key]
        seen = seen or set()
        if key in seen:
            return False
        seen.add(key)
        body = f["body"]
        r = any(re.search(r"\b" + m + r"\s*\(", body) for m in STORAGE_WRITE) or "provider" in body or \
            bool(re.search(r"\b(" + "|".join(STEP_FN) + r")\s*\(", body))
        if not r:
            for m in set(re.findall(r"\b([a-z_]\w*)\s*\(", body)):
                for g in self.crate.fns.get(m, []):
                    if g is not f and self.may_step(g, seen):
                        r = True; break
                if r:
                    break
        cache[key] = r
        return r


# ---- cases ----------------------------------------------------------------------------------------------------------
# every store read finds what an uninterrupted first run finds; the group exists
DEFAULTS = {"call:find_group_by_mls_group_id": "ok:some", "call:find_group_by_nostr_group_id": "ok:some", "call:load": "ok:some",
            "call:own_leaf": "some", "call:find_processed_message_by_event_id": "ok:none"}

# (code, name, entry fn, impl type, expected final value, assumptions)
CASES = [
    (0, "process_message:application", "process_message", "MDK", "ok:ApplicationMessage",
     {"variant:ProcessedMessageContent": "variant:ApplicationMessage"}),
    (1, "process_message:commit", "process_message", "MDK", "ok:Commit",
     {"variant:ProcessedMessageContent": "variant:StagedCommitMessage", "call:self_removed": "false"}),
    (2, "process_message:commit_evicted", "process_message", "MDK", "ok:Commit",
     {"variant:ProcessedMessageContent": "variant:StagedCommitMessage", "call:self_removed": "true"}),
    (3, "process_message:own_pending_commit", "process_message", "MDK", "ok:Commit",
     {"call:process_message": "err:ValidationError/CannotDecryptOwnMessage", "variant:ContentType": "variant:Commit", "call:pending_commit": "some"}),
    (4, "process_message:proposal_add", "process_message", "MDK", "ok:PendingProposal",
     {"variant:ProcessedMessageContent": "variant:ProposalMessage", "variant:Proposal": "variant:Add", "variant:Sender": "variant:Member", "call:member_at": "some"}),
    (5, "process_message:proposal_remove", "process_message", "MDK", "ok:Proposal|ok:PendingProposal",
     {"variant:ProcessedMessageContent": "variant:ProposalMessage", "variant:Proposal": "variant:Remove", "variant:Sender": "variant:Member", "call:member_at": "some"}),
    (6, "process_message:proposal_ignored", "process_message", "MDK", "ok:IgnoredProposal",
     {"variant:ProcessedMessageContent": "variant:ProposalMessage", "variant:Proposal": "variant:Update", "variant:Sender": "variant:Member", "call:member_at": "some"}),
    (7, "process_message:fail_validation", "process_message", "MDK", "err:InvalidTimestamp",
     {"call:validate_event": "err:InvalidTimestamp"}),
    (8, "process_message:fail_decrypt", "process_message", "MDK", "err:Message",
     {"call:decrypt_with_exporter_secret": "err:Decrypt", "call:get_group_exporter_secret": "ok:some"}),
    (9, "process_message:fail_mls", "process_message", "MDK", "ok:Unprocessable",
     {"call:process_message": "err:Other"}),
    (10, "process_message:rollback", "process_message", "MDK", "reprocess",
     {"call:process_message": "err:ValidationError/WrongEpoch", "variant:ContentType": "variant:Commit", "call:is_better_candidate": "true",
      "call:rollback_to_epoch": "ok"}),
    (11, "process_message:own_message_echo", "process_message", "MDK", "ok:ApplicationMessage",
     {"call:process_message": "err:ValidationError/CannotDecryptOwnMessage", "variant:ContentType": "variant:Application", "call:pending_commit": "none",
      "call:find_processed_message_by_event_id": "ok:some", "variant:ProcessedMessageState": "variant:Created",
      "call:find_message_by_event_id": "ok:some"}),
    (30, "process_message:own_commit_echo", "process_message", "MDK", "ok:Commit",
     {"call:process_message": "err:ValidationError/CannotDecryptOwnMessage", "variant:ContentType": "variant:Commit", "call:pending_commit": "none",
      "call:find_processed_message_by_event_id": "ok:some", "variant:ProcessedMessageState": "variant:ProcessedCommit"}),
    (12, "process_welcome", "process_welcome", "MDK", "ok",
     {"call:find_processed_welcome_by_event_id": "ok:none", "call:find_welcome_by_event_id": "ok:none"}),
    (13, "process_welcome:known_rumor", "process_welcome", "MDK", "ok",
     {"call:find_processed_welcome_by_event_id": "ok:none", "call:find_welcome_by_event_id": "ok:some"}),
    (14, "accept_welcome", "accept_welcome", "MDK", "ok", {"call:find_welcome_by_event_id": "ok:some"}),
    (15, "decline_welcome", "decline_welcome", "MDK", "ok", {"call:find_welcome_by_event_id": "ok:some"}),
    (16, "create_message", "create_message", "MDK", "ok", {}),
    (17, "create_group", "create_group", "MDK", "ok", {}),
    (18, "add_members", "add_members", "MDK", "ok", {}),
    (19, "remove_members", "remove_members", "MDK", "ok", {}),
    (20, "update_group_data", "update_group_data", "MDK", "ok", {}),
    (21, "self_update", "self_update", "MDK", "ok", {}),
    (22, "leave_group", "leave_group", "MDK", "ok", {}),
    (23, "merge_pending_commit", "merge_pending_commit", "MDK", "ok", {}),
    (24, "clear_pending_commit", "clear_pending_commit", "MDK", "ok", {}),
    (25, "sync_group_metadata_from_mls", "sync_group_metadata_from_mls", "MDK", "ok", {}),
    (26, "build", "build", "MdkBuilder", "ok", {"call:is_persistent": "true"}),
    (27, "exporter_secret", "exporter_secret", "MDK", "ok", {}),
    (28, "create_snapshot", "create_snapshot", "EpochSnapshotManager", "ok", {"call:is_persistent": "true"}),
    (29, "rollback_to_epoch", "rollback_to_epoch", "EpochSnapshotManager", "ok", {"call:is_persistent": "true"}),
]


def fits_expectation(w, v, e):
    """`ok` any non-error result; `ok:V` Ok(<enum>::V ..); `err` / `err:V` an error (of variant V); `reprocess` the path
    ends by handing the event to process_message again"""
    if e == "reprocess":
        return bool(w) and w[-1] == REPROCESS
    if w and w[-1] == REPROCESS:
        return False
    if e == "ok":
        return v[0] not in ("err", "none")
    if e == "err":
        return v[0] == "err"
    kind, var = e.split(":")
    if kind == "err":
        return v[0] == "err" and bool(v[1]) and v[1][0] == var
    return v[0] == "ok" and v[1][0] == "variant" and bool(v[1][1]) and v[1][1][0] == var


def storage_trait_methods(files):
    names = set()
    for src in files.values():
        for m in re.finditer(r"\btrait\s+\w+[^{;]*\{", src):
            e = rsnorm.match_close(src, m.end() - 1, "{", "}")
            names.update(re.findall(r"\bfn\s+([a-z_]\w*)\s*(?:<[^(]*>)?\s*\(", src[m.end():e]))
    return names


def write_sequences(core_files, traits_files):
    """{case code: (name, [path = [step codes]])}; raises Fail"""
    crate = Crate(core_files)
    methods = storage_trait_methods(traits_files)
    for need in STORAGE_WRITE:
        if need not in methods:
            raise Fail(f"storage-trait:{need}:not-found")
    for m in methods:
        if re.match(r"(save|replace|delete|mark|invalidate|update|prune)_|(create|rollback|release)_group_", m) and m not in STORAGE_WRITE:
            raise Fail(f"unmapped-storage-write:{m}")
    table = {}
    for code, cname, fn, impl, expect, assume in CASES:
        a = dict(DEFAULTS); a.update(assume)
        it = Interp(crate, methods, cname, a)
        cands = it.candidates(fn, impl=impl)
        if len(cands) != 1:
            raise Fail(f"{cname}:entry-point:{fn}:{len(cands)}-definitions")
        f = cands[0]
        env = {"self": SELF} if f["has_self"] else {}
        it.stack.append({"name": fn, "impl": f["impl"]})
        outs = it.eval_block(crate.body_tokens(f), (), env)
        paths = []
        for (w, _e, v, fl) in outs:
            if fl in ("break", "continue"):
                continue
            good = any(fits_expectation(w, v, e) for e in expect.split("|"))
            if good and list(w) not in paths:
                paths.append(list(w))
        if not paths:
            raise Fail(f"{cname}:no-path")
        if len(paths) > MAX_PATHS:
            raise Fail(f"{cname}:too-many-paths:{len(paths)}")
        paths.sort(key=lambda p: (-len(p), p))
        table[code] = (cname, paths)
    return table


if __name__ == "__main__":
    import sys, os
    sys.path.insert(0, os.path.dirname(os.path.abspath(__file__)))
    import gen_model as G
    try:
        t = write_sequences(G.crate_normal_files("crates/mdk-core"), G.crate_normal_files("crates/mdk-storage-traits"))
    except Fail as e:
        print("tie:gen:writeseq:" + str(e)); sys.exit(2)
    for code, (name, paths) in sorted(t.items()):
        print(f"{code:2} {name}")
        for p in paths:
            print("     ", p, " = ", ", ".join(step_name(c) for c in p))
