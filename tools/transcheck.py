#!/usr/bin/env python3
"""tools/transcheck.py — regression harness for the TRANSLATORS (gen_model.py, lockshape.py, gen_leak.py).

Two questions, answered without cargo and without lake (python3 + scratch git worktrees of the library only):

  ROBUSTNESS   for every behaviour-preserving rewrite of the library (`--harmless DIR`, default seeded-harmless/):
               do the translators of THIS checkout still extract every fact with the same value?
  SENSITIVITY  for every seeded defect (`--seeds DIR`, default seeded/): every fact that the ORIGINAL translators
               (`--orig`, a git revision of this repository or a directory holding tools/) report as changed or
               as no longer extractable must still be reported by the translators of this checkout.

A directory given to --harmless / --seeds is searched for `*/patch.diff` and `*/out/patch.diff`.
Each patch is applied to a scratch worktree of the library (never to the library checkout itself), both
translator sets are run against it, and the generated files are compared FACT BY FACT with what the same
translator set produces on the unpatched library:

  Generated.lean      one fact per `def`; plus the two JSON facts gen_model.py prints for the engines
                      (`json:ffiErrorTexts`, `json:leakTables`)
  GeneratedLeak.lean  one fact per (table, file, what) where `what` is the level of a tracing site, the variant of
                      an error format / constructor, the trait+type of an impl: the MULTISET of class lists of the
                      sites with that key.  Site numbers and line numbers are not part of a fact (nothing downstream
                      depends on them: vlib/leakeng.py finds sites by file/line of the CURRENT tables, Props/C14.lean
                      quantifies over the lists).  A difference in which only the multiplicity of an already present
                      class list changes is reported as `count-only` (a construction site that was duplicated or
                      merged, with the same classification) and is not counted as a fact change; neither is a
                      `regrouped` difference, in which the sites of a key were merged / split (their NUMBER changes) so that the
                      class lists differ but the SET of classes that occur under the key is the same (three sites [const], [errMdk],
                      [const, errMdk] folded into one helper whose site is [const, errMdk]).
  exit code != 0      the fact `MISSING:<message>` (a fact the translator could not extract: the check reports a
                      broken tie)

Exit code: 0 = no harmless patch changes a fact and no seed lost a fact change; 1 otherwise; 2 = usage / setup.
"""
import argparse, collections, concurrent.futures, glob, hashlib, json, os, re, shutil, subprocess, sys, tempfile

HERE = os.path.dirname(os.path.abspath(__file__))
ROOT = os.path.normpath(os.path.join(HERE, ".."))
DEFAULT_ORIG = "55d524a"          # last revision of this repository before the translators were made robust
# facts whose value on the UNPATCHED library differs from what DEFAULT_ORIG's translators produce, with the reason
EXPLAINED_BASE_DIFFS = {
    "leak:errorCtors:crates/mdk-sqlite-storage/src/%s.rs:DatabaseError" % f:
        "into_%s_err<T: Display>(e: T) is only ever used point-free, `.map_err(into_%s_err)`: its parameter is the error of the "
        "receiver, exactly what a closure `|e| …(e.to_string())` binds, and is now classed like one (errAny, emitted as errMdk — the "
        "more conservative of the two clean error classes) instead of errOpaque (`generic error parameter`).  Needed so that "
        "replacing thirty closures by one such helper (seeded-harmless/H2-p4) changes no class." % (g, g)
    for f, g in (("groups", "group"), ("messages", "message"), ("welcomes", "welcome"))}
EXPLAINED_BASE_DIFFS["writeSeqStatus"] = "new fact: 1 = tools/writeseq.py translated every case"
EXPLAINED_BASE_DIFFS["writeSeq"] = ("new fact (tools/writeseq.py, DESIGN §13.15): the ordered durable write steps of every mdk-core entry point; "
                                    "the original translators did not extract it")


def sh(*a, **kw):
    return subprocess.run(a, stdout=subprocess.PIPE, stderr=subprocess.STDOUT, text=True, **kw)


def find_patches(dirs):
    res = []
    for d in dirs:
        if os.path.isfile(d):
            res.append((os.path.basename(os.path.dirname(os.path.abspath(d))) or d, os.path.abspath(d)))
            continue
        found = sorted(glob.glob(os.path.join(d, "*", "patch.diff")) + glob.glob(os.path.join(d, "*", "out", "patch.diff")))
        for p in found:
            rel = os.path.relpath(p, d).split(os.sep)[0]
            base = os.path.basename(os.path.normpath(d))
            res.append((rel if base in ("seeded", "seeded-harmless") else f"{base}/{rel}", os.path.abspath(p)))
    return res


# ---------------------------------------------------------------------------------------------------
# fact-level reading of the generated files

def facts_of_generated(text):
    facts = {}
    for m in re.finditer(r"^def (\w+) : (.*?) := (.*?)(?=\n\n|\nend MdkVerif)", text, re.S | re.M):
        facts[m.group(1)] = re.sub(r"\s+", " ", m.group(3)).strip()
    return facts


ENTRY = re.compile(r"^\s*⟨(\d+), (\.\w+), \[([^\]]*)\]⟩,?\s*-- (\S+?):(\d+) (.*)$")

def leak_sites(text):
    """[(table, file, what, classes)] of GeneratedLeak.lean"""
    res, table = [], None
    for line in text.split("\n"):
        m = re.match(r"^def (\w+) : List Site := \[", line)
        if m:
            table = m.group(1); continue
        if line.startswith("]"):
            table = None; continue
        m = ENTRY.match(line)
        if m and table:
            what = m.group(6).split(" | ")[0].strip()
            res.append((table, m.group(4), what, m.group(3).replace(" ", "")))
    return res


def facts_of_leak(text):
    facts = collections.defaultdict(collections.Counter)
    for table, file, what, classes in leak_sites(text):
        facts[f"leak:{table}:{file}:{what}"][classes] += 1
    return {k: dict(v) for k, v in facts.items()}


def run_translators(tools_copy, repo):
    """run gen_model.py (which also runs lockshape and gen_leak) of `tools_copy` against `repo` → fact dict"""
    lean_dir = os.path.join(tools_copy, "..", "lean", "MdkVerif")
    os.makedirs(lean_dir, exist_ok=True)
    for f in ("Generated.lean", "GeneratedLeak.lean"):
        try:
            os.remove(os.path.join(lean_dir, f))
        except OSError:
            pass
    env = dict(os.environ, VERIF_REPO=repo, PYTHONDONTWRITEBYTECODE="1")
    facts = {}
    r = subprocess.run([sys.executable, os.path.join(tools_copy, "gen_model.py")], env=env, stdout=subprocess.PIPE, stderr=subprocess.PIPE, text=True)
    if r.returncode != 0:
        msg = (r.stderr.strip().split("\n") or ["?"])[-1]
        facts["MISSING:" + msg[:200]] = "rc=%d" % r.returncode
    else:
        try:
            js = json.loads(r.stdout)
            for k in ("ffiErrorTexts", "leakTables"):
                if k in js:
                    facts["json:" + k] = js[k]
        except ValueError:
            facts["MISSING:gen_model-stdout-not-json"] = "1"
        facts.update(facts_of_generated(open(os.path.join(lean_dir, "Generated.lean")).read()))
    lp = os.path.join(lean_dir, "GeneratedLeak.lean")
    if not os.path.exists(lp):
        r2 = subprocess.run([sys.executable, os.path.join(tools_copy, "gen_leak.py")], env=env, stdout=subprocess.PIPE, stderr=subprocess.PIPE, text=True)
        if r2.returncode != 0:
            msg = (r2.stderr.strip().split("\n") or ["?"])[-1]
            facts["MISSING:" + msg[:200]] = "rc=%d" % r2.returncode
    if os.path.exists(lp):
        facts.update(facts_of_leak(open(lp).read()))
    return facts


def diff_facts(base, cur):
    """→ (changed {name: (old, new)}, count_only [names])"""
    changed, count_only = {}, []
    failed = any(k.startswith("MISSING:") for k in cur)
    for k in sorted(set(base) | set(cur)):
        a, b = base.get(k), cur.get(k)
        if a == b:
            continue
        if failed and b is None and not k.startswith("leak:"):
            continue                     # gen_model.py stopped at the MISSING fact: the facts after it were not computed
        if k.startswith("leak:") and isinstance(a, dict) and isinstance(b, dict) and set(a) == set(b):
            count_only.append(k); continue
        if k.startswith("leak:") and isinstance(a, dict) and isinstance(b, dict) and sum(a.values()) != sum(b.values()) and \
                {c for cl in a for c in cl.split(",")} == {c for cl in b for c in cl.split(",")}:
            count_only.append(k + " (regrouped)"); continue
        if k == "json:leakTables":
            # totals move with count-only differences; the unclean counts are what the engines read
            try:
                ja, jb = json.loads(a), json.loads(b)
                if all(ja[t]["unclean"] == jb[t]["unclean"] for t in ja) and set(ja) == set(jb):
                    count_only.append(k); continue
            except (ValueError, KeyError, TypeError):
                pass
        changed[k] = (a, b)
    return changed, count_only


# ---------------------------------------------------------------------------------------------------

class Worker:
    def __init__(self, work, k, lib, rev, toolsets):
        self.repo = os.path.join(work, f"repo{k}")
        if not os.path.isdir(self.repo):
            r = sh("git", "-C", lib, "worktree", "add", "-q", "--detach", self.repo, rev)
            if r.returncode != 0:
                raise SystemExit(f"cannot create scratch worktree {self.repo}: {r.stdout}")
        self.tools = {}
        for name, src in toolsets.items():
            dst = os.path.join(work, f"v{k}_{name}")
            shutil.rmtree(dst, ignore_errors=True)
            os.makedirs(dst)
            shutil.copytree(src, os.path.join(dst, "tools"), ignore=shutil.ignore_patterns("__pycache__"))
            self.tools[name] = os.path.join(dst, "tools")
        self.rev = rev

    def reset(self):
        sh("git", "-C", self.repo, "checkout", "-q", "--detach", self.rev)
        sh("git", "-C", self.repo, "checkout", "-q", "--", ".")
        sh("git", "-C", self.repo, "clean", "-fdq")

    def run(self, patch, which):
        self.reset()
        if patch is not None:
            r = sh("git", "-C", self.repo, "apply", patch)
            if r.returncode != 0:
                return {w: None for w in which}
        out = {w: run_translators(self.tools[w], self.repo) for w in which}
        self.reset()
        return out


def main():
    ap = argparse.ArgumentParser(description=__doc__.split("\n\n")[0])
    ap.add_argument("--harmless", action="append", default=[])
    ap.add_argument("--seeds", action="append", default=[])
    ap.add_argument("--orig", default=DEFAULT_ORIG, help="git revision of this repository, or a directory containing tools/, holding the ORIGINAL translators")
    ap.add_argument("--lib", default=os.environ.get("VERIF_REPO_SRC", "/repo"), help="git checkout of the library; scratch worktrees of its HEAD are created, it is never modified")
    ap.add_argument("--work", default=os.environ.get("TRANSCHECK_WORK", os.path.join(tempfile.gettempdir(), "transcheck")))
    ap.add_argument("-j", type=int, default=4)
    ap.add_argument("--json", default=None, help="write the full result here")
    ap.add_argument("--no-orig-on-harmless", action="store_true", help="skip the (slow) `before` column of the harmless table")
    ap.add_argument("--keep", action="store_true", help="keep the scratch worktrees")
    ap.add_argument("-v", action="store_true")
    a = ap.parse_args()
    if not a.harmless and not a.seeds:
        a.harmless = [os.path.join(ROOT, "seeded-harmless")]
        a.seeds = [os.path.join(ROOT, "seeded")]
    harmless, seeds = find_patches(a.harmless), find_patches(a.seeds)
    if not harmless and not seeds:
        print("no patches found", file=sys.stderr); return 2
    os.makedirs(a.work, exist_ok=True)
    rev = sh("git", "-C", a.lib, "rev-parse", "HEAD").stdout.strip()
    # the original translators
    if os.path.isdir(os.path.join(a.orig, "tools")):
        orig_tools, orig_id = os.path.join(a.orig, "tools"), "dir:" + os.path.abspath(a.orig)
    else:
        r = sh("git", "-C", ROOT, "rev-parse", "--verify", a.orig + "^{commit}")
        if r.returncode != 0:
            print(f"--orig {a.orig}: neither a directory with tools/ nor a revision of {ROOT}", file=sys.stderr); return 2
        orig_id = r.stdout.strip()
        od = os.path.join(a.work, "orig_" + orig_id[:12])
        if not os.path.isdir(os.path.join(od, "tools")):
            os.makedirs(od, exist_ok=True)
            p1 = subprocess.Popen(["git", "-C", ROOT, "archive", orig_id, "tools"], stdout=subprocess.PIPE)
            subprocess.check_call(["tar", "-x", "-C", od], stdin=p1.stdout)
            p1.wait()
        orig_tools = os.path.join(od, "tools")
    toolsets = {"orig": orig_tools, "new": HERE}
    new_id = hashlib.sha1(b"".join(open(os.path.join(HERE, f), "rb").read() for f in ("gen_model.py", "gen_leak.py", "lockshape.py", "writeseq.py", "rsnorm.py") if os.path.exists(os.path.join(HERE, f)))).hexdigest()
    cache_dir = os.path.join(a.work, "cache")
    os.makedirs(cache_dir, exist_ok=True)

    def cache_key(which, patch):
        h = hashlib.sha1()
        h.update((orig_id if which == "orig" else new_id).encode()); h.update(rev.encode())
        h.update(open(patch, "rb").read() if patch else b"<base>")
        return os.path.join(cache_dir, which + "_" + h.hexdigest() + ".json")

    def load(which, patch):
        try:
            return json.load(open(cache_key(which, patch)))["facts"]
        except (OSError, ValueError):
            return "absent"

    def store(which, patch, facts):
        json.dump({"facts": facts}, open(cache_key(which, patch), "w"))

    jobs = [(None, ["orig", "new"])]
    for _, p in harmless:
        jobs.append((p, ["new"] if a.no_orig_on_harmless else ["orig", "new"]))
    for _, p in seeds:
        jobs.append((p, ["orig", "new"]))
    todo = []
    for p, which in jobs:
        need = [w for w in which if load(w, p) == "absent"]
        if need:
            todo.append((p, need))
    nworkers = max(1, min(a.j, len(todo)))
    workers = [Worker(a.work, k, a.lib, rev, toolsets) for k in range(nworkers)] if todo else []

    def do(args):
        k, chunk = args
        for p, need in chunk:
            res = workers[k].run(p, need)
            for w in need:
                store(w, p, res[w])
            if a.v:
                print(f"  ran {','.join(need)} on {p or '<unpatched>'}", file=sys.stderr)
    if todo:
        chunks = [(k, todo[k::nworkers]) for k in range(nworkers)]
        with concurrent.futures.ThreadPoolExecutor(nworkers) as ex:
            list(ex.map(do, chunks))
    base = {w: load(w, None) for w in ("orig", "new")}
    if any(b in ("absent", None) for b in base.values()) or any(k.startswith("MISSING:") for b in base.values() for k in b):
        print("the translators fail on the UNPATCHED library:", {w: [k for k in (b or {}) if k.startswith("MISSING:")] for w, b in base.items()}, file=sys.stderr)
        return 2
    # (i) old and new translators agree on the unpatched library
    base_diff, base_co = diff_facts(base["orig"], base["new"])
    print(f"library {a.lib} @ {rev[:12]}; original translators {orig_id[:12]}; translators under test {new_id[:12]}")
    print(f"\n== unpatched library: facts that differ between the original translators and these: {len(base_diff)}"
          + (f" (+{len(base_co)} count-only)" if base_co else ""))
    for k, (x, y) in base_diff.items():
        print(f"   {k}: {str(x)[:100]} -> {str(y)[:100]}" + ("   [explained in EXPLAINED_BASE_DIFFS]" if k in EXPLAINED_BASE_DIFFS and a.orig == DEFAULT_ORIG else ""))
    unexplained = [k for k in base_diff if not (k in EXPLAINED_BASE_DIFFS and a.orig == DEFAULT_ORIG)]
    bad = 0
    result = dict(lib_rev=rev, orig=orig_id, new=new_id, base_diff=sorted(base_diff), harmless=[], seeds=[])

    def short(names, n=6):
        names = sorted(names)
        s = ", ".join(x if len(x) < 70 else x[:67] + "…" for x in names[:n])
        return s + (f", … (+{len(names) - n})" if len(names) > n else "")

    if harmless:
        print("\n== harmless rewrites: facts that change (must be none with the translators under test)")
        print(f"   {'patch':<34} {'before (original translators)':<70} after")
    for name, p in harmless:
        row = dict(name=name)
        cols = []
        for w in (["new"] if a.no_orig_on_harmless else ["orig", "new"]):
            f = load(w, p)
            if f is None:
                cols.append("patch does not apply"); row[w] = None
                if w == "new": bad += 1
                continue
            ch, co = diff_facts(base[w], f)
            row[w] = dict(changed=sorted(ch), count_only=co)
            cols.append((f"{len(ch)}: " + short(ch, 3) if ch else "-") + (f" [count-only {len(co)}]" if co else ""))
            if w == "new" and ch:
                bad += 1
                row["detail"] = {k: [str(v[0])[:300], str(v[1])[:300]] for k, v in ch.items()}
        result["harmless"].append(row)
        if len(cols) == 1: cols = ["(skipped)"] + cols
        print(f"   {name:<34} {cols[0]:<70} {cols[1]}")
        if a.v and row.get("detail"):
            for k, (x, y) in row["detail"].items():
                print(f"        {k}\n          - {x}\n          + {y}")
    if seeds:
        print("\n== seeded defects: fact changes seen by the original translators must still be seen")
        print(f"   {'seed':<52} {'orig':>4} {'new':>4}  lost / gained")
    for name, p in seeds:
        fo, fn = load("orig", p), load("new", p)
        if fo is None or fn is None:
            print(f"   {name:<52} patch does not apply to {rev[:12]}")
            result["seeds"].append(dict(name=name, applies=False))
            continue
        co_, _ = diff_facts(base["orig"], fo)
        cn_, _ = diff_facts(base["new"], fn)
        lost = sorted(set(co_) - set(cn_))
        # a fact that the original could not extract any more (MISSING) is also `seen` when the new translator
        # extracts it and reports a CHANGED value for it, or fails with another MISSING
        lost_strict = list(lost)
        if lost and all(k.startswith("MISSING:") for k in lost) and cn_:
            lost = []
        gained = sorted(set(cn_) - set(co_))
        result["seeds"].append(dict(name=name, applies=True, orig=sorted(co_), new=sorted(cn_), lost=lost, lost_strict=lost_strict, gained=gained))
        if lost:
            bad += 1
        note = ("LOST " + short(lost, 4) if lost else "") + (("  replaced " + short(lost_strict, 2) + " by " + short(gained, 3)) if lost_strict and not lost else
                                                              ("  gained " + short(gained, 3) if gained else ""))
        print(f"   {name:<52} {len(co_):>4} {len(cn_):>4}  {note}")
        if a.v:
            for k in sorted(set(co_) | set(cn_)):
                print(f"        {'o' if k in co_ else ' '}{'n' if k in cn_ else ' '} {k}")
    if a.json:
        json.dump(result, open(a.json, "w"), indent=1)
    if not a.keep:
        for w in workers:
            sh("git", "-C", a.lib, "worktree", "remove", "--force", w.repo)
    print(f"\n{'OK' if not bad and not unexplained else 'REGRESSION'}: {bad} patch(es) with a fact-level regression; "
          f"{len(base_diff)} baseline difference(s), {len(unexplained)} unexplained")
    return 0 if not bad and not unexplained else 1


if __name__ == "__main__":
    sys.exit(main())
