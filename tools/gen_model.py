#!/usr/bin/env python3
"""Translator (DESIGN §2.2b): re-extracts table-like facts from /repo's current source and
regenerates lean/MdkVerif/Generated.lean.  Fails loudly (exit 2, message `tie:gen:<fact>`)
when a fact it needs is not found; never defaults silently."""
import os, re, sys, json
sys.path.insert(0, os.path.dirname(os.path.abspath(__file__)))
import rsnorm

REPO = os.environ.get("VERIF_REPO", "/repo")
OUT = os.path.join(os.path.dirname(os.path.abspath(__file__)), "..", "lean", "MdkVerif", "Generated.lean")

class Missing(Exception):
    pass

class Src(str):
    """the text of a library source file that remembers which file it is (so that `strip_comments` can bring it
    into the normal form of tools/rsnorm.py with the constants and helper functions of its file and crate)"""
    rel = None

def _src(text, rel):
    s = Src(text); s.rel = rel
    return s

def read(rel):
    p = os.path.join(REPO, rel)
    try:
        return _src(open(p, encoding="utf-8").read(), rel)
    except OSError:
        raise Missing(f"file:{rel}")

def strip_comments_raw(src):
    # remove // line comments and /* */ block comments, keep string literals intact
    out, i, n = [], 0, len(src)
    while i < n:
        c = src[i]
        if c == '"':
            j = i + 1
            while j < n and src[j] != '"':
                j += 2 if src[j] == '\\' else 1
            out.append(src[i:j + 1]); i = j + 1
        elif src.startswith("//", i):
            j = src.find("\n", i)
            i = n if j < 0 else j
        elif src.startswith("/*", i):
            j = src.find("*/", i + 2)
            i = n if j < 0 else j + 2
        else:
            out.append(c); i += 1
    return "".join(out)

def strip_comments(src):
    """comments removed; for a file of one of the library's crates also CONSTANTS INLINED (rsnorm.inline_consts: string /
    byte-string / integer const and static items of the file, then of its crate, substituted at their use sites)"""
    text = strip_comments_raw(src)
    rel = getattr(src, "rel", None)
    if rel and rel.startswith("crates/") and "/src/" in rel:
        lit, ints = crate_index(rel).consts_for(rel, text)
        return _src(rsnorm.inline_consts(text, lit, ints), rel)
    return text

def non_test(src):
    """drop the trailing `#[cfg(test)] mod tests { … }`"""
    m = re.search(r"#\[cfg\(test\)\]\s*mod\s+tests", src)
    return _src(src[:m.start()], getattr(src, "rel", None)) if m else src

class CrateIndex:
    """constants and functions of one crate of the library (non-test code, comments stripped)"""
    def __init__(self, crate_dir):
        self.files = {}
        root = os.path.join(REPO, crate_dir, "src")
        for d, _, fs in sorted(os.walk(root)):
            for f in sorted(fs):
                p = os.path.join(d, f)
                rel = os.path.relpath(p, REPO)
                if not f.endswith(".rs") or re.search(r"(^|/)(tests?|test_util|benches)(/|\.rs$)", os.path.relpath(p, root)):
                    continue
                try:
                    self.files[rel] = rsnorm.drop_tests(strip_comments_raw(open(p, encoding="utf-8").read()))
                except OSError:
                    pass
        self.consts = {}
        for rel, text in self.files.items():
            for k, v in rsnorm.const_defs(text).items():
                self.consts.setdefault(k, []).append(v)
        self._fns = None
        self._inlined = {}
    def consts_for(self, rel, text):
        return rsnorm.resolve_consts(rsnorm.const_defs(text), self.consts)
    def fns(self):
        """{name: [fn item of the const-inlined text of its file]}"""
        if self._fns is None:
            self._fns = {}
            for rel, text in self.files.items():
                lit, ints = self.consts_for(rel, text)
                for f in rsnorm.fn_items(rsnorm.inline_consts(text, lit, ints)):
                    self._fns.setdefault(f["name"], []).append(f)
        return self._fns

_CRATES = {}
def crate_index(rel):
    crate_dir = "/".join(rel.split("/")[:2])
    if crate_dir not in _CRATES:
        _CRATES[crate_dir] = CrateIndex(crate_dir)
    return _CRATES[crate_dir]

def crate_normal_files(crate_dir):
    """{rel: text} of the non-test source of a crate in the normal form (comments stripped, tests dropped, constants inlined)"""
    idx = crate_index(crate_dir + "/src/lib.rs")
    res = {}
    for rel, text in idx.files.items():
        lit, ints = idx.consts_for(rel, text)
        res[rel] = rsnorm.inline_consts(text, lit, ints)
    if not res:
        raise Missing("crate:" + crate_dir)
    return res

def write_sequences(facts):
    """C12: the ordered durable write steps of every mdk-core entry point, per case and path (tools/writeseq.py)"""
    import writeseq
    try:
        table = writeseq.write_sequences(crate_normal_files("crates/mdk-core"), crate_normal_files("crates/mdk-storage-traits"))
    except writeseq.Fail as e:
        # the broken tie belongs to C12 alone: the other properties' facts are still emitted; with an empty table the theorems
        # of Props/C12.lean over the table stop checking, and vlib/c12core.py reports `tie:gen:writeseq` with this message
        facts["writeSeq"] = ("List (Nat × List (List Nat))", "[]", "tools/writeseq.py FAILED: tie:gen:writeseq:" + str(e).replace("-/", "- /"))
        facts["writeSeqStatus"] = ("List Nat", "[0]", "tie:gen:writeseq:" + str(e).replace("-/", "- /"))
        print("tie:gen:writeseq:" + str(e), file=sys.stderr)
        return {}
    facts["writeSeqStatus"] = ("List Nat", "[1]", "tools/writeseq.py translated every case")
    val = "[" + ", ".join(f"({c}, [" + ", ".join("[" + ", ".join(map(str, p)) + "]" for p in paths) + "])" for c, (_n, paths) in sorted(table.items())) + "]"
    prov = "mdk-core: ordered durable write steps per entry point / case / success path (tools/writeseq.py; step codes there): " + \
           "; ".join(f"{c}={n}: " + " | ".join(",".join(writeseq.step_name(x) for x in p) or "-" for p in paths) for c, (n, paths) in sorted(table.items()))
    facts["writeSeq"] = ("List (Nat × List (List Nat))", val, prov)
    return table

_BOUNDARY = None
def boundary():
    """the function names the extractors know: every identifier that occurs in a string literal of this file, of
    lockshape.py or of gen_leak.py (names handed to fn_body, names in patterns).  A callee with such a name is a step of
    the model and is read on its own; any other callee is an implementation detail and is looked through (inlined)."""
    global _BOUNDARY
    if _BOUNDARY is None:
        words = set()
        here = os.path.dirname(os.path.abspath(__file__))
        for f in ("gen_model.py", "lockshape.py"):
            try:
                text = open(os.path.join(here, f), encoding="utf-8").read()
            except OSError:
                continue
            for lit in re.findall(r'"(?:[^"\\\n]|\\.)*"', text) + re.findall(r"'(?:[^'\\\n]|\\.)*'", text):
                words.update(re.findall(r"[a-z_][a-z0-9_]*", lit))
        _BOUNDARY = words
    return _BOUNDARY

_FN_CACHE = {}
def _fn_items(src):
    key = (len(src), hash(src))
    if key not in _FN_CACHE:
        _FN_CACHE[key] = rsnorm.fn_items(src)
    return _FN_CACHE[key]

def const_usize(src, name, fact):
    m = re.search(r"\bconst\s+" + re.escape(name) + r"\s*:\s*\w+\s*=\s*([^;]+);", src)
    if not m:
        raise Missing(fact)
    expr = m.group(1).strip().replace("_", "")
    expr = re.sub(r"(?<=[0-9])(usize|u64|u32|u16|u8|i64|i32)\b", "", expr)
    if not re.fullmatch(r"[0-9\s\*\+\(\)]+", expr):
        raise Missing(fact + ":expr")
    return int(eval(expr))

def moved_fn(src, name):
    """a function that is not (any more) in the file an extractor expects it in: its one definition elsewhere in the crate"""
    rel = getattr(src, "rel", None)
    if rel and rel.startswith("crates/") and "/src/" in rel:
        cands = crate_index(rel).fns().get(name, [])
        if len(cands) == 1:
            return cands[0]
    return None

def fn_body_raw(src, name, fact):
    m = re.search(r"\bfn\s+" + re.escape(name) + r"\b", src)
    if not m:
        f = moved_fn(src, name)
        if f:
            return f["body"]
        raise Missing(fact)
    i = src.find("{", m.end())
    depth, j = 0, i
    in_str = False
    while j < len(src):
        c = src[j]
        if in_str:
            if c == '\\': j += 1
            elif c == '"': in_str = False
        else:
            if c == '"': in_str = True
            elif c == '{': depth += 1
            elif c == '}':
                depth -= 1
                if depth == 0:
                    return src[i:j + 1]
        j += 1
    raise Missing(fact + ":braces")

def helper_lookup(src):
    """resolver for rsnorm.inline_helpers: a callee defined exactly once in this text, else exactly once in the crate"""
    local = {}
    for f in _fn_items(src):
        local.setdefault(f["name"], []).append(f)
    rel = getattr(src, "rel", None)
    crate = crate_index(rel).fns() if rel and rel.startswith("crates/") and "/src/" in rel else {}
    def lookup(name, prefix):
        cands = local.get(name) or crate.get(name) or []
        if len(cands) != 1:
            return None
        f = cands[0]
        if prefix == "self." and not f["has_self"]:
            return None
        if prefix != "self." and not prefix.startswith("Self::") and f["has_self"]:
            return None
        return f
    return lookup

def fn_body(src, name, fact):
    """the body of `fn name` with HELPERS INLINED (rsnorm.inline_helpers: the body of every callee the extractors do not
    know by name is inserted after its call, parameters replaced by the arguments, depth <= 3) and format strings in
    positional form"""
    body = fn_body_raw(src, name, fact)
    return rsnorm.positional_fmt(rsnorm.inline_helpers(body, helper_lookup(src), boundary(), stack=(name,)))

def squash(text):
    """whitespace collapsed; none around the `.` of a method chain, inside parentheses, before `,` `;` `?`"""
    t = re.sub(r"\s+", " ", text)
    t = re.sub(r" ?\.(?=[A-Za-z_])(?<!\.\.)", ".", t)
    t = re.sub(r"([(\[]) ", r"\1", t)
    t = re.sub(r" ([)\],;?])", r"\1", t)
    t = re.sub(r",([)\]])", r"\1", t)          # trailing comma of an argument list
    return t

def flat(body):
    """LOCALS INLINED (rsnorm.inline_lets) and whitespace squashed: patterns over this text talk about expressions,
    not about the names of locals"""
    return squash(rsnorm.inline_lets(rsnorm.unify_strings(body)))

def fn_params(src, name, fact):
    """[(name, type)] of the parameters (without self) of the first `fn name`"""
    for f in _fn_items(src):
        if f["name"] == name:
            return f["params"]
    f = moved_fn(src, name)
    if f:
        return f["params"]
    raise Missing(fact + ":params")

def param_of_type(src, name, type_re, fact):
    ps = [p for p, t in fn_params(src, name, fact) if p and re.fullmatch(type_re, t)]
    if len(ps) != 1:
        raise Missing(fact + ":param:" + type_re)
    return ps[0]

def at(pat, text):
    """position of the first match of a pattern (-1: none)"""
    m = re.search(pat, text)
    return m.start() if m else -1

def calls(body, callee_re):
    """[(position, [argument texts])] of the calls `<callee_re>(…)` in body"""
    res = []
    for m in re.finditer(r"(?<![\w])(?:" + callee_re + r")\s*\(", body):
        cl = rsnorm.match_close(body, m.end() - 1, "(", ")")
        if cl > 0:
            res.append((m.start(), [re.sub(r"\s+", " ", a) for a in rsnorm.split_top(body[m.end():cl])]))
    return res

def const_lit(src, name, fact):
    """the literal text (`"…"`, `b"…"`, integer) of a const / static of src's file or crate, aliases followed"""
    rel = getattr(src, "rel", None)
    if rel:
        lit, _ = crate_index(rel).consts_for(rel, rsnorm.drop_tests(strip_comments_raw(read(rel))))
        if name in lit:
            return lit[name]
    raise Missing(fact)

def arms_of(body):
    """the body with `matches!` turned into `match` and OR-PATTERNS EXPANDED into one arm per alternative"""
    return rsnorm.expand_matches(body)

def strings(body):
    res = []
    for m in re.finditer(r'"((?:[^"\\]|\\.)*)"', body, re.S):
        s = m.group(1)
        s = re.sub(r"\\\n\s*", "", s)          # line continuation
        res.append(re.sub(r"\s+", " ", s))
    return res

def lean_bool(b): return "true" if b else "false"
def keylist0(ks): return "[" + ", ".join('"%s"' % k for k in ks) + "]"

# error variants the outer layer of process_message can return or record, in the order of Model.Wrap.ErrKind
WRAP_ERRS = ["UnexpectedEvent", "InvalidTimestamp", "MissingGroupIdTag", "MultipleGroupIdTags", "InvalidGroupIdFormat",
             "GroupNotFound", "Message", "Group"]
PM_STATES = ["Created", "Processed", "ProcessedCommit", "Failed", "EpochInvalidated", "Retryable"]

def nostr_src(rel):
    """a source file of the `nostr` crate version pinned by /repo's Cargo.lock (vendored registry copy)"""
    lock = read("Cargo.lock")
    m = re.search(r'name = "nostr"\s*\nversion = "([^"]+)"', lock)
    if not m:
        raise Missing("nostr:version-in-Cargo.lock")
    home = os.environ.get("CARGO_HOME", os.path.expanduser("~/.cargo"))
    base = os.path.join(home, "registry", "src")
    try:
        for d in sorted(os.listdir(base)):
            p = os.path.join(base, d, "nostr-" + m.group(1), "src", rel)
            if os.path.exists(p):
                return open(p, encoding="utf-8").read()
    except OSError:
        pass
    raise Missing(f"nostr:{m.group(1)}:src/{rel}")

def wrap_facts(facts, nat, boolean, strlist):
    """the outer layer of process_message: validation.rs, decryption.rs, error_handling.rs, process.rs, lib.rs
    (MdkConfig::default) and the NIP-44 v2 payload checks of the pinned nostr crate"""
    mod_rs = strip_comments(non_test(read("crates/mdk-core/src/messages/mod.rs")))
    nat("epochLookback", const_usize(mod_rs, "DEFAULT_EPOCH_LOOKBACK", "const:DEFAULT_EPOCH_LOOKBACK"), "messages/mod.rs DEFAULT_EPOCH_LOOKBACK")
    dec = strip_comments(non_test(read("crates/mdk-core/src/messages/decryption.rs")))
    recent = fn_body(dec, "try_decrypt_with_recent_epochs", "fn:try_decrypt_with_recent_epochs")
    past = fn_body(dec, "try_decrypt_with_past_epochs", "fn:try_decrypt_with_past_epochs")
    # the past-epoch window, over EXPRESSIONS (locals inlined): with cur = <group>.epoch().as_u64() and LB the u64 parameter,
    #   refuse when cur == 0 || LB == 0;  newest = cur ⊖ 1;  oldest = newest ⊖ (LB ⊖ 1);  for e in (oldest..=newest).rev()
    lb = re.escape(param_of_type(dec, "try_decrypt_with_past_epochs", r"u64", "fn:try_decrypt_with_past_epochs"))
    pflat = flat(past)
    cur = r"\w+\.epoch\(\)\.as_u64\(\)"
    newest = cur + r"\.saturating_sub\(1\)"
    oldest = newest + r"\.saturating_sub\(" + lb + r"\.saturating_sub\(1\)\)"
    past_call = calls(flat(recent), r"(?:self\.)?try_decrypt_with_past_epochs")
    lookback_arg = past_call[0][1][-1].replace("_", "") if past_call and past_call[0][1] else ""
    boolean("lookbackAsModelled",
            0 < recent.find("self.exporter_secret(") < recent.find("decrypt_with_exporter_secret(") < recent.find("try_decrypt_with_past_epochs(")
            and (lookback_arg == "DEFAULT_EPOCH_LOOKBACK" or (lookback_arg.isdigit() and int(lookback_arg) == int(facts["epochLookback"][1])))
            and bool(re.search(r"if (?:" + cur + r" == 0 \|\| " + lb + r" == 0|" + lb + r" == 0 \|\| " + cur + r" == 0) \{ return Err", pflat))
            and bool(re.search(r"for \w+ in \(" + oldest + r" ?\.\.= ?" + newest + r"\)\.rev\(\)", pflat))
            and "get_group_exporter_secret" in past,
            "decryption.rs: current exporter secret (exported and stored on demand) first, then the STORED secrets of epochs cur-1 down to cur-LOOKBACK (not below 0)")
    dm = fn_body(dec, "decrypt_message", "fn:decrypt_message")
    boolean("decryptStepsAsModelled",
            0 < dm.find("find_group_by_nostr_group_id") < dm.find("load_mls_group") < dm.find("try_decrypt_with_recent_epochs")
            and dm.count("Error::GroupNotFound") == 2,
            "decryption.rs decrypt_message: group by nostr group id (else GroupNotFound), MLS group loaded (else GroupNotFound), then the outer decryption")
    lib = strip_comments(non_test(read("crates/mdk-core/src/lib.rs")))
    m = re.search(r"impl\s+Default\s+for\s+MdkConfig\s*\{(.*?)\n\}", lib, re.S)
    if not m:
        raise Missing("lib:MdkConfig::default")
    for lean, field in [("defaultMaxEventAgeSecs", "max_event_age_secs"), ("defaultMaxFutureSkewSecs", "max_future_skew_secs")]:
        f = re.search(r"\b" + field + r"\s*:\s*([0-9_]+)\s*,", m.group(1))
        if not f:
            raise Missing("lib:MdkConfig::default:" + field)
        nat(lean, int(f.group(1).replace("_", "")), f"mdk-core lib.rs MdkConfig::default().{field}")
    val = strip_comments(non_test(read("crates/mdk-core/src/messages/validation.rs")))
    ve = fn_body(val, "validate_event", "fn:validate_event")
    if not re.search(r"\w+\.kind\s*!=\s*Kind::MlsGroupMessage", ve):
        raise Missing("wrap:kind-check")
    km = re.search(r"\bMlsGroupMessage\s*=>\s*(\d+)\s*,", nostr_src("event/kind.rs"))
    if not km:
        raise Missing("nostr:Kind::MlsGroupMessage")
    nat("kindMlsGroupMessage", int(km.group(1)), "nostr Kind::MlsGroupMessage, the only kind validate_event lets through")
    boolean("validateEventOrder", 0 < ve.find("Kind::MlsGroupMessage") < ve.find("validate_created_at"),
            "validation.rs validate_event: kind first, then the created_at window")
    vc = fn_body(val, "validate_created_at", "fn:validate_created_at")
    # over EXPRESSIONS (locals inlined): EV = <event>.created_at.as_secs(), NOW = Timestamp::now().as_secs()
    vflat = flat(vc)
    ev = re.escape(param_of_type(val, "validate_created_at", r"&\s*(?:nostr::)?Event", "fn:validate_created_at")) + r"\.created_at\.as_secs\(\)"
    now = r"Timestamp::now\(\)\.as_secs\(\)"
    boolean("createdAtWindowAsModelled",
            bool(re.search(r"if \(?" + ev + r" > \(?" + now + r"\.saturating_add\(self\.config\.max_future_skew_secs\)\)?\)? \{ return Err\(Error::InvalidTimestamp", vflat))
            and bool(re.search(r"if \(?" + ev + r" < \(?" + now + r"\.saturating_sub\(self\.config\.max_event_age_secs\)\)?\)? \{ return Err\(Error::InvalidTimestamp", vflat))
            and vc.count("Error::InvalidTimestamp") == 2 and vc.count("Timestamp::now()") == 1,
            "validation.rs validate_created_at: refused iff created_at > now ⊕ skew (saturating) or created_at < now ⊖ max_age (saturating); one clock read")
    ex = fn_body(val, "extract_nostr_group_id", "fn:extract_nostr_group_id")
    xflat = flat(ex)
    def first(pat, text, start=0):
        m = re.compile(pat).search(text, max(start, 0))
        return m.start() if m else -1
    # the steps by what they call / compare / return, not by the names of the locals
    i_filter = first(r"filter\(\|(\w+)\| \1\.kind\(\) == TagKind::h\(\)\)", xflat)
    i_none = first(r"\.is_empty\(\)|\.next\(\)|\.first\(\)", xflat, i_filter)
    i_missing = xflat.find("MissingGroupIdTag")
    i_several = first(r"\.len\(\) (?:> 1|>= 2)\b|\.count\(\) (?:> 0|>= 1|!= 0)\b|\.next\(\)\.is_some\(\)", xflat, i_missing)
    i_multiple = xflat.find("MultipleGroupIdTags")
    i_content = xflat.find(".content()")
    i_decode = xflat.find("hex::decode(")
    hl = re.search(r"\.len\(\) != (\d+)", xflat[max(i_content, 0):max(i_decode, 0)])
    if not hl:
        raise Missing("wrap:h-tag-length-check")
    nat("hTagHexLen", int(hl.group(1)), "validation.rs extract_nostr_group_id: required byte length of the h tag value")
    boolean("hTagShapeAsModelled",
            0 <= i_filter < i_none < i_missing < i_several < i_multiple < i_content < i_content + hl.start() < i_decode
            and ex.count("InvalidGroupIdFormat") == 4,
            "validation.rs extract_nostr_group_id: tags of kind h — none → MissingGroupIdTag, several → MultipleGroupIdTags, then value present, length, hex::decode → InvalidGroupIdFormat")
    proc = strip_comments(non_test(read("crates/mdk-core/src/messages/process.rs")))
    pm = fn_body(proc, "process_message", "fn:process_message")
    marks = [pm.find("find_processed_message_by_event_id"), at(r"\.validate_event\s*\(", pm), at(r"\.extract_nostr_group_id\s*\(", pm),
             at(r"\.decrypt_message\s*\(", pm), at(r"\.dispatch_by_content_type\s*\(", pm)]
    boolean("processStepOrder", all(x > 0 for x in marks) and marks == sorted(marks),
            "process.rs process_message: dedup lookup, validate_event, extract_nostr_group_id, decrypt_message, dispatch — in this order")
    # step 0: for which states of the stored record is one of the two early results (Unprocessable / PreviouslyFailed) reached?
    # Decided from the GUARDS on the way to them (if-conditions over `state == …::X`, booleans bound by `let`, match arms,
    # or-patterns, matches!), whatever the locals are called and wherever the block lives (rsnorm.variants_reaching).
    dedup = pm[:marks[1]] if marks[1] > 0 else pm
    early = [m.start() for m in re.finditer(r"MessageProcessingResult\s*::\s*(?:Unprocessable|PreviouslyFailed)\b", dedup)]
    reach = [rsnorm.variants_reaching(pm, pos, PM_STATES, "ProcessedMessageState") for pos in early]
    if not early or any(r is None for r in reach) or any(set(r) != set(reach[0]) for r in reach):
        raise Missing("wrap:dedup-blocked-states")
    blocked = sorted(PM_STATES.index(st) for st in reach[0])
    if not blocked:
        raise Missing("wrap:dedup-blocked-states")
    facts["dedupBlockedStates"] = ("List Nat", "[" + ", ".join(map(str, blocked)) + "]",
                                   "process.rs step 0: record states that block re-processing (0 created 1 processed 2 processed_commit 3 failed 4 epoch_invalidated 5 retryable)")
    boolean("dedupResultAsModelled",
            0 < at(r"extract_mls_group_id_from_event\s*\(", pm) < at(r"MessageProcessingResult::Unprocessable\s*\{\s*mls_group_id\s*,?\s*\}", pm)
            < pm.find("MessageProcessingResult::PreviouslyFailed") < marks[1],
            "process.rs step 0: a blocked event returns Unprocessable{group} when its h tag names a stored group, PreviouslyFailed otherwise")
    # the two early failures: record_failure(<event>.id, &<error>, None, None) after validation,
    # record_failure(<event>.id, &<error>, <group found by the h tag>.as_ref(), None) after decryption
    rf_calls = [a for pos, a in calls(pm, r"(?:self\s*\.\s*)?record_failure") if pos < marks[4]]
    def found_by_h_tag(arg):
        m = re.fullmatch(r"&?\s*([a-z_]\w*)(?:\.as_ref\(\))?", arg)
        return bool(m and re.search(r"\blet\s+" + m.group(1) + r"\s*(?::[^=;]+)?=[^;]*find_group_by_nostr_group_id[^;]*\.mls_group_id\b", pm))
    boolean("earlyFailuresRecorded",
            len(rf_calls) == 2 and all(len(a) == 4 and re.fullmatch(r"\w+\.id", a[0]) and re.fullmatch(r"&\s*\w+", a[1]) and a[3] == "None" for a in rf_calls)
            and rf_calls[0][2] == "None" and found_by_h_tag(rf_calls[1][2]),
            "process.rs: a validation failure is recorded without group and epoch, a decryption failure with the group found by the h tag and without epoch")
    eh = strip_comments(non_test(read("crates/mdk-core/src/messages/error_handling.rs")))
    rf = fn_body(eh, "record_failure", "fn:record_failure")
    rfl = flat(rf)
    reason = re.search(r"\blet (\w+) = (?:Self::|self\.)?sanitize_error_reason\(", rfl)
    boolean("recordFailureKeepsContext",
            0 < rfl.find("find_processed_message_by_event_id(") < rfl.find("create_processed_message_record(")
            and bool(re.search(r"\.and_then\(\|(\w+)\| \1\.message_event_id\)", rfl))
            and bool(re.search(r"\.or_else\(\|\| [^;]*?\.and_then\(\|(\w+)\| \1\.epoch\)\)", rfl))
            and bool(re.search(r"\.or_else\(\|\| [^;]*?\.and_then\(\|(\w+)\| \1\.mls_group_id\)\)", rfl))
            and "ProcessedMessageState::Failed" in rf
            and bool(re.search(r"Some\((?:Self::|self\.)?sanitize_error_reason\([^()]*\)\.to_string\(\)\)", rfl)
                     or (reason and re.search(r"Some\(" + reason.group(1) + r"\.to_string\(\)\)", rfl))),
            "error_handling.rs record_failure: state Failed, sanitised reason; message id kept, epoch / group fall back to the existing record")
    fu = fn_body(eh, "fail_unprocessable", "fn:fail_unprocessable")
    grp = re.escape(param_of_type(eh, "fail_unprocessable", r"&\s*(?:\w+::)*Group", "fn:fail_unprocessable"))
    fu_call = calls(fu, r"(?:self\s*\.\s*)?record_failure")
    boolean("failUnprocessableAsModelled", len(fu_call) == 1 and len(fu_call[0][1]) == 4
            and bool(re.fullmatch(r"Some\(\s*&\s*" + grp + r"\.mls_group_id\s*\)", fu_call[0][1][2])) and bool(re.fullmatch(r"Some\(\s*" + grp + r"\.epoch\s*\)", fu_call[0][1][3]))
            and "MessageProcessingResult::Unprocessable" in fu,
            "error_handling.rs fail_unprocessable: record_failure with the group and the stored record's epoch, result Unprocessable")
    sz = arms_of(fn_body(eh, "sanitize_error_reason", "fn:sanitize_error_reason"))
    arms = re.findall(r"Error::(\w+)\s*(?:\{[^}]*\}|\([^)]*\))?\s*=>\s*\"([^\"]+)\"", sz)
    dflt = re.search(r"\b_\s*=>\s*\"([^\"]+)\"", sz)
    if not arms or not dflt:
        raise Missing("wrap:sanitize_error_reason")
    reasons = []
    for _, r in arms + [("_", dflt.group(1))]:
        if r not in reasons:
            reasons.append(r)
    strlist("sanitizeReasons", reasons, "error_handling.rs sanitize_error_reason: every reason string it can return (the last one is the default arm)")
    table = dict(arms)
    facts["wrapErrReason"] = ("List Nat", "[" + ", ".join(str(reasons.index(table.get(v, dflt.group(1)))) for v in WRAP_ERRS) + "]",
                              "index into sanitizeReasons for " + ", ".join(WRAP_ERRS))
    # NIP-44 v2 payload checks of the pinned nostr crate
    n44 = strip_comments(non_test(nostr_src("nips/nip44/mod.rs")))
    v2 = strip_comments(non_test(nostr_src("nips/nip44/v2.rs")))
    vm = re.search(r"\bV2\s*=\s*0x([0-9a-fA-F]+)\s*,", n44)
    d2b = fn_body(n44, "decrypt_to_bytes", "nostr:nip44:decrypt_to_bytes")
    if not vm or not (0 < d2b.find("STANDARD.decode(payload)") < d2b.find("payload.first()") < d2b.find("Version::try_from(version)")):
        raise Missing("nostr:nip44:version")
    nat("nip44Version", int(vm.group(1), 16), "nostr nips/nip44/mod.rs: the only accepted first payload byte (after base64 decoding; an empty payload is refused)")
    body = fn_body(v2, "decrypt_to_bytes", "nostr:nip44:v2:decrypt_to_bytes")
    g1 = re.search(r"\.get\(1\.\.(\d+)\)", body)
    g2 = re.search(r"\.get\((\d+)\.\.len\s*-\s*(\d+)\)", body)
    g3 = re.search(r"\.get\(len\s*-\s*(\d+)\.\.\)", body)
    if not (g1 and g2 and g3) or g1.group(1) != g2.group(1) or g2.group(2) != g3.group(1):
        raise Missing("nostr:nip44:v2:slices")
    nat("nip44NonceEnd", int(g1.group(1)), "nostr nip44 v2: payload = version byte, nonce [1..NonceEnd), buffer, MAC")
    nat("nip44MacLen", int(g3.group(1)), "nostr nip44 v2: length of the trailing HMAC")
    i_mac, i_idx = body.find("InvalidHmac"), body.find("buffer[0..2]")
    if i_mac < 0:
        raise Missing("nostr:nip44:v2:hmac")
    guarded = bool(re.search(r"buffer\.len\(\)\s*<\s*2\b", body[:i_idx])) if i_idx > 0 else True
    boolean("nip44LenPrefixGuarded", guarded and True,
            "nostr nip44 v2 decrypt_to_bytes: the two length bytes are read with `buffer[0..2]` only after a length check (false = an authenticated payload whose buffer is shorter than 2 bytes PANICS)")
    boolean("nip44ChecksAsModelled",
            0 < i_mac < body.find("apply_keystream") < body.find("buffer.len() < 2 + unpadded_len") < body.find("unpadded.is_empty()") < body.find("buffer.len() != 2 + calc_padding(unpadded_len)"),
            "nostr nip44 v2 decrypt_to_bytes: HMAC, keystream, claimed length fits, not empty, padded length exact — in this order")
    # a guard of mdk's own in front of the nip44 call (none today): `<decoded payload>.len() < N` in util.rs decrypt_with_exporter_secret
    util = strip_comments(non_test(read("crates/mdk-core/src/util.rs")))
    dwe = fn_body(util, "decrypt_with_exporter_secret", "fn:decrypt_with_exporter_secret")
    i_call = dwe.find("nip44::decrypt_to_bytes(")
    if i_call < 0:
        raise Missing("util:decrypt_with_exporter_secret:nip44-call")
    guard = 0
    gm = re.search(r"\.len\(\)\s*<\s*([A-Z_][A-Z0-9_]*|\d[\d_]*)", dwe[:i_call])
    if gm:
        tok = gm.group(1)
        guard = int(tok.replace("_", "")) if tok[0].isdigit() else const_usize(util, tok, "const:" + tok)
        if not re.search(r"(BASE64|STANDARD)\s*\.decode\(", dwe[:i_call]):
            raise Missing("util:decrypt_with_exporter_secret:guard-on-decoded-bytes")
    nat("mdkMinPayloadLen", guard, "util.rs decrypt_with_exporter_secret: minimum number of base64-DECODED payload bytes required before nostr's nip44 is called (0 = no guard of mdk's own)")
    cp = fn_body(v2, "calc_padding", "nostr:nip44:v2:calc_padding")
    boolean("nip44PaddingAsModelled",
            bool(re.search(r"if\s+len\s*<=\s*32\s*\{\s*return\s+32\s*;\s*\}", cp)) and "1 << (log2_round_down(len - 1) + 1)" in cp
            and bool(re.search(r"if\s+nextpower\s*<=\s*256\s*\{\s*32\s*\}\s*else\s*\{\s*nextpower\s*/\s*8\s*\}", cp)) and "chunk * (((len - 1) / chunk) + 1)" in cp,
            "nostr nip44 v2 calc_padding as transcribed in Model.Wrap.calcPadding")

def restart_facts(facts):
    """C11: what an `MDK` instance holds in memory (lost when the instance is dropped) and what hydration of the epoch
    snapshot manager puts back: field lists of `MDK`, `MdkProvider`, `EpochSnapshotManager`, its inner state,
    `EpochSnapshot`, `MdkSqliteStorage`; the entry `parse_snapshot_name` builds; the snapshot name format; every
    interior-mutability / static site of the non-test, non-hook code of mdk-core, mdk-storage-traits, mdk-sqlite-storage"""
    def split_top(body):
        parts, depth, cur = [], 0, []
        for ch in body:
            if ch in "<([{": depth += 1
            elif ch in ">)]}": depth -= 1
            if ch == "," and depth == 0:
                parts.append("".join(cur)); cur = []
            else:
                cur.append(ch)
        parts.append("".join(cur))
        return [re.sub(r"\s+", " ", x).strip() for x in parts if x.strip()]
    def braces(src, i, fact):
        i = src.find("{", i)
        if i < 0:
            raise Missing(fact + ":open")
        depth = 0
        for j in range(i, len(src)):
            if src[j] == "{": depth += 1
            elif src[j] == "}":
                depth -= 1
                if depth == 0:
                    return src[i + 1:j]
        raise Missing(fact + ":braces")
    def struct_fields(src, name, fact):
        m = re.search(r"\bstruct\s+" + re.escape(name) + r"\b[^;{]*\{", src)
        if not m:
            raise Missing(fact)
        out = []
        for f in split_top(braces(src, m.start(), fact)):
            f = re.sub(r"#\[[^\]]*\]\s*", "", f)
            fm = re.fullmatch(r"(?:pub(?:\([^)]*\))?\s+)?(\w+)\s*:\s*(.+)", f)
            if not fm:
                raise Missing(fact + ":field:" + f[:30])
            out.append((fm.group(1), tight(fm.group(2))))
        if not out:
            raise Missing(fact + ":empty")
        return out
    def tight(x): return re.sub(r"\s*([<>,():\[\]&*?.=!|])\s*", r"\1", re.sub(r"\s+", " ", x)).strip()
    def pairs(ps): return "[" + ", ".join('("%s", "%s")' % (a.replace('"', "'"), b.replace('"', "'")) for a, b in ps) + "]"
    def literal_fields(body, ty, fact, which=0):
        ms = list(re.finditer(r"\b" + re.escape(ty) + r"\s*\{", body))
        if len(ms) <= which:
            raise Missing(fact)
        out = []
        for f in split_top(braces(body, ms[which].start(), fact)):
            fm = re.fullmatch(r"(\w+)(?:\s*:\s*(.+))?", f)
            if not fm:
                raise Missing(fact + ":field:" + f[:30])
            out.append((fm.group(1), tight(fm.group(2) or fm.group(1))))
        return out
    core_lib = strip_comments(non_test(read("crates/mdk-core/src/lib.rs")))
    snaps = strip_comments(non_test(read("crates/mdk-core/src/epoch_snapshots.rs")))
    sql_lib = strip_comments(non_test(read("crates/mdk-sqlite-storage/src/lib.rs")))
    facts["mdkFields"] = ("List (String × String)", pairs(struct_fields(core_lib, "MDK", "struct:MDK")), "mdk-core lib.rs `pub struct MDK<Storage>`: every field (name, type)")
    facts["mdkProviderFields"] = ("List (String × String)", pairs(struct_fields(core_lib, "MdkProvider", "struct:MdkProvider")), "mdk-core lib.rs `pub struct MdkProvider<Storage>`: every field")
    facts["snapshotManagerFields"] = ("List (String × String)", pairs(struct_fields(snaps, "EpochSnapshotManager", "struct:EpochSnapshotManager")), "epoch_snapshots.rs `pub struct EpochSnapshotManager`")
    facts["snapshotManagerInnerFields"] = ("List (String × String)", pairs(struct_fields(snaps, "EpochSnapshotManagerInner", "struct:EpochSnapshotManagerInner")), "epoch_snapshots.rs `struct EpochSnapshotManagerInner` (behind the manager's mutex)")
    facts["epochSnapshotFields"] = ("List (String × String)", pairs(struct_fields(snaps, "EpochSnapshot", "struct:EpochSnapshot")), "epoch_snapshots.rs `pub struct EpochSnapshot`")
    facts["sqliteStorageFields"] = ("List (String × String)", pairs(struct_fields(sql_lib, "MdkSqliteStorage", "struct:MdkSqliteStorage")), "mdk-sqlite-storage lib.rs `pub struct MdkSqliteStorage`")
    psn = fn_body(snaps, "parse_snapshot_name", "fn:parse_snapshot_name")
    facts["hydratedEntry"] = ("List (String × String)", pairs(literal_fields(psn, "EpochSnapshot", "hydrated:literal")), "epoch_snapshots.rs parse_snapshot_name: the entry hydration builds (field, expression)")
    locs = [(m.group(1), tight(m.group(2))) for m in re.finditer(r"\blet\s+(\w+)\s*(?::[^=;]+)?=\s*([^;]+);", psn)]
    facts["hydratedLocals"] = ("List (String × String)", pairs(locs), "epoch_snapshots.rs parse_snapshot_name: its local bindings (what the entry's fields are read from)")
    cs = fn_body(snaps, "create_snapshot", "fn:create_snapshot")
    facts["createdEntry"] = ("List (String × String)", pairs(literal_fields(cs, "EpochSnapshot", "created:literal")), "epoch_snapshots.rs create_snapshot: the entry recorded when a snapshot is taken")
    fm = re.search(r"format!\s*\(\s*\"(snap[^\"]*)\"\s*,([^;]*?)\)\s*;", cs, re.S)
    if not fm:
        raise Missing("snapshot:name-format")
    facts["snapshotNameFormat"] = ("String", '"%s"' % fm.group(1), "epoch_snapshots.rs create_snapshot: format string of the stored snapshot's name")
    facts["snapshotNameArgs"] = ("List String", "[" + ", ".join('"%s"' % tight(a) for a in split_top(fm.group(2))) + "]", "epoch_snapshots.rs create_snapshot: what the name is formatted from")
    # hydration happens at the start of every method of the manager that looks at the queue
    methods = re.findall(r"\bpub\s+fn\s+(\w+)", snaps)
    lazy = [m for m in methods if m != "new" and "self.ensure_hydrated(" in fn_body(snaps, m, "fn:" + m)]
    facts["managerMethods"] = ("List String", "[" + ", ".join('"%s"' % m for m in methods) + "]", "epoch_snapshots.rs: public methods of EpochSnapshotManager")
    facts["managerMethodsHydrating"] = ("List String", "[" + ", ".join('"%s"' % m for m in lazy) + "]", "epoch_snapshots.rs: the public methods that call ensure_hydrated first")
    facts["epochSnapshotCreatedAtReads"] = ("Nat", str(len(re.findall(r"\.\s*created_at\b", snaps))),
                                            "epoch_snapshots.rs (non-test): number of places that READ an entry's `created_at` (the Instant hydration replaces by a placeholder)")
    # interior mutability / process-wide state anywhere in the shipped code of the three crates
    sites = []
    pat = re.compile(r"\b(Mutex|RwLock|RefCell|Cell|UnsafeCell|OnceLock|OnceCell|LazyLock|LazyCell|Lazy|Atomic\w+)\b|\b(thread_local|lazy_static)\s*!|(?<!')\bstatic\s+(?:mut\s+)?(\w+)\s*:\s*([^=;]+)")
    for crate in ("mdk-core", "mdk-storage-traits", "mdk-sqlite-storage"):
        root = os.path.join(REPO, "crates", crate, "src")
        lib = strip_comments(read(f"crates/{crate}/src/lib.rs"))
        gated = set(re.findall(r"#\[cfg\((?:test|feature\s*=\s*\"(?:verif-hooks|test-utils)\")\)\]\s*(?:#\[[^\]]*\]\s*)*(?:pub\s+)?mod\s+(\w+)\s*;", lib))
        for d, _, fs in sorted(os.walk(root)):
            for f in sorted(fs):
                if not f.endswith(".rs"):
                    continue
                rel = os.path.relpath(os.path.join(d, f), os.path.join(REPO, "crates"))
                top = os.path.relpath(os.path.join(d, f), root).split(os.sep)[0].removesuffix(".rs")
                if top in gated or f == "tests.rs" or os.sep + "tests" + os.sep in rel:
                    continue
                src = strip_comments(non_test(open(os.path.join(d, f), encoding="utf-8").read()))
                for m in pat.finditer(src):
                    if m.group(3):
                        sites.append((rel, "static " + m.group(3) + ":" + tight(m.group(4))))
                    else:
                        sites.append((rel, m.group(1) or m.group(2)))
    facts["interiorMutabilitySites"] = ("List (String × String)", pairs(sorted(set(sites))),
                                        "every Mutex / RwLock / RefCell / Cell / Once* / Lazy* / Atomic* / static / thread_local! of the non-test, non-verif-hooks source of mdk-core, mdk-storage-traits, mdk-sqlite-storage (file, what)")


# ---- validation performed by the storage backends before a write (C06 storage part, C10 limit boundary) -----------
# quantity codes of Model/StoreLimits.lean: 0 content bytes, 1 tags JSON bytes, 2 event JSON bytes, 3 name bytes,
# 4 description bytes, 5 admin-pubkeys JSON bytes, 6 relays JSON bytes, 7 number of admins, 8 number of relays,
# 9 bytes of a relay URL
LIMIT_QUANTITIES = [
    (5, r"to_string\(&\w+\.(?:group_)?admin_pubkeys\)"), (6, r"to_string\(&\w+\.group_relays\)"), (1, r"to_string\(&\w+\.tags\)"),
    (2, r"\.event\.as_json\(\)"), (0, r"\.content\b"), (3, r"\.(?:group_)?name\b"), (4, r"\.(?:group_)?description\b"),
    (7, r"\.(?:group_)?admin_pubkeys$"), (8, r"\.group_relays$"), (9, r"\.as_str\(\)$"),
]

def limit_checks(src, fn, consts_src, field_consts=None, relay_param_type=None):
    """[(quantity, limit, limit-itself-accepted)] of the refusals `if <expr>.len() > <limit> { return Err(..` a saving function
    performs (helpers are inlined by fn_body, so a check written in place and one behind a helper read the same)"""
    body = flat(fn_body(src, fn, "fn:" + fn))
    relay_param = None
    if relay_param_type:
        relay_param = param_of_type(src, fn, relay_param_type, "fn:" + fn)
    res = []
    for m in re.finditer(r"\bif ([^{};]+?)\.len\(\) ?(>=|>|<=|<|==|!=) ?([^{};]+?) ?\{ ?return Err\(", body):
        expr, op, lim = m.group(1).strip(), m.group(2), m.group(3).strip()
        lm = re.fullmatch(r"(\w+)((?:\.as_bytes\(\)|\.as_str\(\))*)", expr)
        if lm:                                             # a local: look through its `let`
            lt = re.search(r"\blet (?:mut )?" + re.escape(lm.group(1)) + r"(?: ?: ?[^=;]+)? ?= ?([^;]+);", body)
            if lt:
                expr = lt.group(1).strip() + lm.group(2)
        core = re.sub(r"(?:\.as_bytes\(\))+$", "", expr)
        q = None
        if relay_param and re.fullmatch(re.escape(relay_param), core):
            q = 8
        else:
            for code, pat in LIMIT_QUANTITIES:
                if re.search(pat, core):
                    q = code
                    break
        if q is None:
            raise Missing(f"limit:{fn}:quantity:{tight(expr)[:40]}")
        if op not in (">", ">="):
            raise Missing(f"limit:{fn}:operator:{op}")
        fm = re.fullmatch(r"self\.limits\.(\w+)", lim)
        if fm:
            if not field_consts or fm.group(1) not in field_consts:
                raise Missing(f"limit:{fn}:field:{fm.group(1)}")
            val = field_consts[fm.group(1)]
        elif re.fullmatch(r"[A-Z][A-Z0-9_]*", lim):
            val = const_usize(consts_src, lim, f"const:{lim}")
        else:
            e = re.sub(r"(?<=[0-9])(usize|u64|u32)\b", "", lim.replace("_", ""))
            if not re.fullmatch(r"[0-9\s\*\+\(\)]+", e):
                raise Missing(f"limit:{fn}:bound:{tight(lim)[:40]}")
            val = int(eval(e))
        res.append((q, val, op == ">"))
    return res

def limit_facts(facts):
    mem_lib = strip_comments(non_test(read("crates/mdk-memory-storage/src/lib.rs")))
    sql_val = strip_comments(non_test(read("crates/mdk-sqlite-storage/src/validation.rs")))
    # the memory backend's limits are fields of ValidationLimits; the backend under test is built with Default
    dflt = fn_body_raw(mem_lib[at(r"impl\s+Default\s+for\s+ValidationLimits", mem_lib):] if at(r"impl\s+Default\s+for\s+ValidationLimits", mem_lib) >= 0 else "", "default", "impl:Default:ValidationLimits")
    field_consts = {}
    for m in re.finditer(r"\b(\w+)\s*:\s*([A-Z][A-Z0-9_]*|[0-9_]+)\s*[,}]", dflt):
        v = m.group(2)
        field_consts[m.group(1)] = int(v.replace("_", "")) if v[0].isdigit() else const_usize(mem_lib, v, f"const:{v}")
    relset = r"BTreeSet\s*<\s*RelayUrl\s*>"
    table = [("sqlSaveGroupChecks", "crates/mdk-sqlite-storage/src/groups.rs", "save_group", None),
             ("sqlSaveMessageChecks", "crates/mdk-sqlite-storage/src/messages.rs", "save_message", None),
             ("sqlSaveWelcomeChecks", "crates/mdk-sqlite-storage/src/welcomes.rs", "save_welcome", None),
             ("sqlReplaceRelaysChecks", "crates/mdk-sqlite-storage/src/groups.rs", "replace_group_relays", relset),
             ("memSaveGroupChecks", "crates/mdk-memory-storage/src/groups.rs", "save_group", None),
             ("memSaveMessageChecks", "crates/mdk-memory-storage/src/messages.rs", "save_message", None),
             ("memSaveWelcomeChecks", "crates/mdk-memory-storage/src/welcomes.rs", "save_welcome", None),
             ("memReplaceRelaysChecks", "crates/mdk-memory-storage/src/groups.rs", "replace_group_relays", relset)]
    for name, rel, fn, rp in table:
        src = strip_comments(non_test(read(rel)))
        cs = limit_checks(src, fn, sql_val if name.startswith("sql") else mem_lib, field_consts, rp)
        facts[name] = ("List (Nat × Nat × Bool)", "[" + ", ".join(f"({q}, {v}, {lean_bool(b)})" for q, v, b in cs) + "]",
                       f"{rel} {fn}: the refusals `if <expr>.len() > <limit> {{ return Err` before the write, as (quantity, limit, limit itself accepted); quantity codes in tools/gen_model.py LIMIT_QUANTITIES")
# ---- C05 identity sentence (Model.Identity.codeShape) ---------------------------------------------------------------
def _block_after(text, pos):
    """the `{…}` block that starts at the first `{` at or after pos: (start, end) or None"""
    i = text.find("{", pos)
    if i < 0:
        return None
    e = rsnorm.match_close(text, i, "{", "}")
    return (i, e) if e > 0 else None

def _propagated(text, call_pos):
    """is the result of the call at call_pos propagated with `?` (fn_body writes an inlined helper as `call(args){body}`)"""
    i = text.find("(", call_pos)
    e = rsnorm.match_close(text, i, "(", ")")
    if e < 0:
        return False
    j = e + 1
    while j < len(text) and text[j].isspace():
        j += 1
    if j < len(text) and text[j] == "{":
        e2 = rsnorm.match_close(text, j, "{", "}")
        if e2 < 0:
            return False
        j = e2 + 1
        while j < len(text) and text[j].isspace():
            j += 1
    return j < len(text) and text[j] == "?"

def _let_expr(text, name, before):
    """the expression of the last `let name = …;` in text[:before] (None: no such binding)"""
    last = None
    for m in re.finditer(r"\blet\s+(?:mut\s+)?" + re.escape(name) + r"\s*(?::[^=;]+)?=\s*", text[:before]):
        last = m
    if not last:
        return None
    j, d = last.end(), 0
    while j < len(text):
        k = rsnorm.skip_literal(text, j)
        if k != j:
            j = k; continue
        if text[j] in "([{": d += 1
        elif text[j] in ")]}": d -= 1
        elif text[j] == ";" and d == 0: break
        j += 1
    return text[last.end():j]

def _split_op(expr, op):
    """expr split at the top-level occurrences of a two-character operator"""
    parts, d, cur, i = [], 0, [], 0
    while i < len(expr):
        k = rsnorm.skip_literal(expr, i)
        if k != i:
            cur.append(expr[i:k]); i = k; continue
        if expr[i] in "([{": d += 1
        elif expr[i] in ")]}": d -= 1
        if d == 0 and expr.startswith(op, i):
            parts.append("".join(cur)); cur = []; i += len(op); continue
        cur.append(expr[i]); i += 1
    parts.append("".join(cur))
    return parts

def _resolve(text, expr, before, depth=5):
    """expr with every identifier that has a `let` binding in text[:before] replaced by the bound expression (repeatedly)"""
    for _ in range(depth):
        changed = False
        def sub(m):
            nonlocal changed
            if m.start() > 0 and expr[m.start() - 1] in ".:":
                return m.group(0)
            ex = _let_expr(text, m.group(0), before)
            if ex is None or len(ex) > 4000:
                return m.group(0)
            changed = True
            return "(" + ex.strip() + ")"
        expr = re.sub(r"\b[a-z_]\w*\b(?!\s*[(:!])", sub, expr)
        if not changed:
            break
    return expr

def _identity_comparison(block, new_source_re):
    """does `block` refuse — `return Err(…IdentityChangeNotAllowed…)`, propagated to the caller — exactly when two values differ
    that are both results of `parse_credential_identity(<BasicCredential>.identity())`, one read off `member_at(…)` (the stored
    leaf) and one off `new_source_re` (the proposed leaf node)?"""
    for m in re.finditer(r"\breturn\s+Err\s*\(\s*(?:\w+\s*::\s*)*IdentityChangeNotAllowed\b", block):
        gs = rsnorm.guards_of(block, m.start())
        conds = [g[1] for g in gs if g[0] == "if"]
        if not conds:
            continue
        c = conds[-1].strip()
        neg = re.fullmatch(r"!\s*\((.*)\)", c, re.S)
        parts = _split_op(neg.group(1), "==") if neg else _split_op(c, "!=")
        if len(parts) != 2:
            continue
        operands = [_resolve(block, x.strip(), m.start()) for x in parts]
        # the refusal sits in an inlined helper `callee(args){ … }?`: every enclosing inlined body must be propagated
        ok = True
        for im in re.finditer(r"\)\{", block[:m.start()]):          # rsnorm.inline_helpers writes `callee(args){body}` without a blank
            o = im.start() + 1
            e = rsnorm.match_close(block, o, "{", "}")
            if not (o < m.start() < e):
                continue
            st = max(block.rfind(";", 0, im.start()), block.rfind("{", 0, im.start()), block.rfind("}", 0, im.start())) + 1
            if re.match(r"\s*(?:\}\s*else\s+)?(?:if|while|for|match)\b", block[st:im.start()]):
                continue                                                # a condition written without a blank, not an inlined body
            j = e + 1
            while j < len(block) and block[j].isspace():
                j += 1
            if not (j < len(block) and block[j] == "?"):
                ok = False
        if not ok:
            continue
        srcs = []
        bound = set(re.findall(r"Some\s*\(\s*(\w+)\s*\)\s*=\s*[^;{]*?\bmember_at\s*\(", block))
        for ex in operands:
            if not re.search(r"parse_credential_identity\s*\(", ex) or not re.search(r"\.\s*identity\s*\(\s*\)", ex):
                srcs.append(None); continue
            if re.search(r"\bmember_at\s*\(", ex) or any(re.search(r"\b" + re.escape(b) + r"\s*\.\s*credential\b", ex) for b in bound):
                srcs.append("stored")
            elif re.search(new_source_re, ex):
                srcs.append("new")
            else:
                srcs.append(None)
        if sorted(x or "" for x in srcs) == ["new", "stored"]:
            return True
    return False

def identity_facts(facts, boolean, commit_rs, pcb, prop_rs):
    val_rs = strip_comments(non_test(read("crates/mdk-core/src/messages/validation.rs")))
    vci = rsnorm.inline_lets(rsnorm.unify_strings(fn_body(val_rs, "validate_commit_identities", "fn:validate_commit_identities")), max_len=60)
    staged = param_of_type(val_rs, "validate_commit_identities", r"&\s*(?:\w+\s*::\s*)*StagedCommit", "fn:validate_commit_identities")
    # which proposals of the staged commit are looked at: 0 add_proposals, 1 remove_proposals, 2 update_proposals, 3 queued_proposals (all), 4 psk_proposals
    ITER = ["add_proposals", "remove_proposals", "update_proposals", "queued_proposals", "psk_proposals"]
    kinds = sorted({ITER.index(m.group(1)) for m in re.finditer(r"\b" + staged + r"\s*\.\s*(\w+)\s*\(\s*\)", vci) if m.group(1) in ITER})
    facts["identInspectedKinds"] = ("List Nat", "[" + ", ".join(map(str, kinds)) + "]",
        "messages/validation.rs validate_commit_identities: the proposal iterators of the staged commit it reads (0 add_proposals, 1 remove_proposals, 2 update_proposals, 3 queued_proposals, 4 psk_proposals)")
    up = re.search(r"\bfor\s+(\w+)\s+in\s+" + staged + r"\s*\.\s*update_proposals\s*\(\s*\)", vci)
    upd_cmp = False
    if up:
        b = _block_after(vci, up.end())
        if b:
            blk = vci[b[0]:b[1] + 1]
            cs = calls(blk, r"self\s*\.\s*validate_proposal_identity")
            if cs:
                # the per-proposal check is a function of its own (a step the extractor knows by name): it must be propagated, and
                # its own body must hold the comparison, reached for `Proposal::Update` from a `Sender::Member`
                if _propagated(blk, cs[0][0]):
                    vpi = rsnorm.inline_lets(rsnorm.unify_strings(fn_body(val_rs, "validate_proposal_identity", "fn:validate_proposal_identity")), max_len=60)
                    upd_cmp = _identity_comparison(vpi, r"\bleaf_node\s*\(\s*\)\s*\.\s*credential\s*\(")
            else:
                upd_cmp = _identity_comparison(blk, r"\bleaf_node\s*\(\s*\)\s*\.\s*credential\s*\(")
    boolean("identUpdateCompared", upd_cmp,
            "messages/validation.rs validate_commit_identities → validate_proposal_identity: for every Update proposal of the staged commit the identity parsed from the proposer's STORED leaf credential (member_at) "
            "is compared with the identity parsed from the proposal's leaf node credential, and a difference is refused with IdentityChangeNotAllowed (propagated with `?`)")
    pm = re.search(r"\bif\s+let\s+Some\s*\(\s*(\w+)\s*\)\s*=\s*" + staged + r"\s*\.\s*update_path_leaf_node\s*\(\s*\)", vci)
    boolean("identPathInspected", bool(pm), "messages/validation.rs validate_commit_identities: reads staged_commit.update_path_leaf_node()")
    path_cmp = False
    if pm:
        b = _block_after(vci, pm.end())
        if b:
            path_cmp = _identity_comparison(vci[b[0]:b[1] + 1], r"\b" + re.escape(pm.group(1)) + r"\s*\.\s*credential\s*\(")
    boolean("identPathCompared", path_cmp,
            "messages/validation.rs validate_commit_identities: the identity parsed from the COMMITTER's stored leaf credential is compared with the identity parsed from the update path's leaf node credential, "
            "and a difference is refused with IdentityChangeNotAllowed (propagated with `?`)")
    # process_commit: the order of the propagated checks and the merge: 0 authorisation, 1 identities, 2 snapshot, 3 merge
    marks = []
    for code, callee in [(0, r"self\s*\.\s*validate_commit_authorization"), (1, r"self\s*\.\s*validate_commit_identities"),
                         (2, r"[\w.\s]*\.\s*create_snapshot"), (3, r"[\w.\s]*\.\s*merge_staged_commit")]:
        cs = calls(pcb, callee)
        if cs and (code >= 2 or _propagated(pcb, cs[0][0])):
            marks.append((cs[0][0], code))
    order = [c for _, c in sorted(marks)]
    facts["commitCheckOrder"] = ("List Nat", "[" + ", ".join(map(str, order)) + "]",
        "messages/commit.rs process_commit: the order of 0 validate_commit_authorization(..)?, 1 validate_commit_identities(..)?, 2 create_snapshot, 3 merge_staged_commit (a check whose result is not propagated is left out)")
    # process_proposal: the proposal kinds that reach the proposal store (store_pending_proposal / auto_commit_proposal): 0 Add, 1 Remove, 2 Update, 3 GroupContextExtensions, 4 PreSharedKey
    pp = arms_of(fn_body_raw(prop_rs, "process_proposal", "fn:process_proposal"))
    KINDS = ["Add", "Remove", "Update", "GroupContextExtensions", "PreSharedKey"]
    stored = set()
    sites = [m.start() for m in re.finditer(r"\bself\s*\.\s*(?:store_pending_proposal|auto_commit_proposal)\s*\(", pp)]
    if not sites:
        raise Missing("fact:proposalKindsStored")
    for pos in sites:
        r = rsnorm.variants_reaching(pp, pos, KINDS, "Proposal")
        if r is None:
            raise Missing("fact:proposalKindsStored:unguarded")
        stored.update(KINDS.index(v) for v in r)
    facts["proposalKindsStored"] = ("List Nat", "[" + ", ".join(map(str, sorted(stored))) + "]",
        "messages/proposal.rs process_proposal: the proposal kinds for which store_pending_proposal / auto_commit_proposal is reached (0 Add, 1 Remove, 2 Update, 3 GroupContextExtensions, 4 PreSharedKey); "
        "every other kind is answered IgnoredProposal and is NOT put into the proposal store")


def main():
    facts = {}      # name -> (lean type, lean value, provenance)
    def nat(name, v, prov): facts[name] = ("Nat", str(v), prov)
    def boolean(name, v, prov): facts[name] = ("Bool", lean_bool(v), prov)

    mem_lib = strip_comments(non_test(read("crates/mdk-memory-storage/src/lib.rs")))
    for lean, rust in [("memMaxRelaysPerGroup", "DEFAULT_MAX_RELAYS_PER_GROUP"),
                       ("memMaxMessagesPerGroup", "DEFAULT_MAX_MESSAGES_PER_GROUP"),
                       ("memMaxGroupNameLength", "DEFAULT_MAX_GROUP_NAME_LENGTH"),
                       ("memMaxGroupDescriptionLength", "DEFAULT_MAX_GROUP_DESCRIPTION_LENGTH"),
                       ("memMaxAdminsPerGroup", "DEFAULT_MAX_ADMINS_PER_GROUP"),
                       ("memMaxRelaysPerWelcome", "DEFAULT_MAX_RELAYS_PER_WELCOME"),
                       ("memMaxAdminsPerWelcome", "DEFAULT_MAX_ADMINS_PER_WELCOME"),
                       ("memMaxRelayUrlLength", "DEFAULT_MAX_RELAY_URL_LENGTH")]:
        nat(lean, const_usize(mem_lib, rust, f"const:{rust}"), f"mdk-memory-storage/src/lib.rs {rust}")

    sql_val = strip_comments(non_test(read("crates/mdk-sqlite-storage/src/validation.rs")))
    for lean, rust in [("sqlMaxMessageContentSize", "MAX_MESSAGE_CONTENT_SIZE"),
                       ("sqlMaxTagsJsonSize", "MAX_TAGS_JSON_SIZE"),
                       ("sqlMaxEventJsonSize", "MAX_EVENT_JSON_SIZE"),
                       ("sqlMaxGroupNameLength", "MAX_GROUP_NAME_LENGTH"),
                       ("sqlMaxGroupDescriptionLength", "MAX_GROUP_DESCRIPTION_LENGTH"),
                       ("sqlMaxAdminPubkeysJsonSize", "MAX_ADMIN_PUBKEYS_JSON_SIZE"),
                       ("sqlMaxGroupRelaysJsonSize", "MAX_GROUP_RELAYS_JSON_SIZE")]:
        nat(lean, const_usize(sql_val, rust, f"const:{rust}"), f"mdk-sqlite-storage/src/validation.rs {rust}")

    tr_groups = strip_comments(non_test(read("crates/mdk-storage-traits/src/groups/mod.rs")))
    nat("defaultMessageLimit", const_usize(tr_groups, "DEFAULT_MESSAGE_LIMIT", "const:DEFAULT_MESSAGE_LIMIT"), "mdk-storage-traits groups/mod.rs")
    nat("maxMessageLimit", const_usize(tr_groups, "MAX_MESSAGE_LIMIT", "const:MAX_MESSAGE_LIMIT"), "mdk-storage-traits groups/mod.rs")
    tr_w = strip_comments(non_test(read("crates/mdk-storage-traits/src/welcomes/mod.rs")))
    nat("defaultPendingWelcomesLimit", const_usize(tr_w, "DEFAULT_PENDING_WELCOMES_LIMIT", "const:DEFAULT_PENDING_WELCOMES_LIMIT"), "mdk-storage-traits welcomes/mod.rs")
    nat("maxPendingWelcomesLimit", const_usize(tr_w, "MAX_PENDING_WELCOMES_LIMIT", "const:MAX_PENDING_WELCOMES_LIMIT"), "mdk-storage-traits welcomes/mod.rs")

    # ---- SQL facts -------------------------------------------------------------------------
    sql_lib = strip_comments(non_test(read("crates/mdk-sqlite-storage/src/lib.rs")))
    sql_msgs = strip_comments(non_test(read("crates/mdk-sqlite-storage/src/messages.rs")))
    sql_groups = strip_comments(non_test(read("crates/mdk-sqlite-storage/src/groups.rs")))
    schema = ""
    mig_dir = os.path.join(REPO, "crates/mdk-sqlite-storage/migrations")
    try:
        for f in sorted(os.listdir(mig_dir)):
            if f.endswith(".sql"):
                schema += re.sub(r"--[^\n]*", "", open(os.path.join(mig_dir, f)).read()) + "\n"
    except OSError:
        raise Missing("schema")

    # cascade edges: child table -> parent table with ON DELETE CASCADE
    cascade = []
    tables = {}
    for m in re.finditer(r"CREATE TABLE IF NOT EXISTS\s+(\w+)\s*\((.*?)\);", schema, re.S | re.I):
        t, body = m.group(1), m.group(2)
        tables[t] = body
        for fk in re.finditer(r"FOREIGN KEY\s*\(\s*(\w+)\s*\)\s*REFERENCES\s+(\w+)\s*\(\s*(\w+)\s*\)\s*(ON DELETE CASCADE)?", body, re.I):
            if fk.group(4):
                cascade.append((t, fk.group(2)))
    if "groups" not in tables or "messages" not in tables:
        raise Missing("schema:tables")
    facts["sqlCascadeChildrenOfGroups"] = ("List String", "[" + ", ".join('"%s"' % c for c, p in sorted(cascade) if p == "groups") + "]", "migrations/*.sql FOREIGN KEY … ON DELETE CASCADE")

    # ---- C16 / C08: the uniqueness rule of save_group (the nostr group id is the routing key of kind-445 events) ----
    # SQLite: the upsert must name its conflict target (a bare `ON CONFLICT DO UPDATE` fires on the UNIQUE index of
    # nostr_group_id too and then rewrites the row of the OTHER group), and the UNIQUE index must exist.
    sg_sql = re.sub(r"\s+", " ", " ".join(strings(fn_body(sql_groups, "save_group", "fn:save_group(sqlite)")))).upper()
    if "INTO GROUPS" not in sg_sql:
        raise Missing("sql:save_group:insert")
    cm = re.search(r"ON CONFLICT\s*(?:\(([^)]*)\))?\s*DO (UPDATE|NOTHING)", sg_sql)
    if re.search(r"INSERT OR (REPLACE|IGNORE)", sg_sql) or not cm:
        target = ["<no upsert clause>"]
    else:
        target = [c.strip().lower() for c in (cm.group(1) or "").split(",") if c.strip()] + ([] if cm.group(2) == "UPDATE" else ["<do nothing>"])
    facts["sqlSaveGroupConflictTarget"] = ("List String", keylist0(target), "mdk-sqlite-storage groups.rs save_group: the conflict target named by the upsert ([] = none named: any uniqueness conflict becomes an UPDATE of the conflicting row)")
    uniq_cols = set()
    for m in re.finditer(r"CREATE UNIQUE INDEX(?: IF NOT EXISTS)?\s+(\w+)\s+ON\s+groups\s*\(\s*(\w+)\s*\)", schema, re.I):
        if not re.search(r"DROP INDEX(?: IF EXISTS)?\s+" + m.group(1) + r"\b", schema[m.end():], re.I):
            uniq_cols.add(m.group(2).lower())
    if re.search(r"\bnostr_group_id\b[^,]*\bUNIQUE\b", tables["groups"], re.I):
        uniq_cols.add("nostr_group_id")
    boolean("sqlNostrGroupIdUnique", "nostr_group_id" in uniq_cols, "migrations/*.sql: UNIQUE index (or column constraint) on groups(nostr_group_id), not dropped later")
    mem_sg = fn_body(strip_comments(non_test(read("crates/mdk-memory-storage/src/groups.rs"))), "save_group", "fn:save_group(memory)")
    msg1 = re.sub(r"\s+", "", mem_sg)
    pk = re.search(r"\.(?:peek|get)\(&group\.nostr_group_id\)", msg1)
    ne = re.search(r"mls_group_id!=group\.mls_group_id|group\.mls_group_id!=\w+\.mls_group_id", msg1)
    put = msg1.find(".put(")
    ret = msg1.find("returnErr(", pk.end()) if pk else -1
    boolean("memSaveGroupRefusesForeignNostrId", bool(pk and ne) and pk.end() <= ne.start() < ret < put,
            "mdk-memory-storage groups.rs save_group: looks the new nostr_group_id up in its by-id index and returns Err when it belongs to a different mls_group_id, before either cache is written")

    restore = fn_body(sql_lib, "restore_group_from_snapshot", "fn:restore_group_from_snapshot")
    rs = [s.upper() for s in strings(restore)]
    deletes_groups_row = any(re.search(r"DELETE FROM GROUPS\b", s) for s in rs)
    messages_cascade = ("messages", "groups") in cascade
    reinserts_messages = any(re.search(r"INSERT (OR \w+ )?INTO MESSAGES\b", s) for s in rs)
    boolean("sqlRestoreCascadesMessages", deletes_groups_row and messages_cascade and not reinserts_messages,
            "lib.rs restore_group_from_snapshot: `DELETE FROM groups` + messages FK cascade, messages not re-inserted")
    restore_tables = sorted(set(m.group(1).lower() for s in rs for m in re.finditer(r"DELETE FROM (\w+)", s)))
    facts["sqlRestoreDeletesFrom"] = ("List String", "[" + ", ".join('"%s"' % t for t in restore_tables) + "]", "lib.rs restore_group_from_snapshot DELETE statements")

    snap = fn_body(sql_lib, "snapshot_group_state", "fn:snapshot_group_state")
    ss = [s.upper() for s in strings(snap)]
    retake = any(re.search(r"DELETE FROM GROUP_STATE_SNAPSHOTS", s) for s in ss) or \
        any(re.search(r"INSERT OR REPLACE INTO GROUP_STATE_SNAPSHOTS", s) for s in ss)
    boolean("sqlSnapshotRetakeReplaces", retake, "lib.rs snapshot_group_state: deletes / replaces an existing snapshot of that name")
    boolean("sqlSnapshotInTransaction", any("BEGIN" in s for s in ss) and any("COMMIT" in s for s in ss) and any("ROLLBACK" in s for s in ss),
            "lib.rs snapshot_group_state BEGIN/COMMIT/ROLLBACK")
    boolean("sqlRestoreInTransaction", any("BEGIN" in s for s in rs) and any("COMMIT" in s for s in rs) and any("ROLLBACK" in s for s in rs),
            "lib.rs restore_group_from_snapshot BEGIN/COMMIT/ROLLBACK")

    prune = fn_body(sql_lib, "prune_expired_snapshots", "fn:prune_expired_snapshots")
    m_del = re.search(r"let\s+(\w+)\s*(?::[^=;]+)?=\s*\w+\s*\.\s*execute\b", prune)
    counts_rows = bool(m_del) and bool(re.search(r"Ok\(\s*" + m_del.group(1) + r"\s*(?:as\s+usize\s*)?\)", prune)) \
        and "COUNT" not in prune.upper()
    boolean("sqlPruneCountsRows", counts_rows, "lib.rs prune_expired_snapshots returns the DELETE row count")

    tagq = fn_body(sql_msgs, "find_message_epoch_by_tag_content", "fn:find_message_epoch_by_tag_content")
    ts = [s.upper() for s in strings(tagq)]
    boolean("sqlTagSearchCaseInsensitive", any(" LIKE " in s for s in ts) and not any("GLOB" in s or "INSTR" in s for s in ts),
            "messages.rs find_message_epoch_by_tag_content uses LIKE (ASCII case-insensitive)")
    # which match wins when several messages carry the tag: both backends pick the newest in display order
    sql_newest = any(re.search(r"ORDER BY CREATED_AT DESC,\s*PROCESSED_AT DESC,\s*ID DESC\s+LIMIT 1", re.sub(r"\s+", " ", s)) for s in ts)
    mem_tagq = fn_body(strip_comments(non_test(read("crates/mdk-memory-storage/src/messages.rs"))), "find_message_epoch_by_tag_content", "fn:find_message_epoch_by_tag_content(memory)")
    mem_newest = "display_order_cmp" in mem_tagq and not re.search(r"return\s+Ok\s*\(\s*Some\s*\(", mem_tagq)
    boolean("tagSearchNewestWins", sql_newest and mem_newest,
            "find_message_epoch_by_tag_content: SQLite ORDER BY created_at DESC, processed_at DESC, id DESC LIMIT 1; memory keeps the display_order_cmp maximum")

    # which message `save_message` (memory) pushes out of a group at max_messages_per_group: the comparator chain of the
    # min_by / min_by_key / max_by over the group's map (0 = created_at, 1 = processed_at, 2 = id) and its direction
    mem_save = fn_body(strip_comments(non_test(read("crates/mdk-memory-storage/src/messages.rs"))), "save_message", "fn:save_message(memory)")
    m_cap = re.search(r"max_messages_per_group(.*?)\.\s*remove\s*\(", mem_save, re.S)
    if not m_cap:
        raise Missing("mem:save_message:cap-eviction")
    ev = m_cap.group(1)
    m_sel = re.search(r"\.\s*(min_by_key|max_by_key|min_by|max_by)\s*\(", ev)
    if not m_sel:
        raise Missing("mem:save_message:cap-eviction:selector")
    sel_body = ev[m_sel.end():]
    FIELD = {"created_at": 0, "processed_at": 1, "id": 2}
    if "display_order_cmp" in sel_body or "compare_display_keys" in sel_body:
        cap_keys = [0, 1, 2]
    elif "processed_at_order_cmp" in sel_body or "compare_processed_at_keys" in sel_body:
        cap_keys = [1, 0, 2]
    elif m_sel.group(1).endswith("_key"):
        cap_keys = [FIELD[f] for f in re.findall(r"\.\s*(created_at|processed_at|id)\b", sel_body.split("map", 1)[0])][:3]
    else:
        # a.X.cmp(&b.X).then_with(|| a.Y.cmp(&b.Y))… : the fields in the order they are compared
        cap_keys = [FIELD[f] for f in re.findall(r"\b\w+\s*\.\s*(created_at|processed_at|id)\s*\.\s*cmp\s*\(", sel_body)]
    if not cap_keys:
        raise Missing("mem:save_message:cap-eviction:keys")
    facts["memCapVictimKeys"] = ("List Nat", "[" + ", ".join(map(str, cap_keys)) + "]",
                                 "mdk-memory-storage messages.rs save_message: comparator chain of the eviction at max_messages_per_group (0 created_at, 1 processed_at, 2 id)")
    boolean("memCapVictimIsMin", m_sel.group(1).startswith("min"), "mdk-memory-storage messages.rs save_message: the eviction takes the minimum of that chain")

    # ORDER BY key lists of the two listings
    msgs_fn = fn_body(sql_groups, "messages", "fn:messages(sqlite)")
    # per arm of the match on the sort order: the ORDER BY clause of the first SQL text after it (the clause may end the
    # literal or be followed by LIMIT; it may sit in a constant or in a helper: both are inlined)
    orders = {}
    arm_pos = [(m.start(), m.group(1)) for m in re.finditer(r"MessageSortOrder\s*::\s*(\w+)\s*(?:=>|\))", arms_of(msgs_fn))]
    msgs_arms = arms_of(msgs_fn)
    for k, (pos, variant) in enumerate(arm_pos):
        seg = msgs_arms[pos:arm_pos[k + 1][0] if k + 1 < len(arm_pos) else len(msgs_arms)]
        for lit in strings(seg):
            m = re.search(r"ORDER BY (.*?)(?: LIMIT\b|$)", lit.strip(), re.I)
            if m and variant not in orders:
                orders[variant] = [re.sub(r"\s+", " ", k_.strip()).lower() for k_ in m.group(1).split(",")]
    if sorted(orders) != ["CreatedAtFirst", "ProcessedAtFirst"]:
        raise Missing("sql:messages:order_by")
    orders = [orders["CreatedAtFirst"], orders["ProcessedAtFirst"]]
    def keylist(ks): return "[" + ", ".join('"%s"' % k for k in ks) + "]"
    facts["sqlOrderCreatedFirst"] = ("List String", keylist(orders[0]), "groups.rs messages() CreatedAtFirst ORDER BY")
    facts["sqlOrderProcessedFirst"] = ("List String", keylist(orders[1]), "groups.rs messages() ProcessedAtFirst ORDER BY")

    # pagination arithmetic
    mem_groups = strip_comments(non_test(read("crates/mdk-memory-storage/src/groups.rs")))
    mem_msgs_fn = fn_body(mem_groups, "messages", "fn:messages(memory)")
    mem_flat = flat(mem_msgs_fn)
    unchecked_add = bool(re.search(r"\boffset(?:\(\))? \+ [\w.()]*\blimit\b|\blimit(?:\(\))? \+ [\w.()]*\boffset\b", mem_flat))
    boolean("memPageSaturates", (not unchecked_add) and bool(re.search(r"saturating_add|checked_add|skip\(", mem_msgs_fn)),
            "mdk-memory-storage groups.rs messages(): offset + limit cannot overflow")
    sql_w = strip_comments(non_test(read("crates/mdk-sqlite-storage/src/welcomes.rs")))
    wrapped = bool(re.search(r"\boffset(?:\(\))? as i64", flat(msgs_fn))) or bool(re.search(r"\boffset(?:\(\))? as i64", flat(fn_body(sql_w, "pending_welcomes", "fn:pending_welcomes(sqlite)"))))
    boolean("sqlOffsetClamped", not wrapped, "mdk-sqlite-storage messages()/pending_welcomes(): offset is not wrapped into a negative i64")

    # ---- C04: is the id of a received application message recomputed before it is used? ----------------
    app_rs = strip_comments(non_test(read("crates/mdk-core/src/messages/application.rs")))
    pam = fn_body(app_rs, "process_application_message", "fn:process_application_message")
    # the rumor = the local bound to UnsignedEvent::from_json(..), whatever it is called
    m_rumor = re.search(r"\blet\s+(?:mut\s+)?(\w+)\s*(?::[^=;]+)?=\s*UnsignedEvent\s*::\s*from_json\s*\(", pam)
    rumor = re.escape(m_rumor.group(1)) if m_rumor else "rumor"
    first_use = re.search(r"\b" + rumor + r"\s*\.\s*id\s*\(\s*\)", pam)
    if not first_use or "save_message_record" not in pam:
        raise Missing("fact:rumorIdRecomputed")
    before = pam[:first_use.start()]
    cleared = bool(re.search(r"\b" + rumor + r"\s*\.\s*id\s*=\s*None\s*;", before)) or bool(re.search(r"\b" + rumor + r"\s*\.\s*id\s*\.\s*take\s*\(\s*\)", before))
    verified = bool(re.search(r"\b" + rumor + r"\s*\.\s*verify_id\s*\(\s*\)", before))
    boolean("rumorIdRecomputed", cleared or verified,
            "messages/application.rs process_application_message: the rumor id is cleared (recomputed) or verified before `rumor.id()` is used as the storage key")

    # ---- C06 / C05: the order of the checks in auto_commit_proposal and in process_commit (repairs 0339cde, e46593e) ----
    prop_rs = strip_comments(non_test(read("crates/mdk-core/src/messages/proposal.rs")))
    acp = fn_body(prop_rs, "auto_commit_proposal", "fn:auto_commit_proposal")
    m_store = re.search(r"\.\s*store_pending_proposal\s*\(\s*self\s*\.\s*provider\s*\.\s*storage\s*\(\s*\)", acp)
    i_commit = acp.find("commit_to_pending_proposals")
    if not m_store or i_commit < 0 or m_store.start() > i_commit:
        raise Missing("fact:autoCommitChecksBeforeStore")
    head = acp[:m_store.start()]
    guard_pending = bool(re.search(r"pending_commit\s*\(\s*\)\s*\.\s*is_some\s*\(\s*\)", head))
    guard_own = bool(re.search(r"Proposal::Remove", head)) and bool(re.search(r"own_leaf_index", head))
    keeps = bool(re.search(r"PendingProposal", head)) and bool(re.search(r"\breturn\b", head)) and bool(re.search(r"store_pending_proposal", head))
    boolean("autoCommitChecksBeforeStore", guard_pending and guard_own and keeps,
            "messages/proposal.rs auto_commit_proposal: BEFORE the proposal is put into the OpenMLS store for the automatic commit, a pending commit and a queued "
            "Remove of the own leaf are checked for, and in that case the proposal is kept as a pending proposal (PendingProposal) instead "
            "(false = stored first, commit_to_pending_proposals fails afterwards: Unprocessable with the proposal left in the store)")
    commit_rs = strip_comments(non_test(read("crates/mdk-core/src/messages/commit.rs")))
    pcb = fn_body(commit_rs, "process_commit", "fn:process_commit")
    i_merge = pcb.find("merge_staged_commit")
    i_evict = pcb.find("handle_local_member_eviction")
    if i_merge < 0 or i_evict < i_merge:
        raise Missing("fact:evictionFromStagedCommit")
    m_sr = re.search(r"let\s+(\w+)\s*=\s*staged_commit\s*\.\s*self_removed\s*\(\s*\)\s*;", pcb[:i_merge])
    used = bool(m_sr) and bool(re.search(r"\bif\s+[^{]*\b" + re.escape(m_sr.group(1)) + r"\b[^{]*\{", pcb[i_merge:i_evict]))
    boolean("evictionFromStagedCommit", used,
            "messages/commit.rs process_commit: whether the commit removes the receiver is read off the staged commit (self_removed()) BEFORE merge_staged_commit and "
            "decides the eviction (false = decided by own_leaf().is_none() after the merge only, which a newcomer on the freed leaf defeats)")

    # ---- C05, identity sentence: the shape of validate_commit_identities / process_commit / process_proposal (Model.Identity) ----
    identity_facts(facts, boolean, commit_rs, pcb, prop_rs)

    # ---- C14: tracing sites / error formats / Debug impls go to their own file GeneratedLeak.lean ----
    sys.path.insert(0, os.path.dirname(os.path.abspath(__file__)))
    import gen_leak
    try:
        leak_summary = gen_leak.summary(gen_leak.generate(REPO))
    except gen_leak.Missing as e:
        raise Missing(str(e))
    # ---- C13: the step list of keyring::get_or_create_db_key ------------------------------------
    # codes: 0 = read (get_db_key), 1 = lock (KEY_GENERATION_LOCK … .lock()), 2 = generate
    # (EncryptionConfig::generate), 3 = store (set_secret); the guard must stay alive to the end of
    # the function (bound to a named `_guard`, never `let _ =`, never dropped early)
    kr_src = strip_comments(non_test(read("crates/mdk-sqlite-storage/src/keyring.rs")))
    goc = fn_body(kr_src, "get_or_create_db_key", "fn:get_or_create_db_key")
    marks = []
    for m in re.finditer(r"\bget_db_key\s*\(|KEY_GENERATION_LOCK\b|\.lock\s*\(\s*\)|EncryptionConfig\s*::\s*generate\s*\(|\.set_secret\s*\(|\.set_password\s*\(", goc):
        tok = m.group(0)
        code = 0 if "get_db_key" in tok else 1 if ("lock" in tok or "KEY_GENERATION_LOCK" in tok) else 2 if "generate" in tok else 3
        if code == 1 and marks and marks[-1] == 1:
            continue                        # `KEY_GENERATION_LOCK.get_or_init(..)` and `.lock()` are one step
        marks.append(code)
    if not marks or 1 not in marks or 3 not in marks:
        raise Missing("keyring:get_or_create_db_key:steps")
    guard = re.search(r"let\s+(_[A-Za-z0-9_]+|[a-z][A-Za-z0-9_]*)\s*=\s*lock\b[^;]*\.lock\s*\(\s*\)", goc) or \
        re.search(r"let\s+(_[A-Za-z0-9_]+|[a-z][A-Za-z0-9_]*)\s*=[^;]*\.lock\s*\(\s*\)", goc)
    if not guard:
        raise Missing("keyring:get_or_create_db_key:guard-binding")
    gname = guard.group(1)
    held = gname != "_" and not re.search(r"\bdrop\s*\(\s*" + re.escape(gname) + r"\s*\)", goc)
    facts["keyringShape"] = ("List Nat", "[" + ", ".join(map(str, marks)) + "]",
                             "keyring.rs get_or_create_db_key: call sequence read(0) → lock(1) → read(0) → generate(2) → store(3)")
    boolean("keyringGuardHeldToReturn", held, "keyring.rs get_or_create_db_key: the MutexGuard is bound to a named variable and not dropped before the function returns")
    # how the Result of `.lock()` is treated when the mutex is POISONED (a thread panicked holding it):
    #   propagated as an error (`?` / unwrap / expect)            -> the caller fails closed        (true)
    #   discarded together with the guard (`.ok()`, `if let Ok`…) -> the caller goes on WITHOUT the lock (false)
    #   `into_inner()` recovery keeps the guard: safe, but a third behaviour the model does not have -> loud
    stmt_m = re.search(r"let\s+" + re.escape(gname) + r"\s*(?::[^=;]+)?=([^;]*\.lock\s*\(\s*\)[^;]*);", goc)
    iflet_m = re.search(r"(?:if|while)\s+let\s+Ok\s*\([^)]*\)\s*=[^{;]*\.lock\s*\(\s*\)", goc)
    if iflet_m and not stmt_m:
        fails_closed = False
    elif not stmt_m:
        raise Missing("keyring:get_or_create_db_key:lock-result")
    else:
        after = stmt_m.group(1)[re.search(r"\.lock\s*\(\s*\)", stmt_m.group(1)).end():]
        after_flat = re.sub(r"\s+", "", after)
        if "into_inner" in after_flat or "clear_poison" in goc:
            raise Missing("keyring:get_or_create_db_key:lock-result:recovers-the-guard-of-a-poisoned-lock "
                          "(into_inner/clear_poison: safe, but Model.Keyring has no such rule — extend the model)")
        propagated = bool(re.search(r"\?$", after_flat)) or bool(re.search(r"\.(unwrap|expect)\((?:\"(?:[^\"\\]|\\.)*\")?\)$", after_flat))
        discarded = bool(re.search(r"\.(ok|unwrap_or_default|unwrap_or|unwrap_or_else|map_or|map_or_else|is_ok|is_err|err)\(", after_flat)) and not propagated
        if propagated and not re.search(r"\.(ok|unwrap_or_default|unwrap_or|unwrap_or_else)\(", after_flat):
            fails_closed = True
        elif discarded:
            fails_closed = False
        else:
            raise Missing("keyring:get_or_create_db_key:lock-result:unrecognised `" + after_flat[:80] + "`")
    boolean("lockPoisonFailsClosed", fails_closed,
            "keyring.rs get_or_create_db_key: the Result of KEY_GENERATION_LOCK.lock() is propagated (`?`/unwrap/expect) — a poisoned lock makes the caller fail — rather than discarded together with the guard (`.ok()`, `if let Ok`)")
    gdk = fn_body(kr_src, "get_db_key", "fn:get_db_key")
    boolean("keyringReadTakesNoLock", "KEY_GENERATION_LOCK" not in gdk and ".lock(" not in gdk, "keyring.rs get_db_key takes no lock")
    ddk = fn_body(kr_src, "delete_db_key", "fn:delete_db_key")
    boolean("keyringDeleteTakesNoLock", "KEY_GENERATION_LOCK" not in ddk and ".lock(" not in ddk, "keyring.rs delete_db_key takes no lock")
    # lib.rs `new`: the existing-file branch consults get_db_key (never get_or_create_db_key)
    new_fn = fn_body(sql_lib, "new", "fn:MdkSqliteStorage::new")
    m_exist = re.search(r"FileCreationOutcome\s*::\s*AlreadyExisted\s*=>", new_fn)
    m_created = re.search(r"FileCreationOutcome\s*::\s*Created", new_fn)
    if not m_exist or not m_created:
        raise Missing("lib:new:branches")
    exist_branch = new_fn[m_exist.end():]
    boolean("newExistingBranchNeverCreates", "get_or_create_db_key" not in exist_branch and "get_db_key" in exist_branch and m_created.start() < m_exist.start(),
            "lib.rs MdkSqliteStorage::new: the AlreadyExisted arm calls keyring::get_db_key only")
    boolean("newPrecreatesBeforeKeyDecision", 0 <= new_fn.find("precreate_secure_database_file") < new_fn.find("get_or_create_db_key"),
            "lib.rs MdkSqliteStorage::new: the file is created atomically before any key decision")
    enc_src = strip_comments(non_test(read("crates/mdk-sqlite-storage/src/encryption.rs")))
    ae = fn_body(enc_src, "apply_encryption", "fn:apply_encryption")
    order = [ae.find("PRAGMA key"), ae.find("cipher_compatibility"), ae.find("temp_store = MEMORY"), ae.find("validate_encryption_key")]
    if min(order) < 0:
        raise Missing("encryption:apply_encryption:pragmas")
    boolean("applyEncryptionOrder", order == sorted(order), "encryption.rs apply_encryption: PRAGMA key, cipher_compatibility, temp_store = MEMORY, validation read — in this order")
    perm_src = strip_comments(non_test(read("crates/mdk-sqlite-storage/src/permissions.rs")))
    modes = sorted(set(int(x, 8) for x in re.findall(r"from_mode\s*\(\s*0o([0-7]+)\s*\)", perm_src)))
    if not modes:
        raise Missing("permissions:modes")
    facts["permissionModes"] = ("List Nat", "[" + ", ".join(map(str, modes)) + "]", "permissions.rs from_mode(0o…) constants (decimal)")
    pre = fn_body(perm_src, "precreate_secure_database_file", "fn:precreate_secure_database_file")
    boolean("precreateIsExclusive", bool(re.search(r"create_new\s*\(\s*true\s*\)", pre)), "permissions.rs precreate_secure_database_file uses create_new(true) (O_CREAT|O_EXCL)")
    # ---- C19: lock-acquisition shape of every storage-trait method (tools/lockshape.py) ------
    sys.path.insert(0, os.path.dirname(os.path.abspath(__file__)))
    import lockshape
    facts.update(lockshape.extract(read, strip_comments, non_test, Missing)[0])

    # ---- C12: replace_group_relays runs DELETE + INSERTs between SAVEPOINT and RELEASE, with
    # ROLLBACK TO on the error path, inside ONE with_connection section
    rgr = fn_body(sql_groups, "replace_group_relays", "fn:replace_group_relays(sqlite)")
    rg = [s.upper() for s in strings(rgr)]
    sp = [i for i, s in enumerate(rg) if s.startswith("SAVEPOINT ")]
    rel = [i for i, s in enumerate(rg) if s.startswith("RELEASE SAVEPOINT")]
    dele = [i for i, s in enumerate(rg) if "DELETE FROM GROUP_RELAYS" in s]
    ins = [i for i, s in enumerate(rg) if "INSERT INTO GROUP_RELAYS" in s]
    boolean("sqlReplaceRelaysInSavepoint",
            bool(sp and rel and dele and ins) and sp[0] < dele[0] < ins[0] < rel[0]
            and any("ROLLBACK TO SAVEPOINT" in s for s in rg) and len(re.findall(r"with_connection\s*\(", rgr)) == 1,
            "groups.rs replace_group_relays: SAVEPOINT < DELETE < INSERT < RELEASE, ROLLBACK TO on error, one with_connection")
    # restore reads the snapshot rows before BEGIN (the reads are outside the transaction)
    r_strings = strings(restore)
    first_sel = next((i for i, s in enumerate(r_strings) if s.upper().startswith("SELECT")), None)
    begin_i = next((i for i, s in enumerate(r_strings) if s.upper().startswith("BEGIN")), None)
    if first_sel is None or begin_i is None:
        raise Missing("sql:restore:select/begin")
    boolean("sqlRestoreReadsBeforeBegin", first_sel < begin_i,
            "lib.rs restore_group_from_snapshot: the snapshot rows are SELECTed before BEGIN IMMEDIATE")
    # ---- codec facts (C15): tag constants, MIME allow-list, versions ---------------------------------
    def bytes_lit(t): return "[" + ", ".join(str(b) for b in t.encode("utf-8")) + "]"
    def strfact(name, t, prov): facts[name] = ("List Nat", bytes_lit(t), prov + f' = "{t}"')
    def strlist(name, ts, prov): facts[name] = ("List (List Nat)", "[" + ", ".join(bytes_lit(t) for t in ts) + "]", prov + " = " + ", ".join(ts))
    const_rs = strip_comments(read("crates/mdk-core/src/constant.rs"))
    util_rs = strip_comments(non_test(read("crates/mdk-core/src/util.rs")))
    # every `fn to_nostr_tag` (helpers inlined, format strings positional) renders u16::from(*self) as "0x{:04x}"
    tag_fns = [rsnorm.positional_fmt(rsnorm.inline_helpers(f["body"], helper_lookup(util_rs), boundary(), stack=("to_nostr_tag",)))
               for f in _fn_items(util_rs) if f["name"] == "to_nostr_tag"]
    if len(tag_fns) < 2 or not all(re.search(r'format!\(\s*"0x\{:04x\}"\s*,\s*u16::from\(\*self\)\s*\)', b) for b in tag_fns):
        raise Missing("codec:to_nostr_tag-format")
    m = re.search(r"NOSTR_GROUP_DATA_EXTENSION_TYPE\s*:\s*u16\s*=\s*(0x[0-9A-Fa-f]+|\d+)\s*;", const_rs)
    if not m:
        raise Missing("const:NOSTR_GROUP_DATA_EXTENSION_TYPE")
    ngd = int(m.group(1), 0)
    nat("nostrGroupDataExtensionType", ngd, "mdk-core constant.rs NOSTR_GROUP_DATA_EXTENSION_TYPE")
    EXT_IDS = {"ApplicationId": 1, "RatchetTree": 2, "RequiredCapabilities": 3, "ExternalPub": 4, "ExternalSenders": 5, "LastResort": 10}   # openmls ExtensionType (RFC 9420 §17.3)
    def ext_array(cname):
        mm = re.search(r"\bconst\s+" + cname + r"\s*:\s*\[\s*ExtensionType\s*;\s*(\d+)\s*\]\s*=\s*\[(.*?)\]\s*;", const_rs, re.S)
        if not mm:
            raise Missing("const:" + cname)
        ids = []
        for it in [x.strip() for x in mm.group(2).split(",") if x.strip()]:
            mu = re.fullmatch(r"ExtensionType::Unknown\(\s*(NOSTR_GROUP_DATA_EXTENSION_TYPE|0x[0-9A-Fa-f_]+|\d[\d_]*)\s*\)", it)
            mk = re.fullmatch(r"ExtensionType::(\w+)", it)
            if mu and (mu.group(1)[0].isalpha() or int(mu.group(1).replace("_", ""), 0) == ngd): ids.append(ngd)
            elif mk and mk.group(1) in EXT_IDS: ids.append(EXT_IDS[mk.group(1)])
            else: raise Missing(f"const:{cname}:item:{it}")
        if len(ids) != int(mm.group(1)):
            raise Missing("const:" + cname + ":arity")
        return ["0x%04x" % i for i in ids]
    strlist("kpRequiredExtensionTags", ext_array("TAG_EXTENSIONS"), "constant.rs TAG_EXTENSIONS (checked by validate_extensions_tag)")
    strlist("kpCreatedExtensionTags", ext_array("SUPPORTED_EXTENSIONS"), "constant.rs SUPPORTED_EXTENSIONS (MDK.extensions, written by create_key_package_for_event)")
    CS_IDS = {"MLS_128_DHKEMX25519_AES128GCM_SHA256_Ed25519": 1, "MLS_128_DHKEMP256_AES128GCM_SHA256_P256": 2,
              "MLS_128_DHKEMX25519_CHACHA20POLY1305_SHA256_Ed25519": 3}
    m = re.search(r"DEFAULT_CIPHERSUITE\s*:\s*Ciphersuite\s*=\s*Ciphersuite::(\w+)\s*;", const_rs)
    if not m or m.group(1) not in CS_IDS:
        raise Missing("const:DEFAULT_CIPHERSUITE")
    strfact("kpCiphersuiteTag", "0x%04x" % CS_IDS[m.group(1)], "constant.rs DEFAULT_CIPHERSUITE through NostrTagFormat")
    kp_rs = strip_comments(non_test(read("crates/mdk-core/src/key_packages.rs")))
    m = re.search(r'if\s*[*&]*\s*[\w.()]+\s*!=\s*"([^"]+)"\s*\{\s*return\s+Err',
                  fn_body(kp_rs, "validate_protocol_version_tag", "fn:validate_protocol_version_tag"))
    if not m:
        raise Missing("kp:protocol-version-literal")
    strfact("kpProtocolVersion", m.group(1), "key_packages.rs validate_protocol_version_tag")
    if not re.search(r"\w+\.kind\s*!=\s*Kind::MlsKeyPackage", kp_rs):
        raise Missing("kp:kind-check")
    nat("kindMlsKeyPackage", 443, "nostr Kind::MlsKeyPackage (NIP-EE), checked first by parse_key_package")
    w_rs = strip_comments(non_test(read("crates/mdk-core/src/welcomes.rs")))
    if not re.search(r"\w+\.kind\s*!=\s*Kind::MlsWelcome", w_rs):
        raise Missing("welcome:kind-check")
    nat("kindMlsWelcome", 444, "nostr Kind::MlsWelcome, checked first by validate_welcome_event")
    m = re.search(r"if [^;{]*?\.len\(\) < (\d+) \{ return Err\(Error::InvalidWelcomeMessage", flat(fn_body(w_rs, "validate_welcome_event", "fn:validate_welcome_event")))
    if not m:
        raise Missing("welcome:min-tags")
    nat("welcomeMinTags", int(m.group(1)), "welcomes.rs validate_welcome_event minimum tag count")
    m = re.search(r'(?:ContentEncoding|Self)::Base64\s*=>\s*"([^"]+)"', arms_of(fn_body(util_rs, "as_tag_value", "fn:as_tag_value")))
    if not m:
        raise Missing("util:encoding-tag-value")
    strfact("encodingTagValue", m.group(1), "util.rs ContentEncoding::as_tag_value")
    cargo = read("crates/mdk-core/Cargo.toml")
    m = re.search(r'^version\s*=\s*"([^"]+)"', cargo, re.M)
    if not m:
        raise Missing("cargo:mdk-core-version")
    strfact("clientTagValue", "MDK/" + m.group(1), "Tag::client(format!(\"MDK/{}\", CARGO_PKG_VERSION))")
    mv = strip_comments(non_test(read("crates/mdk-core/src/media_processing/validation.rs")))
    def str_array(src, cname):
        mm = re.search(r"\bconst\s+" + cname + r"\s*:\s*&\[&str\]\s*=\s*&\[(.*?)\]\s*;", src, re.S)
        if not mm:
            raise Missing("const:" + cname)
        return strings(mm.group(1))
    strlist("supportedMimeTypes", str_array(mv, "SUPPORTED_MIME_TYPES"), "media_processing/validation.rs SUPPORTED_MIME_TYPES")
    m = re.search(r'ESCAPE_HATCH_MIME_TYPE\s*:\s*&str\s*=\s*"([^"]+)"', mv)
    if not m:
        raise Missing("const:ESCAPE_HATCH_MIME_TYPE")
    strfact("escapeHatchMimeType", m.group(1), "media_processing/validation.rs ESCAPE_HATCH_MIME_TYPE")
    m = re.search(r"contains\('/'\)\s*\|\|\s*[^;{]*?\.len\(\)\s*>\s*(\d+)", fn_body(mv, "validate_mime_type", "fn:validate_mime_type"))
    if not m:
        raise Missing("mime:max-len")
    nat("maxMimeLength", int(m.group(1)), "validate_mime_type canonical length bound")
    mt = strip_comments(non_test(read("crates/mdk-core/src/media_processing/types.rs")))
    nat("maxFilenameLength", const_usize(mt, "MAX_FILENAME_LENGTH", "const:MAX_FILENAME_LENGTH"), "media_processing/types.rs MAX_FILENAME_LENGTH")
    cr = strip_comments(non_test(read("crates/mdk-core/src/encrypted_media/crypto.rs")))
    m = re.search(r'DEFAULT_SCHEME_VERSION\s*:\s*&str\s*=\s*"([^"]+)"', cr)
    if not m:
        raise Missing("const:DEFAULT_SCHEME_VERSION")
    strfact("defaultSchemeVersion", m.group(1), "encrypted_media/crypto.rs DEFAULT_SCHEME_VERSION")
    sup = arms_of(fn_body(cr, "is_scheme_version_supported", "fn:is_scheme_version_supported"))
    strlist("supportedSchemeVersions", [mm.group(1) for mm in re.finditer(r'"([^"]+)"\s*=>\s*true', sup)], "crypto.rs is_scheme_version_supported")
    ext_rs = strip_comments(non_test(read("crates/mdk-core/src/extension/types.rs")))
    nat("extCurrentVersion", const_usize(ext_rs, "CURRENT_VERSION", "const:CURRENT_VERSION"), "extension/types.rs CURRENT_VERSION")
    mm = re.search(r"struct\s+TlsNostrGroupDataExtension\s*\{(.*?)\}", ext_rs, re.S)
    if not mm:
        raise Missing("struct:TlsNostrGroupDataExtension")
    layout = [re.sub(r"\s+", "", re.sub(r"^\s*pub(\([a-z]+\))?\s+", "", f.split(":", 1)[0])) + ":" + re.sub(r"\s+", "", f.split(":", 1)[1]) for f in mm.group(1).split(",") if ":" in f]
    expect = ["version:u16", "nostr_group_id:[u8;32]", "name:Vec<u8>", "description:Vec<u8>", "admin_pubkeys:Vec<[u8;32]>",
              "relays:Vec<Vec<u8>>", "image_hash:Vec<u8>", "image_key:Vec<u8>", "image_nonce:Vec<u8>", "image_upload_key:Vec<u8>"]
    boolean("extLayoutAsModelled", layout == expect, "extension/types.rs TlsNostrGroupDataExtension field order and types equal Model.Codec.Raw: " + " ".join(layout))
    dsb = fn_body(ext_rs, "deserialize_bytes", "fn:deserialize_bytes")
    m_rem = re.search(r"let\s*\(\s*\w+\s*,\s*(\w+)\s*\)\s*=\s*\w+\s*::\s*tls_deserialize_bytes\s*\(", dsb)
    boolean("extTrailingBytesChecked", bool(m_rem and re.search(r"if\s*!\s*" + m_rem.group(1) + r"\.is_empty\(\)\s*\{\s*return\s+Err", dsb)),
            "extension/types.rs deserialize_bytes refuses a non-empty remainder")

    # ---- codec facts (C15), second batch: strictness of the content parsers, invitation precondition --------
    kp_rs2 = strip_comments(non_test(read("crates/mdk-core/src/key_packages.rs")))
    pk = fn_body(kp_rs2, "parse_serialized_key_package", "fn:parse_serialized_key_package")
    exact = bool(re.search(r"KeyPackageIn::tls_deserialize_exact\s*\(", pk))
    reader = bool(re.search(r"KeyPackageIn::tls_deserialize\s*\(\s*&mut", pk))
    checks_rest = bool(re.search(r"is_empty\(\)", pk))
    if not (exact or reader):
        raise Missing("kp:deserialize-call")
    boolean("kpDeserializeExact", exact or (reader and checks_rest),
            "key_packages.rs parse_serialized_key_package: the whole content must be one KeyPackage (tls_deserialize_exact / remainder check)")
    w_rs2 = strip_comments(non_test(read("crates/mdk-core/src/welcomes.rs")))
    pw = fn_body(w_rs2, "parse_serialized_welcome", "fn:parse_serialized_welcome")
    w_exact = bool(re.search(r"MlsMessageIn::tls_deserialize_exact\s*\(", pw))
    w_reader = re.search(r"MlsMessageIn::tls_deserialize\s*\(\s*&mut\s+(\w+)\s*\)", pw)
    if not (w_exact or w_reader):
        raise Missing("welcome:deserialize-call")
    w_rest = bool(w_reader and re.search(r"if\s*!\s*" + re.escape(w_reader.group(1)) + r"\.is_empty\(\)\s*\{\s*return\s+Err", pw[w_reader.end():]))
    boolean("welcomeRejectsTrailing", w_exact or w_rest,
            "welcomes.rs parse_serialized_welcome: bytes after the MLS message are refused")
    g_rs = strip_comments(non_test(read("crates/mdk-core/src/groups.rs")))
    def refuses_empty_relays(body):
        # an early `return Err(Error::Group(..))` guarded by a condition that mentions `relays` and `is_empty()`
        for m in re.finditer(r"\bif\b([^{;]*)\{\s*return\s+Err\s*\(\s*Error::Group", body):
            cond = m.group(1)
            if "relays" in cond and "is_empty()" in cond:
                return True
        return False
    cg = fn_body(g_rs, "create_group", "fn:create_group")
    am = fn_body(g_rs, "add_members", "fn:add_members")
    boolean("inviteRequiresRelay", refuses_empty_relays(cg) and refuses_empty_relays(am),
            "groups.rs create_group / add_members return Err(Error::Group) when members are invited and the relay set is empty")

    # ---- media facts (C17, media part): scheme label, HKDF context / AAD construction --------------------
    cr2 = strip_comments(non_test(read("crates/mdk-core/src/encrypted_media/crypto.rs")))
    lab = arms_of(fn_body(cr2, "get_scheme_label", "fn:get_scheme_label"))
    dsv = re.escape(facts["defaultSchemeVersion"][2].split('= "')[-1].rstrip('"'))
    mlab = re.search(r'"' + dsv + r'"\s*=>\s*Ok\(\s*(?:b"([^"]+)"|"([^"]+)"\s*\.\s*as_bytes\(\))\s*\)', lab)
    if not mlab:
        raise Missing("media:scheme-label")
    strfact("mediaSchemeLabel", mlab.group(1) or mlab.group(2), "crypto.rs get_scheme_label(DEFAULT_SCHEME_VERSION)")
    # the byte strings the two builders return, as sequences over their PARAMETER POSITIONS (rsnorm.byte_pieces evaluates
    # Vec::new + extend_from_slice / push, `[a, b].join(&SEP)`, a call of the other builder), not over names or statement shapes
    cr_fns = {}
    for f in _fn_items(cr2):
        cr_fns.setdefault(f["name"], f)
    def pieces(fn):
        if fn not in cr_fns:
            raise Missing("fn:" + fn)
        seq = rsnorm.byte_pieces(fn, cr_fns)
        names = [p_ for p_, _ in cr_fns[fn]["params"]]
        return [x if x == "nul" else ("p%d" % names.index(x) if x in names else x) for x in (seq or ["?"])]
    ctx_seq = pieces("build_hkdf_context")
    aad_seq = pieces("build_aad")
    boolean("mediaContextAsModelled", ctx_seq == ["p0", "nul", "p1", "nul", "p2", "nul", "p3", "nul", "p4"],
            "crypto.rs build_hkdf_context(label, hash, mime, filename, suffix) = label 00 hash 00 mime 00 filename 00 suffix: " + " ".join(ctx_seq))
    boolean("mediaAadAsModelled", aad_seq == ["p0", "nul", "p1", "nul", "p2", "nul", "p3"],
            "crypto.rs build_aad(label, hash, mime, filename) = label 00 hash 00 mime 00 filename: " + " ".join(aad_seq))
    # the key derivation hands (label of its scheme-version parameter, its hash / mime / filename parameters, a byte literal)
    dk = fn_body(cr2, "derive_encryption_key_with_secret", "fn:derive_encryption_key_with_secret")
    dk_params = [p_ for p_, _ in fn_params(cr2, "derive_encryption_key_with_secret", "fn:derive_encryption_key_with_secret")]
    dk_call = calls(flat(dk), "build_hkdf_context")          # locals inlined: the label argument is the call that computes it
    mk = None
    if dk_call and len(dk_call[0][1]) == 5 and len(dk_params) == 5:
        a = dk_call[0][1]
        label_ok = bool(re.fullmatch(r"get_scheme_label\(" + re.escape(dk_params[1]) + r"\)\??", a[0]))
        if label_ok and a[1:4] == dk_params[2:5]:
            mk = re.fullmatch(r'b"([^"]+)"', a[4])
    if not mk:
        raise Missing("media:key-suffix")
    strfact("mediaKeySuffix", mk.group(1), "crypto.rs derive_encryption_key_with_secret context suffix")
    # ---- C16: order of the steps of process_welcome / accept_welcome / decline_welcome ----------
    # codes: 0 validate_welcome_event, 1 find_processed_welcome_by_event_id (dedup), 2 preview_welcome,
    # 3 save_group, 4 replace_group_relays, 5 the rumor-id check (MissingRumorEventId), 6 save_processed_welcome,
    # 7 save_welcome, 8 into_group, 9 get_group, 10 find_welcome_by_event_id, 11 get_welcome
    wl_src = strip_comments(non_test(read("crates/mdk-core/src/welcomes.rs")))
    def step_order(fn, fact):
        body = fn_body(wl_src, fn, fact)
        pats = [(0, r"validate_welcome_event\s*\("), (1, r"find_processed_welcome_by_event_id\s*\("), (2, r"preview_welcome\s*\("),
                (3, r"\.save_group\s*\("), (4, r"\.replace_group_relays\s*\("), (5, r"MissingRumorEventId"),
                (6, r"\.save_processed_welcome\s*\("), (7, r"\.save_welcome\s*\("), (8, r"\.into_group\s*\("), (9, r"\.get_group\s*\("),
                (10, r"\.find_welcome_by_event_id\s*\("), (11, r"\.get_welcome\s*\(")]
        found = []
        for code, pat in pats:
            for m in re.finditer(pat, body):
                found.append((m.start(), code))
        if not found:
            raise Missing(fact + ":steps")
        return [c for _, c in sorted(found)]
    for lean, fn in [("welcomeProcessOrder", "process_welcome"), ("welcomeAcceptOrder", "accept_welcome"), ("welcomeDeclineOrder", "decline_welcome")]:
        order = step_order(fn, "fn:" + fn)
        facts[lean] = ("List Nat", "[" + ", ".join(map(str, order)) + "]", f"mdk-core welcomes.rs {fn}: order of validation / storage / MLS steps")
    psw = fn_body(wl_src, "parse_serialized_welcome", "fn:parse_serialized_welcome")
    boolean("welcomeReplacesOldGroup", bool(re.search(r"\.replace_old_group\s*\(\s*\)", psw)), "mdk-core welcomes.rs parse_serialized_welcome builds the StagedWelcome with .replace_old_group()")
    pw_body = fn_body(wl_src, "process_welcome", "fn:process_welcome")
    # the lookup is keyed by the id OF THE RUMOR: its argument is (a local bound to) `<rumor parameter>.id`
    rumor_p = param_of_type(wl_src, "process_welcome", r"&\s*(?:nostr::)?UnsignedEvent", "fn:process_welcome")
    pos_dedup = -1
    for pos_, a_ in calls(pw_body, r"\.\s*find_welcome_by_event_id"):
        arg0 = re.sub(r"^&\s*", "", a_[0]) if a_ else ""
        if re.fullmatch(re.escape(rumor_p) + r"\.id\b.*", arg0) or \
           re.search(r"\blet\s+" + re.escape(arg0) + r"\s*(?::[^=;]+)?=\s*" + re.escape(rumor_p) + r"\.id\b", pw_body):
            pos_dedup = pos_; break
    pos_preview = pw_body.find("preview_welcome(")
    boolean("welcomeProcessDedupsByRumorId", 0 <= pos_dedup < pos_preview, "mdk-core welcomes.rs process_welcome returns the stored welcome for a rumor id it already stored, before preview and before any group write")
    def refuses_accepted(fn):
        body = fn_body(wl_src, fn, "fn:" + fn)
        a, b = body.find("WelcomeState::Accepted"), body.find("preview_welcome(")
        return 0 <= a < b and "return Err" in body[a:b]
    boolean("acceptRefusesAccepted", refuses_accepted("accept_welcome") and refuses_accepted("decline_welcome"), "mdk-core welcomes.rs accept_welcome and decline_welcome return Err for a stored welcome that is already Accepted, before preview")
    boolean("welcomeProcessChecksHeldGroup", bool(re.search(r"GroupState\s*::\s*Active", pw_body.split("GroupState::Pending")[0])) , "mdk-core welcomes.rs process_welcome looks for an Active group of that id before writing (false = it does not)")

    # ---- media facts (C17, epoch-hint part) ---------------------------------------------------------------
    mgr_rs = strip_comments(non_test(read("crates/mdk-core/src/encrypted_media/manager.rs")))
    dfd = fn_body(mgr_rs, "decrypt_from_download", "fn:decrypt_from_download")
    # the arms of the match on the hint attempt, or-patterns expanded: Ok passes through, the error variants whose arm
    # derives the current-epoch key are the fallback set, every other error passes through
    hint_tbl = [arms_ for scrut, arms_ in rsnorm.match_tables(dfd) if "try_decrypt_with_epoch_hint" in scrut]
    if not hint_tbl:
        raise Missing("media:decrypt_from_download-arms")
    fallback_on = sorted(set(v for pat, body in hint_tbl[0] if "derive_encryption_key(" in body for v in re.findall(r"EncryptedMediaError::(\w+)", pat)))
    def passes(ctor):
        return any(re.fullmatch(ctor + r"\((\w+)\)", pat.strip()) and
                   re.fullmatch(ctor + r"\(" + re.fullmatch(ctor + r"\((\w+)\)", pat.strip()).group(1) + r"\)", body.strip()) for pat, body in hint_tbl[0])
    boolean("mediaFallbackAsModelled", fallback_on == ["DecryptionFailed", "NoExporterSecretForEpoch"] and "derive_encryption_key(" in dfd
            and passes("Ok") and passes("Err"),
            "manager.rs decrypt_from_download: hint first; current-epoch key on " + "|".join(fallback_on) + "; other errors returned")
    th = fn_body(mgr_rs, "try_decrypt_with_epoch_hint", "fn:try_decrypt_with_epoch_hint")
    boolean("mediaHintAsModelled",
            bool(re.search(r'format!\(\s*"x \{\}"\s*,\s*hex::encode\(\s*&?\s*\w+\.original_hash\s*\)\s*\)', th))
            and th.find("find_message_epoch_by_tag_content") < th.find("get_group_exporter_secret") < th.find("derive_encryption_key_with_secret") < th.find("decrypt_and_verify")
            and th.find("find_message_epoch_by_tag_content") > 0,
            "manager.rs try_decrypt_with_epoch_hint: epoch of a stored message containing `x <hash>` → stored secret of that epoch → key → decrypt_and_verify")
    dav = fn_body(mgr_rs, "decrypt_and_verify", "fn:decrypt_and_verify")
    boolean("mediaHashCheckedAfterDecrypt", 0 < dav.find("decrypt_data_with_aad") < dav.find("HashVerificationFailed"),
            "manager.rs decrypt_and_verify: AEAD first, then SHA-256 of the plaintext against the reference")
    proc_rs = strip_comments(non_test(read("crates/mdk-core/src/messages/process.rs")))
    # the epoch argument of the call is `<G>.epoch().as_u64()` with G the MlsGroup parameter of the calling function
    filed = None
    for f_ in _fn_items(proc_rs):
        for pos_, a_ in calls(f_["body"], r"(?:self\s*\.\s*)?process_application_message"):
            gs = [p_ for p_, t_ in f_["params"] if p_ and re.fullmatch(r"&\s*(?:mut\s+)?(?:openmls::\w+::)*MlsGroup", t_)]
            filed = len(a_) >= 2 and len(gs) == 1 and bool(re.fullmatch(re.escape(gs[0]) + r"\.epoch\(\)\.as_u64\(\)", a_[1]))
    if filed is None:
        raise Missing("media:process_application_message-call")
    boolean("appMessageFiledUnderReceiverEpoch", filed,
            "messages/process.rs: process_application_message is given mls_group.epoch() (the RECEIVER's epoch) as the epoch to store")
    # ---- message windows (C02, msgwin engine) ---------------------------------------------------
    msgs_mod = strip_comments(non_test(read("crates/mdk-core/src/messages/mod.rs")))
    nat("epochLookback", const_usize(msgs_mod, "DEFAULT_EPOCH_LOOKBACK", "const:DEFAULT_EPOCH_LOOKBACK"),
        "mdk-core messages/mod.rs DEFAULT_EPOCH_LOOKBACK: past epoch numbers whose stored exporter secret the outer NIP-44 layer tries (not configurable)")
    # over expressions (locals inlined): one builder statement hands SenderRatchetConfiguration::new(tolerance, distance)
    # and max_past_epochs, both from self.config, to OpenMLS
    def windows_handed(src):
        for f_ in _fn_items(src):
            if "SenderRatchetConfiguration::new" not in f_["body"]:
                continue
            for stmt in rsnorm.split_top(flat(f_["body"]), ";"):
                if re.search(r"\.sender_ratchet_configuration\(&?SenderRatchetConfiguration::new\(self\.config\.out_of_order_tolerance, self\.config\.maximum_forward_distance\)\)", stmt) \
                   and re.search(r"\.max_past_epochs\(self\.config\.max_past_epochs\)", stmt):
                    return True
        return False
    grp_rs = strip_comments(non_test(read("crates/mdk-core/src/groups.rs")))
    wel_rs = strip_comments(non_test(read("crates/mdk-core/src/welcomes.rs")))
    boolean("windowsHandedToOpenMls", windows_handed(grp_rs) and windows_handed(wel_rs),
            "groups.rs create_group and welcomes.rs (join config): SenderRatchetConfiguration::new(config.out_of_order_tolerance, config.maximum_forward_distance) and .max_past_epochs(config.max_past_epochs) are handed to OpenMLS")
    lib_rs = strip_comments(non_test(read("crates/mdk-core/src/lib.rs")))
    mdef = re.search(r"impl\s+Default\s+for\s+MdkConfig\s*\{(.*?)\n\}", lib_rs, re.S)
    if not mdef:
        raise Missing("const:MdkConfig::default")
    for lean, field in [("defaultOutOfOrderTolerance", "out_of_order_tolerance"), ("defaultMaximumForwardDistance", "maximum_forward_distance"),
                        ("defaultMaxPastEpochs", "max_past_epochs")]:
        mm = re.search(field + r"\s*:\s*([0-9_]+)", mdef.group(1))
        if not mm:
            raise Missing("const:MdkConfig::default." + field)
        nat(lean, int(mm.group(1).replace("_", "")), "mdk-core lib.rs MdkConfig::default()." + field)
    gi_rs = strip_comments(non_test(read("crates/mdk-core/src/extension/group_image.rs")))
    dgi = fn_body(gi_rs, "decrypt_group_image", "fn:decrypt_group_image")
    # by what is called with what: the HKDF expansion under the v2 context constant into a buffer, a cipher from that buffer,
    # then a cipher from the raw key parameter (the Secret<[u8; 32]>)
    v2ctx = const_lit(gi_rs, "IMAGE_ENCRYPTION_CONTEXT_V2", "const:IMAGE_ENCRYPTION_CONTEXT_V2")
    key_param = param_of_type(gi_rs, "decrypt_group_image", r"&\s*Secret<\s*\[u8;\s*32\]\s*>", "fn:decrypt_group_image")
    m_v2 = re.search(r"\.expand\(\s*(?:IMAGE_ENCRYPTION_CONTEXT_V2|" + re.escape(v2ctx) + r")\s*,\s*&mut\s+(\w+)\s*\)", dgi)
    i_hash, i_v2 = dgi.find("HashVerificationFailed"), (m_v2.start() if m_v2 else -1)
    i_c2 = at(r"new_from_slice\(\s*&\s*" + re.escape(m_v2.group(1)) + r"\s*\)", dgi) if m_v2 else -1
    i_v1 = at(r"new_from_slice\(\s*" + re.escape(key_param) + r"\.as_ref\(\)\s*\)", dgi)
    boolean("groupImageDecryptAsModelled", 0 < i_hash < i_v2 < i_c2 < i_v1, "group_image.rs decrypt_group_image: blob hash, then the HKDF (v2) key, then the raw (v1) key")

    # ---- outer layer of process_message (C06 wrap / C08 routing; engine `wrap`) ---------------------------
    wrap_facts(facts, nat, boolean, strlist)
    restart_facts(facts)
    limit_facts(facts)

    # ---- ffi facts (C06, first sentence): tables and parse plans of crates/mdk-uniffi/src/lib.rs ----------
    ffi_rs = strip_comments(non_test(read("crates/mdk-uniffi/src/lib.rs")))
    def enum_variants(src, name):
        m = re.search(r"\benum\s+" + name + r"\s*\{", src)
        if not m:
            raise Missing(f"ffi:enum:{name}")
        depth, j = 0, m.end() - 1
        while j < len(src):
            if src[j] == "{": depth += 1
            elif src[j] == "}":
                depth -= 1
                if depth == 0: break
            j += 1
        body = re.sub(r"#\[[^\]]*\]", "", src[m.end():j])
        vs = [v for v in re.findall(r"(?:^|,)\s*([A-Z][A-Za-z0-9]*)\s*(?=,|$|\(|\{)", body.strip(), re.S)]
        if not vs:
            raise Missing(f"ffi:enum:{name}:variants")
        return vs
    def impl_fn_body(src, impl_re, fn, fact):
        m = re.search(impl_re, src)
        if not m:
            raise Missing(fact + ":impl")
        return fn_body(src[m.start():], fn, fact)
    def pairs_nat_bytes(ps): return "[" + ", ".join(f"({k}, {bytes_lit(t)})" for k, t in ps) + "]"
    def pairs_bytes_nat(ps): return "[" + ", ".join(f"({bytes_lit(t)}, {k})" for t, k in ps) + "]"
    def state_tables(lean, rel, enum):
        src = strip_comments(non_test(read(rel)))
        vs = enum_variants(src, enum)
        a_body = arms_of(impl_fn_body(src, r"\bimpl\s+" + enum + r"\s*\{", "as_str", f"ffi:{enum}:as_str"))
        f_body = arms_of(impl_fn_body(src, r"\bimpl\s+(?:std::str::)?FromStr\s+for\s+" + enum + r"\b", "from_str", f"ffi:{enum}:from_str"))
        a = re.findall(r"Self\s*::\s*(\w+)\s*=>\s*\"((?:[^\"\\]|\\.)*)\"", a_body)
        f = re.findall(r"\"((?:[^\"\\]|\\.)*)\"\s*=>\s*Ok\s*\(\s*Self\s*::\s*(\w+)\s*\)", f_body)
        if len(a) != len(vs) or not f or any(v not in vs for v, _ in a) or any(v not in vs for _, v in f):
            raise Missing(f"ffi:{enum}:arms")
        # a catch-all arm that ACCEPTS would make the table incomplete: the only other arm must be an Err
        others = re.findall(r"(?:^|[,{}])\s*(_|\w+)\s*=>\s*(\w+)", re.sub(r"\"(?:[^\"\\]|\\.)*\"\s*=>\s*Ok\s*\([^)]*\)\s*,?", "", f_body))
        if any(res != "Err" for _, res in others):
            raise Missing(f"ffi:{enum}:from_str-default-arm")
        facts[lean + "Variants"] = ("Nat", str(len(vs)), f"{rel} enum {enum}: " + ", ".join(vs))
        facts[lean + "AsStr"] = ("List (Nat × List Nat)", pairs_nat_bytes([(vs.index(v), t) for v, t in a]),
                                 f"{rel} {enum}::as_str: " + ", ".join(f"{v}={t}" for v, t in a))
        facts[lean + "FromStr"] = ("List (List Nat × Nat)", pairs_bytes_nat([(t, vs.index(v)) for t, v in f]),
                                   f"{rel} impl FromStr for {enum}: " + ", ".join(f"{t}->{v}" for t, v in f))
    state_tables("welcomeState", "crates/mdk-storage-traits/src/welcomes/types.rs", "WelcomeState")
    state_tables("messageState", "crates/mdk-storage-traits/src/messages/types.rs", "MessageState")
    state_tables("groupState", "crates/mdk-storage-traits/src/groups/types.rs", "GroupState")
    # the binding turns the enums into strings with as_str() and (welcomes only) back with from_str()
    def impl_block(src, head_re, fact):
        m = re.search(head_re, src)
        if not m:
            raise Missing(fact + ":impl")
        e = rsnorm.match_close(src, m.end() - 1, "{", "}")
        return src[m.end() - 1:e + 1]
    for ty, fact in [("Group", "ffi:Group.state=as_str"), ("Message", "ffi:Message.state=as_str"), ("Welcome", "ffi:Welcome.state=as_str")]:
        blk = impl_block(ffi_rs, r"\bimpl\s+From\s*<\s*[\w:]+\s*>\s*for\s+" + ty + r"\s*\{", fact)
        if not re.search(r"\bstate\s*:\s*\w+\s*\.\s*state\s*\.\s*as_str\s*\(\s*\)", blk):
            raise Missing(fact)
    if not re.search(r"WelcomeState\s*::\s*from_str\s*\(\s*&\s*\w+\s*\.\s*state\s*\)", fn_body(ffi_rs, "welcome_from_uniffi", "ffi:welcome_from_uniffi")):
        raise Missing("ffi:welcome_from_uniffi=from_str")
    so_src = strip_comments(non_test(read("crates/mdk-storage-traits/src/groups/mod.rs")))
    so_vs = enum_variants(so_src, "MessageSortOrder")
    so_body = arms_of(fn_body(ffi_rs, "parse_message_sort_order", "ffi:parse_message_sort_order"))
    so = re.findall(r"Some\s*\(\s*\"((?:[^\"\\]|\\.)*)\"\s*\)\s*=>\s*Ok\s*\(\s*Some\s*\(\s*MessageSortOrder\s*::\s*(\w+)\s*\)\s*\)", so_body)
    if not so or any(v not in so_vs for _, v in so) or not re.search(r"None\s*=>\s*Ok\s*\(\s*None\s*\)", so_body) \
       or not re.search(r"Some\s*\(\s*\w+\s*\)\s*=>\s*Err", so_body):
        raise Missing("ffi:parse_message_sort_order:arms")
    facts["ffiSortOrderTable"] = ("List (List Nat × Nat)", pairs_bytes_nat([(t, so_vs.index(v)) for t, v in so]),
                                  "mdk-uniffi lib.rs parse_message_sort_order: " + ", ".join(f"{t}->{v}" for t, v in so) + "; None->None; anything else refused")
    # which library call each parse helper is (the Lean model of the helper is chosen by this)
    helper_calls = {"parse_group_id": r"hex\s*::\s*decode\s*\(\s*&?\s*@P@\s*\)", "parse_event_id": r"EventId\s*::\s*from_hex\s*\(\s*&?\s*@P@\s*\)",
                    "parse_public_key": r"PublicKey\s*::\s*from_hex\s*\(\s*&?\s*@P@\s*\)", "parse_relay_urls": r"RelayUrl\s*::\s*parse\s*\(",
                    "parse_json": r"serde_json\s*::\s*from_str\s*\(\s*&?\s*@P@\s*\)", "parse_tags": r"Tag\s*::\s*parse\s*\(\s*&?\s*\w+\s*\)"}
    for h, pat in helper_calls.items():
        # P = the helper's first parameter (the text it parses), whatever it is called
        pat = pat.replace("@P@", re.escape(fn_params(ffi_rs, h, f"ffi:{h}")[0][0] or "?"))
        if not re.search(pat, fn_body(ffi_rs, h, f"ffi:{h}")):
            raise Missing(f"ffi:{h}:callee")
    boolean("ffiGroupIdAnyLength", bool(re.search(r"GroupId\s*::\s*from_slice\s*\(\s*&\s*\w+\s*\)", fn_body(ffi_rs, "parse_group_id", "ffi:parse_group_id")))
            and not re.search(r"\.len\s*\(\s*\)", fn_body(ffi_rs, "parse_group_id", "ffi:parse_group_id")),
            "mdk-uniffi lib.rs parse_group_id: hex::decode then GroupId::from_slice, no length demand")
    # parse plans: the ordered parse steps of every exported function (codes documented in Model/Ffi.lean `Stage.code`)
    JSON_CTX = {"event JSON": 20, "rumor event JSON": 21, "welcome JSON": 22, "welcome event JSON": 23, "key package event JSON": 24}
    STEP = re.compile(r"parse_group_id\s*\(|parse_event_id\s*\(|parse_public_key\s*\(|parse_relay_urls\s*\(|parse_message_sort_order\s*\(|parse_tags\s*\(|"
                      r"parse_json\s*\([^,()]*,\s*\"([^\"]*)\"\s*\)|welcome_from_uniffi\s*\(|vec_to_array\s*::\s*<\s*(\d+)\s*>\s*\(|"
                      r"hex\s*::\s*decode\s*\(\s*&\s*\w+\s*\.\s*nostr_group_id\s*\)|\"Nostr group ID must be 32 bytes\"|WelcomeState\s*::\s*from_str\s*\(|"
                      r"EncryptionConfig\s*::\s*from_slice\s*\(|\"Expected hash must be 32 bytes\"|\"Image key must be 32 bytes\"|\"Image nonce must be 12 bytes\"|"
                      r"self\s*\.\s*lock\s*\(\s*\)")
    def steps(body, fact):
        out = []
        for m in STEP.finditer(body):
            tok = m.group(0)
            if tok.startswith("parse_group_id"): c = 1
            elif tok.startswith("parse_event_id"): c = 2
            elif tok.startswith("parse_public_key"): c = 3
            elif tok.startswith("parse_relay_urls"): c = 4
            elif tok.startswith("parse_message_sort_order"): c = 5
            elif tok.startswith("parse_tags"): c = 6
            elif tok.startswith("parse_json"):
                if m.group(1) not in JSON_CTX: raise Missing(f"{fact}:json-context:{m.group(1)}")
                c = JSON_CTX[m.group(1)]
            elif tok.startswith("welcome_from_uniffi"): c = 16
            elif tok.startswith("vec_to_array"):
                if m.group(2) not in ("32", "12"): raise Missing(f"{fact}:vec_to_array:{m.group(2)}")
                c = 9 if m.group(2) == "32" else 10
            elif tok.startswith("hex"): c = 7
            elif "Nostr group ID" in tok: c = 8
            elif tok.startswith("WelcomeState"): c = 11
            elif tok.startswith("EncryptionConfig"): c = 12
            elif "Expected hash" in tok: c = 13
            elif "Image key" in tok: c = 14
            elif "Image nonce" in tok: c = 15
            else: c = 17
            out.append(c)
        return out
    exported = []
    for m in re.finditer(r"#\[\s*uniffi\s*::\s*export\s*\]\s*(pub\s+fn\s+(\w+)|impl\s+Mdk\s*\{)", ffi_rs):
        if m.group(2):
            exported.append(m.group(2))
        else:
            depth, j = 0, m.end() - 1
            while j < len(ffi_rs):
                if ffi_rs[j] == "{": depth += 1
                elif ffi_rs[j] == "}":
                    depth -= 1
                    if depth == 0: break
                j += 1
            exported += re.findall(r"\bpub\s+fn\s+(\w+)\s*\(", ffi_rs[m.end():j])
    if len(exported) < 30 or len(set(exported)) != len(exported):
        raise Missing("ffi:exported-functions")
    plans = [(n, steps(fn_body(ffi_rs, n, f"ffi:fn:{n}"), f"ffi:fn:{n}")) for n in exported]
    plans.append(("welcome_from_uniffi", steps(fn_body(ffi_rs, "welcome_from_uniffi", "ffi:welcome_from_uniffi"), "ffi:welcome_from_uniffi")))
    facts["ffiPlans"] = ("List (List Nat × List Nat)", "[" + ", ".join(f"({bytes_lit(n)}, [{', '.join(map(str, cs))}])" for n, cs in plans) + "]",
                         "mdk-uniffi lib.rs: the ordered parse steps of every #[uniffi::export] function (+ welcome_from_uniffi): " +
                         "; ".join(f"{n}={','.join(map(str, cs))}" for n, cs in plans))
    # the literal texts behind MdkUniffiError::InvalidInput, per parse step (read by vlib/ffieng.py to name the refusing step)
    def inv_prefixes(body, fact):
        ps = re.findall(r"InvalidInput\s*\(\s*(?:format!\s*\(\s*)?\"((?:[^\"\\]|\\.)*)\"", body)
        if not ps:
            raise Missing(fact + ":InvalidInput-text")
        return [re.split(r"[:{]", p_)[0].strip() for p_ in ps]
    ffi_prefixes = {}
    for h, st in [("parse_group_id", "gid"), ("parse_event_id", "eid"), ("parse_public_key", "pk"), ("parse_relay_urls", "relay"),
                  ("parse_message_sort_order", "sort"), ("parse_tags", "tag"), ("vec_to_array", "vec")]:
        ffi_prefixes[st] = inv_prefixes(fn_body(ffi_rs, h, f"ffi:{h}"), f"ffi:{h}")[0]
    ffi_prefixes["json"] = inv_prefixes(fn_body(ffi_rs, "parse_json", "ffi:parse_json"), "ffi:parse_json")[0]      # "Invalid" + context
    wfu = inv_prefixes(fn_body(ffi_rs, "welcome_from_uniffi", "ffi:welcome_from_uniffi"), "ffi:welcome_from_uniffi")
    if len(wfu) != 3:
        raise Missing("ffi:welcome_from_uniffi:InvalidInput-texts")
    ffi_prefixes["ngidhex"], ffi_prefixes["ngidlen"], ffi_prefixes["wstate"] = wfu
    ffi_prefixes["enckey"] = inv_prefixes(fn_body(ffi_rs, "new_mdk_with_key", "ffi:new_mdk_with_key"), "ffi:new_mdk_with_key")[0]
    dgi_p = inv_prefixes(fn_body(ffi_rs, "decrypt_group_image", "ffi:decrypt_group_image"), "ffi:decrypt_group_image")
    if len(dgi_p) != 3:
        raise Missing("ffi:decrypt_group_image:InvalidInput-texts")
    ffi_prefixes["imghash"], ffi_prefixes["imgkey"], ffi_prefixes["imgnonce"] = dgi_p
    ffi_prefixes["json_ctx"] = {v: k for k, v in JSON_CTX.items()}
    ffi_prefixes["exported"] = exported

    # ---- C12: ordered durable write steps of every mdk-core entry point (tools/writeseq.py) ----
    write_sequences(facts)

    # ---- emit -------------------------------------------------------------------------------
    lines = ["/- GENERATED by tools/gen_model.py from the current /repo source — do not edit. -/",
             "namespace MdkVerif.Generated", ""]
    for name in sorted(facts):
        ty, val, prov = facts[name]
        lines.append(f"/-- {prov} -/")
        lines.append(f"def {name} : {ty} := {val}")
        lines.append("")
    lines.append("end MdkVerif.Generated")
    text = "\n".join(lines) + "\n"
    out = os.path.normpath(OUT)
    old = None
    try:
        old = open(out).read()
    except OSError:
        pass
    if old != text:
        with open(out, "w") as f:
            f.write(text)
    out_facts = {k: v[1] for k, v in facts.items()}
    out_facts["leakTables"] = json.dumps(leak_summary, sort_keys=True)
    out_facts["ffiErrorTexts"] = json.dumps(ffi_prefixes, sort_keys=True)
    json.dump(out_facts, sys.stdout, indent=0, sort_keys=True)
    print()

if __name__ == "__main__":
    try:
        main()
    except Missing as e:
        print(f"tie:gen:{e}", file=sys.stderr)
        sys.exit(2)
