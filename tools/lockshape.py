"""Lock-acquisition shape of every storage-trait method of both backends (DESIGN §6 C19).

For each method: the sequence of lock SECTIONS it executes, in textual order, following calls to
other `self.` methods (up to three levels deep).  There is one section per lock ACQUISITION; a
section names the locks held at that moment in the order they were acquired (outermost first) with
the newly acquired lock last.  `[[(1,1)], [(0,1)]]` is two separate sections (the first lock is
released before the second is taken); `[[(1,1)], [(1,1),(0,1)]]` is a nested section (the second
lock is taken while the first is held).  A method called while locks H are held contributes
H + s for each of its own sections s.  `nested` = some section holds more than one lock.

  memory : `self.inner.read()/write()`, `self.group_snapshots.read()/write()`
           - `let g = self.<lock>.<mode>();`  is a guard held to the end of the enclosing block
             (or to `drop(g)`)
           - any other occurrence is a temporary released at the end of its statement
  sqlite : `self.with_connection(|conn| …)` (held to the end of the closure) and
           `let conn = self.connection.lock().unwrap();` (guard held to the end of the block)

Locks: 0 = memory `inner`, 1 = memory `group_snapshots`, 2 = sqlite `connection`.
Modes: 0 = shared (read), 1 = exclusive (write / mutex).
Emits `lockShape : List (Nat × Nat × String × List (List (Nat × Nat)) × Bool)` with entries
(backend 0=mem 1=sql, method number, rust name, sections, nested).  The numbering of the MDK trait
methods is fixed (METHODS); OpenMLS `StorageProvider` methods get 100 + alphabetical index;
write_tree / tree / delete_tree additionally 90 / 91 / 92 (the store model's mls_write / mls_read / mls_delete)."""
import re

METHODS = ["save_group", "find_group_by_mls_group_id", "find_group_by_nostr_group_id", "all_groups",
           "save_message", "find_message_by_event_id", "messages", "last_message",
           "save_processed_message", "find_processed_message_by_event_id",
           "invalidate_messages_after_epoch", "invalidate_processed_messages_after_epoch",
           "find_invalidated_messages", "find_invalidated_processed_messages",
           "find_failed_messages_for_retry", "mark_processed_message_retryable",
           "find_message_epoch_by_tag_content", "admins", "group_relays", "replace_group_relays",
           "get_group_exporter_secret", "save_group_exporter_secret", "save_welcome",
           "find_welcome_by_event_id", "pending_welcomes", "save_processed_welcome",
           "find_processed_welcome_by_event_id", "create_group_snapshot", "rollback_group_to_snapshot",
           "release_group_snapshot", "list_group_snapshots", "prune_expired_snapshots"]

PROVIDER_REPR = [("write_tree", 90), ("tree", 91), ("delete_tree", 92)]

LOCKS = {"inner": 0, "group_snapshots": 1, "connection": 2}
# `self.x(` occurrences that are known not to be lock-taking methods of the storage struct
IGNORED_CALLS = {"backend", "limits"}

def match_close(src, i, open_c, close_c):
    """index of the bracket closing the one at src[i]"""
    depth, j, in_str = 0, i, False
    while j < len(src):
        c = src[j]
        if in_str:
            if c == "\\": j += 1
            elif c == '"': in_str = False
        else:
            if c == '"': in_str = True
            elif c == open_c: depth += 1
            elif c == close_c:
                depth -= 1
                if depth == 0:
                    return j
        j += 1
    return -1

def impl_blocks(src, struct):
    """[(trait or None, body)] of `impl [Trait for] struct { … }`"""
    res = []
    for m in re.finditer(r"\bimpl(?:\s*<[^>]*>)?\s+(?:([\w:]+(?:<[^>{]*>)?)\s+for\s+)?" + struct + r"\s*\{", src):
        i = m.end() - 1
        j = match_close(src, i, "{", "}")
        if j < 0:
            continue
        res.append((m.group(1), src[i:j + 1]))
    return res

def fns_of(body):
    """{name: body} of the `fn`s directly in an impl body that take `self`"""
    res = {}
    for m in re.finditer(r"\bfn\s+(\w+)\s*(?:<[^{;]*?>)?\s*\(", body):
        # parameter list
        p = body.find("(", m.end() - 1)
        q = match_close(body, p, "(", ")")
        params = body[p:q + 1]
        k = q + 1
        # skip return type / where clause up to the body
        b = k
        while b < len(body) and body[b] not in "{;":
            b += 1
        if b >= len(body) or body[b] == ";":
            continue
        e = match_close(body, b, "{", "}")
        if "self" in params:
            res.setdefault(m.group(1), body[b:e + 1])
    return res

# a guard bound by `let` (with or without a type annotation); after the acquisition only suffixes that keep the guard
# may follow: .unwrap() / .expect("…") / ? / .map_err(…) / .unwrap_or_else(…)
_KEEP = r"(?:\s*\.\s*(?:unwrap|expect|map_err|unwrap_or_else)\s*\((?:[^()]|\((?:[^()]|\([^()]*\))*\))*\)|\s*\?)*"
GUARD_MEM = re.compile(r"let\s+(?:mut\s+)?(\w+)\s*(?::[^=;]+)?=\s*self\s*\.\s*(inner|group_snapshots)\s*\.\s*(read|write)\s*\(\s*\)" + _KEEP + r"\s*;")
GUARD_SQL = re.compile(r"let\s+(?:mut\s+)?(\w+)\s*(?::[^=;]+)?=\s*self\s*\.\s*connection\s*\.\s*lock\s*\(\s*\)" + _KEEP + r"\s*;")
TEMP_MEM = re.compile(r"self\s*\.\s*(inner|group_snapshots)\s*\.\s*(read|write)\s*\(\s*\)")
TEMP_SQL = re.compile(r"self\s*\.\s*connection\s*\.\s*lock\s*\(\s*\)")
WITH_CONN = re.compile(r"self\s*\.\s*with_connection\s*\(")
CALL = re.compile(r"self\s*\.\s*(\w+)\s*\(")
DROP = re.compile(r"\bdrop\s*\(\s*(\w+)\s*\)")

class Analyzer:
    def __init__(self, fns, missing):
        self.fns = fns
        self.missing = missing
        self.cache = {}

    def analyze(self, name, depth=0):
        """sections of `name` when called with no lock held: [[(lock, mode), …], …] — one entry per
        ACQUISITION, listing the locks held at that moment in acquisition order (outermost first),
        the acquired one last.  A method called while locks H are held contributes H + its sections."""
        if name in self.cache:
            return self.cache[name]
        if depth > 3:
            raise self.missing(f"lockShape:recursion:{name}")
        body = self.fns[name]
        secs = []
        held = []          # [(var, brace depth at binding, (lock, mode))] guards currently alive, in acquisition order
        temps = []         # [(alive up to this index, (lock, mode))] temporaries (and with_connection closures)
        i, depth_b = 0, 0
        n = len(body)

        def end_of_statement(j):
            d = 0
            while j < n:
                if body[j] in "({[": d += 1
                elif body[j] in ")}]":
                    d -= 1
                    if d < 0: break
                elif body[j] == ";" and d == 0: break
                j += 1
            return j

        while i < n:
            c = body[i]
            if c == '"':
                j = i + 1
                while j < n and body[j] != '"':
                    j += 2 if body[j] == "\\" else 1
                i = j + 1; continue
            if c == "{":
                depth_b += 1; i += 1; continue
            if c == "}":
                depth_b -= 1
                held = [h for h in held if h[1] <= depth_b]
                i += 1; continue
            temps = [t for t in temps if i < t[0]]
            stack = [h[2] for h in held] + [t[1] for t in temps]
            m = GUARD_MEM.match(body, i) or GUARD_SQL.match(body, i)
            if m:
                lk = (LOCKS[m.group(2)], 0 if m.group(3) == "read" else 1) if m.re is GUARD_MEM else (LOCKS["connection"], 1)
                secs.append(stack + [lk])
                held.append((m.group(1), depth_b, lk))
                i = m.end(); continue
            m = DROP.match(body, i)
            if m and (i == 0 or not (body[i - 1].isalnum() or body[i - 1] == "_")):
                held = [h for h in held if h[0] != m.group(1)]
                i = m.end(); continue
            m = WITH_CONN.match(body, i)
            if m:
                # the closure runs with the connection mutex held; what it acquires is found by the scan below
                lk = (LOCKS["connection"], 1)
                secs.append(stack + [lk])
                close = match_close(body, m.end() - 1, "(", ")")
                temps.append((close, lk))
                i = m.end(); continue
            m = TEMP_MEM.match(body, i) or TEMP_SQL.match(body, i)
            if m:
                lk = (LOCKS[m.group(1)], 0 if m.group(2) == "read" else 1) if m.re is TEMP_MEM else (LOCKS["connection"], 1)
                secs.append(stack + [lk])
                # alive to the end of the statement
                temps.append((end_of_statement(m.end()), lk))
                i = m.end(); continue
            m = CALL.match(body, i)
            if m and (i == 0 or not (body[i - 1].isalnum() or body[i - 1] in "_.")):
                callee = m.group(1)
                if callee in self.fns:
                    secs += [stack + s for s in self.analyze(callee, depth + 1)]
                elif callee in ("inner", "group_snapshots", "connection", "with_connection") or callee in IGNORED_CALLS:
                    pass
                else:
                    raise self.missing(f"lockShape:unknown-self-call:{name}:{callee}")
                i = m.end(); continue
            i += 1
        self.cache[name] = secs
        return secs

def lean_sections(secs):
    return "[" + ", ".join("[" + ", ".join("(%d, %d)" % l for l in s) + "]" for s in secs) + "]"

def parse_sections(shape_text, backend, method):
    """the sections of (backend, method) from the text of the generated fact `lockShape`:
    [[(lock, mode), …], …] or None"""
    m = re.search(r'\(%d, %d, "[^"]*", \[((?:\[[^\]]*\](?:, )?)*)\], (?:true|false)\)' % (backend, method), shape_text)
    if not m:
        return None
    return [[(int(a), int(b)) for a, b in re.findall(r"\((\d+), (\d+)\)", sec)] for sec in re.findall(r"\[([^\]]*)\]", m.group(1))]

def extract(read, strip_comments, non_test, Missing):
    out = []
    provider_names = None
    summary = {}
    for be, crate, struct, files in [
            (0, "crates/mdk-memory-storage/src", "MdkMemoryStorage", ["lib.rs", "groups.rs", "messages.rs", "welcomes.rs"]),
            (1, "crates/mdk-sqlite-storage/src", "MdkSqliteStorage", ["lib.rs", "groups.rs", "messages.rs", "welcomes.rs"])]:
        fns, trait_fns, provider = {}, {}, {}
        for f in files:
            src = strip_comments(non_test(read(f"{crate}/{f}")))
            for trait, body in impl_blocks(src, struct):
                fs = fns_of(body)
                for k, v in fs.items():
                    fns.setdefault(k, v)
                if trait is None:
                    continue
                t = trait.split("<")[0].split("::")[-1]
                if t in ("GroupStorage", "MessageStorage", "WelcomeStorage", "MdkStorageProvider"):
                    trait_fns.update(fs)
                elif t == "StorageProvider":
                    provider.update(fs)
        an = Analyzer(fns, Missing)
        for idx, name in enumerate(METHODS):
            if name not in trait_fns:
                raise Missing(f"lockShape:method:{struct}:{name}")
            secs = an.analyze(name)
            out.append((be, idx, name, secs, any(len(x) > 1 for x in secs)))
        if not provider:
            raise Missing(f"lockShape:StorageProvider:{struct}")
        names = sorted(provider)
        if provider_names is None:
            provider_names = names
        elif provider_names != names:
            raise Missing("lockShape:StorageProvider:method-sets-differ")
        for k, name in enumerate(names):
            secs = an.analyze(name)
            out.append((be, 100 + k, name, secs, any(len(x) > 1 for x in secs)))
        # fixed numbers for the three kinds of OpenMLS rows the store model's mls ops stand for
        for name, num in PROVIDER_REPR:
            if name not in provider:
                raise Missing(f"lockShape:StorageProvider:{struct}:{name}")
            secs = an.analyze(name)
            out.append((be, num, name, secs, any(len(x) > 1 for x in secs)))
        summary[struct] = {"methods": len(METHODS) + len(names),
                           "multi_section": sorted(n for b, _, n, s, _ in out if b == be and len(s) > 1),
                           "nested": sorted(n for b, _, n, _, x in out if b == be and x)}
    def lean_entry(e):
        be, idx, name, secs, nested = e
        return "(%d, %d, \"%s\", %s, %s)" % (be, idx, name, lean_sections(secs), "true" if nested else "false")
    value = "[\n  " + ",\n  ".join(lean_entry(e) for e in out) + "]"
    return {"lockShape": ("List (Nat × Nat × String × List (List (Nat × Nat)) × Bool)", value,
                          "lock sections of every storage-trait method (tools/lockshape.py): (backend 0=mem 1=sql, method, name, sections, nested); one section per lock ACQUISITION = the locks held at that moment in acquisition order, the acquired one last; lock = (0=inner 1=group_snapshots 2=connection, mode 0=shared 1=exclusive); nested = some section holds more than one lock")}, summary

if __name__ == "__main__":
    import sys, os, json
    sys.path.insert(0, os.path.dirname(os.path.abspath(__file__)))
    import gen_model as G
    facts, summary = extract(G.read, G.strip_comments, G.non_test, G.Missing)
    print(facts["lockShape"][1])
    print(json.dumps(summary, indent=1))
