"""Lock-acquisition shape of every storage-trait method of both backends (DESIGN §6 C19).

For each method: the sequence of lock sections it executes, in textual order, following calls to
other `self.` methods (two levels deep), and whether any lock is acquired (directly or through a
called method) while another one is still held (`nested`).

  memory : `self.inner.read()/write()`, `self.group_snapshots.read()/write()`
           - `let g = self.<lock>.<mode>();`  is a guard held to the end of the enclosing block
           - any other occurrence is a temporary released at the end of its statement
  sqlite : `self.with_connection(|conn| …)` (section = the closure) and
           `let conn = self.connection.lock().unwrap();` (guard held to the end of the block)

Locks: 0 = memory `inner`, 1 = memory `group_snapshots`, 2 = sqlite `connection`.
Modes: 0 = shared (read), 1 = exclusive (write / mutex).
Emits `lockShape : List (Nat × Nat × String × List (Nat × Nat) × Bool)` with entries
(backend 0=mem 1=sql, method number, rust name, sections, nested).  The numbering of the MDK trait
methods is fixed (METHODS); OpenMLS `StorageProvider` methods get 100 + alphabetical index;
write_tree / tree / delete_tree additionally 90 / 91 / 92 (the store model's mls_write / mls_read / mls_delete)."""
import re

METHODS = ["save_group", "find_group_by_mls_group_id", "find_group_by_nostr_group_id", "all_groups",
           "save_message", "find_message_by_event_id", "messages", "last_message",
           "save_processed_message", "find_processed_message_by_event_id",
           "invalidate_messages_after_epoch", "invalidate_processed_messages_after_epoch",
           "find_invalidated_messages", "find_invalidated_processed_messages",
           "find_failed_messages_for_retry", "mark_processed_message_retryable",
           "find_message_epoch_by_tag_content", "admins", "group_relays", "replace_group_relays",
           "get_group_exporter_secret", "save_group_exporter_secret", "save_welcome",
           "find_welcome_by_event_id", "pending_welcomes", "save_processed_welcome",
           "find_processed_welcome_by_event_id", "create_group_snapshot", "rollback_group_to_snapshot",
           "release_group_snapshot", "list_group_snapshots", "prune_expired_snapshots"]

PROVIDER_REPR = [("write_tree", 90), ("tree", 91), ("delete_tree", 92)]

LOCKS = {"inner": 0, "group_snapshots": 1, "connection": 2}
# `self.x(` occurrences that are known not to be lock-taking methods of the storage struct
IGNORED_CALLS = {"backend", "limits"}

def match_close(src, i, open_c, close_c):
    """index of the bracket closing the one at src[i]"""
    depth, j, in_str = 0, i, False
    while j < len(src):
        c = src[j]
        if in_str:
            if c == "\\": j += 1
            elif c == '"': in_str = False
        else:
            if c == '"': in_str = True
            elif c == open_c: depth += 1
            elif c == close_c:
                depth -= 1
                if depth == 0:
                    return j
        j += 1
    return -1

def impl_blocks(src, struct):
    """[(trait or None, body)] of `impl [Trait for] struct { … }`"""
    res = []
    for m in re.finditer(r"\bimpl(?:\s*<[^>]*>)?\s+(?:([\w:]+(?:<[^>{]*>)?)\s+for\s+)?" + struct + r"\s*\{", src):
        i = m.end() - 1
        j = match_close(src, i, "{", "}")
        if j < 0:
            continue
        res.append((m.group(1), src[i:j + 1]))
    return res

def fns_of(body):
    """{name: body} of the `fn`s directly in an impl body that take `self`"""
    res = {}
    for m in re.finditer(r"\bfn\s+(\w+)\s*(?:<[^{;]*?>)?\s*\(", body):
        # parameter list
        p = body.find("(", m.end() - 1)
        q = match_close(body, p, "(", ")")
        params = body[p:q + 1]
        k = q + 1
        # skip return type / where clause up to the body
        b = k
        while b < len(body) and body[b] not in "{;":
            b += 1
        if b >= len(body) or body[b] == ";":
            continue
        e = match_close(body, b, "{", "}")
        if "self" in params:
            res.setdefault(m.group(1), body[b:e + 1])
    return res

GUARD_MEM = re.compile(r"let\s+(?:mut\s+)?(\w+)\s*=\s*self\s*\.\s*(inner|group_snapshots)\s*\.\s*(read|write)\s*\(\s*\)\s*;")
GUARD_SQL = re.compile(r"let\s+(?:mut\s+)?(\w+)\s*=\s*self\s*\.\s*connection\s*\.\s*lock\s*\(\s*\)\s*\.\s*unwrap\s*\(\s*\)\s*;")
TEMP_MEM = re.compile(r"self\s*\.\s*(inner|group_snapshots)\s*\.\s*(read|write)\s*\(\s*\)")
TEMP_SQL = re.compile(r"self\s*\.\s*connection\s*\.\s*lock\s*\(\s*\)")
WITH_CONN = re.compile(r"self\s*\.\s*with_connection\s*\(")
CALL = re.compile(r"self\s*\.\s*(\w+)\s*\(")
DROP = re.compile(r"\bdrop\s*\(\s*(\w+)\s*\)")

class Analyzer:
    def __init__(self, fns, missing):
        self.fns = fns
        self.missing = missing
        self.cache = {}

    def analyze(self, name, depth=0):
        """(sections [(lock, mode)], nested)"""
        if name in self.cache:
            return self.cache[name]
        if depth > 3:
            raise self.missing(f"lockShape:recursion:{name}")
        body = self.fns[name]
        secs, nested = [], False
        held = []          # [(var, brace depth at binding)] guards currently alive
        temp_until = -1    # a temporary guard is alive up to this index
        i, depth_b = 0, 0
        n = len(body)
        while i < n:
            c = body[i]
            if c == '"':
                j = i + 1
                while j < n and body[j] != '"':
                    j += 2 if body[j] == "\\" else 1
                i = j + 1; continue
            if c == "{":
                depth_b += 1; i += 1; continue
            if c == "}":
                depth_b -= 1
                held = [(v, d) for v, d in held if d <= depth_b]
                i += 1; continue
            holding = bool(held) or i < temp_until
            m = GUARD_MEM.match(body, i) or GUARD_SQL.match(body, i)
            if m:
                if holding: nested = True
                if m.re is GUARD_MEM:
                    secs.append((LOCKS[m.group(2)], 0 if m.group(3) == "read" else 1))
                else:
                    secs.append((LOCKS["connection"], 1))
                held.append((m.group(1), depth_b))
                i = m.end(); continue
            m = DROP.match(body, i)
            if m and (i == 0 or not (body[i - 1].isalnum() or body[i - 1] == "_")):
                held = [(v, d) for v, d in held if v != m.group(1)]
                i = m.end(); continue
            m = WITH_CONN.match(body, i)
            if m:
                if holding: nested = True
                secs.append((LOCKS["connection"], 1))
                close = match_close(body, m.end() - 1, "(", ")")
                inner = body[m.end():close]
                # anything that takes the lock again inside the closure is a nested acquisition
                if TEMP_SQL.search(inner) or WITH_CONN.search(inner):
                    nested = True
                for cm in CALL.finditer(inner):
                    if cm.group(1) in self.fns:
                        s2, _ = self.analyze(cm.group(1), depth + 1)
                        if s2:
                            nested = True
                    elif cm.group(1) not in IGNORED_CALLS:
                        raise self.missing(f"lockShape:unknown-self-call:{name}:{cm.group(1)}")
                i = close + 1; continue
            m = TEMP_MEM.match(body, i) or TEMP_SQL.match(body, i)
            if m:
                if holding: nested = True
                if m.re is TEMP_MEM:
                    secs.append((LOCKS[m.group(1)], 0 if m.group(2) == "read" else 1))
                else:
                    secs.append((LOCKS["connection"], 1))
                # alive to the end of the statement
                j, d = m.end(), 0
                while j < n:
                    if body[j] in "({[": d += 1
                    elif body[j] in ")}]":
                        d -= 1
                        if d < 0: break
                    elif body[j] == ";" and d == 0: break
                    j += 1
                temp_until = j
                i = m.end(); continue
            m = CALL.match(body, i)
            if m and (i == 0 or not (body[i - 1].isalnum() or body[i - 1] in "_.")):
                callee = m.group(1)
                if callee in self.fns:
                    s2, n2 = self.analyze(callee, depth + 1)
                    if s2 and holding: nested = True
                    nested = nested or n2
                    secs += s2
                elif callee in ("inner", "group_snapshots", "connection", "with_connection") or callee in IGNORED_CALLS:
                    pass
                else:
                    raise self.missing(f"lockShape:unknown-self-call:{name}:{callee}")
                i = m.end(); continue
            i += 1
        self.cache[name] = (secs, nested)
        return self.cache[name]

def extract(read, strip_comments, non_test, Missing):
    out = []
    provider_names = None
    summary = {}
    for be, crate, struct, files in [
            (0, "crates/mdk-memory-storage/src", "MdkMemoryStorage", ["lib.rs", "groups.rs", "messages.rs", "welcomes.rs"]),
            (1, "crates/mdk-sqlite-storage/src", "MdkSqliteStorage", ["lib.rs", "groups.rs", "messages.rs", "welcomes.rs"])]:
        fns, trait_fns, provider = {}, {}, {}
        for f in files:
            src = strip_comments(non_test(read(f"{crate}/{f}")))
            for trait, body in impl_blocks(src, struct):
                fs = fns_of(body)
                for k, v in fs.items():
                    fns.setdefault(k, v)
                if trait is None:
                    continue
                t = trait.split("<")[0].split("::")[-1]
                if t in ("GroupStorage", "MessageStorage", "WelcomeStorage", "MdkStorageProvider"):
                    trait_fns.update(fs)
                elif t == "StorageProvider":
                    provider.update(fs)
        an = Analyzer(fns, Missing)
        for idx, name in enumerate(METHODS):
            if name not in trait_fns:
                raise Missing(f"lockShape:method:{struct}:{name}")
            secs, nested = an.analyze(name)
            out.append((be, idx, name, secs, nested))
        if not provider:
            raise Missing(f"lockShape:StorageProvider:{struct}")
        names = sorted(provider)
        if provider_names is None:
            provider_names = names
        elif provider_names != names:
            raise Missing("lockShape:StorageProvider:method-sets-differ")
        for k, name in enumerate(names):
            secs, nested = an.analyze(name)
            out.append((be, 100 + k, name, secs, nested))
        # fixed numbers for the three kinds of OpenMLS rows the store model's mls ops stand for
        for name, num in PROVIDER_REPR:
            if name not in provider:
                raise Missing(f"lockShape:StorageProvider:{struct}:{name}")
            secs, nested = an.analyze(name)
            out.append((be, num, name, secs, nested))
        summary[struct] = {"methods": len(METHODS) + len(names),
                           "multi_section": sorted(n for b, _, n, s, _ in out if b == be and len(s) > 1),
                           "nested": sorted(n for b, _, n, _, x in out if b == be and x)}
    def lean_entry(e):
        be, idx, name, secs, nested = e
        return "(%d, %d, \"%s\", [%s], %s)" % (be, idx, name, ", ".join("(%d, %d)" % s for s in secs), "true" if nested else "false")
    value = "[\n  " + ",\n  ".join(lean_entry(e) for e in out) + "]"
    return {"lockShape": ("List (Nat × Nat × String × List (Nat × Nat) × Bool)", value,
                          "lock sections of every storage-trait method (tools/lockshape.py): (backend 0=mem 1=sql, method, name, [(lock 0=inner 1=group_snapshots 2=connection, mode 0=shared 1=exclusive)], nested)")}, summary

if __name__ == "__main__":
    import sys, os, json
    sys.path.insert(0, os.path.dirname(os.path.abspath(__file__)))
    import gen_model as G
    facts, summary = extract(G.read, G.strip_comments, G.non_test, G.Missing)
    print(facts["lockShape"][1])
    print(json.dumps(summary, indent=1))
