//! `conc` engine (C19): N threads run seeded lists of store operations on ONE shared backend
//! instance, with randomised yield / spin points; every operation is logged with logical start /
//! end timestamps taken from a global atomic counter, so that the real-time order of the calls is
//! known to the linearizability checker (`vlib/conceng.py`).
//!
//! Input (stdin), any number of cases:
//!   case <id> <mem|sql> <seed> <repeat>
//!   setup <op line>            executed single-threaded before the threads start
//!   thread <t> <op line>       appended to thread t's list (op vocabulary of `store`)
//!   post <op line>             executed single-threaded after all threads have finished
//!   run
//! Output per repetition:
//!   rep <id> <r>
//!   ev <t> <k> <start> <end> <result>
//!   post <k> <result>
//!   final <dump>
//!   status ok|deadlock|panic
//! With `repeat > 1` identical repetitions (same results, same final dump, same precedence relation)
//! are printed once with a count:  `same <id> <first r> <count>`.

use std::collections::HashMap;
use std::io::{self, BufRead, Write};
use std::panic::{AssertUnwindSafe, catch_unwind};
use std::sync::atomic::{AtomicBool, AtomicU64, AtomicUsize, Ordering};
use std::sync::{Arc, mpsc};
use std::time::Duration;

use mdk_storage_traits::MdkStorageProvider;

use crate::store::{self, Be};

const SNAP_CLOCK: u64 = 5000;
const WATCHDOG: Duration = Duration::from_secs(30);

struct Rng(u64);
impl Rng {
    fn next(&mut self) -> u64 {
        // xorshift64*
        self.0 ^= self.0 >> 12;
        self.0 ^= self.0 << 25;
        self.0 ^= self.0 >> 27;
        self.0.wrapping_mul(0x2545F4914F6CDD1D)
    }
}

fn exec_conc<S: MdkStorageProvider>(s: &S, t: &[&str]) -> String {
    match t[0] {
        // the snapshot clock is a process-wide override: fixed for the whole run (never reset by a thread)
        "snap_create" => {
            let g = store::mk_gid(t[1].parse().unwrap());
            if s.create_group_snapshot(&g, &store::snap_name(t[2].parse().unwrap())).is_ok() { "ok".into() } else { "err".into() }
        }
        _ => store::exec(s, t),
    }
}

fn pause(rng: &mut Rng, level: u64) {
    match rng.next() % (4 + level) {
        0 => std::thread::yield_now(),
        1 => {
            let n = rng.next() % 64;
            for _ in 0..n {
                std::hint::spin_loop();
            }
        }
        2 => {
            let n = rng.next() % 2000;
            for _ in 0..n {
                std::hint::spin_loop();
            }
        }
        _ => {}
    }
}

struct Ev {
    t: usize,
    k: usize,
    start: u64,
    end: u64,
    res: String,
}

/// what the worker threads of a case are handed for one repetition
struct Job {
    be: Arc<Be>,
    seed: u64,
    clock: Arc<AtomicU64>,
    panicked: Arc<AtomicBool>,
    /// start line: every worker increments it and spins until all have arrived, so that the
    /// threads really start together (a futex-based barrier wakes them one after the other)
    arrived: Arc<AtomicUsize>,
}

/// The worker threads of one case.  They are spawned ONCE per case and reused for all its
/// repetitions (spawning threads per repetition costs milliseconds here and was the bulk of a
/// repetition); every repetition still gets a fresh backend, a fresh logical clock and its own seed.
struct Workers {
    n: usize,
    jobs: Vec<mpsc::Sender<Option<Job>>>,
    results: mpsc::Receiver<Vec<Ev>>,
    handles: Vec<std::thread::JoinHandle<()>>,
}

impl Workers {
    fn spawn(threads: &[Vec<String>]) -> Workers {
        let n = threads.len();
        let (tx, results) = mpsc::channel::<Vec<Ev>>();
        let mut jobs = vec![];
        let mut handles = vec![];
        for (ti, ops) in threads.iter().enumerate() {
            let (jtx, jrx) = mpsc::channel::<Option<Job>>();
            jobs.push(jtx);
            let tx = tx.clone();
            let ops = ops.clone();
            handles.push(std::thread::spawn(move || {
                let _ = store::mk_pk(0); // warm the key pool before the first start line
                while let Ok(Some(job)) = jrx.recv() {
                    let mut rng = Rng(job.seed.wrapping_mul(0x9E3779B97F4A7C15).wrapping_add(ti as u64 * 7919 + 1) | 1);
                    let mut evs = vec![];
                    // start line
                    job.arrived.fetch_add(1, Ordering::SeqCst);
                    let mut spins = 0u32;
                    while job.arrived.load(Ordering::SeqCst) < n {
                        spins += 1;
                        if spins % 256 == 0 {
                            std::thread::yield_now();
                        } else {
                            std::hint::spin_loop();
                        }
                    }
                    for (k, l) in ops.iter().enumerate() {
                        let t: Vec<&str> = l.split_whitespace().collect();
                        pause(&mut rng, (ti as u64) % 3);
                        let start = job.clock.fetch_add(1, Ordering::SeqCst);
                        let r = catch_unwind(AssertUnwindSafe(|| match &*job.be {
                            Be::Mem(s) => exec_conc(s, &t),
                            Be::Sql(s, _) => exec_conc(s, &t),
                        }));
                        let end = job.clock.fetch_add(1, Ordering::SeqCst);
                        let res = match r {
                            Ok(s) => s,
                            Err(_) => {
                                job.panicked.store(true, Ordering::SeqCst);
                                "panic".into()
                            }
                        };
                        evs.push(Ev { t: ti, k, start, end, res });
                    }
                    drop(job);
                    if tx.send(evs).is_err() {
                        break;
                    }
                }
            }));
        }
        Workers { n, jobs, results, handles }
    }

    /// stop and join the workers (not called after a deadlock: the threads are leaked then)
    fn finish(self) {
        for j in &self.jobs {
            let _ = j.send(None);
        }
        for h in self.handles {
            let _ = h.join();
        }
    }
}

/// one repetition: returns (events, post results, final dump, status)
fn run_once(w: &Workers, kind: &str, seed: u64, setup: &[String], post: &[String]) -> (Vec<Ev>, Vec<String>, String, &'static str) {
    let be = Arc::new(store::new_backend(kind, true));
    for l in setup {
        let t: Vec<&str> = l.split_whitespace().collect();
        let _ = match &*be {
            Be::Mem(s) => exec_conc(s, &t),
            Be::Sql(s, _) => exec_conc(s, &t),
        };
    }
    let clock = Arc::new(AtomicU64::new(1));
    let panicked = Arc::new(AtomicBool::new(false));
    let arrived = Arc::new(AtomicUsize::new(0));
    for j in &w.jobs {
        let _ = j.send(Some(Job { be: be.clone(), seed, clock: clock.clone(), panicked: panicked.clone(), arrived: arrived.clone() }));
    }
    let mut evs = vec![];
    let mut done = 0;
    let deadline = std::time::Instant::now() + WATCHDOG;
    while done < w.n {
        let left = deadline.saturating_duration_since(std::time::Instant::now());
        match w.results.recv_timeout(left) {
            Ok(mut v) => {
                evs.append(&mut v);
                done += 1;
            }
            Err(_) => {
                // watchdog: some thread never finished — deadlock (or livelock); the threads are leaked
                evs.sort_by_key(|e| (e.t, e.k));
                return (evs, vec![], "-".into(), "deadlock");
            }
        }
    }
    evs.sort_by_key(|e| (e.t, e.k));
    let mut posts = vec![];
    for l in post {
        let t: Vec<&str> = l.split_whitespace().collect();
        let r = catch_unwind(AssertUnwindSafe(|| match &*be {
            Be::Mem(s) => exec_conc(s, &t),
            Be::Sql(s, _) => exec_conc(s, &t),
        }));
        posts.push(r.unwrap_or_else(|_| {
            panicked.store(true, Ordering::SeqCst);
            "panic".into()
        }));
    }
    let fin = catch_unwind(AssertUnwindSafe(|| match &*be {
        Be::Mem(s) => store::dump(s),
        Be::Sql(s, _) => store::dump(s),
    }))
    .unwrap_or_else(|_| "panic".into());
    let status = if panicked.load(Ordering::SeqCst) || fin == "panic" { "panic" } else { "ok" };
    (evs, posts, fin, status)
}

/// canonical signature of a repetition: results, final dump and the precedence relation
fn signature(evs: &[Ev], posts: &[String], fin: &str, status: &str) -> String {
    let mut s = String::new();
    for e in evs {
        s.push_str(&format!("{}.{}={}|", e.t, e.k, e.res));
    }
    for a in evs {
        for b in evs {
            if a.end < b.start {
                s.push_str(&format!("{}.{}<{}.{};", a.t, a.k, b.t, b.k));
            }
        }
    }
    for p in posts {
        s.push_str(p);
        s.push('|');
    }
    s.push_str(fin);
    s.push_str(status);
    s
}

pub fn main(_args: &[String]) -> i32 {
    std::panic::set_hook(Box::new(|_| {}));
    mdk_memory_storage::verif_hooks::set_snapshot_now(SNAP_CLOCK);
    mdk_sqlite_storage::verif_hooks::set_snapshot_now(SNAP_CLOCK as i64);
    let stdin = io::stdin();
    let out = io::stdout();
    let mut out = io::BufWriter::new(out.lock());
    let (mut id, mut kind, mut seed, mut repeat) = (String::new(), String::from("mem"), 1u64, 1u64);
    let mut setup: Vec<String> = vec![];
    let mut threads: Vec<Vec<String>> = vec![];
    let mut post: Vec<String> = vec![];
    for line in stdin.lock().lines() {
        let line = line.unwrap();
        let line = line.trim();
        if line.is_empty() || line.starts_with('#') {
            continue;
        }
        let (head, rest) = line.split_once(' ').unwrap_or((line, ""));
        match head {
            "case" => {
                let t: Vec<&str> = rest.split_whitespace().collect();
                id = t[0].to_string();
                kind = t[1].to_string();
                seed = t[2].parse().unwrap();
                repeat = t.get(3).map(|x| x.parse().unwrap()).unwrap_or(1);
                setup.clear();
                threads.clear();
                post.clear();
            }
            "setup" => setup.push(rest.to_string()),
            "post" => post.push(rest.to_string()),
            "thread" => {
                let (t, op) = rest.split_once(' ').unwrap();
                let t: usize = t.parse().unwrap();
                while threads.len() <= t {
                    threads.push(vec![]);
                }
                threads[t].push(op.to_string());
            }
            "run" => {
                let mut seen: HashMap<String, (u64, u64)> = HashMap::new();
                let workers = Workers::spawn(&threads);
                let mut deadlocked = false;
                for r in 0..repeat {
                    let (evs, posts, fin, status) = run_once(&workers, &kind, seed.wrapping_add(r.wrapping_mul(1_000_003)), &setup, &post);
                    let sig = signature(&evs, &posts, &fin, status);
                    if let Some(e) = seen.get_mut(&sig) {
                        e.1 += 1;
                        continue;
                    }
                    seen.insert(sig, (r, 1));
                    writeln!(out, "rep {id} {r}").unwrap();
                    for e in &evs {
                        writeln!(out, "ev {} {} {} {} {}", e.t, e.k, e.start, e.end, e.res).unwrap();
                    }
                    for (k, p) in posts.iter().enumerate() {
                        writeln!(out, "post {k} {p}").unwrap();
                    }
                    writeln!(out, "final {fin}").unwrap();
                    writeln!(out, "status {status}").unwrap();
                    if status == "deadlock" {
                        // leaked threads may still hold the backend: stop repeating this case
                        deadlocked = true;
                        break;
                    }
                }
                if !deadlocked {
                    workers.finish();
                }
                let mut v: Vec<(u64, u64)> = seen.values().cloned().collect();
                v.sort();
                for (r, n) in v {
                    writeln!(out, "same {id} {r} {n}").unwrap();
                }
                writeln!(out, "end {id}").unwrap();
                out.flush().unwrap();
            }
            _ => {
                writeln!(out, "bad-line {line}").unwrap();
            }
        }
    }
    out.flush().unwrap();
    0
}
