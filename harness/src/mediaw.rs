//! `mediaw` engine (property C17): media histories on top of `world::World` (real `MDK` instances).
//!
//! Every `world` command is passed through unchanged (client, kp, create, welcome, accept, selfupdate,
//! add, remove, leave, merge, deliver, restart …).  Added commands:
//!
//!   encrypt <c> <f> <size> <mime idx> <name idx>   `EncryptedMediaManager::encrypt_for_upload` of client c on a
//!        deterministic payload (a real PNG for image types) → `ok enc=<secret token> epoch=<e> mime=<hex> …`
//!   announce <c> <f>                               `create_message` with a kind-9 rumor carrying the imeta tag → `ev=<n>`
//!   tag <c> <f>                                    the epoch hint c has stored for f (`find_message_epoch_by_tag_content`)
//!   decrypt <c> <f> <tamper>                       `parse_imeta_tag` of the announced tag + `decrypt_from_download` at c
//!        (a client without a group uses the group id of client 0) →
//!        `ok:same | ok:DIFFERENT | err:<Kind>` followed by the environment the model needs:
//!        hint, the table of stored exporter secrets `K=<epoch>:<token>,…`, the current secret, the file's secret
//!        tamper: - | ct<bit> | trunc | extend | nonce<bit> | name | mime | hash<bit> | version | other<g> (reference of file g)
//!   gimage <1|2> <size> <sanitize 0|1> <tamper>    group image: v2 = `prepare_group_image_for_upload`, v1 = raw
//!        ChaCha20-Poly1305 under the key itself (what `decrypt_group_image` falls back to); `decrypt_group_image`
//!        tamper: - | ct<bit> (blob hash given) | ctnohash<bit> | nonce | key | hash | nohash
//!   setimage <c> <size>                            v2 upload, `update_group_data(image_*)` → `ev=<n>` (merge separately)
//!   getimage <c> <tamper>                          seed + nonce + hash from c's MLS group data → `decrypt_group_image`
//!
//! Output: `<result> | <fingerprint of the acting client (world.rs)>`; secrets are mapped to small tokens by
//! first occurrence.

use std::collections::HashMap;
use std::io::{self, BufRead, Write};
use std::panic::{AssertUnwindSafe, catch_unwind};

use mdk_core::MDK;
use mdk_core::encrypted_media::types::{EncryptedMediaError, EncryptedMediaUpload};
use mdk_core::extension::NostrGroupDataExtension;
use mdk_core::extension::group_image::{self, GroupImageError};
use mdk_core::groups::NostrGroupDataUpdate;
use mdk_core::media_processing::MediaProcessingOptions;
use mdk_storage_traits::groups::GroupStorage;
use mdk_storage_traits::{GroupId, MdkStorageProvider, Secret};
use nostr::{EventBuilder, Kind, Tag, Timestamp};
use openmls_traits::OpenMlsProvider;
use openmls_traits::crypto::OpenMlsCrypto;
use openmls_traits::types::AeadType;
use sha2::{Digest, Sha256};

use crate::world::{Mdk, World};

macro_rules! with_mdk {
    ($m:expr, |$s:ident| $e:expr) => {
        match $m {
            Mdk::Mem($s) => $e,
            Mdk::Sql($s) => $e,
        }
    };
}

fn u(s: &str) -> u64 {
    s.parse().unwrap_or_else(|_| panic!("nat expected: {s}"))
}

pub const MIMES: [&str; 12] = [
    "image/png", "text/plain", "application/pdf", "video/mp4", "audio/mpeg", "application/octet-stream", "video/webm",
    "TEXT/PLAIN", " text/plain ; charset=utf-8", "Application/PDF", "IMAGE/PNG", "audio/ogg;codecs=opus",
];
pub const NAMES: [&str; 8] = ["a.bin", "my file (1).dat", "ünï cödé.txt", ".hidden", "report-2026.pdf", "x", "clip.final.v2.mp4", "päivä 🦀.png"];

// ---- a PNG writer (stored deflate blocks), so that image payloads of any size are real images ----

fn crc32(data: &[u8]) -> u32 {
    let mut c = 0xFFFF_FFFFu32;
    for b in data {
        c ^= *b as u32;
        for _ in 0..8 {
            c = if c & 1 != 0 { (c >> 1) ^ 0xEDB8_8320 } else { c >> 1 };
        }
    }
    !c
}
fn chunk(out: &mut Vec<u8>, kind: &[u8; 4], body: &[u8]) {
    out.extend_from_slice(&(body.len() as u32).to_be_bytes());
    let mut t = kind.to_vec();
    t.extend_from_slice(body);
    out.extend_from_slice(&t);
    out.extend_from_slice(&crc32(&t).to_be_bytes());
}
pub fn make_png(w: u32, h: u32, seed: u64) -> Vec<u8> {
    let mut raw = Vec::with_capacity(((w * 3 + 1) * h) as usize);
    for y in 0..h {
        raw.push(0);
        for x in 0..w {
            let v = seed.wrapping_mul(31).wrapping_add((x as u64) * 7 + (y as u64) * 13);
            raw.extend_from_slice(&[(v % 251) as u8, (v / 3 % 241) as u8, (v / 7 % 239) as u8]);
        }
    }
    let mut z = vec![0x78, 0x01];
    let mut blocks = raw.chunks(65535).peekable();
    if blocks.peek().is_none() {
        z.extend_from_slice(&[1, 0, 0, 0xFF, 0xFF]);
    }
    while let Some(b) = blocks.next() {
        z.push(if blocks.peek().is_none() { 1 } else { 0 });
        z.extend_from_slice(&(b.len() as u16).to_le_bytes());
        z.extend_from_slice(&(!(b.len() as u16)).to_le_bytes());
        z.extend_from_slice(b);
    }
    let (mut a, mut bb) = (1u32, 0u32);
    for x in &raw {
        a = (a + *x as u32) % 65521;
        bb = (bb + a) % 65521;
    }
    z.extend_from_slice(&((bb << 16) | a).to_be_bytes());
    let mut out = vec![0x89, b'P', b'N', b'G', 0x0D, 0x0A, 0x1A, 0x0A];
    let mut ihdr = Vec::new();
    ihdr.extend_from_slice(&w.to_be_bytes());
    ihdr.extend_from_slice(&h.to_be_bytes());
    ihdr.extend_from_slice(&[8, 2, 0, 0, 0]);
    chunk(&mut out, b"IHDR", &ihdr);
    chunk(&mut out, b"IDAT", &z);
    chunk(&mut out, b"IEND", &[]);
    out
}
/// dimensions giving roughly `size` bytes of pixels
fn png_dims(size: u64) -> (u32, u32) {
    let px = (size / 3).max(1);
    let w = ((px as f64).sqrt() as u32).clamp(1, 2000);
    let h = ((px / w as u64) as u32).clamp(1, 2000);
    (w, h)
}
fn payload(f: u64, size: u64, mime: &str) -> Vec<u8> {
    if mime.trim().to_ascii_lowercase().starts_with("image/") {
        let (w, h) = png_dims(size);
        make_png(w, h, f)
    } else {
        (0..size).map(|i| ((f * 31 + i * 7 + i / 251) % 256) as u8).collect()
    }
}

struct FileRec {
    data: Vec<u8>,
    upload: EncryptedMediaUpload,
    tag: Tag,
    enc_tok: usize,
}

struct Img {
    blob: Vec<u8>,
    plain: Vec<u8>,
}

pub struct MediaWorld {
    w: World,
    files: HashMap<u64, FileRec>,
    secrets: HashMap<[u8; 32], usize>,
    max_epoch: u64,
    image: Option<Img>,
}

fn em_kind(e: &EncryptedMediaError) -> String {
    let d = format!("{e:?}");
    let v: String = d.chars().take_while(|c| c.is_alphanumeric()).collect();
    format!("err:{v}")
}
fn gi_kind(e: &GroupImageError) -> String {
    let d = format!("{e:?}");
    let v: String = d.chars().take_while(|c| c.is_alphanumeric()).collect();
    format!("err:{v}")
}
fn flip(b: &mut [u8], bit: u64) {
    if b.is_empty() {
        return;
    }
    let i = (bit / 8) as usize % b.len();
    b[i] ^= 1 << (bit % 8);
}

impl MediaWorld {
    fn new() -> Self {
        MediaWorld { w: World::new(), files: HashMap::new(), secrets: HashMap::new(), max_epoch: 0, image: None }
    }

    fn tok(&mut self, s: &[u8; 32]) -> usize {
        let n = self.secrets.len();
        *self.secrets.entry(*s).or_insert(n)
    }

    /// group id a client acts on: its own, or (non-member) the one of client 0
    fn gid_for(&self, c: usize) -> Option<GroupId> {
        self.w.clients[c].gid.clone().or_else(|| self.w.clients.first().and_then(|x| x.gid.clone()))
    }

    fn epoch_of<S: MdkStorageProvider>(m: &MDK<S>, gid: &GroupId) -> Option<u64> {
        m.load_mls_group(gid).ok().flatten().map(|g| g.epoch().as_u64())
    }

    /// `K=<epoch>:<token>,…` for epochs 0..=max_epoch+1
    fn table<S: MdkStorageProvider>(&mut self, m: &MDK<S>, gid: &GroupId) -> Vec<(u64, usize)> {
        let mut v = vec![];
        for e in 0..=self.max_epoch + 1 {
            if let Ok(Some(s)) = m.provider.storage().get_group_exporter_secret(gid, e) {
                let arr: [u8; 32] = *s.secret;
                v.push((e, self.tok(&arr)));
            }
        }
        v
    }

    fn encrypt(&mut self, t: &[&str]) -> String {
        let c = u(t[1]) as usize;
        let f = u(t[2]);
        let mime = MIMES[u(t[4]) as usize % MIMES.len()];
        let name = NAMES[u(t[5]) as usize % NAMES.len()];
        let data = payload(f, u(t[3]), mime);
        let gid = match self.gid_for(c) { Some(g) => g, None => return "err:NoGroup".into() };
        let mdk = self.w.clients[c].mdk.take().unwrap();
        let r = with_mdk!(&mdk, |m| {
            let mgr = m.media_manager(gid.clone());
            match mgr.encrypt_for_upload(&data, mime, name) {
                Err(e) => Err(em_kind(&e)),
                Ok(up) => {
                    let tag = mgr.create_imeta_tag(&up, &format!("https://blossom.example.com/{}", hex::encode(up.encrypted_hash)));
                    let ep = Self::epoch_of(m, &gid).unwrap_or(0);
                    self.max_epoch = self.max_epoch.max(ep);
                    let sec = m.provider.storage().get_group_exporter_secret(&gid, ep).ok().flatten().map(|s| *s.secret);
                    Ok((up, tag, ep, sec))
                }
            }
        });
        self.w.clients[c].mdk = Some(mdk);
        match r {
            Err(e) => e,
            Ok((up, tag, ep, sec)) => {
                let enc_tok = match sec { Some(s) => self.tok(&s), None => 9999 };
                let plain_ok = Sha256::digest(&data)[..] == up.original_hash[..];
                let out = format!(
                    "ok enc={} epoch={} hash={} mime={} esize={} osize={} dims={} rawhash={}",
                    enc_tok, ep, hex::encode(&up.original_hash[..6]), hex::encode(up.mime_type.as_bytes()), up.encrypted_size, up.original_size,
                    up.dimensions.map(|(w, h)| format!("{w}x{h}")).unwrap_or("-".into()), plain_ok as u8
                );
                self.files.insert(f, FileRec { data, upload: up, tag, enc_tok });
                out
            }
        }
    }

    fn announce(&mut self, t: &[&str]) -> String {
        let c = u(t[1]) as usize;
        let f = u(t[2]);
        let tag = match self.files.get(&f) { Some(r) => r.tag.clone(), None => return "err:NoFile".into() };
        let gid = match self.w.clients[c].gid.clone() { Some(g) => g, None => return "err:NoGroup".into() };
        let pk = self.w.clients[c].keys.public_key();
        let mut rumor = EventBuilder::new(Kind::Custom(9), format!("msg{}", 1000 + f))
            .tag(tag)
            .custom_created_at(Timestamp::from(self.w.t0 + 100 + f))
            .build(pk);
        rumor.ensure_id();
        let mdk = self.w.clients[c].mdk.take().unwrap();
        let r = with_mdk!(&mdk, |m| m.create_message(&gid, rumor));
        self.w.clients[c].mdk = Some(mdk);
        match r {
            Ok(ev) => {
                self.w.events.push(ev);
                format!("ev={}", self.w.events.len() - 1)
            }
            Err(e) => format!("err:{}", format!("{e:?}").chars().take_while(|c| c.is_alphanumeric()).collect::<String>()),
        }
    }

    fn hint_of<S: MdkStorageProvider>(m: &MDK<S>, gid: &GroupId, hash: &[u8; 32]) -> Option<u64> {
        m.provider.storage().find_message_epoch_by_tag_content(gid, &format!("x {}", hex::encode(hash))).ok().flatten()
    }

    fn tag(&mut self, t: &[&str]) -> String {
        let c = u(t[1]) as usize;
        let hash = match self.files.get(&u(t[2])) { Some(r) => r.upload.original_hash, None => return "err:NoFile".into() };
        let gid = match self.gid_for(c) { Some(g) => g, None => return "tag=-".into() };
        let mdk = self.w.clients[c].mdk.take().unwrap();
        let h = with_mdk!(&mdk, |m| Self::hint_of(m, &gid, &hash));
        self.w.clients[c].mdk = Some(mdk);
        format!("tag={}", h.map(|e| e.to_string()).unwrap_or("-".into()))
    }

    fn decrypt(&mut self, t: &[&str]) -> String {
        let c = u(t[1]) as usize;
        let f = u(t[2]);
        let tamper = t[3];
        let (mut blob, tag, data, enc_tok, hash) = match self.files.get(&f) {
            Some(r) => (r.upload.encrypted_data.clone(), r.tag.clone(), r.data.clone(), r.enc_tok, r.upload.original_hash),
            None => return "err:NoFile".into(),
        };
        let other = tamper.strip_prefix("other").map(|g| u(g)).and_then(|g| self.files.get(&g).map(|r| r.tag.clone()));
        let gid = match self.gid_for(c) { Some(g) => g, None => return "err:NoGroup".into() };
        let mdk = self.w.clients[c].mdk.take().unwrap();
        let out = with_mdk!(&mdk, |m| {
            let mgr = m.media_manager(gid.clone());
            let mut reference = match mgr.parse_imeta_tag(other.as_ref().unwrap_or(&tag)) {
                Ok(r) => r,
                Err(e) => return_parse(e),
            };
            if let Some(b) = tamper.strip_prefix("ct") { flip(&mut blob, u(b)); }
            if tamper == "trunc" { blob.pop(); }
            if tamper == "extend" { blob.push(0); }
            if let Some(b) = tamper.strip_prefix("nonce") { flip(&mut reference.nonce, u(b)); }
            if let Some(b) = tamper.strip_prefix("hash") { flip(&mut reference.original_hash, u(b)); }
            if tamper == "name" { reference.filename.push('x'); }
            if tamper == "mime" { reference.mime_type = if reference.mime_type == "text/plain" { "application/pdf".into() } else { "text/plain".into() }; }
            if tamper == "version" { reference.scheme_version = "mip04-v1".into(); }
            let ep = Self::epoch_of(m, &gid);
            if let Some(e) = ep { self.max_epoch = self.max_epoch.max(e); }
            let hint = Self::hint_of(m, &gid, &reference.original_hash);
            let before = self.table(m, &gid);
            let r = mgr.decrypt_from_download(&blob, &reference);
            // the current state's exporter secret (stored by the fallback; otherwise store it now — a `touch`)
            let mut cur = None;
            if let Some(e) = ep {
                if m.provider.storage().get_group_exporter_secret(&gid, e).ok().flatten().is_none() {
                    let _ = mdk_core::encrypted_media::crypto::derive_encryption_key(m, &gid, "mip04-v2", &hash, "text/plain", "probe");
                }
                cur = m.provider.storage().get_group_exporter_secret(&gid, e).ok().flatten().map(|s| *s.secret);
            }
            let cur_tok = cur.map(|s| self.tok(&s).to_string()).unwrap_or("-".into());
            let res = match r {
                Ok(p) if p == data => "ok:same".to_string(),
                Ok(p) if Sha256::digest(&p)[..] == hash[..] => "ok:same".to_string(), // sanitised image: equal to what was encrypted
                Ok(_) => "ok:DIFFERENT".to_string(),
                Err(e) => em_kind(&e),
            };
            format!(
                "{} hint={} K={} cur={} enc={} epoch={}",
                res,
                hint.map(|e| e.to_string()).unwrap_or("-".into()),
                if before.is_empty() { "-".to_string() } else { before.iter().map(|(e, k)| format!("{e}:{k}")).collect::<Vec<_>>().join(",") },
                cur_tok,
                enc_tok,
                ep.map(|e| e.to_string()).unwrap_or("-".into())
            )
        });
        self.w.clients[c].mdk = Some(mdk);
        out
    }

    fn gimage(&mut self, t: &[&str]) -> String {
        let version = u(t[1]);
        let size = u(t[2]);
        let sanitize = t[3] == "1";
        let tamper = t[4];
        let (w, h) = png_dims(size);
        let png = make_png(w, h, size);
        let (mut blob, plain, mut key, mut nonce, extra): (Vec<u8>, Option<Vec<u8>>, [u8; 32], [u8; 12], String) = if version == 2 {
            let opts = MediaProcessingOptions { sanitize_exif: sanitize, ..Default::default() };
            match group_image::prepare_group_image_for_upload_with_options(&png, " IMAGE/PNG ", &opts) {
                Err(e) => return gi_kind(&e),
                Ok(up) => {
                    let again = group_image::derive_upload_keypair(&up.image_upload_key, 2).map(|k| k.public_key() == up.upload_keypair.public_key()).unwrap_or(false);
                    let v1kp = group_image::derive_upload_keypair(&up.image_upload_key, 1).map(|k| k.public_key() != up.upload_keypair.public_key()).unwrap_or(false);
                    let hash_ok = Sha256::digest(&up.encrypted_data[..])[..] == up.encrypted_hash[..];
                    let dims_ok = up.dimensions == Some((w, h));
                    (up.encrypted_data.to_vec(), if sanitize { None } else { Some(png.clone()) }, *up.image_key, *up.image_nonce,
                     format!(" kp={} v1kp={} bh={} dims={} mime={}", again as u8, v1kp as u8, hash_ok as u8, dims_ok as u8, up.mime_type))
                }
            }
        } else {
            let mut k = [0u8; 32];
            let mut n = [0u8; 12];
            for (i, b) in k.iter_mut().enumerate() { *b = (size as u8).wrapping_mul(17).wrapping_add(i as u8 * 3 + 1); }
            for (i, b) in n.iter_mut().enumerate() { *b = (size as u8).wrapping_add(i as u8 * 5 + 2); }
            let crypto = openmls_rust_crypto::RustCrypto::default();
            let ct = crypto.aead_encrypt(AeadType::ChaCha20Poly1305, &k, &png, &n, &[]).unwrap();
            (ct, Some(png.clone()), k, n, String::new())
        };
        let mut expected: Option<[u8; 32]> = Some(Sha256::digest(&blob).into());
        if let Some(b) = tamper.strip_prefix("ctnohash") { flip(&mut blob, u(b)); expected = None; }
        else if let Some(b) = tamper.strip_prefix("ct") { flip(&mut blob, u(b)); }
        match tamper {
            "nonce" => nonce[3] ^= 4,
            "key" => key[7] ^= 1,
            "hash" => { let mut e = expected.unwrap(); e[0] ^= 1; expected = Some(e); }
            "nohash" => expected = None,
            _ => {}
        }
        let r = group_image::decrypt_group_image(&blob, expected.as_ref(), &Secret::new(key), &Secret::new(nonce));
        let res = match r {
            Ok(p) => match &plain {
                Some(x) if *x == p => "ok:same".to_string(),
                Some(_) => "ok:DIFFERENT".to_string(),
                None => if p.len() > 24 && p[16..24] == [w.to_be_bytes(), h.to_be_bytes()].concat()[..] { "ok:same".to_string() } else { "ok:DIFFERENT".to_string() },
            },
            Err(e) => gi_kind(&e),
        };
        format!("{res} |{extra}")
    }

    fn setimage(&mut self, t: &[&str]) -> String {
        let c = u(t[1]) as usize;
        let (w, h) = png_dims(u(t[2]));
        let png = make_png(w, h, u(t[2]) + 5);
        let opts = MediaProcessingOptions { sanitize_exif: false, ..Default::default() };
        let up = match group_image::prepare_group_image_for_upload_with_options(&png, "image/png", &opts) {
            Ok(u) => u,
            Err(e) => return gi_kind(&e),
        };
        let gid = match self.w.clients[c].gid.clone() { Some(g) => g, None => return "err:NoGroup".into() };
        let upd = NostrGroupDataUpdate {
            image_hash: Some(Some(up.encrypted_hash)),
            image_key: Some(Some(*up.image_key)),
            image_nonce: Some(Some(*up.image_nonce)),
            image_upload_key: Some(Some(*up.image_upload_key)),
            ..Default::default()
        };
        let mdk = self.w.clients[c].mdk.take().unwrap();
        let r = with_mdk!(&mdk, |m| m.update_group_data(&gid, upd));
        self.w.clients[c].mdk = Some(mdk);
        match r {
            Ok(res) => {
                self.image = Some(Img { blob: up.encrypted_data.to_vec(), plain: png });
                self.w.events.push(res.evolution_event);
                format!("ev={}", self.w.events.len() - 1)
            }
            Err(e) => format!("err:{}", format!("{e:?}").chars().take_while(|c| c.is_alphanumeric()).collect::<String>()),
        }
    }

    fn getimage(&mut self, t: &[&str]) -> String {
        let c = u(t[1]) as usize;
        let tamper = t[2];
        let (mut blob, plain) = match &self.image { Some(i) => (i.blob.clone(), i.plain.clone()), None => return "err:NoImage".into() };
        let gid = match self.w.clients[c].gid.clone() { Some(g) => g, None => return "err:NoGroup".into() };
        let mdk = self.w.clients[c].mdk.take().unwrap();
        let info = with_mdk!(&mdk, |m| m.load_mls_group(&gid).ok().flatten().and_then(|g| NostrGroupDataExtension::from_group(&g).ok()).and_then(|d| d.group_image_encryption_data()));
        self.w.clients[c].mdk = Some(mdk);
        let info = match info { Some(i) => i, None => return "noimage".into() };
        if let Some(b) = tamper.strip_prefix("ct") { flip(&mut blob, u(b)); }
        match group_image::decrypt_group_image(&blob, Some(&info.image_hash), &info.image_key, &info.image_nonce) {
            Ok(p) if p == plain => format!("ok:same v={} up={}", info.version, info.image_upload_key.is_some() as u8),
            Ok(_) => "ok:DIFFERENT".into(),
            Err(e) => gi_kind(&e),
        }
    }

    fn exec(&mut self, t: &[&str]) -> String {
        match t[0] {
            "encrypt" => self.encrypt(t),
            "announce" => self.announce(t),
            "tag" => self.tag(t),
            "decrypt" => self.decrypt(t),
            "gimage" => self.gimage(t),
            "setimage" => self.setimage(t),
            "getimage" => self.getimage(t),
            _ => self.w.exec(t),
        }
    }
}

fn return_parse(e: EncryptedMediaError) -> ! {
    panic!("imeta tag written by create_imeta_tag does not parse: {e:?}")
}

pub fn main(_args: &[String]) -> i32 {
    std::panic::set_hook(Box::new(|_| {}));
    let stdin = io::stdin();
    let out = io::stdout();
    let mut out = out.lock();
    let mut mw = MediaWorld::new();
    for line in stdin.lock().lines() {
        let line = line.unwrap();
        let t: Vec<&str> = line.split_whitespace().collect();
        if t.is_empty() || t[0].starts_with('#') {
            continue;
        }
        if t[0] == "world" {
            mw = MediaWorld::new();
            writeln!(out, "ok | -").unwrap();
            out.flush().unwrap();
            continue;
        }
        let res = catch_unwind(AssertUnwindSafe(|| mw.exec(&t))).unwrap_or_else(|_| "panic".into());
        let fp = if t[0] == "gimage" || t.len() < 2 {
            "-".to_string()
        } else {
            match t[1].parse::<usize>() {
                Ok(ci) if ci < mw.w.clients.len() && mw.w.clients[ci].mdk.is_some() && !matches!(t[0], "rewrap" | "retag") => {
                    catch_unwind(AssertUnwindSafe(|| mw.w.fingerprint(ci))).unwrap_or_else(|_| "fp-panic".into())
                }
                _ => "-".to_string(),
            }
        };
        if res.contains(" | ") || res.ends_with(" |") {
            writeln!(out, "{res}").unwrap();
        } else {
            writeln!(out, "{res} | {fp}").unwrap();
        }
        out.flush().unwrap();
    }
    0
}
