//! `crashw` engine (C12, mdk-core level): simulated process death at every storage tick INSIDE the API
//! calls of mdk-core — create_group, create_message, self_update / add_members, merge_pending_commit,
//! process_message (application / proposal / commit / commit-with-rollback), process_welcome,
//! accept_welcome, create_key_package — on a victim client whose store is a SQLite file.
//!
//! A case is a scripted multi-client history in `world.rs` commands.  Procedure:
//!  (1) BASE run: the script is executed once; before every call of the victim its database file is
//!      copied (checkpoint), the call runs with `verif_hooks::arm(0, true)` and its tick count, tick
//!      labels, result and the victim's fingerprint before / after are recorded.
//!  (2) for every victim call i and every (or every sampled) tick k of it: the checkpoint is copied, a
//!      fresh MDK is opened on the copy (the other clients are untouched), `arm(k, false)`, the call runs
//!      under catch_unwind (the k-th tick panics = the process dies before that storage operation), the
//!      MDK is dropped (abandoned connection), the file is REOPENED, and then
//!      (a) every group must load: get_groups, load_mls_group, get_messages, get_members, get_relays;
//!      (b) recovery: a REMOTE call (deliver / welcome / accept) is re-issued; a LOCAL call (send, create,
//!          selfupdate, add, merge, …) is re-issued only if the store is exactly in its pre-state (that is
//!          the application's retry); then the victim's later calls up to its next local call are replayed
//!          and the fingerprint at that boundary is compared with the base run's.
//!
//! Input:   case <id> <victim> <max crash points per call, 0 = all> [<max points per in-memory-dependent call>] / cmd <world command> … / run
//! Output:  base <i> <ticks> <kind> <cmd…> => <result>
//!          crash <i> <k> label=<l> kind=<remote|local> loads=<0|1> state=<pre|post|other> mid=<projection>
//!                pre=<projection> post=<projection> retry=<result|-> later=<ok|results…> final=<same|diff|n/a>
//!          end <id>
//! projection = recE/mlsE/secrets/pm/snaps/pending/msgs of the victim's group.

use std::io::{self, BufRead, Write};
use std::panic::{AssertUnwindSafe, catch_unwind};
use std::path::{Path, PathBuf};

use mdk_core::MDK;
use mdk_sqlite_storage::MdkSqliteStorage;
use mdk_sqlite_storage::verif_hooks as hooks;
use mdk_storage_traits::groups::GroupStorage;
use mdk_storage_traits::messages::MessageStorage;
use mdk_storage_traits::messages::types::ProcessedMessageState;
use mdk_storage_traits::MdkStorageProvider;
use openmls_traits::OpenMlsProvider;

use crate::store::scratch_dir;
use crate::world::{Mdk, World};

fn is_local(cmd: &str) -> bool {
    matches!(cmd, "kp" | "create" | "send" | "selfupdate" | "add" | "remove" | "leave" | "data" | "merge" | "clear")
}
fn is_remote(cmd: &str) -> bool {
    matches!(cmd, "welcome" | "accept" | "deliver")
}

fn open_victim(w: &World, v: usize, path: &Path) -> Option<Mdk> {
    let cfg = w.clients[v].cfg.clone();
    match catch_unwind(AssertUnwindSafe(|| MdkSqliteStorage::new_unencrypted(path))) {
        Ok(Ok(s)) => Some(Mdk::Sql(MDK::builder(s).with_config(cfg).build())),
        _ => None,
    }
}

fn copy_db(from: &Path, to: &Path) {
    std::fs::copy(from, to).unwrap();
    for ext in ["-journal", "-wal", "-shm"] {
        let mut a = from.as_os_str().to_owned();
        a.push(ext);
        let mut b = to.as_os_str().to_owned();
        b.push(ext);
        let _ = std::fs::remove_file(PathBuf::from(&b));
        if Path::new(&a).exists() {
            let _ = std::fs::copy(PathBuf::from(a), PathBuf::from(b));
        }
    }
}

/// Content digest of every storage UNIT of the SQLite file at `path`, read through a second, read-only connection:
/// one unit per table, `openmls_group_data` split by its `data_type` column (tree, context, message_secrets,
/// group_state, …).  `unit:hash8` joined by `;` — equal strings = equal durable content.  Comparing the digests
/// of consecutive crash points tells WHICH units each storage operation of a call changed, in order: the
/// observed write sequence that `vlib/c12seq.py` compares with the translated `Generated.writeSeq`.
fn table_digest(path: &Path) -> String {
    use sha2::{Digest, Sha256};
    let run = || -> rusqlite::Result<String> {
        let conn = rusqlite::Connection::open_with_flags(path, rusqlite::OpenFlags::SQLITE_OPEN_READ_ONLY)?;
        let mut names: Vec<String> = vec![];
        {
            let mut st = conn.prepare("SELECT name FROM sqlite_master WHERE type='table' AND name NOT LIKE 'sqlite_%' AND name NOT LIKE 'refinery%' ORDER BY name")?;
            let rows = st.query_map([], |r| r.get::<_, String>(0))?;
            for r in rows {
                names.push(r?);
            }
        }
        let mut units: std::collections::BTreeMap<String, Vec<[u8; 32]>> = Default::default();
        for t in &names {
            let mut st = conn.prepare(&format!("SELECT * FROM \"{t}\""))?;
            let ncol = st.column_count();
            let type_col = if t == "openmls_group_data" { st.column_index("data_type").ok() } else { None };
            let mut rows = st.query([])?;
            units.entry(t.clone()).or_default();
            while let Some(row) = rows.next()? {
                let mut h = Sha256::new();
                let mut unit = t.clone();
                for c in 0..ncol {
                    match row.get_ref(c)? {
                        rusqlite::types::ValueRef::Null => h.update([0u8]),
                        rusqlite::types::ValueRef::Integer(i) => {
                            h.update([1u8]);
                            h.update(i.to_le_bytes());
                        }
                        rusqlite::types::ValueRef::Real(f) => {
                            h.update([2u8]);
                            h.update(f.to_le_bytes());
                        }
                        rusqlite::types::ValueRef::Text(b) => {
                            h.update([3u8]);
                            h.update((b.len() as u64).to_le_bytes());
                            h.update(b);
                            if Some(c) == type_col {
                                unit = format!("omls:{}", String::from_utf8_lossy(b));
                            }
                        }
                        rusqlite::types::ValueRef::Blob(b) => {
                            h.update([4u8]);
                            h.update((b.len() as u64).to_le_bytes());
                            h.update(b);
                        }
                    }
                }
                units.entry(unit).or_default().push(h.finalize().into());
            }
        }
        units.remove("openmls_group_data");
        let mut parts = vec![];
        for (u, mut hs) in units {
            if hs.is_empty() {
                continue;
            }
            hs.sort();
            let mut h = Sha256::new();
            for x in &hs {
                h.update(x);
            }
            let d: [u8; 32] = h.finalize().into();
            parts.push(format!("{u}:{}", hex::encode(&d[..4])));
        }
        Ok(if parts.is_empty() { "-".into() } else { parts.join(";") })
    };
    run().unwrap_or_else(|_| "unreadable".into())
}

/// (a) every group loads + the projection used to classify a torn state
fn inspect(w: &mut World, v: usize, ev: Option<usize>) -> (bool, String) {
    let evid = ev.and_then(|e| w.events.get(e)).map(|e| e.id);
    let Some(Mdk::Sql(m)) = w.clients[v].mdk.as_ref() else { return (false, "nomdk".into()) };
    let r = catch_unwind(AssertUnwindSafe(|| {
        let groups = match m.get_groups() {
            Ok(g) => g,
            Err(_) => return (false, "get_groups-err".to_string()),
        };
        let mut ok = true;
        let mut parts = vec![];
        for g in &groups {
            let gid = &g.mls_group_id;
            let mls = m.load_mls_group(gid);
            let (mls_e, pending) = match &mls {
                Ok(Some(x)) => (x.epoch().as_u64() as i64, x.pending_commit().is_some()),
                Ok(None) => (-1, false),
                Err(_) => {
                    ok = false;
                    (-2, false)
                }
            };
            let nmsgs = match m.get_messages(gid, None) {
                Ok(l) => l.len() as i64,
                Err(_) => {
                    ok = false;
                    -1
                }
            };
            if mls_e >= 0 && m.get_members(gid).is_err() {
                ok = false;
            }
            if m.get_relays(gid).is_err() {
                ok = false;
            }
            let storage = m.provider.storage();
            let top = (g.epoch as i64).max(mls_e).max(0) as u64 + 1;
            let secrets: Vec<String> = (0..=top).filter(|e| matches!(storage.get_group_exporter_secret(gid, *e), Ok(Some(_)))).map(|e| e.to_string()).collect();
            let snaps = storage.list_group_snapshots(gid).map(|l| l.len() as i64).unwrap_or(-1);
            parts.push(format!("recE{}/mlsE{}/sec[{}]/snaps{}/pend{}/msgs{}", g.epoch, mls_e, secrets.join("."), snaps, pending as u8, nmsgs));
        }
        let pm = match evid {
            None => "-".to_string(),
            Some(id) => match m.provider.storage().find_processed_message_by_event_id(&id) {
                Ok(Some(r)) => match r.state {
                    ProcessedMessageState::Created => "c",
                    ProcessedMessageState::Processed => "p",
                    ProcessedMessageState::ProcessedCommit => "k",
                    ProcessedMessageState::Failed => "f",
                    ProcessedMessageState::EpochInvalidated => "x",
                    ProcessedMessageState::Retryable => "r",
                }
                .to_string(),
                Ok(None) => "none".into(),
                Err(_) => "err".into(),
            },
        };
        (ok, format!("{}/pm:{pm}", if parts.is_empty() { "nogroup".to_string() } else { parts.join("+") }))
    }));
    r.unwrap_or((false, "inspect-panic".into()))
}

struct BaseCall {
    idx: usize, // index into the script
    ticks: u64,
    labels: Vec<String>,
    result: String,
    fp_pre: String,
    fp_post: String,
    proj_pre: String,
    proj_post: String,
    ckpt: PathBuf,
    restart_differs: bool,
    gid_pre: Option<mdk_storage_traits::GroupId>,
}

fn result_head(s: &str) -> String {
    // the comparable part of a world result (no event numbers / ids)
    s.split_whitespace().next().unwrap_or("").split(':').next().unwrap_or("").split('=').next().unwrap_or("").to_string()
}

/// does the victim's MLS state (epoch authenticator) equal client 0's (resp. client 1's when the victim is 0)?
fn agrees(w: &mut World, v: usize) -> u8 {
    let other = if v == 0 { 1 } else { 0 };
    let auth = |w: &World, i: usize| -> Option<Vec<u8>> {
        let gid = w.clients[i].gid.clone()?;
        match w.clients[i].mdk.as_ref()? {
            Mdk::Sql(m) => m.load_mls_group(&gid).ok().flatten().map(|g| g.epoch_authenticator().as_slice().to_vec()),
            Mdk::Mem(m) => m.load_mls_group(&gid).ok().flatten().map(|g| g.epoch_authenticator().as_slice().to_vec()),
        }
    };
    let (a, b) = (catch_unwind(AssertUnwindSafe(|| auth(w, v))).unwrap_or(None), catch_unwind(AssertUnwindSafe(|| auth(w, other))).unwrap_or(None));
    (a.is_some() && a == b) as u8
}

fn ev_of(cmd: &[String]) -> Option<usize> {
    if cmd[0] == "deliver" { cmd.get(2).and_then(|x| x.parse().ok()) } else { None }
}

pub fn run_case(id: &str, victim: usize, maxk: u64, memk: u64, script: &[Vec<String>], out: &mut dyn Write) {
    let dir = tempfile::Builder::new().prefix("vh-crashw").tempdir_in(scratch_dir()).unwrap();
    let mut w = World::new();
    let mut base: Vec<BaseCall> = vec![];
    // (1) base run
    for (idx, cmd) in script.iter().enumerate() {
        let t: Vec<&str> = cmd.iter().map(|s| s.as_str()).collect();
        let acting = t.get(1).and_then(|x| x.parse::<usize>().ok());
        let is_victim_call = acting == Some(victim) && (is_local(t[0]) || is_remote(t[0])) && w.clients.len() > victim;
        if !is_victim_call {
            let _ = catch_unwind(AssertUnwindSafe(|| w.exec(&t)));
            continue;
        }
        let path = w.clients[victim].sql_path.clone().expect("victim must be a sql client");
        let ckpt = dir.path().join(format!("ckpt{idx}.sqlite"));
        copy_db(&path, &ckpt);
        let fp_pre = w.fingerprint(victim);
        let gid_pre = w.clients[victim].gid.clone();
        let (_, proj_pre) = inspect(&mut w, victim, ev_of(cmd));
        let tabs_pre = table_digest(&path);
        hooks::arm(0, true);
        let result = catch_unwind(AssertUnwindSafe(|| w.exec(&t))).unwrap_or_else(|_| "panic".into());
        let ticks = hooks::ticks();
        let labels = hooks::labels();
        hooks::arm(0, false);
        let fp_post = w.fingerprint(victim);
        let (_, proj_post) = inspect(&mut w, victim, ev_of(cmd));
        let tabs_post = table_digest(&path);
        let mut lab: Vec<(String, usize)> = vec![];
        for l in &labels {
            match lab.last_mut() {
                Some((x, n)) if x == l => *n += 1,
                _ => lab.push((l.clone(), 1)),
            }
        }
        writeln!(
            out,
            "base {} {ticks} {} labels={} cmd={} => {} pre={proj_pre} post={proj_post} tabspre={tabs_pre} tabspost={tabs_post}",
            base.len(),
            if is_local(t[0]) { "local" } else { "remote" },
            if lab.is_empty() { "-".into() } else { lab.iter().map(|(l, n)| format!("{l}*{n}")).collect::<Vec<_>>().join(",") },
            cmd.join("_"),
            result_head(&result)
        )
        .unwrap();
        base.push(BaseCall { idx, ticks, labels, result, fp_pre, fp_post, proj_pre, proj_post, ckpt, restart_differs: false, gid_pre });
    }
    let fp_final = w.fingerprint(victim);
    let (_, proj_final) = inspect(&mut w, victim, None);
    let agree_final = agrees(&mut w, victim);
    writeln!(out, "basefinal proj={proj_final} agree={agree_final}").unwrap();
    let base_mdk = w.clients[victim].mdk.take();
    let base_path = w.clients[victim].sql_path.clone();
    let base_gid = w.clients[victim].gid.clone();

    // (2) crash points
    let work = dir.path().join("work.sqlite");
    let mut differs: Vec<usize> = vec![];
    for (bi, b) in base.iter().enumerate() {
        let cmd = &script[b.idx];
        let t: Vec<&str> = cmd.iter().map(|s| s.as_str()).collect();
        let local = is_local(t[0]);
        // sampled tick indices
        let ks: Vec<u64> = if maxk == 0 || b.ticks <= maxk {
            (1..=b.ticks).collect()
        } else {
            let mut v: Vec<u64> = (0..maxk).map(|j| 1 + j * (b.ticks - 1) / (maxk - 1)).collect();
            v.dedup();
            v
        };
        // where the comparison happens: the victim's next local call (exclusive) or the end
        let boundary = base.iter().skip(bi + 1).find(|x| is_local(&script[x.idx][0])).map(|x| (x.idx, x.fp_pre.clone()));
        let (upto, target) = match boundary {
            Some((i, fp)) => (i, fp),
            None => (script.len(), fp_final.clone()),
        };
        // control: a clean restart (no crash) right before the call, then the call and the later events —
        // separates what a mere restart changes (property C11) from what the crash point changes
        {
            copy_db(&b.ckpt, &work);
            w.clients[victim].sql_path = Some(work.clone());
            w.clients[victim].gid = b.gid_pre.clone();
            w.clients[victim].mdk = open_victim(&w, victim, &work);
            let full = catch_unwind(AssertUnwindSafe(|| w.exec(&t))).unwrap_or_else(|_| "panic".into());
            if std::env::var("CRASHW_DEBUG").is_ok() {
                writeln!(out, "debug {bi} result {full}").unwrap();
            }
            let r = result_head(&full);
            let mut later_ok = true;
            for (j, c2) in script.iter().enumerate().take(upto).skip(b.idx + 1) {
                let t2: Vec<&str> = c2.iter().map(|s| s.as_str()).collect();
                if t2.get(1).and_then(|x| x.parse::<usize>().ok()) != Some(victim) || !is_remote(t2[0]) {
                    continue;
                }
                let r2 = result_head(&catch_unwind(AssertUnwindSafe(|| w.exec(&t2))).unwrap_or_else(|_| "panic".into()));
                if base.iter().find(|x| x.idx == j).map(|x| result_head(&x.result)).unwrap_or_default() != r2 {
                    later_ok = false;
                }
            }
            let fp_end = catch_unwind(AssertUnwindSafe(|| w.fingerprint(victim))).unwrap_or_else(|_| "fp-panic".into());
            let (_, endp) = inspect(&mut w, victim, ev_of(cmd));
            writeln!(out, "restart {bi} result={r} expected={} later={} final={} end={endp}", result_head(&b.result), if later_ok { "ok" } else { "differs" },
                if local { "n/a" } else if fp_end == target { "same" } else { "diff" }).unwrap();
            if std::env::var("CRASHW_DEBUG").is_ok() {
                writeln!(out, "debug {bi} got  {fp_end}").unwrap();
                writeln!(out, "debug {bi} want {target}").unwrap();
            }
            if r != result_head(&b.result) {
                differs.push(bi);
            }
        }
        // second control: the call completes, THEN a clean restart, then the later events — what a death after
        // the call's last write can at best look like (a restart alone changes how a competing commit is judged)
        if !local {
            copy_db(&b.ckpt, &work);
            w.clients[victim].sql_path = Some(work.clone());
            w.clients[victim].gid = b.gid_pre.clone();
            w.clients[victim].mdk = open_victim(&w, victim, &work);
            let _ = catch_unwind(AssertUnwindSafe(|| w.exec(&t)));
            w.clients[victim].mdk = None;
            w.clients[victim].mdk = open_victim(&w, victim, &work);
            let mut later_ok = true;
            for (j, c2) in script.iter().enumerate().take(upto).skip(b.idx + 1) {
                let t2: Vec<&str> = c2.iter().map(|s| s.as_str()).collect();
                if t2.get(1).and_then(|x| x.parse::<usize>().ok()) != Some(victim) || !is_remote(t2[0]) {
                    continue;
                }
                let r2 = result_head(&catch_unwind(AssertUnwindSafe(|| w.exec(&t2))).unwrap_or_else(|_| "panic".into()));
                if base.iter().find(|x| x.idx == j).map(|x| result_head(&x.result)).unwrap_or_default() != r2 {
                    later_ok = false;
                }
            }
            let fp_end = catch_unwind(AssertUnwindSafe(|| w.fingerprint(victim))).unwrap_or_else(|_| "fp-panic".into());
            writeln!(out, "restartafter {bi} later={} final={}", if later_ok { "ok" } else { "differs" }, if fp_end == target { "same" } else { "diff" }).unwrap();
        }
        for k in ks {
            copy_db(&b.ckpt, &work);
            w.clients[victim].sql_path = Some(work.clone());
            w.clients[victim].gid = b.gid_pre.clone();
            w.clients[victim].mdk = open_victim(&w, victim, &work);
            hooks::arm(k, false);
            let r = catch_unwind(AssertUnwindSafe(|| w.exec(&t)));
            hooks::arm(0, false);
            let panicked = r.is_err();
            // the process is dead: whatever is left of the MDK is dropped, the file is reopened
            w.clients[victim].mdk = None;
            w.clients[victim].mdk = open_victim(&w, victim, &work);
            let label = b.labels.get(k as usize - 1).cloned().unwrap_or_else(|| "?".into());
            if w.clients[victim].mdk.is_none() {
                writeln!(out, "crash {bi} {k} label={label} kind={} panicked={} loads=0 state=other mid=unopenable retry=- later=- final=diff", if local { "local" } else { "remote" }, panicked as u8).unwrap();
                continue;
            }
            let (loads, mid) = inspect(&mut w, victim, ev_of(cmd));
            let tabs = table_digest(&work);
            let fp_mid = catch_unwind(AssertUnwindSafe(|| w.fingerprint(victim))).unwrap_or_else(|_| "fp-panic".into());
            let state = match (fp_mid == b.fp_pre, fp_mid == b.fp_post) {
                (true, true) => "prepost",
                (true, false) => "pre",
                (false, true) => "post",
                _ => "other",
            };
            // (b) recovery
            let mut retry = "-".to_string();
            if !local || state == "pre" {
                retry = result_head(&catch_unwind(AssertUnwindSafe(|| w.exec(&t))).unwrap_or_else(|_| "panic".into()));
            }
            let mut later: Vec<String> = vec![];
            let mut later_ok = true;
            for (j, c2) in script.iter().enumerate().take(upto).skip(b.idx + 1) {
                let t2: Vec<&str> = c2.iter().map(|s| s.as_str()).collect();
                if t2.get(1).and_then(|x| x.parse::<usize>().ok()) != Some(victim) || !is_remote(t2[0]) {
                    continue;
                }
                let r2 = result_head(&catch_unwind(AssertUnwindSafe(|| w.exec(&t2))).unwrap_or_else(|_| "panic".into()));
                let expected = base.iter().find(|x| x.idx == j).map(|x| result_head(&x.result)).unwrap_or_default();
                if r2 != expected {
                    later_ok = false;
                }
                later.push(format!("{}>{}", t2[0], r2));
            }
            let fp_end = catch_unwind(AssertUnwindSafe(|| w.fingerprint(victim))).unwrap_or_else(|_| "fp-panic".into());
            // a re-issued local call creates NEW events (ids differ): only its success and the later results are comparable
            let comparable = !local || state == "post" || state == "prepost";
            let fin = if !comparable { "n/a" } else if fp_end == target { "same" } else { "diff" };
            // the dedup records (K[..]) are bookkeeping no MDK call returns: `obs` compares everything else
            let obs = if !comparable { "n/a" } else if strip_records(&fp_end) == strip_records(&target) { "same" } else { "diff" };
            let (_, endp) = inspect(&mut w, victim, ev_of(cmd));
            let difft: Vec<String> = fp_end.split(' ').zip(target.split(' ')).filter(|(a, b)| a != b).map(|(a, b)| format!("{a}<>{b}")).collect();
            if fp_end != target && std::env::var("VH_TRACE").is_ok() {
                writeln!(out, "debug {bi} {k} differs {} || {fp_end} || {target}", difft.join(";")).unwrap();
            }
            writeln!(
                out,
                "crash {bi} {k} label={label} kind={} panicked={} loads={} state={state} mid={mid} retry={retry} later={} final={fin} obs={obs} end={endp} tabs={tabs}",
                if local { "local" } else { "remote" },
                panicked as u8,
                loads as u8,
                if later_ok { "ok".to_string() } else { later.join(",") },
            )
            .unwrap();
        }
    }
    w.clients[victim].mdk = base_mdk;
    w.clients[victim].sql_path = base_path;
    w.clients[victim].gid = base_gid;
    let _ = &mut base;

    // (3) calls whose behaviour depends on state the MDK holds in MEMORY only (a commit that triggers a
    // MIP-03 rollback needs the snapshot bookkeeping of the running instance): the checkpoint + reopen
    // procedure never reaches their storage operations.  For these the whole script is replayed in a
    // fresh world up to the call, the call dies at tick k in the RUNNING instance, the file is reopened.
    for bi in differs {
        let b = &base[bi];
        let cmd = &script[b.idx];
        let t: Vec<&str> = cmd.iter().map(|s| s.as_str()).collect();
        let ks: Vec<u64> = if memk == 0 || b.ticks <= memk { (1..=b.ticks).collect() } else {
            let mut v: Vec<u64> = (0..memk).map(|j| 1 + j * (b.ticks - 1) / (memk - 1)).collect();
            v.dedup();
            v
        };
        for k in ks {
            let mut w2 = World::new();
            for c2 in &script[..b.idx] {
                let t2: Vec<&str> = c2.iter().map(|s| s.as_str()).collect();
                let _ = catch_unwind(AssertUnwindSafe(|| w2.exec(&t2)));
            }
            let (_, pre) = inspect(&mut w2, victim, ev_of(cmd));
            let tabs_pre = w2.clients[victim].sql_path.clone().map(|p| table_digest(&p)).unwrap_or_else(|| "-".into());
            hooks::arm(k, false);
            let r = catch_unwind(AssertUnwindSafe(|| w2.exec(&t)));
            hooks::arm(0, false);
            let panicked = r.is_err();
            let path = w2.clients[victim].sql_path.clone().unwrap();
            w2.clients[victim].mdk = None;
            w2.clients[victim].mdk = open_victim(&w2, victim, &path);
            let label = b.labels.get(k as usize - 1).cloned().unwrap_or_else(|| "?".into());
            let (loads, mid) = inspect(&mut w2, victim, ev_of(cmd));
            let tabs = table_digest(&path);
            let retry = result_head(&catch_unwind(AssertUnwindSafe(|| w2.exec(&t))).unwrap_or_else(|_| "panic".into()));
            for c2 in &script[b.idx + 1..] {
                let t2: Vec<&str> = c2.iter().map(|s| s.as_str()).collect();
                if t2.get(1).and_then(|x| x.parse::<usize>().ok()) == Some(victim) && is_local(t2[0]) {
                    break;
                }
                let _ = catch_unwind(AssertUnwindSafe(|| w2.exec(&t2)));
            }
            let (_, endp) = inspect(&mut w2, victim, ev_of(cmd));
            let agree = agrees(&mut w2, victim);
            writeln!(out, "crashmem {bi} {k} label={label} kind=remote panicked={} loads={} pre={pre} mid={mid} retry={retry} end={endp} agree={agree} tabs={tabs} tabspre={tabs_pre}", panicked as u8, loads as u8).unwrap();
        }
    }
    writeln!(out, "end {id}").unwrap();
}

pub fn main(_args: &[String]) -> i32 {
    std::panic::set_hook(Box::new(|_| {}));
    let stdin = io::stdin();
    let out = io::stdout();
    let mut out = io::BufWriter::new(out.lock());
    let (mut id, mut victim, mut maxk, mut memk) = (String::new(), 1usize, 0u64, 0u64);
    let mut script: Vec<Vec<String>> = vec![];
    for line in stdin.lock().lines() {
        let Ok(line) = line else { break };
        let line = line.trim().to_string();
        if line.is_empty() || line.starts_with('#') {
            continue;
        }
        let t: Vec<String> = line.split_whitespace().map(|s| s.to_string()).collect();
        match t[0].as_str() {
            "case" => {
                id = t.get(1).cloned().unwrap_or_default();
                victim = t.get(2).and_then(|x| x.parse().ok()).unwrap_or(1);
                maxk = t.get(3).and_then(|x| x.parse().ok()).unwrap_or(0);
                memk = t.get(4).and_then(|x| x.parse().ok()).unwrap_or(maxk);
                script.clear();
            }
            "cmd" => script.push(t[1..].to_vec()),
            "run" => {
                run_case(&id, victim, maxk, memk, &script, &mut out);
                out.flush().unwrap();
            }
            _ => writeln!(out, "bad-line {line}").unwrap(),
        }
    }
    out.flush().unwrap();
    0
}

/// the fingerprint without its `K[..]` (processed-message records) token
fn strip_records(fp: &str) -> String {
    fp.split(' ').filter(|t| !t.starts_with("K[")).collect::<Vec<_>>().join(" ")
}
