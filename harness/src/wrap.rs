//! `wrap` engine (property C06, routing part of C08): the OUTERMOST layer of `process_message` under hostile /
//! malformed kind-445 wrapper events.  Three real MDK instances (0 = A memory, 1 = B SQLite, 2 = C memory with a
//! chosen `MdkConfig` window), three groups (g0 = {A,B,C}, g1 = {A,B}, g2 = {B,C}; every member is an admin), a pool
//! of wrapper events: honest ones (`create_message`, self-update and id-rotation commits), every single-field
//! mutation of a pool event (kind, created_at, h tags, content; re-signed under a fresh key or NOT re-signed, i.e.
//! carrying the id and signature of the original), and payloads SEALED by a member with a valid NIP-44 MAC around
//! a malformed buffer.  `catch_unwind` around every call.
//!
//! Line protocol (one command per line, one observation per line):
//!   setup <skewC> <maxAgeC>
//!   msg <i> <g> <tok>                     honest application message           → `ev=<n> <desc>`
//!   advance <i> <g>                       i self-updates, merges; the other members apply the commit → `ev=<n> <desc>`
//!   rotate <i> <g> <k>                    i sets the nostr group id of g to pattern k (same flow)    → `ev=<n> <desc> :: m=<merge> <j>=<result>..`
//!   rotateto <i> <g> <g'>                 i sets the nostr group id of g to the CURRENT id of g' (same flow)
//!   stage <i> <g> <upd|rot:k|rotto:g'> <rel>   i stages a commit with wrapper created_at = now+rel, nothing else → `ev=<n> <desc>`
//!   merge <i> <g> | clear <i> <g>         merge / clear i's pending commit
//!   mut <n> <r|k> <class> [arg]           single-field mutation of event n (r = re-signed, k = id+sig kept) → `ev=<m> <desc>`
//!   seal <i> <g> <back> <shape>           payload with a VALID MAC under i's secret of g (epoch cur-back), h tag of g → `ev=<m> <desc>`
//!   tsoffer <j> <n> <rel> <edge>          re-signed copy of n with created_at = now+rel, offered to j at once → `ev=<m> <desc> :: <result>`
//!   offer <j> <n>                         process_message(event n) at client j → `<result>`
//! <desc>   = `id=<first event with this id> kind=<k> ts=<created_at> tags=<t;t..|-> content=<nb64|empty|p:<ver>:<len>:<mackey|->:<claimed>:<g|m<gid>>>`
//!            tag = comma-separated hex strings (`.` = empty string)
//! <result> = `<kind[:g<idx>]> now=<before>,<after>`;  kind: app commit proposal pending ignored external unprocessable
//!            previously_failed err:<Variant> panic
//! After ` | `: the full state of the acting client (all clients for set-up commands):
//!   `C<j> G[g<idx>:<nid hex>:<mls epoch>:<record epoch>:<current sid>:<loadable>:<epoch=sid,..>:w<group the by-nostr-id lookup of this id returns> ..] R[<n>:<state>:<epoch|->:<g|->:<m|->:<reason|->,..] F[g<idx>{fingerprint} ..]`

use std::io::{self, BufRead, Write};
use std::panic::{AssertUnwindSafe, catch_unwind};

use mdk_core::groups::{NostrGroupConfigData, NostrGroupDataUpdate};
use mdk_core::messages::MessageProcessingResult;
use mdk_storage_traits::messages::types::ProcessedMessageState;
use mdk_storage_traits::GroupId;
use mdk_storage_traits::groups::GroupStorage;
use mdk_storage_traits::messages::MessageStorage;
use nostr::base64::Engine;
use nostr::base64::engine::general_purpose::STANDARD as BASE64;
use nostr::hashes::hmac::{Hmac, HmacEngine};
use nostr::hashes::sha256::Hash as Sha256Hash;
use nostr::hashes::{Hash, HashEngine};
use nostr::nips::nip44::v2::{self, ConversationKey};
use nostr::{Event, EventBuilder, EventId, Keys, Kind, RelayUrl, SecretKey, Tag, TagKind, Timestamp};
use openmls::prelude::MlsGroup;
use openmls_traits::OpenMlsProvider;

use crate::world::{Mdk, World};

macro_rules! wm {
    ($m:expr, |$s:ident| $e:expr) => {
        match $m {
            Mdk::Mem($s) => $e,
            Mdk::Sql($s) => $e,
        }
    };
}

const MEMBERS: [&[usize]; 3] = [&[0, 1, 2], &[1, 0], &[2, 1]]; // first = creator

#[derive(Clone)]
enum CDesc {
    Nb64,
    Empty,
    P { version: u8, len: usize, mac: Option<usize>, claimed: u16, inner: String },
}

#[derive(Clone)]
struct Info {
    idn: usize,
    content: CDesc,
}

pub struct Wrap {
    w: World,
    gids: Vec<GroupId>,
    info: Vec<Info>,
    secrets: Vec<[u8; 32]>, // sid → secret
}

fn u(s: &str) -> u64 {
    s.parse().unwrap_or_else(|_| panic!("nat expected: {s}"))
}

fn variant(d: &str) -> String {
    d.chars().take_while(|c| c.is_alphanumeric()).collect()
}

fn hexs(s: &str) -> String {
    if s.is_empty() { ".".into() } else { hex::encode(s.as_bytes()) }
}

fn nid_pattern(k: u64) -> [u8; 32] {
    let mut b = [0x5Au8; 32];
    b[24..].copy_from_slice(&k.to_be_bytes());
    b
}

fn now() -> u64 {
    Timestamp::now().as_secs()
}

/// NIP-44 v2 message keys (chacha key 32 | chacha nonce 12 | hmac key 32) for the self-conversation of `secret`
fn message_keys(secret: &[u8; 32], nonce: &[u8]) -> Vec<u8> {
    let keys = Keys::new(SecretKey::from_slice(secret).unwrap());
    let ck = ConversationKey::derive(keys.secret_key(), &keys.public_key).unwrap();
    nostr::util::hkdf::expand(ck.as_bytes(), nonce, 76)
}

fn mac_of(secret: &[u8; 32], nonce: &[u8], buffer: &[u8]) -> [u8; 32] {
    let mk = message_keys(secret, nonce);
    let mut engine: HmacEngine<Sha256Hash> = HmacEngine::new(&mk[44..76]);
    engine.input(nonce);
    engine.input(buffer);
    Hmac::from_engine(engine).to_byte_array()
}

/// version 2 | nonce | buffer | MAC valid under `secret`
fn assemble(secret: &[u8; 32], nonce: &[u8], buffer: &[u8]) -> Vec<u8> {
    let mut p = vec![2u8];
    p.extend_from_slice(nonce);
    p.extend_from_slice(buffer);
    p.extend_from_slice(&mac_of(secret, nonce, buffer));
    p
}

fn encrypt_raw(secret: &[u8; 32], plain: &[u8]) -> Vec<u8> {
    let keys = Keys::new(SecretKey::from_slice(secret).unwrap());
    let ck = ConversationKey::derive(keys.secret_key(), &keys.public_key).unwrap();
    v2::encrypt_to_bytes(&ck, plain).unwrap()
}

impl Wrap {
    fn new() -> Self {
        Wrap { w: World::new(), gids: vec![], info: vec![], secrets: vec![] }
    }

    fn sid(&mut self, s: &[u8; 32]) -> usize {
        if let Some(i) = self.secrets.iter().position(|x| x == s) {
            return i;
        }
        self.secrets.push(*s);
        self.secrets.len() - 1
    }

    fn gidx(&self, g: &GroupId) -> String {
        self.gids.iter().position(|x| x == g).map(|i| format!("g{i}")).unwrap_or_else(|| "g?".into())
    }

    fn kp(&mut self, i: usize) -> Event {
        let keys = self.w.clients[i].keys.clone();
        let r = wm!(self.w.clients[i].mdk.as_ref().unwrap(), |m| m.create_key_package_for_event(&keys.public_key(), vec![RelayUrl::parse("wss://relay1.example.com").unwrap()]));
        let (content, tags, _) = r.expect("key package");
        EventBuilder::new(Kind::MlsKeyPackage, content).tags(tags).sign_with_keys(&keys).unwrap()
    }

    fn create_group(&mut self, g: usize) {
        let creator = MEMBERS[g][0];
        let others: Vec<usize> = MEMBERS[g][1..].to_vec();
        let kps: Vec<Event> = others.iter().map(|j| self.kp(*j)).collect();
        let admins = MEMBERS[g].iter().map(|j| self.w.clients[*j].keys.public_key()).collect();
        let cfg = NostrGroupConfigData::new(format!("name{g}"), "desc0".to_string(), None, None, None, vec![RelayUrl::parse("wss://relay1.example.com").unwrap()], admins);
        let pk = self.w.clients[creator].keys.public_key();
        let res = wm!(self.w.clients[creator].mdk.as_ref().unwrap(), |m| {
            let r = m.create_group(&pk, kps, cfg).expect("create_group");
            m.merge_pending_commit(&r.group.mls_group_id).expect("merge");
            r
        });
        self.gids.push(res.group.mls_group_id.clone());
        for (k, j) in others.iter().enumerate() {
            let rumor = &res.welcome_rumors[k];
            let mut idb = [0xEEu8; 32];
            idb[31] = (g * 16 + k) as u8;
            let wid = EventId::from_byte_array(idb);
            wm!(self.w.clients[*j].mdk.as_ref().unwrap(), |m| {
                let w = m.process_welcome(&wid, rumor).expect("process_welcome");
                m.accept_welcome(&w).expect("accept_welcome");
            });
        }
    }

    fn setup(&mut self, skew: u64, age: u64) -> String {
        *self = Wrap::new();
        for (i, b) in ["mem", "sql", "mem"].iter().enumerate() {
            let line = format!("client {i} {b} 5");
            let t: Vec<&str> = line.split_whitespace().collect();
            self.w.exec(&t);
        }
        // client 2 gets its own acceptance window
        let mut cfg = self.w.clients[2].cfg.clone();
        cfg.max_future_skew_secs = skew;
        cfg.max_event_age_secs = age;
        self.w.clients[2].mdk = Some(self.w.open_mdk("mem", &None, &cfg));
        self.w.clients[2].cfg = cfg;
        for g in 0..3 {
            self.create_group(g);
        }
        "ok".into()
    }

    /// exporter secret ("nostr" label) of client i's CURRENT MLS state of group g, not stored by this call
    fn exporter(&self, i: usize, g: usize) -> Option<[u8; 32]> {
        let gid = &self.gids[g];
        wm!(self.w.clients[i].mdk.as_ref().unwrap(), |m| {
            let mg = MlsGroup::load(m.provider.storage(), gid.inner()).ok()??;
            let s = mg.export_secret(m.provider.crypto(), "nostr", b"nostr", 32).ok()?;
            s.try_into().ok()
        })
    }

    fn stored_secret(&self, i: usize, g: usize, epoch: u64) -> Option<[u8; 32]> {
        let gid = &self.gids[g];
        wm!(self.w.clients[i].mdk.as_ref().unwrap(), |m| {
            let s = m.provider.storage().get_group_exporter_secret(gid, epoch).ok()??;
            let b: &[u8; 32] = s.secret.as_ref();
            Some(*b)
        })
    }

    fn mls_epoch(&self, i: usize, g: usize) -> Option<u64> {
        let gid = &self.gids[g];
        wm!(self.w.clients[i].mdk.as_ref().unwrap(), |m| m.load_mls_group(gid).ok().flatten().map(|x| x.epoch().as_u64()))
    }

    fn nid_of(&self, i: usize, g: usize) -> Option<[u8; 32]> {
        let gid = &self.gids[g];
        wm!(self.w.clients[i].mdk.as_ref().unwrap(), |m| m.get_group(gid).ok().flatten().map(|x| x.nostr_group_id))
    }

    // ---- event pool ---------------------------------------------------------------------------------------

    fn describe(&self, n: usize) -> String {
        let e = &self.w.events[n];
        let inf = &self.info[n];
        let tags: Vec<String> = e.tags.iter().map(|t| t.as_slice().iter().map(|s| hexs(s)).collect::<Vec<_>>().join(",")).collect();
        let c = match &inf.content {
            CDesc::Nb64 => "nb64".to_string(),
            CDesc::Empty => "empty".to_string(),
            CDesc::P { version, len, mac, claimed, inner } => {
                format!("p:{}:{}:{}:{}:{}", version, len, mac.map(|x| x.to_string()).unwrap_or_else(|| "-".into()), claimed, inner)
            }
        };
        format!("id={} kind={} ts={} tags={} content={}", inf.idn, e.kind.as_u16(), e.created_at.as_secs(), if tags.is_empty() { "-".to_string() } else { tags.join(";") }, c)
    }

    fn push(&mut self, e: Event, content: CDesc) -> String {
        // sanity: the descriptor agrees with the library's own base64 decoder on what it can see
        match (BASE64.decode(e.content.as_bytes()), &content) {
            (Err(_), CDesc::Nb64) => {}
            (Ok(b), CDesc::Empty) if b.is_empty() => {}
            (Ok(b), CDesc::P { version, len, .. }) if !b.is_empty() && b[0] == *version && b.len() == *len => {}
            _ => panic!("descriptor does not match the content"),
        }
        let idn = self.w.events.iter().position(|x| x.id == e.id).unwrap_or(self.w.events.len());
        self.w.events.push(e);
        self.info.push(Info { idn, content });
        let n = self.w.events.len() - 1;
        format!("ev={} {}", n, self.describe(n))
    }

    /// descriptor of an honest wrapper sealed under `secret` around an MLS message of group g
    fn honest_desc(&mut self, e: &Event, secret: &[u8; 32], g: usize) -> CDesc {
        let bytes = BASE64.decode(e.content.as_bytes()).expect("honest content is base64");
        let keys = Keys::new(SecretKey::from_slice(secret).unwrap());
        let plain = nostr::nips::nip44::decrypt_to_bytes(keys.secret_key(), &keys.public_key, &e.content).expect("honest content opens under the sender's secret");
        let mac = Some(self.sid(secret));
        CDesc::P { version: bytes[0], len: bytes.len(), mac, claimed: plain.len() as u16, inner: format!("m{g}") }
    }

    fn msg(&mut self, i: usize, g: usize, tok: &str) -> String {
        let gid = self.gids[g].clone();
        let pk = self.w.clients[i].keys.public_key();
        let mut rumor = EventBuilder::new(Kind::Custom(9), format!("msg{tok}")).build(pk);
        rumor.ensure_id();
        let secret = self.exporter(i, g);
        let r = wm!(self.w.clients[i].mdk.as_ref().unwrap(), |m| m.create_message(&gid, rumor));
        match (r, secret) {
            (Ok(ev), Some(s)) => {
                let d = self.honest_desc(&ev, &s, g);
                self.push(ev, d)
            }
            (Err(e), _) => format!("err:{}", variant(&format!("{e:?}"))),
            _ => "err:NoSecret".into(),
        }
    }

    /// client i stages a commit in g (self-update / id rotation to pattern k / id rotation ONTO the current id of
    /// another group), optionally with a chosen wrapper timestamp (now+rel through the verif-hooks override)
    fn stage(&mut self, i: usize, g: usize, what: &str, rel: Option<i128>) -> Result<usize, String> {
        let gid = self.gids[g].clone();
        let secret = self.exporter(i, g);
        let target: Option<[u8; 32]> = if let Some(k) = what.strip_prefix("rot:") {
            Some(nid_pattern(u(k)))
        } else if let Some(o) = what.strip_prefix("rotto:") {
            let o = u(o) as usize;
            match MEMBERS[o].iter().find_map(|j| self.nid_of(*j, o)) {
                Some(n) => Some(n),
                None => return Err("err:NoGroup".into()),
            }
        } else {
            None
        };
        if let Some(rel) = rel {
            mdk_core::verif_hooks::set_wrapper_created_at((now() as i128 + rel).max(1) as u64);
        }
        let r = wm!(self.w.clients[i].mdk.as_ref().unwrap(), |m| match target {
            None => m.self_update(&gid),
            Some(n) => {
                let mut upd = NostrGroupDataUpdate::default();
                upd.nostr_group_id = Some(n);
                m.update_group_data(&gid, upd)
            }
        });
        mdk_core::verif_hooks::set_wrapper_created_at(0);
        match (r, secret) {
            (Ok(res), Some(s)) => {
                let d = self.honest_desc(&res.evolution_event, &s, g);
                self.push(res.evolution_event, d);
                Ok(self.w.events.len() - 1)
            }
            (Err(e), _) => Err(format!("err:{}", variant(&format!("{e:?}")))),
            _ => Err("err:NoSecret".into()),
        }
    }

    fn pending(&mut self, i: usize, g: usize, merge: bool) -> String {
        let gid = self.gids[g].clone();
        let r = wm!(self.w.clients[i].mdk.as_ref().unwrap(), |m| if merge { m.merge_pending_commit(&gid) } else { m.clear_pending_commit(&gid) });
        match r {
            Ok(()) => "ok".into(),
            Err(e) => format!("err:{}", variant(&format!("{e:?}"))),
        }
    }

    /// a commit by i in g, merged by i and offered to every other member: `ev=<n> <desc> :: m=<merge> <j>=<result>..`
    fn commit(&mut self, i: usize, g: usize, what: &str) -> String {
        let n = match self.stage(i, g, what, None) {
            Ok(n) => n,
            Err(e) => return e,
        };
        let mut out = format!("ev={} {} :: m={}", n, self.describe(n), self.pending(i, g, true));
        let ev = self.w.events[n].clone();
        for j in MEMBERS[g].iter().filter(|j| **j != i) {
            let r = catch_unwind(AssertUnwindSafe(|| wm!(self.w.clients[*j].mdk.as_ref().unwrap(), |m| m.process_message(&ev))));
            let s = match r {
                Ok(r) => self.result_str(r),
                Err(_) => "panic".into(),
            };
            out.push_str(&format!(" {j}={s}"));
        }
        out
    }

    fn rebuild(&self, orig: &Event, resign: bool, kind: Kind, ts: Timestamp, tags: Vec<Tag>, content: String) -> Event {
        if resign {
            EventBuilder::new(kind, content).tags(tags).custom_created_at(ts).sign_with_keys(&Keys::generate()).unwrap()
        } else {
            Event::new(orig.id, orig.pubkey, ts, kind, tags, content, orig.sig)
        }
    }

    fn mutate(&mut self, t: &[&str]) -> String {
        let n = u(t[1]) as usize;
        if n >= self.w.events.len() {
            return "err:NoSuchEvent".into();
        }
        let resign = t[2] == "r";
        let class = t[3];
        let arg = t.get(4).copied().unwrap_or("");
        let o = self.w.events[n].clone();
        let mut kind = o.kind;
        let mut ts = o.created_at;
        let mut tags: Vec<Tag> = o.tags.iter().cloned().collect();
        let mut content = o.content.clone();
        let mut cd = self.info[n].content.clone();
        let hval: Option<String> = tags.iter().find(|x| x.kind() == TagKind::h()).and_then(|x| x.content().map(|s| s.to_string()));
        let other: Vec<Tag> = tags.iter().filter(|x| x.kind() != TagKind::h()).cloned().collect();
        let h = |v: String| Tag::parse(["h".to_string(), v]).unwrap();
        let hv = hval.clone().unwrap_or_else(|| "00".repeat(32));
        match class {
            "kind" => kind = Kind::from(u(arg) as u16),
            "ts" => ts = Timestamp::from(u(arg)),
            "h:none" => tags = other,
            "h:dup" => tags.push(h(hv)),
            "h:two" => tags.push(h(hex::encode(self.nid_of(MEMBERS[u(arg) as usize][0], u(arg) as usize).unwrap()))),
            "h:short" => tags = vec![h(hv[..62].to_string())],
            "h:long" => tags = vec![h(format!("{hv}00"))],
            "h:odd" => tags = vec![h(hv[..63].to_string())],
            "h:nonhex" => tags = vec![h(format!("{}zz", &hv[..62]))],
            "h:utf8" => tags = vec![h("é".repeat(32))],
            "h:upper" => tags = vec![h(hv.to_uppercase())],
            "h:mixed" => tags = vec![h(hv.chars().enumerate().map(|(i, c)| if i % 2 == 0 { c.to_ascii_uppercase() } else { c }).collect())],
            "h:other" => tags = vec![h(hex::encode(self.nid_of(MEMBERS[u(arg) as usize][0], u(arg) as usize).unwrap()))],
            "h:nid" => tags = vec![h(hex::encode(nid_pattern(u(arg))))],
            "h:novalue" => tags = vec![Tag::parse(["h".to_string()]).unwrap()],
            "h:emptyvalue" => tags = vec![h(String::new())],
            "h:extra" => tags = vec![Tag::parse(["h".to_string(), hv, "wss://relay1.example.com".to_string(), "x".to_string()]).unwrap()],
            "h:H" => tags = vec![Tag::parse(["H".to_string(), hv]).unwrap()],
            "h:hh" => tags = vec![Tag::parse(["hh".to_string(), hv]).unwrap()],
            "h:plus" => {
                tags = vec![Tag::parse(["e".to_string(), "11".repeat(32)]).unwrap(), Tag::parse(["H".to_string(), "22".repeat(32)]).unwrap(), h(hv), Tag::parse(["t".to_string(), "h".to_string()]).unwrap(), Tag::parse(["-".to_string()]).unwrap()]
            }
            "c:empty" => {
                content = String::new();
                cd = CDesc::Empty;
            }
            "c:nb64" => {
                content = match arg {
                    "bang" => "!!! not base64 @@@".to_string(),
                    "nopad" => content.trim_end_matches('=').to_string() + if content.ends_with('=') { "" } else { "=" },
                    "url" => format!("-_{}", &content[2.min(content.len())..]),
                    "space" => format!("{content}\n"),
                    _ => format!("{}é", content),
                };
                cd = CDesc::Nb64;
            }
            _ if class.starts_with("c:") => {
                let bytes = match BASE64.decode(o.content.as_bytes()) {
                    Ok(b) if !b.is_empty() => b,
                    _ => return "err:NoPayload".into(),
                };
                let (version, len, mac, claimed, inner) = match &cd {
                    CDesc::P { version, len, mac, claimed, inner } => (*version, *len, *mac, *claimed, inner.clone()),
                    _ => return "err:NoPayload".into(),
                };
                let nb: Vec<u8>;
                match class {
                    "c:one" => {
                        nb = vec![u(arg) as u8];
                        cd = CDesc::P { version: nb[0], len: 1, mac: None, claimed: 0, inner: "g".into() };
                    }
                    "c:ver" => {
                        let mut b = bytes.clone();
                        b[0] = u(arg) as u8;
                        cd = CDesc::P { version: b[0], len, mac, claimed, inner };
                        nb = b;
                    }
                    "c:trunc" => {
                        let k = (u(arg) as usize).min(bytes.len() - 1);
                        nb = bytes[..k].to_vec();
                        cd = if k == 0 { CDesc::Empty } else { CDesc::P { version, len: k, mac: None, claimed: 0, inner: "g".into() } };
                    }
                    "c:cut" => {
                        // drop the last <arg> bytes
                        let k = bytes.len().saturating_sub(u(arg) as usize).max(1);
                        nb = bytes[..k].to_vec();
                        cd = CDesc::P { version, len: k, mac: if k == bytes.len() { mac } else { None }, claimed: 0, inner: "g".into() };
                    }
                    "c:flip" => {
                        let mut b = bytes.clone();
                        let pos = match arg {
                            "nonce" => 5,
                            "buffer" => 40.min(b.len() - 1),
                            "mac" => b.len() - 1,
                            "len" => 33.min(b.len() - 1),
                            _ => b.len() / 2,
                        };
                        if pos == 0 {
                            return "err:NoPayload".into();
                        }
                        b[pos] ^= 0x01;
                        nb = b;
                        cd = CDesc::P { version, len, mac: None, claimed: 0, inner: "g".into() };
                    }
                    "c:ext" => {
                        let mut b = bytes.clone();
                        b.extend_from_slice(&[0u8; 7]);
                        cd = CDesc::P { version, len: len + 7, mac: None, claimed: 0, inner: "g".into() };
                        nb = b;
                    }
                    _ => return "bad-op".into(),
                }
                content = BASE64.encode(&nb);
            }
            _ => return "bad-op".into(),
        }
        let ne = self.rebuild(&o, resign, kind, ts, tags, content);
        self.push(ne, cd)
    }

    /// a payload whose MAC is valid under client i's secret of group g at epoch cur-back, around a chosen buffer
    fn seal(&mut self, t: &[&str]) -> String {
        let (i, g, back, shape) = (u(t[1]) as usize, u(t[2]) as usize, u(t[3]), t[4]);
        let secret = if back == 0 {
            self.exporter(i, g)
        } else if back == 99 {
            Some([0x42u8; 32]) // a secret nobody stores
        } else {
            self.mls_epoch(i, g).and_then(|e| e.checked_sub(back)).and_then(|e| self.stored_secret(i, g, e))
        };
        let Some(secret) = secret else { return "err:NoSecret".into() };
        let Some(nid) = self.nid_of(i, g) else { return "err:NoGroup".into() };
        let sid = self.sid(&secret);
        let plain: Vec<u8> = match shape {
            "othergroup" => {
                // a genuine MLS application message of ANOTHER group of the crafter
                let og = (0..3).find(|x| *x != g && MEMBERS[*x].contains(&i)).unwrap();
                let ogid = self.gids[og].clone();
                let pk = self.w.clients[i].keys.public_key();
                let mut rumor = EventBuilder::new(Kind::Custom(9), "msgx".to_string()).build(pk);
                rumor.ensure_id();
                let Some(osec) = self.exporter(i, og) else { return "err:OtherGroupUnusable".into() };
                match wm!(self.w.clients[i].mdk.as_ref().unwrap(), |m| m.create_message(&ogid, rumor)) {
                    Ok(ev) => {
                        let keys = Keys::new(SecretKey::from_slice(&osec).unwrap());
                        nostr::nips::nip44::decrypt_to_bytes(keys.secret_key(), &keys.public_key, &ev.content).unwrap()
                    }
                    Err(_) => return "err:OtherGroupUnusable".into(),
                }
            }
            "big" => vec![0xA5u8; 300],
            _ => b"this is not a TLS-serialised MLS message".to_vec(),
        };
        let full = encrypt_raw(&secret, &plain);
        let nonce = full[1..33].to_vec();
        let mut buffer = full[33..full.len() - 32].to_vec();
        let l = plain.len() as u16;
        let set_claim = |buffer: &mut Vec<u8>, c: u16| {
            let d = (l ^ c).to_be_bytes();
            buffer[0] ^= d[0];
            buffer[1] ^= d[1];
        };
        let mut claimed = l;
        let mut inner = if shape == "othergroup" { format!("m{}", (0..3).find(|x| *x != g && MEMBERS[*x].contains(&i)).unwrap()) } else { "g".to_string() };
        match shape {
            "garbage" | "othergroup" | "big" => {}
            "short0" => buffer.clear(),
            "short1" => buffer.truncate(1),
            "two" => buffer.truncate(2),
            "claimbig" => {
                claimed = (buffer.len() - 2 + 1) as u16;
                set_claim(&mut buffer, claimed);
            }
            "claimmax" => {
                claimed = 65535;
                set_claim(&mut buffer, claimed);
            }
            "claim0" => {
                claimed = 0;
                set_claim(&mut buffer, claimed);
            }
            "claimless" => {
                claimed = l - 1;
                set_claim(&mut buffer, claimed);
            }
            "padshort" => {
                buffer.pop();
            }
            "padlong" => buffer.extend_from_slice(&[0u8; 32]),
            _ => return "bad-op".into(),
        }
        if buffer.len() < 2 {
            claimed = 0;
        }
        if shape != "othergroup" {
            inner = "g".into();
        }
        let payload = assemble(&secret, &nonce, &buffer);
        let cd = CDesc::P { version: 2, len: payload.len(), mac: Some(sid), claimed, inner };
        let ev = EventBuilder::new(Kind::MlsGroupMessage, BASE64.encode(&payload)).tag(Tag::custom(TagKind::h(), [hex::encode(nid)])).sign_with_keys(&Keys::generate()).unwrap();
        self.push(ev, cd)
    }

    // ---- observation --------------------------------------------------------------------------------------

    fn result_str(&self, r: Result<MessageProcessingResult, mdk_core::Error>) -> String {
        match r {
            Ok(MessageProcessingResult::ApplicationMessage(m)) => format!("app:{}", self.gidx(&m.mls_group_id)),
            Ok(MessageProcessingResult::Proposal(u)) => format!("proposal:{}", self.gidx(&u.mls_group_id)),
            Ok(MessageProcessingResult::PendingProposal { mls_group_id }) => format!("pending:{}", self.gidx(&mls_group_id)),
            Ok(MessageProcessingResult::IgnoredProposal { mls_group_id, .. }) => format!("ignored:{}", self.gidx(&mls_group_id)),
            Ok(MessageProcessingResult::ExternalJoinProposal { mls_group_id }) => format!("external:{}", self.gidx(&mls_group_id)),
            Ok(MessageProcessingResult::Commit { mls_group_id }) => format!("commit:{}", self.gidx(&mls_group_id)),
            Ok(MessageProcessingResult::Unprocessable { mls_group_id }) => format!("unprocessable:{}", self.gidx(&mls_group_id)),
            Ok(MessageProcessingResult::PreviouslyFailed) => "previously_failed".into(),
            Err(e) => format!("err:{}", variant(&format!("{e:?}"))),
        }
    }

    fn offer(&mut self, j: usize, n: usize, wait_edge: bool) -> String {
        if n >= self.w.events.len() {
            return "err:NoSuchEvent".into();
        }
        let ev = self.w.events[n].clone();
        if wait_edge {
            settle();
        }
        let t0 = now();
        let r = catch_unwind(AssertUnwindSafe(|| wm!(self.w.clients[j].mdk.as_ref().unwrap(), |m| m.process_message(&ev))));
        let t1 = now();
        let s = match r {
            Ok(r) => self.result_str(r),
            Err(_) => "panic".into(),
        };
        format!("{s} now={t0},{t1}")
    }

    fn state(&mut self, j: usize) -> String {
        let mut gs = vec![];
        let mut fs = vec![];
        for g in 0..self.gids.len() {
            let gid = self.gids[g].clone();
            let rec = wm!(self.w.clients[j].mdk.as_ref().unwrap(), |m| m.get_group(&gid).ok().flatten());
            let Some(rec) = rec else { continue };
            let ep = self.mls_epoch(j, g);
            let cur = self.exporter(j, g);
            let cur_sid = cur.map(|s| self.sid(&s).to_string()).unwrap_or_else(|| "-".into());
            let mut ss = vec![];
            for e in 0..=ep.unwrap_or(rec.epoch) + 1 {
                if let Some(s) = self.stored_secret(j, g, e) {
                    ss.push(format!("{}={}", e, self.sid(&s)));
                }
            }
            let winner = wm!(self.w.clients[j].mdk.as_ref().unwrap(), |m| m.provider.storage().find_group_by_nostr_group_id(&rec.nostr_group_id).ok().flatten().map(|x| x.mls_group_id));
            let winner = winner.map(|x| self.gidx(&x)).unwrap_or_else(|| "-".into());
            gs.push(format!("g{}:{}:{}:{}:{}:{}:{}:w{}", g, hex::encode(rec.nostr_group_id), ep.map(|e| e.to_string()).unwrap_or_else(|| "-".into()), rec.epoch, cur_sid, ep.is_some() as u8, ss.join(","), winner));
            let mdk = self.w.clients[j].mdk.take().unwrap();
            let fp = wm!(&mdk, |m| self.w.fingerprint_of(m, &gid));
            self.w.clients[j].mdk = Some(mdk);
            fs.push(format!("g{g}{{{fp}}}"));
        }
        let mut rs = vec![];
        let mut seen = std::collections::HashSet::new();
        for (n, e) in self.w.events.iter().enumerate() {
            if !seen.insert(e.id) {
                continue;
            }
            let r = wm!(self.w.clients[j].mdk.as_ref().unwrap(), |m| m.provider.storage().find_processed_message_by_event_id(&e.id).ok().flatten());
            if let Some(r) = r {
                let st = match r.state {
                    ProcessedMessageState::Created => 0,
                    ProcessedMessageState::Processed => 1,
                    ProcessedMessageState::ProcessedCommit => 2,
                    ProcessedMessageState::Failed => 3,
                    ProcessedMessageState::EpochInvalidated => 4,
                    ProcessedMessageState::Retryable => 5,
                };
                rs.push(format!(
                    "{}:{}:{}:{}:{}:{}",
                    n,
                    st,
                    r.epoch.map(|e| e.to_string()).unwrap_or_else(|| "-".into()),
                    r.mls_group_id.map(|g| self.gidx(&g)).unwrap_or_else(|| "-".into()),
                    if r.message_event_id.is_some() { "m" } else { "-" },
                    r.failure_reason.unwrap_or_else(|| "-".into())
                ));
            }
        }
        format!("C{} G[{}] R[{}] F[{}]", j, gs.join(" "), rs.join(","), fs.join(" "))
    }

    /// a creating command always creates exactly one event (numbers must not depend on outcomes): a failed one
    /// leaves a kind-1 event with the content `dud`
    fn dud(&mut self, r: String) -> String {
        if r.starts_with("ev=") {
            return r;
        }
        let e = EventBuilder::new(Kind::TextNote, "dud").sign_with_keys(&Keys::generate()).unwrap();
        format!("{} dud={}", self.push(e, CDesc::Nb64), r)
    }

    fn exec(&mut self, t: &[&str]) -> (String, Vec<usize>) {
        let (r, who) = self.exec1(t);
        match t[0] {
            "msg" | "advance" | "rotate" | "rotateto" | "stage" | "mut" | "seal" => (self.dud(r), who),
            _ => (r, who),
        }
    }

    fn exec1(&mut self, t: &[&str]) -> (String, Vec<usize>) {
        match t[0] {
            "setup" => (self.setup(u(t[1]), u(t[2])), vec![0, 1, 2]),
            "msg" => (self.msg(u(t[1]) as usize, u(t[2]) as usize, t[3]), vec![0, 1, 2]),
            "advance" => (self.commit(u(t[1]) as usize, u(t[2]) as usize, "upd"), vec![0, 1, 2]),
            "rotate" => (self.commit(u(t[1]) as usize, u(t[2]) as usize, &format!("rot:{}", t[3])), vec![0, 1, 2]),
            "rotateto" => (self.commit(u(t[1]) as usize, u(t[2]) as usize, &format!("rotto:{}", t[3])), vec![0, 1, 2]),
            "stage" => {
                // stage <i> <g> <upd|rot:k|rotto:g'> <rel>
                let (i, g) = (u(t[1]) as usize, u(t[2]) as usize);
                let rel: i128 = t[4].parse().expect("signed offset");
                let r = match self.stage(i, g, t[3], Some(rel)) {
                    Ok(n) => format!("ev={} {}", n, self.describe(n)),
                    Err(e) => e,
                };
                (r, vec![i])
            }
            "merge" | "clear" => {
                let (i, g) = (u(t[1]) as usize, u(t[2]) as usize);
                (self.pending(i, g, t[0] == "merge"), vec![i])
            }
            "mut" => (self.mutate(t), vec![]),
            "seal" => {
                let i = u(t[1]) as usize;
                (self.seal(t), vec![i])
            }
            "offer" => {
                let j = u(t[1]) as usize;
                (self.offer(j, u(t[2]) as usize, false), vec![j])
            }
            "tsoffer" => {
                let (j, n) = (u(t[1]) as usize, (u(t[2]) as usize).min(self.w.events.len().saturating_sub(1)));
                let rel: i128 = t[3].parse().expect("signed offset");
                let edge = t.get(4).copied() == Some("edge");
                if edge {
                    settle();
                }
                let o = self.w.events[n].clone();
                let ts = (now() as i128 + rel).clamp(0, u64::MAX as i128) as u64;
                let cd = self.info[n].content.clone();
                let ne = self.rebuild(&o, true, o.kind, Timestamp::from(ts), o.tags.iter().cloned().collect(), o.content.clone());
                let d = self.push(ne, cd);
                let m = self.w.events.len() - 1;
                let r = self.offer(j, m, false);
                (format!("{d} :: {r}"), vec![j])
            }
            _ => ("bad-op".into(), vec![]),
        }
    }
}

/// wait until the wall clock is in the first half of a second, so that no tick falls into the next few milliseconds
fn settle() {
    loop {
        let d = std::time::SystemTime::now().duration_since(std::time::UNIX_EPOCH).unwrap();
        if d.subsec_millis() < 500 {
            return;
        }
        std::thread::sleep(std::time::Duration::from_millis(1000 - d.subsec_millis() as u64 + 2));
    }
}

pub fn main(_args: &[String]) -> i32 {
    if std::env::var("VH_PANIC").is_err() { std::panic::set_hook(Box::new(|_| {})); }
    let stdin = io::stdin();
    let out = io::stdout();
    let mut out = out.lock();
    let mut app = Wrap::new();
    for line in stdin.lock().lines() {
        let line = line.unwrap();
        let t: Vec<&str> = line.split_whitespace().collect();
        if t.is_empty() || t[0].starts_with('#') {
            continue;
        }
        let r = catch_unwind(AssertUnwindSafe(|| app.exec(&t)));
        let (res, who) = match r {
            Ok(x) => x,
            Err(_) => ("harness-panic".into(), vec![]),
        };
        let mut views = vec![];
        for j in who {
            if j < app.w.clients.len() && app.w.clients[j].mdk.is_some() && !app.gids.is_empty() {
                views.push(catch_unwind(AssertUnwindSafe(|| app.state(j))).unwrap_or_else(|_| format!("C{j} state-panic")));
            }
        }
        writeln!(out, "{res} | {}", if views.is_empty() { "-".to_string() } else { views.join(" | ") }).unwrap();
        out.flush().unwrap();
    }
    0
}
