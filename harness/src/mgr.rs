//! `mgr` engine: drives the real `EpochSnapshotManager` (mdk-core) over a real storage backend.
//! Lines: `new mem|sql R`, `save_group g nid`, `create g epoch commit ts clock`,
//! `better g epoch ts commit`, `rollback g epoch`, `restart now ttl`, `list g`.
use std::io::{self, BufRead, Write};
use std::panic::{AssertUnwindSafe, catch_unwind};

use mdk_core::epoch_snapshots::EpochSnapshotManager;
use mdk_memory_storage::MdkMemoryStorage;
use mdk_sqlite_storage::MdkSqliteStorage;
use mdk_storage_traits::MdkStorageProvider;

use crate::store::{mk_eid, mk_gid, scratch_dir};

enum Be {
    Mem(MdkMemoryStorage),
    Sql(MdkSqliteStorage, tempfile::TempDir),
}

fn u(s: &str) -> u64 {
    s.parse().expect("nat")
}

fn set_clock(ts: u64) {
    mdk_memory_storage::verif_hooks::set_snapshot_now(ts);
    mdk_sqlite_storage::verif_hooks::set_snapshot_now(ts as i64);
}

/// "snap_{gid hex}_{epoch}_{commit hex}" -> "epoch.commit"
fn decode_name(n: &str) -> String {
    let p: Vec<&str> = n.split('_').collect();
    if p.len() == 4 {
        let c = u64::from_str_radix(&p[3][p[3].len().saturating_sub(16)..], 16).unwrap_or(999_999);
        format!("{}.{}", p[2], c)
    } else {
        format!("?{n}")
    }
}

fn exec<S: MdkStorageProvider>(s: &S, mgr: &EpochSnapshotManager, t: &[&str]) -> String {
    match t[0] {
        "save_group" => {
            let a = [t[1], t[2], "1", "0", "1", "0", "-", "-", "-", "0", "0", "0"];
            let line: Vec<&str> = std::iter::once("save_group").chain(a.iter().copied()).collect();
            crate::store::exec(s, &line)
        }
        "create" => {
            set_clock(u(t[5]));
            let r = mgr.create_snapshot(s, &mk_gid(u(t[1])), u(t[2]), &mk_eid(u(t[3])), u(t[4]));
            set_clock(0);
            if r.is_ok() { "ok".into() } else { "err".into() }
        }
        "better" => mgr.is_better_candidate(s, &mk_gid(u(t[1])), u(t[2]), u(t[3]), &mk_eid(u(t[4]))).to_string(),
        "rollback" => {
            if mgr.rollback_to_epoch(s, &mk_gid(u(t[1])), u(t[2])).is_ok() { "ok".into() } else { "err".into() }
        }
        "list" => match s.list_group_snapshots(&mk_gid(u(t[1]))) {
            Err(_) => "err".into(),
            Ok(l) => {
                let mut v: Vec<(u64, u64, String)> = l
                    .into_iter()
                    .map(|(n, ts)| {
                        let d = decode_name(&n);
                        let mut it = d.split('.');
                        let e: u64 = it.next().and_then(|x| x.parse().ok()).unwrap_or(0);
                        let c: u64 = it.next().and_then(|x| x.parse().ok()).unwrap_or(0);
                        (ts, e * 1_000_000 + c, d)
                    })
                    .collect();
                v.sort();
                format!("[{}]", v.iter().map(|(ts, _, d)| format!("{d}@{ts}")).collect::<Vec<_>>().join(";"))
            }
        },
        _ => "bad-op".into(),
    }
}

pub fn main(_args: &[String]) -> i32 {
    std::panic::set_hook(Box::new(|_| {}));
    let stdin = io::stdin();
    let out = io::stdout();
    let mut out = io::BufWriter::new(out.lock());
    let mut be = Be::Mem(MdkMemoryStorage::new());
    let mut retention = 5usize;
    let mut mgr = EpochSnapshotManager::new(retention);
    for line in stdin.lock().lines() {
        let line = line.unwrap();
        let t: Vec<&str> = line.split_whitespace().collect();
        if t.is_empty() {
            continue;
        }
        if t[0] == "new" {
            retention = u(t[2]) as usize;
            mgr = EpochSnapshotManager::new(retention);
            be = if t[1] == "sql" {
                let dir = tempfile::Builder::new().prefix("vh-mgr").tempdir_in(scratch_dir()).unwrap();
                Be::Sql(MdkSqliteStorage::new_unencrypted(dir.path().join("db.sqlite")).unwrap(), dir)
            } else {
                Be::Mem(MdkMemoryStorage::new())
            };
            writeln!(out, "ok").unwrap();
            continue;
        }
        if t[0] == "restart" {
            // what MdkBuilder::build does on a persistent backend: TTL prune, then a fresh manager
            let (now, ttl) = (u(t[1]), u(t[2]));
            if let Be::Sql(old, dir) = be {
                drop(old);
                let s = MdkSqliteStorage::new_unencrypted(dir.path().join("db.sqlite")).unwrap();
                let _ = s.prune_expired_snapshots(now.saturating_sub(ttl));
                be = Be::Sql(s, dir);
                mgr = EpochSnapshotManager::new(retention);
            }
            writeln!(out, "ok").unwrap();
            continue;
        }
        let r = catch_unwind(AssertUnwindSafe(|| match &be {
            Be::Mem(s) => exec(s, &mgr, &t),
            Be::Sql(s, _) => exec(s, &mgr, &t),
        }));
        match r {
            Ok(s) => writeln!(out, "{s}").unwrap(),
            Err(_) => writeln!(out, "panic").unwrap(),
        }
    }
    out.flush().unwrap();
    0
}
