//! `leak` engine (property C14): installs a `tracing` subscriber that captures EVERY record at TRACE and up
//! (target, file, line, level, fully rendered message + fields; `log`-crate records of third-party crates are
//! bridged in as well), runs scenario scripts against the real public API of mdk-core with both storages,
//! and scans every captured record and every `Display`/`Debug` rendering of every returned `Err` / result
//! value for CANARY values: MLS group ids, Nostr group ids, exporter secrets (read back through the storage
//! trait), image keys / nonces and database keys — each in raw-hex, upper-hex, `[1, 2, 3]` byte-list,
//! `[01, 02]` hex-list, base64 (std / url-safe) spellings and as an 8-byte hex prefix.
//!
//! stdin: one scenario per line  `scenario <name> <mem|sql>`  (or `all`).
//! stdout: one JSON object per line:
//!   {"t":"rec", scn, backend, target, file, line, level, mdk, hits:[[canary, spelling]…], text}   (mdk_* records)
//!   {"t":"third", scn, backend, records, with_canary, targets:{…}}                                 (everything else)
//!   {"t":"val", scn, backend, step, kind: err|result|config|record, ty, variant, how, hits, text}
//!   {"t":"scn", scn, backend, steps, canaries, kinds:{…}, panicked}

use std::collections::BTreeMap;
use std::fmt::{Debug, Display, Write as _};
use std::io::{self, BufRead, Write};
use std::panic::{AssertUnwindSafe, catch_unwind};
use std::sync::{Mutex, OnceLock};

use mdk_core::encrypted_media::types::EncryptedMediaError;
use mdk_core::groups::{NostrGroupConfigData, NostrGroupDataUpdate};
use mdk_core::messages::MessageProcessingResult;
use mdk_core::{MDK, MdkConfig};
use mdk_memory_storage::MdkMemoryStorage;
use mdk_sqlite_storage::{EncryptionConfig, MdkSqliteStorage};
use mdk_storage_traits::groups::Pagination;
use mdk_storage_traits::{GroupId, MdkStorageProvider};
use nostr::{Event, EventBuilder, EventId, Keys, Kind, PublicKey, RelayUrl, Tag, TagKind, Timestamp, UnsignedEvent};
use openmls_traits::OpenMlsProvider;
use tracing::field::{Field, Visit};
use tracing_subscriber::layer::{Context, SubscriberExt};
use tracing_subscriber::util::SubscriberInitExt;
use tracing_subscriber::Layer;

// ---- capture -----------------------------------------------------------------------------------

#[derive(Clone, Debug)]
struct Rec {
    target: String,
    file: String,
    line: u32,
    level: String,
    text: String,
}

static RECS: OnceLock<Mutex<Vec<Rec>>> = OnceLock::new();
fn recs() -> &'static Mutex<Vec<Rec>> {
    RECS.get_or_init(|| Mutex::new(Vec::new()))
}

struct Capture;

#[derive(Default)]
struct Vis {
    text: String,
    log_target: Option<String>,
    log_file: Option<String>,
    log_line: Option<u32>,
}

impl Vis {
    fn put(&mut self, f: &Field, s: String) {
        match f.name() {
            "message" => {
                self.text.insert_str(0, &s);
            }
            "log.target" => self.log_target = Some(s),
            "log.file" => self.log_file = Some(s),
            "log.line" => self.log_line = s.parse().ok(),
            "log.module_path" => {}
            n => {
                let _ = write!(self.text, " {}={}", n, s);
            }
        }
    }
}

impl Visit for Vis {
    fn record_debug(&mut self, f: &Field, v: &dyn Debug) {
        self.put(f, format!("{:?}", v));
    }
    fn record_str(&mut self, f: &Field, v: &str) {
        self.put(f, v.to_string());
    }
    fn record_u64(&mut self, f: &Field, v: u64) {
        self.put(f, v.to_string());
    }
    fn record_i64(&mut self, f: &Field, v: i64) {
        self.put(f, v.to_string());
    }
    fn record_bool(&mut self, f: &Field, v: bool) {
        self.put(f, v.to_string());
    }
}

impl<S: tracing::Subscriber> Layer<S> for Capture {
    fn on_event(&self, ev: &tracing::Event<'_>, _cx: Context<'_, S>) {
        let md = ev.metadata();
        let mut v = Vis::default();
        ev.record(&mut v);
        let bridged = md.target() == "log";
        let rec = Rec {
            target: if bridged { v.log_target.clone().unwrap_or_else(|| "log".into()) } else { md.target().to_string() },
            file: if bridged { v.log_file.clone().unwrap_or_default() } else { md.file().unwrap_or("").to_string() },
            line: if bridged { v.log_line.unwrap_or(0) } else { md.line().unwrap_or(0) },
            level: md.level().to_string(),
            text: v.text,
        };
        recs().lock().unwrap().push(rec);
    }
}

// ---- canaries ----------------------------------------------------------------------------------

struct Canary {
    label: String,
    bytes: Vec<u8>,
    spellings: Vec<(&'static str, String, u8)>, // (name, needle, haystack: 0 = lower-cased text, 1 = lower-cased without blanks, 2 = raw)
}

const B64: &[u8; 64] = b"ABCDEFGHIJKLMNOPQRSTUVWXYZabcdefghijklmnopqrstuvwxyz0123456789+/";
fn b64(bytes: &[u8], url: bool) -> String {
    let mut s = String::new();
    for ch in bytes.chunks(3) {
        let b = [ch[0], *ch.get(1).unwrap_or(&0), *ch.get(2).unwrap_or(&0)];
        let n = ((b[0] as u32) << 16) | ((b[1] as u32) << 8) | b[2] as u32;
        let idx = [(n >> 18) & 63, (n >> 12) & 63, (n >> 6) & 63, n & 63];
        for (k, i) in idx.iter().enumerate() {
            if k <= ch.len() {
                let mut c = B64[*i as usize] as char;
                if url {
                    c = match c {
                        '+' => '-',
                        '/' => '_',
                        x => x,
                    };
                }
                s.push(c);
            }
        }
    }
    s
}

impl Canary {
    fn new(label: String, bytes: &[u8]) -> Self {
        let hexs = hex::encode(bytes);
        let mut sp = vec![
            ("hex", hexs.clone(), 0u8),
            ("byte-list", bytes.iter().map(|b| b.to_string()).collect::<Vec<_>>().join(","), 1),
            ("hex-list", bytes.iter().map(|b| format!("{:02x}", b)).collect::<Vec<_>>().join(","), 1),
            ("0x-list", bytes.iter().map(|b| format!("0x{:02x}", b)).collect::<Vec<_>>().join(","), 1),
        ];
        // base64 of the value; drop the last (length-dependent) symbol so that padded / unpadded both match
        let s = b64(bytes, false);
        let u = b64(bytes, true);
        let cut = |x: &str| x[..x.len() - 2].to_string();
        sp.push(("base64", cut(&s), 2));
        if u != s {
            sp.push(("base64url", cut(&u), 2));
        }
        if bytes.len() >= 12 {
            sp.push(("hex-prefix8", hexs[..16].to_string(), 0));
        }
        Canary { label, bytes: bytes.to_vec(), spellings: sp }
    }
}

fn json_str(s: &str) -> String {
    serde_json::to_string(s).unwrap()
}

// ---- scenario context --------------------------------------------------------------------------

struct Cx {
    scn: String,
    backend: String,
    steps: usize,
    canaries: Vec<Canary>,
    counts: BTreeMap<String, usize>,
    out: Vec<String>,
    third_total: usize,
    third_hit: usize,
    third_targets: BTreeMap<String, usize>,
    pending_vals: Vec<(String, String, String, String, String, String)>, // step, kind, ty, variant, how, text
    kind_counts: BTreeMap<&'static str, usize>,
}

fn variant_of(debug: &str) -> String {
    debug.chars().take_while(|c| c.is_alphanumeric() || *c == '_').collect()
}

impl Cx {
    fn new(scn: &str, backend: &str) -> Self {
        Cx {
            scn: scn.into(),
            backend: backend.into(),
            steps: 0,
            canaries: vec![],
            counts: BTreeMap::new(),
            out: vec![],
            third_total: 0,
            third_hit: 0,
            third_targets: BTreeMap::new(),
            pending_vals: vec![],
            kind_counts: BTreeMap::new(),
        }
    }

    fn canary(&mut self, kind: &'static str, bytes: &[u8]) {
        if bytes.len() < 8 || self.canaries.iter().any(|c| c.bytes == bytes) {
            return;
        }
        let n = self.counts.entry(kind.to_string()).or_insert(0);
        let label = format!("{}#{}", kind, *n);
        *n += 1;
        *self.kind_counts.entry(kind).or_insert(0) += 1;
        self.canaries.push(Canary::new(label, bytes));
    }

    fn scan(&self, text: &str) -> Vec<(String, &'static str)> {
        let low = text.to_lowercase();
        let nosp: String = low.chars().filter(|c| !c.is_whitespace()).collect();
        let mut hits = vec![];
        for c in &self.canaries {
            for (name, needle, hay) in &c.spellings {
                let h = match hay {
                    0 => low.contains(needle.as_str()),
                    1 => nosp.contains(needle.as_str()),
                    _ => text.contains(needle.as_str()),
                };
                if h {
                    hits.push((c.label.clone(), *name));
                    if *name == "hex" {
                        break;
                    }
                }
            }
        }
        // a full hex hit implies the prefix hit; keep the list short
        hits.dedup();
        hits
    }

    /// record Display + Debug of an error value
    fn err<E: Display + Debug>(&mut self, step: &str, e: &E) {
        let ty = std::any::type_name::<E>().to_string();
        let dbg = format!("{:?}", e);
        let var = variant_of(&dbg);
        self.pending_vals.push((step.into(), "err".into(), ty.clone(), var.clone(), "display".into(), format!("{}", e)));
        self.pending_vals.push((step.into(), "err".into(), ty.clone(), var.clone(), "debug".into(), dbg));
        self.pending_vals.push((step.into(), "err".into(), ty, var, "debug-alt".into(), format!("{:#?}", e)));
    }

    /// record Debug of a returned value; kind = result | config | record
    fn val<T: Debug>(&mut self, step: &str, kind: &str, v: &T) {
        let ty = std::any::type_name::<T>().to_string();
        let dbg = format!("{:?}", v);
        let var = variant_of(&dbg);
        self.pending_vals.push((step.into(), kind.into(), ty, var, "debug".into(), dbg));
    }

    /// run one API call: errors are rendered and scanned; the step counter advances
    fn call<T, E: Display + Debug>(&mut self, step: &str, r: Result<T, E>) -> Option<T> {
        self.steps += 1;
        match r {
            Ok(v) => Some(v),
            Err(e) => {
                self.err(step, &e);
                None
            }
        }
    }

    /// flush captured records and rendered values: canaries known NOW are applied to everything captured so far
    fn flush(&mut self) {
        let recs: Vec<Rec> = std::mem::take(&mut *recs().lock().unwrap());
        for r in recs {
            let hits = self.scan(&r.text);
            if r.target.starts_with("mdk_") {
                let hs: Vec<String> = hits.iter().map(|(c, s)| format!("[{},{}]", json_str(c), json_str(s))).collect();
                let mut t = r.text.clone();
                if t.len() > 400 {
                    let mut k = 400;
                    while !t.is_char_boundary(k) {
                        k -= 1;
                    }
                    t.truncate(k);
                }
                self.out.push(format!(
                    "{{\"t\":\"rec\",\"scn\":{},\"backend\":{},\"target\":{},\"file\":{},\"line\":{},\"level\":{},\"mdk\":true,\"hits\":[{}],\"text\":{}}}",
                    json_str(&self.scn), json_str(&self.backend), json_str(&r.target), json_str(&r.file), r.line, json_str(&r.level), hs.join(","), json_str(&t)
                ));
            } else {
                self.third_total += 1;
                if !hits.is_empty() {
                    self.third_hit += 1;
                }
                let root = r.target.split("::").next().unwrap_or("").to_string();
                *self.third_targets.entry(root).or_insert(0) += 1;
            }
        }
        let vals = std::mem::take(&mut self.pending_vals);
        for (step, kind, ty, var, how, text) in vals {
            let hits = self.scan(&text);
            let hs: Vec<String> = hits.iter().map(|(c, s)| format!("[{},{}]", json_str(c), json_str(s))).collect();
            let mut t = text;
            if t.len() > 300 {
                let mut k = 300;
                while !t.is_char_boundary(k) {
                    k -= 1;
                }
                t.truncate(k);
            }
            self.out.push(format!(
                "{{\"t\":\"val\",\"scn\":{},\"backend\":{},\"step\":{},\"kind\":{},\"ty\":{},\"variant\":{},\"how\":{},\"hits\":[{}],\"text\":{}}}",
                json_str(&self.scn), json_str(&self.backend), json_str(&step), json_str(&kind), json_str(&ty), json_str(&var), json_str(&how), hs.join(","), json_str(&t)
            ));
        }
    }

    fn finish(&mut self, panicked: bool) {
        self.flush();
        let tg: Vec<String> = self.third_targets.iter().map(|(k, v)| format!("{}:{}", json_str(k), v)).collect();
        self.out.push(format!(
            "{{\"t\":\"third\",\"scn\":{},\"backend\":{},\"records\":{},\"with_canary\":{},\"targets\":{{{}}}}}",
            json_str(&self.scn), json_str(&self.backend), self.third_total, self.third_hit, tg.join(",")
        ));
        let kc: Vec<String> = self.kind_counts.iter().map(|(k, v)| format!("{}:{}", json_str(k), v)).collect();
        self.out.push(format!(
            "{{\"t\":\"scn\",\"scn\":{},\"backend\":{},\"steps\":{},\"canaries\":{},\"kinds\":{{{}}},\"panicked\":{}}}",
            json_str(&self.scn), json_str(&self.backend), self.steps, self.canaries.len(), kc.join(","), panicked
        ));
    }
}

// ---- clients -----------------------------------------------------------------------------------

fn relay() -> RelayUrl {
    RelayUrl::parse("wss://relay.example").unwrap()
}

fn rnd<const N: usize>() -> [u8; N] {
    let mut out = [0u8; N];
    let mut i = 0;
    while i < N {
        let k = Keys::generate();
        let b = k.public_key().to_bytes();
        let n = (N - i).min(32);
        out[i..i + n].copy_from_slice(&b[..n]);
        i += n;
    }
    out
}

struct Client<S: MdkStorageProvider> {
    name: &'static str,
    keys: Keys,
    mdk: MDK<S>,
}

fn key_package<S: MdkStorageProvider>(cx: &mut Cx, c: &Client<S>) -> Option<Event> {
    key_package_for(cx, &c.mdk, &c.keys, c.name)
}

fn key_package_for<S: MdkStorageProvider>(cx: &mut Cx, mdk: &MDK<S>, keys: &Keys, name: &str) -> Option<Event> {
    let (content, tags, _) = cx.call(&format!("{name}.create_key_package_for_event"), mdk.create_key_package_for_event(&keys.public_key(), [relay()]))?;
    cx.call(&format!("{name}.sign_key_package"), EventBuilder::new(Kind::MlsKeyPackage, content).tags(tags).sign_with_keys(keys))
}

/// harvest every protected value a client holds so that it is known as a canary
fn harvest<S: MdkStorageProvider>(cx: &mut Cx, c: &Client<S>) {
    if let Ok(groups) = c.mdk.get_groups() {
        for g in groups {
            cx.canary("mls_group_id", g.mls_group_id.as_slice());
            cx.canary("nostr_group_id", &g.nostr_group_id);
            if let Some(k) = &g.image_key {
                cx.canary("image_key", &k[..]);
            }
            if let Some(n) = &g.image_nonce {
                cx.canary("image_nonce", &n[..]);
            }
            for e in 0..=g.epoch {
                if let Ok(Some(s)) = c.mdk.provider.storage().get_group_exporter_secret(&g.mls_group_id, e) {
                    cx.canary("exporter_secret", &s.secret[..]);
                }
            }
        }
    }
    if let Ok(ws) = c.mdk.get_pending_welcomes(None) {
        for w in ws {
            cx.canary("mls_group_id", w.mls_group_id.as_slice());
            cx.canary("nostr_group_id", &w.nostr_group_id);
            if let Some(k) = &w.group_image_key {
                cx.canary("image_key", &k[..]);
            }
            if let Some(n) = &w.group_image_nonce {
                cx.canary("image_nonce", &n[..]);
            }
        }
    }
}

fn config(cx: &mut Cx, admins: Vec<PublicKey>, name: &str) -> NostrGroupConfigData {
    let image_key: [u8; 32] = rnd();
    let image_nonce: [u8; 12] = rnd();
    let image_hash: [u8; 32] = rnd();
    cx.canary("image_key", &image_key);
    cx.canary("image_nonce", &image_nonce);
    let c = NostrGroupConfigData::new(name.to_string(), "a group".to_string(), Some(image_hash), Some(image_key), Some(image_nonce), vec![relay()], admins);
    cx.val("NostrGroupConfigData::new", "config", &c);
    c
}

/// process an event at a client; render Err / result
fn deliver<S: MdkStorageProvider>(cx: &mut Cx, c: &Client<S>, what: &str, ev: &Event) -> Option<MessageProcessingResult> {
    let step = format!("{}.process_message({})", c.name, what);
    let r = cx.call(&step, c.mdk.process_message(ev));
    if let Some(v) = &r {
        cx.val(&step, "result", v);
    }
    harvest(cx, c);
    cx.flush();
    r
}

fn join<S: MdkStorageProvider>(cx: &mut Cx, c: &Client<S>, rumor: &UnsignedEvent, wrapper: EventId) -> bool {
    let step = format!("{}.process_welcome", c.name);
    let w = cx.call(&step, c.mdk.process_welcome(&wrapper, rumor));
    harvest(cx, c);
    let ok = match w {
        Some(w) => {
            cx.val(&step, "record", &w);
            cx.call(&format!("{}.accept_welcome", c.name), c.mdk.accept_welcome(&w)).is_some()
        }
        None => false,
    };
    harvest(cx, c);
    cx.flush();
    ok
}

fn rumor(keys: &Keys, text: &str) -> UnsignedEvent {
    EventBuilder::new(Kind::Custom(9), text).build(keys.public_key())
}

struct Trio<S: MdkStorageProvider> {
    alice: Client<S>,
    bob: Client<S>,
    carol: Client<S>,
    gid: GroupId,
}

/// alice creates a group with bob and carol (all admins), everybody joins
fn trio<S: MdkStorageProvider>(cx: &mut Cx, mk: &mut dyn FnMut(&'static str) -> MDK<S>) -> Option<Trio<S>> {
    let alice = Client { name: "alice", keys: Keys::generate(), mdk: mk("alice") };
    let bob = Client { name: "bob", keys: Keys::generate(), mdk: mk("bob") };
    let carol = Client { name: "carol", keys: Keys::generate(), mdk: mk("carol") };
    let kb = key_package(cx, &bob)?;
    let kc = key_package(cx, &carol)?;
    let admins = vec![alice.keys.public_key(), bob.keys.public_key(), carol.keys.public_key()];
    let cfg = config(cx, admins, "canary group");
    let res = cx.call("alice.create_group", alice.mdk.create_group(&alice.keys.public_key(), vec![kb, kc], cfg))?;
    cx.val("alice.create_group", "result", &res);
    let gid = res.group.mls_group_id.clone();
    cx.canary("mls_group_id", gid.as_slice());
    cx.canary("nostr_group_id", &res.group.nostr_group_id);
    cx.call("alice.merge_pending_commit", alice.mdk.merge_pending_commit(&gid))?;
    harvest(cx, &alice);
    cx.flush();
    join(cx, &bob, &res.welcome_rumors[0], EventId::from_byte_array(rnd()));
    join(cx, &carol, &res.welcome_rumors[1], EventId::from_byte_array(rnd()));
    Some(Trio { alice, bob, carol, gid })
}


// ---- adversarial MLS messages (built with OpenMLS directly on a member's own state) -------------

/// wrap serialized MLS bytes exactly as mdk does (NIP-44 under the exporter secret of the sender's current epoch,
/// ephemeral signer, `h` tag)
fn adv_wrap<S: MdkStorageProvider>(cx: &mut Cx, c: &Client<S>, gid: &GroupId, bytes: &[u8]) -> Option<Event> {
    let g = c.mdk.get_group(gid).ok()??;
    let mg = openmls::prelude::MlsGroup::load(c.mdk.provider.storage(), gid.inner()).ok()??;
    let sec = mg.export_secret(c.mdk.provider.crypto(), "nostr", b"nostr", 32).ok()?;
    cx.canary("exporter_secret", &sec);
    let keys = Keys::new(nostr::SecretKey::from_slice(&sec).ok()?);
    let content = nostr::nips::nip44::encrypt(keys.secret_key(), &keys.public_key, bytes, nostr::nips::nip44::Version::default()).ok()?;
    EventBuilder::new(Kind::MlsGroupMessage, content)
        .tag(Tag::custom(TagKind::h(), [hex::encode(g.nostr_group_id)]))
        .sign_with_keys(&Keys::generate())
        .ok()
}

/// proposals and a commit a NON-ADMIN member crafts with OpenMLS directly; every one is delivered to `victims`
fn adversarial<S: MdkStorageProvider>(cx: &mut Cx, adv: &Client<S>, gid: &GroupId, kp_event: Option<&Event>, victims: &[&Client<S>]) {
    use openmls::prelude::{BasicCredential, CredentialWithKey, LeafNodeParameters, MlsGroup};
    use openmls_basic_credential::SignatureKeyPair;
    use tls_codec::Serialize as _;
    let storage = adv.mdk.provider.storage();
    let Ok(Some(mut mg)) = MlsGroup::load(storage, gid.inner()) else {
        cx.out.push("{\"t\":\"error\",\"what\":\"adversarial: cannot load the MLS group\"}".into());
        return;
    };
    let Some(own) = mg.own_leaf() else { return };
    let Some(signer) = SignatureKeyPair::read(storage, own.signature_key().as_slice(), mg.ciphersuite().signature_algorithm()) else {
        cx.out.push("{\"t\":\"error\",\"what\":\"adversarial: cannot read the signer\"}".into());
        return;
    };
    let own_idx = mg.own_leaf_index();
    let Some(other) = mg.members().find(|m| m.index != own_idx).map(|m| m.index) else { return };
    let mut send = |cx: &mut Cx, what: &str, bytes: Vec<u8>| {
        let wrapped = adv_wrap(cx, adv, gid, &bytes);
        if wrapped.is_none() {
            cx.out.push(format!("{{\"t\":\"error\",\"what\":\"adversarial: cannot wrap {what}\"}}"));
        }
        if let Some(ev) = wrapped {
            for v in victims {
                deliver(cx, v, what, &ev);
            }
            deliver(cx, victims[0], &format!("{what}-replay"), &ev);
        }
    };
    // Remove proposal
    if let Ok((msg, _)) = mg.propose_remove_member(&adv.mdk.provider, &signer, other) {
        if let Ok(b) = msg.tls_serialize_detached() {
            send(cx, "adv-proposal-remove", b);
        }
    }
    else {
        cx.out.push("{\"t\":\"error\",\"what\":\"adversarial: propose_remove_member failed\"}".into());
    }
    let _ = mg.clear_pending_proposals(storage);
    // Add proposal
    if let Some(kpe) = kp_event {
        if let Some(kp) = cx.call("adv.parse_key_package", adv.mdk.parse_key_package(kpe)) {
            if let Ok((msg, _)) = mg.propose_add_member(&adv.mdk.provider, &signer, &kp) {
                if let Ok(b) = msg.tls_serialize_detached() {
                    send(cx, "adv-proposal-add", b);
                }
            }
            let _ = mg.clear_pending_proposals(storage);
        }
    }
    // Update proposal (same identity), then one that changes the credential identity
    if let Ok((msg, _)) = mg.propose_self_update(&adv.mdk.provider, &signer, LeafNodeParameters::default()) {
        if let Ok(b) = msg.tls_serialize_detached() {
            send(cx, "adv-proposal-update", b);
        }
    }
    let _ = mg.clear_pending_proposals(storage);
    let stolen = Keys::generate().public_key();
    let cred = CredentialWithKey { credential: BasicCredential::new(stolen.to_bytes().to_vec()).into(), signature_key: signer.public().into() };
    if let Ok((msg, _)) = mg.propose_self_update(&adv.mdk.provider, &signer, LeafNodeParameters::builder().with_credential_with_key(cred).build()) {
        if let Ok(b) = msg.tls_serialize_detached() {
            send(cx, "adv-proposal-update-identity-change", b);
        }
    }
    let _ = mg.clear_pending_proposals(storage);
    // GroupContextExtensions proposal (keeps the current extensions)
    let exts = mg.extensions().clone();
    if let Ok((msg, _)) = mg.propose_group_context_extensions(&adv.mdk.provider, exts, &signer) {
        if let Ok(b) = msg.tls_serialize_detached() {
            send(cx, "adv-proposal-gce", b);
        }
    }
    let _ = mg.clear_pending_proposals(storage);
    // self-update COMMIT whose update path changes the credential identity
    let cred2 = CredentialWithKey { credential: BasicCredential::new(Keys::generate().public_key().to_bytes().to_vec()).into(), signature_key: signer.public().into() };
    match mg.self_update(&adv.mdk.provider, &signer, LeafNodeParameters::builder().with_credential_with_key(cred2).build()) {
        Ok(bundle) => {
            if let Ok(b) = bundle.commit().tls_serialize_detached() {
                send(cx, "adv-commit-self-update-identity-change", b);
            }
        }
        Err(e) => cx.out.push(format!("{{\"t\":\"note\",\"what\":{}}}", json_str(&format!("adversarial self_update refused by OpenMLS: {e}")))),
    }
    let _ = mg.clear_pending_commit(storage);
    // Remove COMMIT by the non-admin
    if let Ok((msg, _, _)) = mg.remove_members(&adv.mdk.provider, &signer, &[other]) {
        if let Ok(b) = msg.tls_serialize_detached() {
            send(cx, "adv-commit-remove-by-non-admin", b);
        }
    }
    let _ = mg.clear_pending_commit(storage);
    cx.flush();
}

// ---- scenarios ---------------------------------------------------------------------------------

fn scn_lifecycle<S: MdkStorageProvider>(cx: &mut Cx, mk: &mut dyn FnMut(&'static str) -> MDK<S>) {
    let Some(t) = trio(cx, mk) else { return };
    let (a, b, c, gid) = (&t.alice, &t.bob, &t.carol, &t.gid);
    // messages both ways
    if let Some(m) = cx.call("alice.create_message", a.mdk.create_message(gid, rumor(&a.keys, "hello from alice"))) {
        deliver(cx, b, "app", &m);
        deliver(cx, c, "app", &m);
        deliver(cx, b, "app-replay", &m);
        deliver(cx, a, "own-app", &m);
    }
    if let Some(m) = cx.call("bob.create_message", b.mdk.create_message(gid, rumor(&b.keys, "hello from bob"))) {
        deliver(cx, a, "app", &m);
        deliver(cx, c, "app", &m);
    }
    // add dave
    let dave = Client { name: "dave", keys: Keys::generate(), mdk: mk("dave") };
    if let Some(kd) = key_package(cx, &dave) {
        if let Some(u) = cx.call("alice.add_members", a.mdk.add_members(gid, std::slice::from_ref(&kd))) {
            cx.val("alice.add_members", "result", &u);
            cx.call("alice.merge_pending_commit", a.mdk.merge_pending_commit(gid));
            harvest(cx, a);
            deliver(cx, b, "commit-add", &u.evolution_event);
            deliver(cx, c, "commit-add", &u.evolution_event);
            deliver(cx, a, "own-commit-echo", &u.evolution_event);
            if let Some(ws) = &u.welcome_rumors {
                join(cx, &dave, &ws[0], EventId::from_byte_array(rnd()));
            }
        }
    }
    if let Some(m) = cx.call("dave.create_message", dave.mdk.create_message(gid, rumor(&dave.keys, "dave here"))) {
        deliver(cx, a, "app", &m);
        deliver(cx, b, "app", &m);
    }
    // bob self-update, others process; commit echo processed by bob himself (own pending commit path)
    if let Some(u) = cx.call("bob.self_update", b.mdk.self_update(gid)) {
        cx.val("bob.self_update", "result", &u);
        deliver(cx, a, "commit-self-update", &u.evolution_event);
        deliver(cx, c, "commit-self-update", &u.evolution_event);
        deliver(cx, &dave, "commit-self-update", &u.evolution_event);
        deliver(cx, b, "own-commit-echo", &u.evolution_event);
    }
    // remove dave
    if let Some(u) = cx.call("alice.remove_members", a.mdk.remove_members(gid, &[dave.keys.public_key()])) {
        cx.val("alice.remove_members", "result", &u);
        cx.call("alice.merge_pending_commit", a.mdk.merge_pending_commit(gid));
        deliver(cx, b, "commit-remove", &u.evolution_event);
        deliver(cx, c, "commit-remove", &u.evolution_event);
        deliver(cx, &dave, "commit-remove-self-evicted", &u.evolution_event);
        // the evicted member keeps receiving traffic
        if let Some(m) = cx.call("alice.create_message", a.mdk.create_message(gid, rumor(&a.keys, "after eviction"))) {
            deliver(cx, &dave, "app-after-eviction", &m);
            deliver(cx, b, "app", &m);
        }
        if let Some(su) = cx.call("bob.self_update", b.mdk.self_update(gid)) {
            deliver(cx, &dave, "commit-after-eviction", &su.evolution_event);
            deliver(cx, a, "commit-self-update-2", &su.evolution_event);
            deliver(cx, c, "commit-self-update-2", &su.evolution_event);
            cx.call("bob.merge_pending_commit", b.mdk.merge_pending_commit(gid));
        }
    }
    // group data update with h-id rotation and new image material
    let new_nid: [u8; 32] = rnd();
    let new_key: [u8; 32] = rnd();
    let new_nonce: [u8; 12] = rnd();
    cx.canary("nostr_group_id", &new_nid);
    cx.canary("image_key", &new_key);
    cx.canary("image_nonce", &new_nonce);
    let mut upd = NostrGroupDataUpdate::default();
    upd.name = Some("renamed".into());
    upd.nostr_group_id = Some(new_nid);
    upd.image_key = Some(Some(new_key));
    upd.image_nonce = Some(Some(new_nonce));
    upd.image_hash = Some(Some(rnd()));
    cx.val("NostrGroupDataUpdate", "config", &upd);
    if let Some(u) = cx.call("alice.update_group_data", a.mdk.update_group_data(gid, upd)) {
        cx.val("alice.update_group_data", "result", &u);
        cx.call("alice.merge_pending_commit", a.mdk.merge_pending_commit(gid));
        deliver(cx, b, "commit-update-data", &u.evolution_event);
        deliver(cx, c, "commit-update-data", &u.evolution_event);
    }
    // carol leaves: proposal, auto-committed by an admin receiver
    if let Some(u) = cx.call("carol.leave_group", c.mdk.leave_group(gid)) {
        cx.val("carol.leave_group", "result", &u);
        if let Some(MessageProcessingResult::Proposal(res)) = deliver(cx, a, "proposal-leave", &u.evolution_event) {
            cx.call("alice.merge_pending_commit", a.mdk.merge_pending_commit(gid));
            deliver(cx, b, "commit-auto", &res.evolution_event);
            deliver(cx, c, "commit-auto-evicts-self", &res.evolution_event);
        }
        deliver(cx, b, "proposal-leave-late", &u.evolution_event);
    }
    // encrypted media (MIP-04)
    {
        let mgr = b.mdk.media_manager(gid.clone());
        let png = tiny_png();
        if let Some(up) = cx.call("bob.encrypt_for_upload", mgr.encrypt_for_upload(&png, "image/png", "x.png")) {
            cx.canary("image_nonce", &up.nonce);
            let tag = mgr.create_imeta_tag(&up, "https://blossom.example/abc");
            if let Some(r) = cx.call("bob.parse_imeta_tag", mgr.parse_imeta_tag(&tag)) {
                cx.call("bob.decrypt_from_download", mgr.decrypt_from_download(&up.encrypted_data, &r));
                let mut bad = up.encrypted_data.clone();
                bad[0] ^= 0xff;
                cx.call("bob.decrypt_from_download(tampered)", mgr.decrypt_from_download(&bad, &r));
                let amgr = a.mdk.media_manager(gid.clone());
                cx.call("alice.decrypt_from_download", amgr.decrypt_from_download(&up.encrypted_data, &r));
            }
        }
        cx.call("bob.encrypt_for_upload(bad mime)", mgr.encrypt_for_upload(b"zz", "image/../png", "x.png"));
        cx.call("bob.encrypt_for_upload(mismatch)", mgr.encrypt_for_upload(b"not a png at all", "image/png", "x.png"));
        cx.call("bob.encrypt_for_upload(bad name)", mgr.encrypt_for_upload(&tiny_png(), "image/png", "../../etc/passwd"));
        let bad_tag = Tag::custom(TagKind::Custom("imeta".into()), ["url https://x", "m image/zzz", "filename a.png", "x 00", "n 11", "v mip04-v9"]);
        cx.call("bob.parse_imeta_tag(bad)", mgr.parse_imeta_tag(&bad_tag));
        let unknown = b.mdk.media_manager(GroupId::from_slice(&rnd::<32>()));
        let r: Result<_, EncryptedMediaError> = unknown.encrypt_for_upload(&tiny_png(), "image/png", "x.png");
        cx.call("bob.encrypt_for_upload(unknown group)", r);
    }
    // read API + result/record renderings
    if let Some(Some(g)) = cx.call("alice.get_group", a.mdk.get_group(gid)) {
        cx.val("alice.get_group", "record", &g);
    }
    if let Some(ms) = cx.call("alice.get_messages", a.mdk.get_messages(gid, None)) {
        if let Some(m) = ms.first() {
            cx.val("alice.get_messages[0]", "record", m);
        }
    }
    // group image (MIP-01): prepare, decrypt with and without hash verification, wrong key
    {
        use mdk_core::extension::group_image::{decrypt_group_image, prepare_group_image_for_upload};
        use mdk_storage_traits::Secret;
        if let Some(up) = cx.call("prepare_group_image_for_upload", prepare_group_image_for_upload(&tiny_png(), "image/png")) {
            cx.canary("image_key", &up.image_key[..]);
            cx.canary("image_nonce", &up.image_nonce[..]);
            cx.canary("image_key", &up.image_upload_key[..]);
            cx.val("GroupImageUpload", "result", &up);
            cx.call("decrypt_group_image(ok)", decrypt_group_image(&up.encrypted_data, Some(&up.encrypted_hash), &up.image_key, &up.image_nonce));
            cx.call("decrypt_group_image(legacy, no hash)", decrypt_group_image(&up.encrypted_data, None, &up.image_key, &up.image_nonce));
            cx.call("decrypt_group_image(wrong hash)", decrypt_group_image(&up.encrypted_data, Some(&rnd::<32>()), &up.image_key, &up.image_nonce));
            let wrong: [u8; 32] = rnd();
            cx.canary("image_key", &wrong);
            cx.call("decrypt_group_image(wrong key)", decrypt_group_image(&up.encrypted_data, None, &Secret::new(wrong), &up.image_nonce));
        }
        cx.call("prepare_group_image_for_upload(bad)", prepare_group_image_for_upload(b"nope", "image/png").map(|_| ()));
    }
    cx.call("alice.get_members", a.mdk.get_members(gid));
    cx.call("alice.get_relays", a.mdk.get_relays(gid));
    if let Some(t) = cx.call("alice.get_ratchet_tree_info", a.mdk.get_ratchet_tree_info(gid)) {
        cx.val("alice.get_ratchet_tree_info", "record", &t);
    }
    cx.val("MdkConfig::default", "config", &MdkConfig::default());
    for cl in [a, b, c] {
        harvest(cx, cl);
    }
    cx.flush();
}

fn tiny_png() -> Vec<u8> {
    // 1x1 RGBA PNG
    vec![
        0x89, 0x50, 0x4E, 0x47, 0x0D, 0x0A, 0x1A, 0x0A, 0x00, 0x00, 0x00, 0x0D, 0x49, 0x48, 0x44, 0x52, 0x00, 0x00, 0x00, 0x01, 0x00, 0x00, 0x00, 0x01, 0x08, 0x06, 0x00, 0x00, 0x00, 0x1F,
        0x15, 0xC4, 0x89, 0x00, 0x00, 0x00, 0x0D, 0x49, 0x44, 0x41, 0x54, 0x78, 0x9C, 0x63, 0xF8, 0xCF, 0xC0, 0xF0, 0x1F, 0x00, 0x05, 0x00, 0x01, 0xFF, 0x89, 0x99, 0x3D, 0x1D, 0x00, 0x00,
        0x00, 0x00, 0x49, 0x45, 0x4E, 0x44, 0xAE, 0x42, 0x60, 0x82,
    ]
}

/// MIP-03 order: earlier created_at wins, then smaller id
fn better_first<'a>(x: &'a Event, y: &'a Event) -> (&'a Event, &'a Event) {
    if (x.created_at, x.id) <= (y.created_at, y.id) { (x, y) } else { (y, x) }
}

fn scn_commit_race<S: MdkStorageProvider>(cx: &mut Cx, mk: &mut dyn FnMut(&'static str) -> MDK<S>) {
    let Some(t) = trio(cx, mk) else { return };
    let (a, b, c, gid) = (&t.alice, &t.bob, &t.carol, &t.gid);
    // traffic in the epoch that will be rolled back
    let ca = cx.call("bob.self_update", b.mdk.self_update(gid));
    let cb = cx.call("carol.self_update", c.mdk.self_update(gid));
    let (Some(ca), Some(cb)) = (ca, cb) else { return };
    let (better, worse) = better_first(&ca.evolution_event, &cb.evolution_event);
    deliver(cx, a, "commit-worse", worse);
    // alice sends in the epoch she is about to lose
    let own = cx.call("alice.create_message", a.mdk.create_message(gid, rumor(&a.keys, "sent on the losing branch")));
    // the winner's committer moves on and sends on the winning branch; alice (on the losing branch) cannot read it yet
    let winner = if better.id == ca.evolution_event.id { b } else { c };
    cx.call("winner.merge_pending_commit", winner.mdk.merge_pending_commit(gid));
    let early = cx.call("winner.create_message", winner.mdk.create_message(gid, rumor(&winner.keys, "sent on the winning branch")));
    if let Some(m) = &early {
        deliver(cx, a, "app-from-winning-branch-too-early", m);
    }
    deliver(cx, a, "commit-better(rollback)", better);
    if let Some(m) = &early {
        deliver(cx, a, "app-from-winning-branch-retry", m);
    }
    deliver(cx, a, "commit-worse-again", worse);
    if let Some(m) = &own {
        deliver(cx, a, "own-app-after-rollback", m);
    }
    // the two committers see each other's commit
    deliver(cx, b, "competitor-commit", &cb.evolution_event);
    deliver(cx, c, "competitor-commit", &ca.evolution_event);
    deliver(cx, b, "own-commit-echo", &ca.evolution_event);
    deliver(cx, c, "own-commit-echo", &cb.evolution_event);
    cx.call("bob.clear_pending_commit", b.mdk.clear_pending_commit(gid));
    cx.call("bob.merge_pending_commit(none)", b.mdk.merge_pending_commit(gid));
    // a second race, processed in the other order (better first: the late worse one is rejected)
    let ca = cx.call("alice.self_update", a.mdk.self_update(gid));
    if let Some(ca) = ca {
        deliver(cx, b, "commit-2", &ca.evolution_event);
        deliver(cx, c, "commit-2", &ca.evolution_event);
        cx.call("alice.merge_pending_commit", a.mdk.merge_pending_commit(gid));
        if let Some(m) = cx.call("bob.create_message", b.mdk.create_message(gid, rumor(&b.keys, "after race"))) {
            deliver(cx, a, "app", &m);
            deliver(cx, c, "app", &m);
        }
    }
    for cl in [a, b, c] {
        harvest(cx, cl);
    }
    cx.flush();
}

fn rewrap(ev: &Event, content: Option<String>, h: Option<Vec<String>>, created_at: Option<Timestamp>, kind: Option<Kind>) -> Event {
    let signer = Keys::generate();
    let mut tags: Vec<Tag> = vec![];
    match h {
        Some(hs) => {
            for x in hs {
                tags.push(Tag::custom(TagKind::h(), [x]));
            }
        }
        None => tags.extend(ev.tags.iter().cloned()),
    }
    let mut b = EventBuilder::new(kind.unwrap_or(ev.kind), content.unwrap_or_else(|| ev.content.clone())).tags(tags);
    b = b.custom_created_at(created_at.unwrap_or(ev.created_at));
    b.sign_with_keys(&signer).unwrap()
}

fn scn_hostile<S: MdkStorageProvider>(cx: &mut Cx, mk: &mut dyn FnMut(&'static str) -> MDK<S>) {
    let Some(t) = trio(cx, mk) else { return };
    let (a, b, c, gid) = (&t.alice, &t.bob, &t.carol, &t.gid);
    // a second, unrelated group at bob (for wrong-group events)
    let solo_cfg = config(cx, vec![b.keys.public_key()], "other group");
    let other = cx.call("bob.create_group(solo)", b.mdk.create_group(&b.keys.public_key(), vec![], solo_cfg));
    let mut other_nid = None;
    if let Some(o) = &other {
        cx.val("bob.create_group(solo)", "result", o);
        cx.call("bob.merge_pending_commit(solo)", b.mdk.merge_pending_commit(&o.group.mls_group_id));
        other_nid = Some(hex::encode(o.group.nostr_group_id));
        harvest(cx, b);
    }
    let Some(m) = cx.call("alice.create_message", a.mdk.create_message(gid, rumor(&a.keys, "payload"))) else { return };
    let nid = m.tags.iter().find(|t| t.kind() == TagKind::h()).and_then(|t| t.content()).unwrap_or("").to_string();
    // malformed wrappers
    deliver(cx, b, "wrong-kind", &rewrap(&m, None, None, None, Some(Kind::TextNote)));
    deliver(cx, b, "no-h-tag", &rewrap(&m, None, Some(vec![]), None, None));
    deliver(cx, b, "two-h-tags", &rewrap(&m, None, Some(vec![nid.clone(), nid.clone()]), None, None));
    deliver(cx, b, "h-not-hex", &rewrap(&m, None, Some(vec!["zz".repeat(32)]), None, None));
    deliver(cx, b, "h-short", &rewrap(&m, None, Some(vec![nid[..32].to_string()]), None, None));
    deliver(cx, b, "h-unknown-group", &rewrap(&m, None, Some(vec![hex::encode(rnd::<32>())]), None, None));
    deliver(cx, b, "future-timestamp", &rewrap(&m, None, None, Some(Timestamp::from(Timestamp::now().as_secs() + 86_400 * 365)), None));
    deliver(cx, b, "ancient-timestamp", &rewrap(&m, None, None, Some(Timestamp::from(1_000)), None));
    deliver(cx, b, "content-not-base64", &rewrap(&m, Some("!!! not base64 !!!".into()), None, None, None));
    let mut flipped: Vec<char> = m.content.chars().collect();
    let k = flipped.len() / 2;
    flipped[k] = if flipped[k] == 'A' { 'B' } else { 'A' };
    let bad = rewrap(&m, Some(flipped.into_iter().collect()), None, None, None);
    deliver(cx, b, "content-corrupted", &bad);
    deliver(cx, b, "content-corrupted-replay", &bad);
    deliver(cx, b, "content-truncated", &rewrap(&m, Some(m.content[..m.content.len() / 2].to_string()), None, None, None));
    deliver(cx, b, "content-empty", &rewrap(&m, Some(String::new()), None, None, None));
    if let Some(on) = &other_nid {
        deliver(cx, b, "wrong-group-tag", &rewrap(&m, None, Some(vec![on.clone()]), None, None));
    }
    // the genuine message, then replays (same wrapper, and a re-signed wrapper with the same ciphertext)
    deliver(cx, b, "app", &m);
    deliver(cx, b, "app-replay", &m);
    deliver(cx, b, "app-rewrapped-replay", &rewrap(&m, None, None, None, None));
    deliver(cx, b, "h-upper-replay", &rewrap(&m, None, Some(vec![nid.to_uppercase()]), None, None));
    deliver(cx, a, "own-app", &m);
    // non-member observer
    let eve = Client { name: "eve", keys: Keys::generate(), mdk: mk("eve") };
    deliver(cx, &eve, "app-at-non-member", &m);
    // rumor with a foreign pubkey (author mismatch)
    let forged = rumor(&c.keys, "forged author");
    if let Some(fm) = cx.call("alice.create_message(forged)", a.mdk.create_message(gid, forged)) {
        deliver(cx, b, "author-mismatch", &fm);
    }
    // API misuse
    let unknown = GroupId::from_slice(&rnd::<32>());
    cx.canary("mls_group_id", unknown.as_slice());
    cx.call("bob.create_message(unknown)", b.mdk.create_message(&unknown, rumor(&b.keys, "x")));
    cx.call("bob.add_members(unknown)", b.mdk.add_members(&unknown, &[]));
    cx.call("bob.remove_members(unknown)", b.mdk.remove_members(&unknown, &[a.keys.public_key()]));
    cx.call("bob.self_update(unknown)", b.mdk.self_update(&unknown));
    cx.call("bob.leave_group(unknown)", b.mdk.leave_group(&unknown));
    cx.call("bob.merge_pending_commit(unknown)", b.mdk.merge_pending_commit(&unknown));
    cx.call("bob.get_members(unknown)", b.mdk.get_members(&unknown));
    cx.call("bob.get_messages(unknown)", b.mdk.get_messages(&unknown, None));
    cx.call("bob.get_message(unknown)", b.mdk.get_message(&unknown, &m.id));
    cx.call("bob.get_relays(unknown)", b.mdk.get_relays(&unknown));
    cx.call("bob.update_group_data(unknown)", b.mdk.update_group_data(&unknown, NostrGroupDataUpdate::default()));
    cx.call("bob.get_messages(limit 0)", b.mdk.get_messages(gid, Some(Pagination::new(Some(0), Some(0)))));
    cx.call("bob.get_messages(limit huge)", b.mdk.get_messages(gid, Some(Pagination::new(Some(usize::MAX), Some(0)))));
    cx.call("bob.remove_members(non-member)", b.mdk.remove_members(gid, &[Keys::generate().public_key()]));
    cx.call("bob.remove_members(empty)", b.mdk.remove_members(gid, &[]));
    cx.call("bob.add_members(empty)", b.mdk.add_members(gid, &[]));
    // a non-admin tries admin operations
    let frank = Client { name: "frank", keys: Keys::generate(), mdk: mk("frank") };
    if let Some(kf) = key_package(cx, &frank) {
        if let Some(u) = cx.call("alice.add_members(frank)", a.mdk.add_members(gid, std::slice::from_ref(&kf))) {
            cx.call("alice.merge_pending_commit", a.mdk.merge_pending_commit(gid));
            deliver(cx, b, "commit-add", &u.evolution_event);
            deliver(cx, c, "commit-add", &u.evolution_event);
            if let Some(ws) = &u.welcome_rumors {
                join(cx, &frank, &ws[0], EventId::from_byte_array(rnd()));
            }
            cx.call("frank.remove_members(non-admin)", frank.mdk.remove_members(gid, &[b.keys.public_key()]));
            let mut upd = NostrGroupDataUpdate::default();
            upd.name = Some("frank was here".into());
            cx.call("frank.update_group_data(non-admin)", frank.mdk.update_group_data(gid, upd));
            if let Some(kx) = key_package_for(cx, &frank.mdk, &Keys::generate(), "frank") {
                cx.call("frank.add_members(non-admin)", frank.mdk.add_members(gid, &[kx]));
            }
            // non-admin self-update is allowed; non-admin leave is a proposal
            if let Some(su) = cx.call("frank.self_update", frank.mdk.self_update(gid)) {
                deliver(cx, a, "commit-nonadmin-self-update", &su.evolution_event);
                deliver(cx, b, "commit-nonadmin-self-update", &su.evolution_event);
                deliver(cx, c, "commit-nonadmin-self-update", &su.evolution_event);
                cx.call("frank.merge_pending_commit", frank.mdk.merge_pending_commit(gid));
            }
            // everything a non-admin can craft with OpenMLS directly, seen by an admin and by a plain member
            {
                let grace = Keys::generate();
                let kpg = key_package_for(cx, &frank.mdk, &grace, "grace");
                adversarial(cx, &frank, gid, kpg.as_ref(), &[a, b]);
            }
            // a leave proposal seen by a non-admin receiver (stored as pending) and by an admin (auto-commit)
            if let Some(lv) = cx.call("carol.leave_group", c.mdk.leave_group(gid)) {
                deliver(cx, &frank, "proposal-leave-at-non-admin", &lv.evolution_event);
                deliver(cx, &frank, "proposal-leave-at-non-admin-replay", &lv.evolution_event);
                if let Some(MessageProcessingResult::Proposal(res)) = deliver(cx, b, "proposal-leave-at-admin", &lv.evolution_event) {
                    deliver(cx, &frank, "commit-auto", &res.evolution_event);
                    deliver(cx, a, "commit-auto", &res.evolution_event);
                    cx.call("bob.merge_pending_commit", b.mdk.merge_pending_commit(gid));
                }
            }
            let mut upd = NostrGroupDataUpdate::default();
            upd.admins = Some(vec![]);
            cx.call("alice.update_group_data(no admins)", a.mdk.update_group_data(gid, upd));
            let mut upd = NostrGroupDataUpdate::default();
            upd.admins = Some(vec![Keys::generate().public_key()]);
            cx.call("alice.update_group_data(admin not member)", a.mdk.update_group_data(gid, upd));
        }
    }
    // key packages: tampered events
    if let Some(kp) = key_package(cx, &eve) {
        cx.call("bob.parse_key_package(ok)", b.mdk.parse_key_package(&kp).map(|_| ()));
        let other_keys = Keys::generate();
        let resigned = EventBuilder::new(Kind::MlsKeyPackage, kp.content.clone()).tags(kp.tags.iter().cloned()).sign_with_keys(&other_keys).unwrap();
        cx.call("bob.parse_key_package(identity mismatch)", b.mdk.parse_key_package(&resigned).map(|_| ()));
        let notags = EventBuilder::new(Kind::MlsKeyPackage, kp.content.clone()).sign_with_keys(&eve.keys).unwrap();
        cx.call("bob.parse_key_package(no tags)", b.mdk.parse_key_package(&notags).map(|_| ()));
        let garbage = EventBuilder::new(Kind::MlsKeyPackage, "AAAA").tags(kp.tags.iter().cloned()).sign_with_keys(&eve.keys).unwrap();
        cx.call("bob.parse_key_package(garbage)", b.mdk.parse_key_package(&garbage).map(|_| ()));
        let wrongkind = EventBuilder::new(Kind::TextNote, kp.content.clone()).tags(kp.tags.iter().cloned()).sign_with_keys(&eve.keys).unwrap();
        cx.call("bob.parse_key_package(wrong kind)", b.mdk.parse_key_package(&wrongkind).map(|_| ()));
        let mut tags: Vec<Tag> = kp.tags.iter().cloned().collect();
        tags.push(Tag::custom(TagKind::Custom("mls_ciphersuite".into()), ["0xffff"]));
        tags.retain(|t| t.kind() != TagKind::Custom("mls_extensions".into()));
        let badtags = EventBuilder::new(Kind::MlsKeyPackage, kp.content.clone()).tags(tags).sign_with_keys(&eve.keys).unwrap();
        cx.call("bob.parse_key_package(bad tags)", b.mdk.parse_key_package(&badtags).map(|_| ()));
        cx.call("alice.add_members(tampered kp)", a.mdk.add_members(gid, &[resigned]));
    }
    for cl in [a, b, c] {
        harvest(cx, cl);
    }
    cx.flush();
}

fn scn_welcomes<S: MdkStorageProvider>(cx: &mut Cx, mk: &mut dyn FnMut(&'static str) -> MDK<S>) {
    let alice = Client { name: "alice", keys: Keys::generate(), mdk: mk("alice") };
    let bob = Client { name: "bob", keys: Keys::generate(), mdk: mk("bob") };
    let mallory = Client { name: "mallory", keys: Keys::generate(), mdk: mk("mallory") };
    let Some(kb) = key_package(cx, &bob) else { return };
    let cfg = config(cx, vec![alice.keys.public_key()], "welcome group");
    let Some(res) = cx.call("alice.create_group", alice.mdk.create_group(&alice.keys.public_key(), vec![kb], cfg)) else { return };
    cx.val("alice.create_group", "result", &res);
    let gid = res.group.mls_group_id.clone();
    cx.canary("mls_group_id", gid.as_slice());
    cx.canary("nostr_group_id", &res.group.nostr_group_id);
    cx.call("alice.merge_pending_commit", alice.mdk.merge_pending_commit(&gid));
    harvest(cx, &alice);
    let w = res.welcome_rumors[0].clone();
    // a client that does not own the key package
    let wid: EventId = EventId::from_byte_array(rnd());
    let step = "mallory.process_welcome(not addressed)";
    if let Some(x) = cx.call(step, mallory.mdk.process_welcome(&wid, &w)) {
        cx.val(step, "record", &x);
    }
    cx.call("mallory.process_welcome(again)", mallory.mdk.process_welcome(&wid, &w).map(|_| ()));
    // malformed rumors
    let mut wrong_kind = w.clone();
    wrong_kind.kind = Kind::TextNote;
    wrong_kind.id = None;
    cx.call("bob.process_welcome(wrong kind)", bob.mdk.process_welcome(&EventId::from_byte_array(rnd()), &wrong_kind).map(|_| ()));
    let mut garbage = w.clone();
    garbage.content = "QUJDREVGRw==".into();
    garbage.id = None;
    garbage.ensure_id();
    cx.call("bob.process_welcome(garbage)", bob.mdk.process_welcome(&EventId::from_byte_array(rnd()), &garbage).map(|_| ()));
    let mut notb64 = w.clone();
    notb64.content = "%%%".into();
    notb64.id = None;
    notb64.ensure_id();
    cx.call("bob.process_welcome(not base64)", bob.mdk.process_welcome(&EventId::from_byte_array(rnd()), &notb64).map(|_| ()));
    let mut notags = w.clone();
    notags.tags = nostr::Tags::new();
    notags.id = None;
    notags.ensure_id();
    cx.call("bob.process_welcome(no tags)", bob.mdk.process_welcome(&EventId::from_byte_array(rnd()), &notags).map(|_| ()));
    let mut noid = w.clone();
    noid.id = None;
    cx.call("bob.process_welcome(no id)", bob.mdk.process_welcome(&EventId::from_byte_array(rnd()), &noid).map(|_| ()));
    let mut truncated = w.clone();
    truncated.content = w.content[..w.content.len() / 2].to_string();
    truncated.id = None;
    truncated.ensure_id();
    let tw: EventId = EventId::from_byte_array(rnd());
    cx.call("bob.process_welcome(truncated)", bob.mdk.process_welcome(&tw, &truncated).map(|_| ()));
    cx.call("bob.process_welcome(truncated again)", bob.mdk.process_welcome(&tw, &truncated).map(|_| ()));
    harvest(cx, &bob);
    cx.flush();
    // the genuine welcome: process, decline, replay, accept
    let w1: EventId = EventId::from_byte_array(rnd());
    if let Some(wel) = cx.call("bob.process_welcome", bob.mdk.process_welcome(&w1, &w)) {
        cx.val("bob.process_welcome", "record", &wel);
        harvest(cx, &bob);
        cx.call("bob.process_welcome(replay same wrapper)", bob.mdk.process_welcome(&w1, &w).map(|_| ()));
        cx.call("bob.get_welcome", bob.mdk.get_welcome(&wel.id).map(|_| ()));
        cx.call("bob.accept_welcome", bob.mdk.accept_welcome(&wel));
        cx.call("bob.accept_welcome(twice)", bob.mdk.accept_welcome(&wel));
        cx.call("bob.decline_welcome(after accept)", bob.mdk.decline_welcome(&wel));
        cx.call("bob.process_welcome(replay new wrapper)", bob.mdk.process_welcome(&EventId::from_byte_array(rnd()), &w).map(|_| ()));
        cx.call("mallory.accept_welcome(foreign)", mallory.mdk.accept_welcome(&wel));
    }
    cx.call("bob.get_welcome(unknown)", bob.mdk.get_welcome(&EventId::from_byte_array(rnd())).map(|_| ()));
    cx.call("bob.get_pending_welcomes", bob.mdk.get_pending_welcomes(None).map(|_| ()));
    harvest(cx, &bob);
    harvest(cx, &alice);
    cx.flush();
}

/// storage-level errors through the public storage traits and through mdk on top of them
fn scn_storage_errors<S: MdkStorageProvider>(cx: &mut Cx, mk: &mut dyn FnMut(&'static str) -> MDK<S>) {
    let Some(t) = trio(cx, mk) else { return };
    let (a, b, _c, gid) = (&t.alice, &t.bob, &t.carol, &t.gid);
    // oversized name: accepted by the extension, refused by the stores (255 / 256 bytes limits)
    for n in [255usize, 256, 300, 70_000] {
        let mut upd = NostrGroupDataUpdate::default();
        upd.name = Some("n".repeat(n));
        let step = format!("alice.update_group_data(name {n})");
        if let Some(u) = cx.call(&step, a.mdk.update_group_data(gid, upd)) {
            cx.val(&step, "result", &u);
            cx.call("alice.merge_pending_commit", a.mdk.merge_pending_commit(gid));
            deliver(cx, b, "commit-oversized-name", &u.evolution_event);
        } else {
            cx.call("alice.clear_pending_commit", a.mdk.clear_pending_commit(gid));
        }
    }
    let mut upd = NostrGroupDataUpdate::default();
    upd.description = Some("d".repeat(5000));
    if cx.call("alice.update_group_data(desc 5000)", a.mdk.update_group_data(gid, upd)).is_none() {
        cx.call("alice.clear_pending_commit", a.mdk.clear_pending_commit(gid));
    }
    let mut upd = NostrGroupDataUpdate::default();
    upd.relays = Some((0..200).map(|i| RelayUrl::parse(&format!("wss://r{i}.example")).unwrap()).collect());
    if cx.call("alice.update_group_data(200 relays)", a.mdk.update_group_data(gid, upd)).is_none() {
        cx.call("alice.clear_pending_commit", a.mdk.clear_pending_commit(gid));
    }
    // direct storage-trait calls
    let st = a.mdk.provider.storage();
    if let Ok(Some(mut g)) = st.find_group_by_mls_group_id(gid) {
        g.name = "x".repeat(100_000);
        cx.call("storage.save_group(oversized name)", st.save_group(g.clone()));
        g.name = "ok".into();
        g.description = "y".repeat(100_000);
        cx.call("storage.save_group(oversized description)", st.save_group(g.clone()));
        // nostr_group_id collision with another group
        let mut g2 = g.clone();
        g2.description = "z".into();
        g2.mls_group_id = GroupId::from_slice(&rnd::<32>());
        cx.canary("mls_group_id", g2.mls_group_id.as_slice());
        cx.call("storage.save_group(nostr id collision)", st.save_group(g2));
    }
    cx.call("storage.messages(limit 0)", st.messages(gid, Some(Pagination::new(Some(0), Some(0)))).map(|_| ()));
    cx.call("storage.messages(limit huge)", st.messages(gid, Some(Pagination::new(Some(1 << 40), Some(0)))).map(|_| ()));
    let unknown = GroupId::from_slice(&rnd::<32>());
    cx.canary("mls_group_id", unknown.as_slice());
    cx.call("storage.messages(unknown group)", st.messages(&unknown, None).map(|_| ()));
    cx.call("storage.group_relays(unknown group)", st.group_relays(&unknown).map(|_| ()));
    cx.call("storage.replace_group_relays(unknown group)", st.replace_group_relays(&unknown, [relay()].into_iter().collect()));
    cx.call("storage.admins(unknown group)", st.admins(&unknown).map(|_| ()));
    cx.call("storage.get_group_exporter_secret(unknown)", st.get_group_exporter_secret(&unknown, 0).map(|_| ()));
    let gh = hex::encode(gid.as_slice());
    cx.call("storage.create_group_snapshot", st.create_group_snapshot(gid, "manual_backup"));
    cx.call("storage.create_group_snapshot(duplicate)", st.create_group_snapshot(gid, "manual_backup"));
    cx.call("storage.rollback_group_to_snapshot(missing)", st.rollback_group_to_snapshot(gid, &format!("snap_{gh}_99_nope")));
    cx.call("storage.release_group_snapshot(missing)", st.release_group_snapshot(gid, &format!("snap_{gh}_99_nope")));
    cx.call("storage.create_group_snapshot(unknown group)", st.create_group_snapshot(&unknown, "s"));
    cx.call("storage.list_group_snapshots", st.list_group_snapshots(gid).map(|_| ()));
    cx.call("storage.release_group_snapshot", st.release_group_snapshot(gid, "manual_backup"));
    harvest(cx, a);
    harvest(cx, b);
    cx.flush();
}

// ---- SQLite-only scenarios ---------------------------------------------------------------------

fn ensure_keyring() {
    static INIT: OnceLock<()> = OnceLock::new();
    INIT.get_or_init(|| {
        keyring_core::set_default_store(keyring_core::mock::Store::new().unwrap());
    });
}

fn scn_sqlite_open(cx: &mut Cx) {
    let dir = tempfile::tempdir().unwrap();
    let k1: [u8; 32] = rnd();
    let k2: [u8; 32] = rnd();
    cx.canary("db_key", &k1);
    cx.canary("db_key", &k2);
    let c1 = EncryptionConfig::new(k1);
    cx.val("EncryptionConfig::new", "config", &c1);
    let path = dir.path().join("enc.sqlite");
    let gid;
    {
        let Some(st) = cx.call("sqlite.new_with_key(create)", MdkSqliteStorage::new_with_key(&path, EncryptionConfig::new(k1))) else { return };
        // put a group inside so that the file has content
        let alice = Client { name: "alice", keys: Keys::generate(), mdk: MDK::new(st) };
        let cfg = config(cx, vec![alice.keys.public_key()], "db group");
        let Some(res) = cx.call("alice.create_group", alice.mdk.create_group(&alice.keys.public_key(), vec![], cfg)) else { return };
        gid = res.group.mls_group_id.clone();
        cx.call("alice.merge_pending_commit", alice.mdk.merge_pending_commit(&gid));
        harvest(cx, &alice);
    }
    cx.call("sqlite.new_with_key(wrong key)", MdkSqliteStorage::new_with_key(&path, EncryptionConfig::new(k2)).map(|_| ()));
    cx.call("sqlite.new_unencrypted(on encrypted)", MdkSqliteStorage::new_unencrypted(&path).map(|_| ()));
    cx.call("sqlite.new_with_key(right key)", MdkSqliteStorage::new_with_key(&path, EncryptionConfig::new(k1)).map(|_| ()));
    let plain = dir.path().join("plain.sqlite");
    cx.call("sqlite.new_unencrypted(create)", MdkSqliteStorage::new_unencrypted(&plain).map(|_| ()));
    cx.call("sqlite.new_with_key(on plain)", MdkSqliteStorage::new_with_key(&plain, EncryptionConfig::new(k1)).map(|_| ()));
    cx.call("EncryptionConfig::from_slice(short)", EncryptionConfig::from_slice(&k1[..31]).map(|_| ()));
    cx.call("EncryptionConfig::from_slice(long)", EncryptionConfig::from_slice(&[k1.as_slice(), k2.as_slice()].concat()).map(|_| ()));
    cx.call("sqlite.new_with_key(missing dir)", MdkSqliteStorage::new_with_key(dir.path().join("no/such/dir/x.sqlite"), EncryptionConfig::new(k1)).map(|_| ()));
    let garbage = dir.path().join("garbage.sqlite");
    std::fs::write(&garbage, vec![0x42u8; 8192]).unwrap();
    cx.call("sqlite.new_with_key(garbage file)", MdkSqliteStorage::new_with_key(&garbage, EncryptionConfig::new(k1)).map(|_| ()));
    cx.call("sqlite.new_unencrypted(garbage file)", MdkSqliteStorage::new_unencrypted(&garbage).map(|_| ()));
    // keyring-managed key: generated by mdk, read back from the (mock) keyring as a canary
    ensure_keyring();
    let kpath = dir.path().join("keyring.sqlite");
    let (svc, id) = ("com.example.verif", "mdk.db.key.leak");
    if cx.call("sqlite.new(keyring, create)", MdkSqliteStorage::new(&kpath, svc, id).map(|_| ())).is_some() {
        if let Ok(e) = keyring_core::Entry::new(svc, id) {
            if let Ok(sec) = e.get_secret() {
                cx.canary("db_key", &sec);
            }
        }
        cx.call("sqlite.new(keyring, reopen)", MdkSqliteStorage::new(&kpath, svc, id).map(|_| ()));
        cx.call("sqlite.new(keyring, other id on existing db)", MdkSqliteStorage::new(&kpath, svc, "mdk.db.key.other").map(|_| ()));
        cx.call("sqlite.new_with_key(on keyring db, wrong key)", MdkSqliteStorage::new_with_key(&kpath, EncryptionConfig::new(k2)).map(|_| ()));
    }
    cx.call("keyring.get_db_key", mdk_sqlite_storage::keyring::get_db_key(svc, id).map(|_| ()));
    cx.call("keyring.delete_db_key", mdk_sqlite_storage::keyring::delete_db_key(svc, id));
    cx.call("keyring.delete_db_key(again)", mdk_sqlite_storage::keyring::delete_db_key(svc, id));
    cx.call("sqlite.new(keyring, key deleted)", MdkSqliteStorage::new(&kpath, svc, id).map(|_| ()));
    cx.call("sqlite.new(keyring, on plain db)", MdkSqliteStorage::new(&plain, svc, "mdk.db.key.plain").map(|_| ()));
    cx.flush();
}

/// restart + snapshot hydration; with `foreign` a snapshot with a name mdk cannot parse is created through
/// the public storage trait before the restart (the C14 witness)
fn scn_hydration(cx: &mut Cx, foreign: Option<&str>) {
    let dir = tempfile::tempdir().unwrap();
    let key: [u8; 32] = rnd();
    cx.canary("db_key", &key);
    let path = dir.path().join("alice.sqlite");
    let open = |cx: &mut Cx| cx.call("sqlite.new_with_key", MdkSqliteStorage::new_with_key(&path, EncryptionConfig::new(key)));
    let Some(st) = open(cx) else { return };
    let akeys = Keys::generate();
    let mut alice = Client { name: "alice", keys: akeys.clone(), mdk: MDK::new(st) };
    let bob = Client { name: "bob", keys: Keys::generate(), mdk: MDK::new(MdkMemoryStorage::default()) };
    let carol = Client { name: "carol", keys: Keys::generate(), mdk: MDK::new(MdkMemoryStorage::default()) };
    let (Some(kb), Some(kc)) = (key_package(cx, &bob), key_package(cx, &carol)) else { return };
    let cfg = config(cx, vec![alice.keys.public_key(), bob.keys.public_key(), carol.keys.public_key()], "persistent group");
    let Some(res) = cx.call("alice.create_group", alice.mdk.create_group(&alice.keys.public_key(), vec![kb, kc], cfg)) else { return };
    let gid = res.group.mls_group_id.clone();
    cx.canary("mls_group_id", gid.as_slice());
    cx.canary("nostr_group_id", &res.group.nostr_group_id);
    cx.call("alice.merge_pending_commit", alice.mdk.merge_pending_commit(&gid));
    join(cx, &bob, &res.welcome_rumors[0], EventId::from_byte_array(rnd()));
    join(cx, &carol, &res.welcome_rumors[1], EventId::from_byte_array(rnd()));
    // two commits by bob, applied by alice and carol (snapshots are taken at alice)
    for i in 0..2 {
        if let Some(u) = cx.call("bob.self_update", bob.mdk.self_update(&gid)) {
            deliver(cx, &alice, &format!("commit-{i}"), &u.evolution_event);
            deliver(cx, &carol, &format!("commit-{i}"), &u.evolution_event);
            cx.call("bob.merge_pending_commit", bob.mdk.merge_pending_commit(&gid));
        }
    }
    harvest(cx, &alice);
    cx.val("MDK<MdkMemoryStorage>", "config", &bob.mdk);
    if let Some(tmpl) = foreign {
        let name = tmpl.replace("{gid}", &hex::encode(gid.as_slice()));
        cx.call("storage.create_group_snapshot(foreign name)", alice.mdk.provider.storage().create_group_snapshot(&gid, &name));
    }
    if let Some(l) = cx.call("storage.list_group_snapshots", alice.mdk.provider.storage().list_group_snapshots(&gid)) {
        cx.steps += l.len();
    }
    cx.flush();
    // restart
    drop(alice);
    let Some(st) = open(cx) else { return };
    alice = Client { name: "alice", keys: akeys, mdk: MDK::new(st) };
    // a race after the restart: hydration runs on the first commit
    let ca = cx.call("bob.self_update", bob.mdk.self_update(&gid));
    let cb = cx.call("carol.self_update", carol.mdk.self_update(&gid));
    if let (Some(ca), Some(cb)) = (ca, cb) {
        let (better, worse) = better_first(&ca.evolution_event, &cb.evolution_event);
        deliver(cx, &alice, "commit-worse-after-restart", worse);
        deliver(cx, &alice, "commit-better-after-restart", better);
    }
    // second restart, then a stale commit for a hydrated epoch
    drop(alice);
    std::thread::sleep(std::time::Duration::from_millis(1100));
    let Some(st) = open(cx) else { return };
    alice = Client { name: "alice", keys: Keys::generate(), mdk: MDK::builder(st).with_config(MdkConfig { epoch_snapshot_retention: 1,
                snapshot_ttl_seconds: 0, ..Default::default() }).build() };
    if let Some(m) = cx.call("bob.create_message", bob.mdk.create_message(&gid, rumor(&bob.keys, "after restart"))) {
        deliver(cx, &alice, "app-after-restart", &m);
    }
    if let Some(u) = cx.call("bob.self_update", bob.mdk.self_update(&gid)) {
        deliver(cx, &alice, "commit-after-second-restart", &u.evolution_event);
    }
    harvest(cx, &alice);
    harvest(cx, &bob);
    harvest(cx, &carol);
    cx.flush();
}

// ---- driver ------------------------------------------------------------------------------------

pub const GENERIC: &[&str] = &["lifecycle", "commit_race", "hostile", "welcomes", "storage_errors"];
pub const SQL_ONLY: &[&str] = &["sqlite_open", "hydration"];

fn run_generic<S: MdkStorageProvider>(cx: &mut Cx, name: &str, mk: &mut dyn FnMut(&'static str) -> MDK<S>) -> bool {
    match name {
        "lifecycle" => scn_lifecycle(cx, mk),
        "commit_race" => scn_commit_race(cx, mk),
        "hostile" => scn_hostile(cx, mk),
        "welcomes" => scn_welcomes(cx, mk),
        "storage_errors" => scn_storage_errors(cx, mk),
        _ => return false,
    }
    true
}

fn run_one(name: &str, backend: &str, arg: Option<&str>) -> Vec<String> {
    let mut cx = Cx::new(name, backend);
    recs().lock().unwrap().clear();
    let r = catch_unwind(AssertUnwindSafe(|| {
        let known = match (name, backend) {
            ("sqlite_open", "sql") => {
                scn_sqlite_open(&mut cx);
                true
            }
            ("hydration", "sql") => {
                scn_hydration(&mut cx, None);
                true
            }
            ("foreign_snapshot_name", "sql") => {
                scn_hydration(&mut cx, Some(arg.unwrap_or("snap_{gid}_notanumber_x")));
                true
            }
            (_, "mem") => run_generic(&mut cx, name, &mut |_| MDK::new(MdkMemoryStorage::default())),
            (_, "sql") => {
                let dir = tempfile::tempdir().unwrap();
                let mut keys: Vec<[u8; 32]> = vec![];
                let ok = {
                    let mut mk = |who: &'static str| {
                        let k: [u8; 32] = rnd();
                        keys.push(k);
                        let st = MdkSqliteStorage::new_with_key(dir.path().join(format!("{who}-{}.sqlite", keys.len())), EncryptionConfig::new(k)).unwrap();
                        MDK::new(st)
                    };
                    run_generic(&mut cx, name, &mut mk)
                };
                for k in keys {
                    cx.canary("db_key", &k);
                }
                ok
            }
            _ => false,
        };
        known
    }));
    match r {
        Ok(true) => cx.finish(false),
        Ok(false) => {
            cx.out.push(format!("{{\"t\":\"error\",\"what\":{}}}", json_str(&format!("unknown scenario {name} {backend}"))));
        }
        Err(_) => cx.finish(true),
    }
    cx.out
}

pub fn main(_args: &[String]) -> i32 {
    // capture everything: no filter, TRACE and up; `init` also installs the log→tracing bridge so that
    // records of third-party crates using the `log` facade (OpenMLS) are seen — and classified out of scope
    let _ = tracing_subscriber::registry().with(Capture).try_init();
    std::panic::set_hook(Box::new(|_| {}));
    let stdin = io::stdin();
    let stdout = io::stdout();
    let mut out = stdout.lock();
    for line in stdin.lock().lines() {
        let line = line.unwrap();
        let toks: Vec<&str> = line.split_whitespace().collect();
        if toks.is_empty() || toks[0].starts_with('#') {
            continue;
        }
        let mut jobs: Vec<(String, String, Option<String>)> = vec![];
        match toks.as_slice() {
            ["all"] => {
                for s in GENERIC {
                    jobs.push((s.to_string(), "mem".into(), None));
                    jobs.push((s.to_string(), "sql".into(), None));
                }
                for s in SQL_ONLY {
                    jobs.push((s.to_string(), "sql".into(), None));
                }
            }
            ["scenario", name, backend] => jobs.push((name.to_string(), backend.to_string(), None)),
            ["scenario", name, backend, arg] => jobs.push((name.to_string(), backend.to_string(), Some(arg.to_string()))),
            _ => {
                writeln!(out, "{{\"t\":\"error\",\"what\":{}}}", json_str(&format!("bad line: {line}"))).unwrap();
                continue;
            }
        }
        for (name, backend, arg) in jobs {
            for l in run_one(&name, &backend, arg.as_deref()) {
                writeln!(out, "{}", l).unwrap();
            }
            out.flush().unwrap();
        }
    }
    0
}
